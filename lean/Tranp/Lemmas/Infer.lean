/-
  Helper lemmas for property C03 (Tranp/Props/C03.lean).
-/
import Tranp.Model.InferSpec

namespace Tranp.Infer
open Tranp Tranp.Generated

variable {ct : ClassTable} {W : World}

/-- inference of `e` succeeds with `T` from every session state and leaves the state untouched -/
def InfOK (ct : ClassTable) (Γ : Env) (e : Expr) (T : Ty) : Prop := ∀ s, infer ct Γ e s = (.ok T, s)
def InfOKList (ct : ClassTable) (Γ : Env) (es : Exprs) (Ts : List Ty) : Prop := ∀ s, inferList ct Γ es s = (.ok Ts, s)
def InfOKChain (ct : ClassTable) (Γ : Env) (c : Chain) (ops : List (BOp × Ty)) : Prop := ∀ s, inferChain ct Γ c s = (.ok ops, s)
def InfOKPairs (ct : ClassTable) (Γ : Env) (ps : Pairs) (kvs : List (Ty × Ty)) : Prop := ∀ s, inferPairs ct Γ ps s = (.ok kvs, s)

theorem InfOK.inferT {Γ e T} (h : InfOK ct Γ e T) : inferT ct Γ e = .ok T := by
  unfold Infer.inferT; rw [h false]
theorem InfOKList.inferT {Γ es Ts} (h : InfOKList ct Γ es Ts) : inferListT ct Γ es = .ok Ts := by
  unfold inferListT; rw [h false]
theorem InfOKChain.inferT {Γ c ops} (h : InfOKChain ct Γ c ops) : inferChainT ct Γ c = .ok ops := by
  unfold inferChainT; rw [h false]
theorem InfOKPairs.inferT {Γ ps kvs} (h : InfOKPairs ct Γ ps kvs) : inferPairsT ct Γ ps = .ok kvs := by
  unfold inferPairsT; rw [h false]

@[simp] theorem R.bind_ok {α β : Type} (a : α) (s : Bool) (k : α → Bool → R β) : R.bind (.ok a, s) k = k a s := rfl
@[simp] theorem R.bind_error {α β : Type} (e : Err) (s : Bool) (k : α → Bool → R β) : R.bind ((.error e : Except Err α), s) k = (.error e, s) := rfl

theorem Tys.get?_lt : ∀ (ts : Tys) (n : Nat), n < ts.length → ∃ t, ts.get? n = some t
  | .nil, _, h => by simp [Tys.length] at h
  | .cons t _, 0, _ => ⟨t, rfl⟩
  | .cons _ ts, n + 1, h => by
    simp only [Tys.length, Nat.add_lt_add_iff_right] at h
    simpa [Tys.get?] using Tys.get?_lt ts n h

theorem onIndex_ok (u : Ty) (k : Expr) (h : indexShapeOk u k = true) : ∃ T, onIndex u k = .ok T := by
  cases u with
  | str => exact ⟨_, rfl⟩
  | list t => exact ⟨_, rfl⟩
  | dict a b => exact ⟨_, rfl⟩
  | tuple ts =>
    cases k with
    | int n =>
      simp only [indexShapeOk, decide_eq_true_eq] at h
      obtain ⟨t, ht⟩ := Tys.get?_lt ts n h
      exact ⟨t, by simp only [onIndex, ht]⟩
    | _ => simp [indexShapeOk] at h
  | _ => simp [indexShapeOk] at h

theorem stepsOk_fold : ∀ (ops : List (BOp × Ty)) (l : Ty), stepsOk ct l ops = true → ∃ T, foldBin ct l ops = .ok T
  | [], l, _ => ⟨l, rfl⟩
  | (op, r) :: rest, l, h => by
    unfold stepsOk at h
    unfold foldBin
    split at h
    · rename_i t ht
      simp only [Bool.and_eq_true] at h
      rw [ht]
      exact stepsOk_fold rest t h.2
    · exact absurd h (by simp)

theorem foldl_dedupPut_const (t : Ty) : ∀ (ts : List Ty), ts.all (· = t) = true →
    ts.foldl dedupPut [(t.className, t)] = [(t.className, t)]
  | [], _ => rfl
  | u :: ts, h => by
    simp only [List.all_cons, Bool.and_eq_true, decide_eq_true_eq] at h
    obtain ⟨hu, hts⟩ := h
    subst hu
    simp only [List.foldl_cons, dedupPut, if_true]
    exact foldl_dedupPut_const u ts hts

theorem knownTypes_const (t : Ty) (ts : List Ty) (hall : ts.all (· = t) = true) (hk : t.className ≠ s_Unknown) :
    knownTypes (t :: ts) = [t] := by
  have hf : (t :: ts).filter (fun u => u.className ≠ s_Unknown) = t :: ts := by
    apply List.filter_eq_self.mpr
    intro u hu
    simp only [List.mem_cons] at hu
    rcases hu with rfl | hu
    · simpa using hk
    · have := List.all_eq_true.mp hall u hu
      simp only [decide_eq_true_eq] at this
      subst this; simpa using hk
  unfold knownTypes
  rw [hf]
  simp only [List.foldl_cons, dedupPut]
  rw [foldl_dedupPut_const t ts hall]
  rfl

theorem onList_const (t : Ty) (ts : List Ty) (s : Bool) (hall : ts.all (· = t) = true) (hk : t.className ≠ s_Unknown) :
    onList (t :: ts) s = (.ok (.list t), s) := by
  unfold onList
  rw [knownTypes_const t ts hall hk]

theorem compEnv_some {vars : List Str} {tsrc : Ty} {bs : Env} (h : compEnv ct vars tsrc = some bs) :
    ∃ elem, iterates ct tsrc = .ok elem ∧ pyIterTy ct tsrc = some elem ∧ varsOk vars elem = true ∧ bs = bindVars vars elem := by
  unfold compEnv at h
  split at h
  · rename_i elem he
    split at h
    · rename_i hc
      simp only [Bool.and_eq_true, decide_eq_true_eq] at hc
      simp only [Option.some.injEq] at h
      exact ⟨elem, he, hc.1, hc.2, h.symm⟩
    · exact absurd h (by simp)
  · exact absurd h (by simp)

theorem attrOk_inv {tr : Ty} {a : Str} (h : attrOk ct tr a = true) :
    ∃ c mem, stripNullable tr = .cls c .nil ∧ memberOf ct c a = some mem ∧ mem.name = a ∧
      (mem.kind = .field ∨ mem.kind = .classVar ∨ mem.kind = .property) := by
  unfold attrOk at h
  split at h
  · rename_i c hc
    split at h
    · rename_i mem hm
      simp only [Bool.and_eq_true, Bool.or_eq_true, decide_eq_true_eq] at h
      exact ⟨c, mem, hc, hm, h.1, by rcases h.2 with (h2 | h2) | h2 <;> simp [h2]⟩
    · exact absurd h (by simp)
  · exact absurd h (by simp)

theorem attr_infer {tr : Ty} {a : Str} {c : Str} {mem : Member} (hc : stripNullable tr = .cls c .nil)
    (hm : memberOf ct c a = some mem) (hk : mem.kind = .field ∨ mem.kind = .classVar ∨ mem.kind = .property) :
    onAttr ct tr a = .ok mem.ty := by
  unfold onAttr
  rw [hc]
  simp only [hm]
  rcases hk with hk | hk | hk <;> rw [hk]

mutual
theorem infer_ok : ∀ (e : Expr) (Γ : Env), wt ct Γ e = true → ∃ T, InfOK ct Γ e T
  | .int _, _, _ => ⟨.int, fun _ => rfl⟩
  | .float _, _, _ => ⟨.float, fun _ => rfl⟩
  | .str _, _, _ => ⟨.str, fun _ => rfl⟩
  | .true_, _, _ => ⟨.bool, fun _ => rfl⟩
  | .false_, _, _ => ⟨.bool, fun _ => rfl⟩
  | .none_, _, _ => ⟨.none, fun _ => rfl⟩
  | .empty_, _, _ => ⟨.none, fun _ => rfl⟩
  | .var x, Γ, h => by
    unfold wt at h
    split at h
    · rename_i t ht
      refine ⟨t, fun s => ?_⟩
      simp only [infer, ht]
      simp at h
      simp [h]
    · exact absurd h (by simp)
  | .factor op e, Γ, h => by
    unfold wt at h
    simp only [Bool.and_eq_true] at h
    obtain ⟨T, hT⟩ := infer_ok e Γ h.1
    by_cases hb : T = .bool
    · exact ⟨.int, fun s => by simp only [infer, hT s, R.bind_ok, hb, if_true]⟩
    · exact ⟨T, fun s => by simp only [infer, hT s, R.bind_ok, hb, if_false]⟩
  | .not_ e, Γ, h => by
    unfold wt at h
    obtain ⟨T, hT⟩ := infer_ok e Γ h
    exact ⟨.bool, fun s => by simp only [infer, hT s, R.bind_ok]⟩
  | .bin e rest, Γ, h => by
    unfold wt at h
    simp only [Bool.and_eq_true] at h
    obtain ⟨⟨h1, h2⟩, h3⟩ := h
    obtain ⟨T, hT⟩ := infer_ok e Γ h1
    obtain ⟨ops, hops⟩ := inferChain_ok rest Γ h2
    rw [hT.inferT, hops.inferT] at h3
    simp only at h3
    obtain ⟨T', hT'⟩ := stepsOk_fold ops T h3
    exact ⟨T', fun s => by simp only [infer, hT s, hops s, R.bind_ok, R.lift, hT']⟩
  | .cmp e rest, Γ, h => by
    unfold wt at h
    simp only [Bool.and_eq_true] at h
    obtain ⟨T, hT⟩ := infer_ok e Γ h.1
    obtain ⟨ops, hops⟩ := inferChain_ok rest Γ h.2
    exact ⟨.bool, fun s => by simp only [infer, hT s, hops s, R.bind_ok]⟩
  | .and_ es, Γ, h => by
    unfold wt at h
    simp only [Bool.and_eq_true] at h
    obtain ⟨Ts, hTs⟩ := inferList_ok es Γ h.1
    exact ⟨.bool, fun s => by simp only [infer, hTs s, R.bind_ok]⟩
  | .or_ es, Γ, h => by
    unfold wt at h
    simp only [Bool.and_eq_true] at h
    obtain ⟨Ts, hTs⟩ := inferList_ok es Γ h.1
    exact ⟨.bool, fun s => by simp only [infer, hTs s, R.bind_ok]⟩
  | .tern a c d, Γ, h => by
    unfold wt at h
    simp only [Bool.and_eq_true] at h
    obtain ⟨Ta, hTa⟩ := infer_ok a Γ h.1.1
    obtain ⟨Tc, hTc⟩ := infer_ok c Γ h.1.2
    obtain ⟨Td, hTd⟩ := infer_ok d Γ h.2
    by_cases heq : Ta = Td
    · exact ⟨Ta, fun s => by simp only [infer, hTa s, hTc s, hTd s, R.bind_ok, heq, if_true]⟩
    · exact ⟨.union (.cons Ta (.cons Td .nil)), fun s => by simp only [infer, hTa s, hTc s, hTd s, R.bind_ok, heq, if_false]⟩
  | .list es, Γ, h => by
    unfold wt at h
    simp only [Bool.and_eq_true] at h
    obtain ⟨Ts, hTs⟩ := inferList_ok es Γ h.1
    have h2 := h.2
    rw [hTs.inferT] at h2
    split at h2
    · rename_i t ts heq
      simp only [Except.ok.injEq] at heq
      simp only [Bool.and_eq_true, decide_eq_true_eq] at h2
      refine ⟨.list t, fun s => ?_⟩
      simp only [infer, hTs s, R.bind_ok, heq]
      exact onList_const t ts s h2.1 (by simpa using h2.2)
    · exact absurd h2 (by simp)
  | .dict kvs, Γ, h => by
    unfold wt at h
    simp only [Bool.and_eq_true] at h
    obtain ⟨items, hitems⟩ := inferPairs_ok kvs Γ h.1
    exact ⟨onDict items, fun s => by simp only [infer, hitems s, R.bind_ok]⟩
  | .tuple es, Γ, h => by
    unfold wt at h
    obtain ⟨Ts, hTs⟩ := inferList_ok es Γ h
    exact ⟨.tuple (Tys.ofList Ts), fun s => by simp only [infer, hTs s, R.bind_ok]⟩
  | .index r k, Γ, h => by
    unfold wt at h
    simp only [Bool.and_eq_true] at h
    obtain ⟨Tr, hTr⟩ := infer_ok r Γ h.1.1
    obtain ⟨Tk, hTk⟩ := infer_ok k Γ h.1.2
    have h2 := h.2
    rw [hTr.inferT] at h2
    simp only [tyOk, indexOk] at h2
    have := onIndex_ok _ k h2
    obtain ⟨T, hT⟩ := this
    exact ⟨T, fun s => by simp only [infer, hTr s, hTk s, R.bind_ok, R.lift, hT]⟩
  | .slice r lo hi, Γ, h => by
    unfold wt at h
    simp only [Bool.and_eq_true] at h
    obtain ⟨Tr, hTr⟩ := infer_ok r Γ h.1.1.1
    obtain ⟨Tl, hTl⟩ := infer_ok lo Γ h.1.1.2
    obtain ⟨Th, hTh⟩ := infer_ok hi Γ h.1.2
    exact ⟨onSlice (stripNullable Tr) lo hi, fun s => by simp only [infer, hTr s, hTl s, hTh s, R.bind_ok]⟩
  | .group e, Γ, h => by
    unfold wt at h
    obtain ⟨T, hT⟩ := infer_ok e Γ h
    exact ⟨T, fun s => by simp only [infer]; exact hT s⟩
  | .attr r a, Γ, h => by
    unfold wt at h
    simp only [Bool.and_eq_true] at h
    obtain ⟨Tr, hTr⟩ := infer_ok r Γ h.1
    have h2 := h.2
    rw [hTr.inferT] at h2
    simp only [tyOk] at h2
    obtain ⟨c, mem, hc, hm, _, hk⟩ := attrOk_inv h2
    exact ⟨mem.ty, fun s => by simp only [infer, hTr s, R.bind_ok, R.lift, attr_infer hc hm hk]⟩
  | .call r m args, Γ, h => by
    unfold wt at h
    simp only [Bool.and_eq_true] at h
    obtain ⟨Tr, hTr⟩ := infer_ok r Γ h.1.1
    obtain ⟨Ts, hTs⟩ := inferList_ok args Γ h.1.2
    have h2 := h.2
    rw [hTr.inferT, hTs.inferT] at h2
    simp only [callOk, Bool.and_eq_true, decide_eq_true_eq] at h2
    obtain ⟨hs, h3⟩ := h2
    split at h3
    · rename_i row hrow
      refine ⟨returnsOf row Tr (Tys.ofList Ts), fun s => ?_⟩
      simp only [infer, hTr s, R.bind_ok, hs, hrow, hTs s]
    · exact absurd h3 (by simp)
  | .fcall f args, Γ, h => by
    unfold wt at h
    simp only [Bool.and_eq_true] at h
    obtain ⟨Ts, hTs⟩ := inferList_ok args Γ h.1.2
    have h2 := h.2
    rw [hTs.inferT] at h2
    simp only [fcallOk] at h2
    have hl : lookup f Γ = none := by simpa using h.1.1
    split at h2
    · rename_i row hrow
      refine ⟨returnsOfFunc row (Tys.ofList Ts), fun s => ?_⟩
      simp only [infer, hl, hrow, hTs s, R.bind_ok]
    · exact absurd h2 (by simp)
  | .listComp proj vars src cond, Γ, h => by
    unfold wt at h
    simp only [Bool.and_eq_true] at h
    obtain ⟨Tsrc, hTsrc⟩ := infer_ok src Γ h.1
    have h2 := h.2
    rw [hTsrc.inferT] at h2
    simp only at h2
    split at h2
    · rename_i bs hbs
      obtain ⟨elem, hit, _, _, rfl⟩ := compEnv_some hbs
      simp only [Bool.and_eq_true] at h2
      obtain ⟨Tp, hTp⟩ := infer_ok proj _ h2.1
      obtain ⟨Tc, hTc⟩ := infer_ok cond _ h2.2
      exact ⟨.list Tp, fun s => by simp only [infer, hTsrc s, R.bind_ok, hit, hTp s, hTc s]⟩
    · exact absurd h2 (by simp)
  | .dictComp k v vars src cond, Γ, h => by
    unfold wt at h
    simp only [Bool.and_eq_true] at h
    obtain ⟨Tsrc, hTsrc⟩ := infer_ok src Γ h.1
    have h2 := h.2
    rw [hTsrc.inferT] at h2
    simp only at h2
    split at h2
    · rename_i bs hbs
      obtain ⟨elem, hit, _, _, rfl⟩ := compEnv_some hbs
      simp only [Bool.and_eq_true] at h2
      obtain ⟨Tk, hTk⟩ := infer_ok k _ h2.1.1
      obtain ⟨Tv, hTv⟩ := infer_ok v _ h2.1.2
      obtain ⟨Tc, hTc⟩ := infer_ok cond _ h2.2
      exact ⟨.dict Tk Tv, fun s => by simp only [infer, hTsrc s, R.bind_ok, hit, hTk s, hTv s, hTc s]⟩
    · exact absurd h2 (by simp)
theorem inferList_ok : ∀ (es : Exprs) (Γ : Env), wtList ct Γ es = true → ∃ Ts, InfOKList ct Γ es Ts
  | .nil, _, _ => ⟨[], fun _ => rfl⟩
  | .cons e es, Γ, h => by
    unfold wtList at h
    simp only [Bool.and_eq_true] at h
    obtain ⟨T, hT⟩ := infer_ok e Γ h.1
    obtain ⟨Ts, hTs⟩ := inferList_ok es Γ h.2
    exact ⟨T :: Ts, fun s => by simp only [inferList, hT s, hTs s, R.bind_ok]⟩
theorem inferChain_ok : ∀ (c : Chain) (Γ : Env), wtChain ct Γ c = true → ∃ ops, InfOKChain ct Γ c ops
  | .nil, _, _ => ⟨[], fun _ => rfl⟩
  | .cons op e rest, Γ, h => by
    unfold wtChain at h
    simp only [Bool.and_eq_true] at h
    obtain ⟨T, hT⟩ := infer_ok e Γ h.1
    obtain ⟨ops, hops⟩ := inferChain_ok rest Γ h.2
    exact ⟨(op, T) :: ops, fun s => by simp only [inferChain, hT s, hops s, R.bind_ok]⟩
theorem inferPairs_ok : ∀ (ps : Pairs) (Γ : Env), wtPairs ct Γ ps = true → ∃ kvs, InfOKPairs ct Γ ps kvs
  | .nil, _, _ => ⟨[], fun _ => rfl⟩
  | .cons k v rest, Γ, h => by
    unfold wtPairs at h
    simp only [Bool.and_eq_true] at h
    obtain ⟨Tk, hTk⟩ := infer_ok k Γ h.1.1
    obtain ⟨Tv, hTv⟩ := infer_ok v Γ h.1.2
    obtain ⟨kvs, hkvs⟩ := inferPairs_ok rest Γ h.2
    exact ⟨(Tk, Tv) :: kvs, fun s => by simp only [inferPairs, hTk s, hTv s, hkvs s, R.bind_ok]⟩
end

/-! ## totality: no `Unknown` -/

theorem InfOK.unique {Γ e T T'} (h : InfOK ct Γ e T) (h' : InfOK ct Γ e T') : T = T' := by
  have := (h false).symm.trans (h' false)
  simpa using this

theorem numResult_noUnknown (l r : Ty) : (numResult l r).noUnknown = true := by
  unfold numResult; split <;> rfl

theorem pyBinTy_noUnknown {op : BOp} {l r t : Ty} (h : pyBinTy op l r = some t) (hl : l.noUnknown = true) (hr : r.noUnknown = true) :
    t.noUnknown = true := by
  unfold pyBinTy at h
  split at h
  all_goals (try (split at h))
  all_goals (try (split at h))
  all_goals (try (split at h))
  all_goals (try (simp only [Option.some.injEq] at h; subst h))
  all_goals (try exact numResult_noUnknown _ _)
  all_goals (try rfl)
  all_goals (try (exact absurd h (by simp)))
  all_goals (try (simpa [Ty.noUnknown] using hl))
  all_goals (try (simpa [Ty.noUnknown] using hr))

theorem foldBin_noUnknown : ∀ (ops : List (BOp × Ty)) (l T : Ty), stepsOk ct l ops = true → foldBin ct l ops = .ok T →
    l.noUnknown = true → (∀ o ∈ ops, o.2.noUnknown = true) → T.noUnknown = true
  | [], l, T, _, hf, hl, _ => by
    simp only [foldBin, Except.ok.injEq] at hf; subst hf; exact hl
  | (op, r) :: rest, l, T, hs, hf, hl, hr => by
    unfold stepsOk at hs
    unfold foldBin at hf
    split at hs
    · rename_i t ht
      rw [ht] at hf
      simp only [Bool.and_eq_true, decide_eq_true_eq] at hs
      have hrr : r.noUnknown = true := hr (op, r) (by simp)
      have htn : t.noUnknown = true := pyBinTy_noUnknown hs.1 hl hrr
      exact foldBin_noUnknown rest t T hs.2 hf htn (fun o ho => hr o (by simp [ho]))
    · exact absurd hs (by simp)


theorem Tys.noUnknownL_drop : ∀ (ts : Tys) (n : Nat), Ty.noUnknownL ts = true → Ty.noUnknownL (Tys.drop ts n) = true
  | ts, 0, h => by simpa [Tys.drop] using h
  | .nil, _ + 1, _ => rfl
  | .cons _ ts, n + 1, h => by
    simp only [Ty.noUnknownL, Bool.and_eq_true] at h
    simpa [Tys.drop] using Tys.noUnknownL_drop ts n h.2

theorem Tys.noUnknownL_take : ∀ (ts : Tys) (n : Nat), Ty.noUnknownL ts = true → Ty.noUnknownL (Tys.take ts n) = true
  | _, 0, _ => by simp [Tys.take, Ty.noUnknownL]
  | .nil, _ + 1, _ => rfl
  | .cons t ts, n + 1, h => by
    simp only [Ty.noUnknownL, Bool.and_eq_true] at h
    simp only [Tys.take, Ty.noUnknownL, Bool.and_eq_true]
    exact ⟨h.1, Tys.noUnknownL_take ts n h.2⟩

theorem onSlice_noUnknown {u : Ty} (lo hi : Expr) (h : u.noUnknown = true) : (onSlice u lo hi).noUnknown = true := by
  unfold onSlice
  split
  · rename_i ts
    simp only [Ty.noUnknown] at h
    split
    · simp only [Ty.noUnknown, Tys.slice]
      exact Tys.noUnknownL_take _ _ (Tys.noUnknownL_drop _ _ h)
    · simpa [Ty.noUnknown] using h
  · exact h

theorem pyFactorTy_eq {op : UOp} {t r : Ty} (h : pyFactorTy op t = some r) : r = (if t = .bool then .int else t) := by
  unfold pyFactorTy at h
  split at h <;> cases h <;> rfl

theorem stripNullable_noUnknown {t : Ty} (h : t.noUnknown = true) : (stripNullable t).noUnknown = true := by
  unfold stripNullable
  split
  · rename_i a b
    simp only [Ty.noUnknown, Ty.noUnknownL, Bool.and_eq_true, Bool.and_true] at h
    dsimp only
    split
    · split
      · exact h.2
      · exact h.1
    · simp only [Ty.noUnknown, Ty.noUnknownL, Bool.and_eq_true, Bool.and_true]; exact h
  · exact h

theorem Tys.get?_noUnknown : ∀ (ts : Tys) (n : Nat) (t : Ty), ts.get? n = some t → Ty.noUnknownL ts = true → t.noUnknown = true
  | .nil, _, _, h, _ => by simp [Tys.get?] at h
  | .cons u _, 0, t, h, hn => by
    simp only [Tys.get?, Option.some.injEq] at h; subst h
    simp only [Ty.noUnknownL, Bool.and_eq_true] at hn; exact hn.1
  | .cons _ ts, n + 1, t, h, hn => by
    simp only [Tys.get?] at h
    simp only [Ty.noUnknownL, Bool.and_eq_true] at hn
    exact Tys.get?_noUnknown ts n t h hn.2

theorem onIndex_noUnknown {u T : Ty} {k : Expr} (hk : indexShapeOk u k = true) (h : onIndex u k = .ok T) (hu : u.noUnknown = true) :
    T.noUnknown = true := by
  cases u with
  | str => simp only [onIndex, Except.ok.injEq] at h; subst h; rfl
  | list t => simp only [onIndex, Except.ok.injEq] at h; subst h; simpa [Ty.noUnknown] using hu
  | dict a b =>
    simp only [onIndex, Except.ok.injEq] at h; subst h
    simp only [Ty.noUnknown, Bool.and_eq_true] at hu; exact hu.2
  | tuple ts =>
    cases k with
    | int n =>
      simp only [onIndex] at h
      split at h
      · rename_i t ht
        simp only [Except.ok.injEq] at h; subst h
        exact Tys.get?_noUnknown ts n _ ht (by simpa [Ty.noUnknown] using hu)
      · exact absurd h (by simp)
    | _ => simp [indexShapeOk] at hk
  | _ => simp [indexShapeOk] at hk

theorem pyMethodTy_noUnknown {recv t : Ty} {m : MName} {args : List Ty} (h : pyMethodTy recv m args = some t)
    (hr : recv.noUnknown = true) (_ha : ∀ a ∈ args, a.noUnknown = true) : t.noUnknown = true := by
  unfold pyMethodTy at h
  split at h
  all_goals (try (split at h))
  all_goals (try (simp only [Option.some.injEq] at h; subst h))
  all_goals (try (exact absurd h (by simp)))
  all_goals (try rfl)
  all_goals (simp only [Ty.noUnknown, Ty.noUnknownL, tIter, tItems, Bool.and_eq_true, Bool.and_true] at hr ⊢)
  all_goals (first | exact hr | exact hr.1 | exact hr.2 | skip)

theorem pyFuncTy_noUnknown {f : FName} {t : Ty} {args : List Ty} (h : pyFuncTy f args = some t)
    (ha : ∀ a ∈ args, a.noUnknown = true) : t.noUnknown = true := by
  unfold pyFuncTy at h
  split at h <;> (try (split at h)) <;> (try (split at h)) <;> (first | cases h | skip)
  all_goals (simp_all [Ty.noUnknown, Ty.noUnknownL, tIter])

theorem userCallTy_noUnknown (hct : CtNoUnknown ct) {tr t : Ty} {m : Str} {ts : List Ty} (h : userCallTy ct tr m ts = some t) :
    t.noUnknown = true := by
  unfold userCallTy at h
  split at h
  · rename_i c
    split at h
    · rename_i mem hm
      split at h
      · split at h
        · split at h
          · cases h; exact hct c m mem hm
          · cases h
        · cases h
      · cases h
    · cases h
  · cases h

theorem lookup_append {α : Type} (x : Str) : ∀ (a b : List (Str × α)), lookup x (a ++ b) = (match lookup x a with | some v => some v | none => lookup x b)
  | [], b => rfl
  | (y, v) :: a, b => by
    simp only [List.cons_append, lookup]
    split
    · rfl
    · exact lookup_append x a b

theorem pyIterTy_noUnknown (hct : CtNoUnknown ct) {t e : Ty} (h : pyIterTy ct t = some e) (ht : t.noUnknown = true) : e.noUnknown = true := by
  unfold pyIterTy at h
  split at h
  · cases h; simpa [Ty.noUnknown] using ht
  · cases h; simp only [Ty.noUnknown, Bool.and_eq_true] at ht; exact ht.1
  · split at h
    · cases h; simp_all [Ty.noUnknown, Ty.noUnknownL]
    · cases h
  · split at h
    · cases h; simp_all [Ty.noUnknown, Ty.noUnknownL, tPair]
    · cases h
  · rename_i c
    split at h
    · rename_i mi hmi
      split at h
      · cases h
      · have hmit := hct c s_iter mi hmi
        split at h
        · rename_i n t' hty
          split at h
          · cases h; rw [hty] at hmit; simp_all [Ty.noUnknown, Ty.noUnknownL]
          · cases h
        · rename_i c' hty
          split at h
          · rename_i mn hmn
            split at h
            · cases h; exact hct c' s_next mn hmn
            · cases h
          · cases h
        · cases h
    · cases h
  · cases h

theorem bindVars_noUnknown {vars : List Str} {elem : Ty} (hv : varsOk vars elem = true) (he : elem.noUnknown = true) :
    EnvNoUnknown (bindVars vars elem) := by
  intro x T hx
  unfold varsOk at hv
  split at hv
  · rename_i y
    simp only [bindVars, lookup] at hx
    split at hx
    · simp only [Option.some.injEq] at hx; subst hx; exact he
    · exact absurd hx (by simp)
  · rename_i y z
    split at hv
    · rename_i a b
      simp only [bindVars, Ty.attrs, bindVarsFrom, Tys.get?, Option.getD, lookup] at hx
      simp only [Ty.noUnknown, Ty.noUnknownL, Bool.and_eq_true, Bool.and_true] at he
      split at hx
      · simp only [Option.some.injEq] at hx; subst hx; exact he.1
      · split at hx
        · simp only [Option.some.injEq] at hx; subst hx; exact he.2
        · exact absurd hx (by simp)
    · rename_i n a b
      simp only [bindVars, Ty.attrs, bindVarsFrom, Tys.get?, Option.getD, lookup] at hx
      simp only [Ty.noUnknown, Ty.noUnknownL, Bool.and_eq_true, Bool.and_true] at he
      split at hx
      · simp only [Option.some.injEq] at hx; subst hx; exact he.1
      · split at hx
        · simp only [Option.some.injEq] at hx; subst hx; exact he.2
        · exact absurd hx (by simp)
    · exact absurd hv (by simp)
  · exact absurd hv (by simp)

theorem EnvNoUnknown.append {a b : Env} (ha : EnvNoUnknown a) (hb : EnvNoUnknown b) : EnvNoUnknown (a ++ b) := by
  intro x T hx
  rw [lookup_append] at hx
  split at hx
  · rename_i v hv
    simp only [Option.some.injEq] at hx; subst hx
    exact ha x v hv
  · exact hb x T hx

theorem onDict_const (kv : Ty × Ty) (rest : List (Ty × Ty)) (hk : kv.2.className ≠ s_Unknown) :
    onDict (kv :: rest) = .dict kv.1 kv.2 := by
  simp only [onDict, List.find?, hk, ne_eq, not_false_eq_true, decide_true]

theorem pair_ok_inj {α : Type} {a b : α} {s : Bool} (h : ((.ok a : Except Err α), s) = (.ok b, s)) : a = b := by
  simpa using h

theorem Tys.noUnknownL_ofList : ∀ (l : List Ty), (∀ t ∈ l, t.noUnknown = true) → Ty.noUnknownL (Tys.ofList l) = true
  | [], _ => rfl
  | t :: ts, h => by
    simp only [Tys.ofList, Ty.noUnknownL, Bool.and_eq_true]
    exact ⟨h t (by simp), Tys.noUnknownL_ofList ts (fun u hu => h u (by simp [hu]))⟩

mutual
theorem infer_noUnknown (hct : CtNoUnknown ct) : ∀ (e : Expr) (Γ : Env) (T : Ty), wt ct Γ e = true → EnvNoUnknown Γ → InfOK ct Γ e T → T.noUnknown = true
  | .int _, _, T, _, _, hT => by have := hT false; simp only [infer] at this; rw [← pair_ok_inj this]; rfl
  | .float _, _, T, _, _, hT => by have := hT false; simp only [infer] at this; rw [← pair_ok_inj this]; rfl
  | .str _, _, T, _, _, hT => by have := hT false; simp only [infer] at this; rw [← pair_ok_inj this]; rfl
  | .true_, _, T, _, _, hT => by have := hT false; simp only [infer] at this; rw [← pair_ok_inj this]; rfl
  | .false_, _, T, _, _, hT => by have := hT false; simp only [infer] at this; rw [← pair_ok_inj this]; rfl
  | .none_, _, T, _, _, hT => by have := hT false; simp only [infer] at this; rw [← pair_ok_inj this]; rfl
  | .empty_, _, T, _, _, hT => by have := hT false; simp only [infer] at this; rw [← pair_ok_inj this]; rfl
  | .var x, Γ, T, h, hΓ, hT => by
    unfold wt at h
    split at h
    · rename_i t ht
      have := hT false
      simp only [infer, ht] at this
      simp only [ne_eq, decide_eq_true_eq] at h
      simp only [h, if_false] at this
      rw [← pair_ok_inj this]
      exact hΓ x t ht
    · exact absurd h (by simp)
  | .factor op e, Γ, T, h, hΓ, hT => by
    unfold wt at h
    simp only [Bool.and_eq_true] at h
    obtain ⟨Te, hTe⟩ := infer_ok e Γ h.1
    have he := infer_noUnknown hct e Γ Te h.1 hΓ hTe
    have := hT false
    simp only [infer, hTe false, R.bind_ok] at this
    split at this
    · rw [← pair_ok_inj this]; rfl
    · rw [← pair_ok_inj this]; exact he
  | .not_ e, Γ, T, h, hΓ, hT => by
    unfold wt at h
    obtain ⟨Te, hTe⟩ := infer_ok e Γ h
    have := hT false
    simp only [infer, hTe false, R.bind_ok] at this
    rw [← pair_ok_inj this]; rfl
  | .bin e rest, Γ, T, h, hΓ, hT => by
    unfold wt at h
    simp only [Bool.and_eq_true] at h
    obtain ⟨⟨h1, h2⟩, h3⟩ := h
    obtain ⟨Te, hTe⟩ := infer_ok e Γ h1
    obtain ⟨ops, hops⟩ := inferChain_ok rest Γ h2
    rw [hTe.inferT, hops.inferT] at h3
    simp only at h3
    have := hT false
    simp only [infer, hTe false, hops false, R.bind_ok, R.lift, Prod.mk.injEq, and_true] at this
    exact foldBin_noUnknown ops Te T h3 this (infer_noUnknown hct e Γ Te h1 hΓ hTe) (inferChain_noUnknown hct rest Γ ops h2 hΓ hops)
  | .cmp e rest, Γ, T, h, hΓ, hT => by
    unfold wt at h
    simp only [Bool.and_eq_true] at h
    obtain ⟨Te, hTe⟩ := infer_ok e Γ h.1
    obtain ⟨ops, hops⟩ := inferChain_ok rest Γ h.2
    have := hT false
    simp only [infer, hTe false, hops false, R.bind_ok] at this
    rw [← pair_ok_inj this]; rfl
  | .and_ es, Γ, T, h, hΓ, hT => by
    unfold wt at h
    simp only [Bool.and_eq_true] at h
    obtain ⟨Ts, hTs⟩ := inferList_ok es Γ h.1
    have := hT false
    simp only [infer, hTs false, R.bind_ok] at this
    rw [← pair_ok_inj this]; rfl
  | .or_ es, Γ, T, h, hΓ, hT => by
    unfold wt at h
    simp only [Bool.and_eq_true] at h
    obtain ⟨Ts, hTs⟩ := inferList_ok es Γ h.1
    have := hT false
    simp only [infer, hTs false, R.bind_ok] at this
    rw [← pair_ok_inj this]; rfl
  | .tern a c d, Γ, T, h, hΓ, hT => by
    unfold wt at h
    simp only [Bool.and_eq_true] at h
    obtain ⟨Ta, hTa⟩ := infer_ok a Γ h.1.1
    obtain ⟨Tc, hTc⟩ := infer_ok c Γ h.1.2
    obtain ⟨Td, hTd⟩ := infer_ok d Γ h.2
    have ha := infer_noUnknown hct a Γ Ta h.1.1 hΓ hTa
    have hd := infer_noUnknown hct d Γ Td h.2 hΓ hTd
    have := hT false
    simp only [infer, hTa false, hTc false, hTd false, R.bind_ok] at this
    split at this
    · rw [← pair_ok_inj this]; exact ha
    · rw [← pair_ok_inj this]; simp only [Ty.noUnknown, Ty.noUnknownL, ha, hd, Bool.and_self]
  | .list es, Γ, T, h, hΓ, hT => by
    unfold wt at h
    simp only [Bool.and_eq_true] at h
    obtain ⟨Ts, hTs⟩ := inferList_ok es Γ h.1
    have hall := inferList_noUnknown hct es Γ Ts h.1 hΓ hTs
    have h2 := h.2
    rw [hTs.inferT] at h2
    split at h2
    · rename_i t ts heq
      simp only [Except.ok.injEq] at heq
      simp only [Bool.and_eq_true, decide_eq_true_eq] at h2
      have := hT false
      simp only [infer, hTs false, R.bind_ok, heq] at this
      rw [onList_const t ts false h2.1 (by simpa using h2.2)] at this
      rw [← pair_ok_inj this]
      simp only [Ty.noUnknown]
      exact hall t (by simp [heq])
    · exact absurd h2 (by simp)
  | .dict kvs, Γ, T, h, hΓ, hT => by
    unfold wt at h
    simp only [Bool.and_eq_true] at h
    obtain ⟨items, hitems⟩ := inferPairs_ok kvs Γ h.1
    have hall := inferPairs_noUnknown hct kvs Γ items h.1 hΓ hitems
    have h2 := h.2
    rw [hitems.inferT] at h2
    split at h2
    · rename_i kv rest heq
      simp only [Except.ok.injEq] at heq
      simp only [Bool.and_eq_true, decide_eq_true_eq] at h2
      have := hT false
      simp only [infer, hitems false, R.bind_ok, heq] at this
      rw [onDict_const kv rest (by simpa using h2.2)] at this
      rw [← pair_ok_inj this]
      have := hall kv (by simp [heq])
      simp only [Ty.noUnknown, this.1, this.2, Bool.and_self]
    · exact absurd h2 (by simp)
  | .tuple es, Γ, T, h, hΓ, hT => by
    unfold wt at h
    obtain ⟨Ts, hTs⟩ := inferList_ok es Γ h
    have hall := inferList_noUnknown hct es Γ Ts h hΓ hTs
    have := hT false
    simp only [infer, hTs false, R.bind_ok] at this
    rw [← pair_ok_inj this]
    simp only [Ty.noUnknown]
    exact Tys.noUnknownL_ofList Ts hall
  | .index r k, Γ, T, h, hΓ, hT => by
    unfold wt at h
    simp only [Bool.and_eq_true] at h
    obtain ⟨Tr, hTr⟩ := infer_ok r Γ h.1.1
    obtain ⟨Tk, hTk⟩ := infer_ok k Γ h.1.2
    have hr := infer_noUnknown hct r Γ Tr h.1.1 hΓ hTr
    have h2 := h.2
    rw [hTr.inferT] at h2
    simp only [tyOk, indexOk] at h2
    have := hT false
    simp only [infer, hTr false, hTk false, R.bind_ok, R.lift, Prod.mk.injEq, and_true] at this
    exact onIndex_noUnknown h2 this (stripNullable_noUnknown hr)
  | .slice r lo hi, Γ, T, h, hΓ, hT => by
    unfold wt at h
    simp only [Bool.and_eq_true] at h
    obtain ⟨Tr, hTr⟩ := infer_ok r Γ h.1.1.1
    obtain ⟨Tl, hTl⟩ := infer_ok lo Γ h.1.1.2
    obtain ⟨Th, hTh⟩ := infer_ok hi Γ h.1.2
    have hr := infer_noUnknown hct r Γ Tr h.1.1.1 hΓ hTr
    have := hT false
    simp only [infer, hTr false, hTl false, hTh false, R.bind_ok] at this
    rw [← pair_ok_inj this]
    exact onSlice_noUnknown lo hi (stripNullable_noUnknown hr)
  | .group e, Γ, T, h, hΓ, hT => by
    unfold wt at h
    exact infer_noUnknown hct e Γ T h hΓ (fun s => by have := hT s; simpa only [infer] using this)
  | .attr r a, Γ, T, h, hΓ, hT => by
    unfold wt at h
    simp only [Bool.and_eq_true] at h
    obtain ⟨Tr, hTr⟩ := infer_ok r Γ h.1
    have h2 := h.2
    rw [hTr.inferT] at h2
    simp only [tyOk] at h2
    obtain ⟨c, mem, hc, hm, _, hk⟩ := attrOk_inv h2
    have := hT false
    simp only [infer, hTr false, R.bind_ok, R.lift, attr_infer hc hm hk] at this
    rw [← pair_ok_inj this]
    exact hct c a mem hm
  | .call r m args, Γ, T, h, hΓ, hT => by
    unfold wt at h
    simp only [Bool.and_eq_true] at h
    obtain ⟨Tr, hTr⟩ := infer_ok r Γ h.1.1
    obtain ⟨Ts, hTs⟩ := inferList_ok args Γ h.1.2
    have hr := infer_noUnknown hct r Γ Tr h.1.1 hΓ hTr
    have hall := inferList_noUnknown hct args Γ Ts h.1.2 hΓ hTs
    have h2 := h.2
    rw [hTr.inferT, hTs.inferT] at h2
    simp only [callOk, Bool.and_eq_true, decide_eq_true_eq] at h2
    obtain ⟨hs, h3⟩ := h2
    split at h3
    · rename_i row hrow
      simp only [Bool.or_eq_true, decide_eq_true_eq] at h3
      have := hT false
      simp only [infer, hTr false, R.bind_ok, hs, hrow, hTs false] at this
      rw [← pair_ok_inj this]
      rcases h3 with h3 | h3
      · exact pyMethodTy_noUnknown h3 hr hall
      · exact userCallTy_noUnknown hct h3
    · exact absurd h3 (by simp)
  | .fcall f args, Γ, T, h, hΓ, hT => by
    unfold wt at h
    simp only [Bool.and_eq_true] at h
    obtain ⟨Ts, hTs⟩ := inferList_ok args Γ h.1.2
    have hall := inferList_noUnknown hct args Γ Ts h.1.2 hΓ hTs
    have h2 := h.2
    rw [hTs.inferT] at h2
    simp only [fcallOk] at h2
    have hl : lookup f Γ = none := by simpa using h.1.1
    split at h2
    · rename_i row hrow
      simp only [Bool.or_eq_true, Bool.and_eq_true, decide_eq_true_eq] at h2
      have := hT false
      simp only [infer, hl, hrow, hTs false, R.bind_ok] at this
      rw [← pair_ok_inj this]
      rcases h2 with h2 | h2
      · exact pyFuncTy_noUnknown h2 hall
      · rw [h2.2]; rfl
    · exact absurd h2 (by simp)
  | .listComp proj vars src cond, Γ, T, h, hΓ, hT => by
    unfold wt at h
    simp only [Bool.and_eq_true] at h
    obtain ⟨Tsrc, hTsrc⟩ := infer_ok src Γ h.1
    have hsrc := infer_noUnknown hct src Γ Tsrc h.1 hΓ hTsrc
    have h2 := h.2
    rw [hTsrc.inferT] at h2
    simp only at h2
    split at h2
    · rename_i bs hbs
      obtain ⟨elem, hit, hpy, hv, rfl⟩ := compEnv_some hbs
      simp only [Bool.and_eq_true] at h2
      obtain ⟨Tp, hTp⟩ := infer_ok proj _ h2.1
      obtain ⟨Tc, hTc⟩ := infer_ok cond _ h2.2
      have hΓ' : EnvNoUnknown (bindVars vars elem ++ Γ) :=
        EnvNoUnknown.append (bindVars_noUnknown hv (pyIterTy_noUnknown hct hpy hsrc)) hΓ
      have hp := infer_noUnknown hct proj _ Tp h2.1 hΓ' hTp
      have := hT false
      simp only [infer, hTsrc false, R.bind_ok, hit, hTp false, hTc false] at this
      rw [← pair_ok_inj this]
      simpa [Ty.noUnknown] using hp
    · exact absurd h2 (by simp)
  | .dictComp k v vars src cond, Γ, T, h, hΓ, hT => by
    unfold wt at h
    simp only [Bool.and_eq_true] at h
    obtain ⟨Tsrc, hTsrc⟩ := infer_ok src Γ h.1
    have hsrc := infer_noUnknown hct src Γ Tsrc h.1 hΓ hTsrc
    have h2 := h.2
    rw [hTsrc.inferT] at h2
    simp only at h2
    split at h2
    · rename_i bs hbs
      obtain ⟨elem, hit, hpy, hv, rfl⟩ := compEnv_some hbs
      simp only [Bool.and_eq_true] at h2
      obtain ⟨Tk, hTk⟩ := infer_ok k _ h2.1.1
      obtain ⟨Tv, hTv⟩ := infer_ok v _ h2.1.2
      obtain ⟨Tc, hTc⟩ := infer_ok cond _ h2.2
      have hΓ' : EnvNoUnknown (bindVars vars elem ++ Γ) :=
        EnvNoUnknown.append (bindVars_noUnknown hv (pyIterTy_noUnknown hct hpy hsrc)) hΓ
      have hk := infer_noUnknown hct k _ Tk h2.1.1 hΓ' hTk
      have hvv := infer_noUnknown hct v _ Tv h2.1.2 hΓ' hTv
      have := hT false
      simp only [infer, hTsrc false, R.bind_ok, hit, hTk false, hTv false, hTc false] at this
      rw [← pair_ok_inj this]
      simp only [Ty.noUnknown, hk, hvv, Bool.and_self]
    · exact absurd h2 (by simp)
theorem inferList_noUnknown (hct : CtNoUnknown ct) : ∀ (es : Exprs) (Γ : Env) (Ts : List Ty), wtList ct Γ es = true → EnvNoUnknown Γ → InfOKList ct Γ es Ts →
    ∀ t ∈ Ts, t.noUnknown = true
  | .nil, _, Ts, _, _, hTs => by
    have := hTs false; simp only [inferList] at this; rw [← pair_ok_inj this]; simp
  | .cons e es, Γ, Ts, h, hΓ, hTs => by
    unfold wtList at h
    simp only [Bool.and_eq_true] at h
    obtain ⟨T, hT⟩ := infer_ok e Γ h.1
    obtain ⟨Ts', hTs'⟩ := inferList_ok es Γ h.2
    have := hTs false
    simp only [inferList, hT false, hTs' false, R.bind_ok] at this
    rw [← pair_ok_inj this]
    intro t ht
    simp only [List.mem_cons] at ht
    rcases ht with rfl | ht
    · exact infer_noUnknown hct e Γ _ h.1 hΓ hT
    · exact inferList_noUnknown hct es Γ Ts' h.2 hΓ hTs' t ht
theorem inferChain_noUnknown (hct : CtNoUnknown ct) : ∀ (c : Chain) (Γ : Env) (ops : List (BOp × Ty)), wtChain ct Γ c = true → EnvNoUnknown Γ → InfOKChain ct Γ c ops →
    ∀ o ∈ ops, o.2.noUnknown = true
  | .nil, _, ops, _, _, hops => by
    have := hops false; simp only [inferChain] at this; rw [← pair_ok_inj this]; simp
  | .cons op e rest, Γ, ops, h, hΓ, hops => by
    unfold wtChain at h
    simp only [Bool.and_eq_true] at h
    obtain ⟨T, hT⟩ := infer_ok e Γ h.1
    obtain ⟨ops', hops'⟩ := inferChain_ok rest Γ h.2
    have := hops false
    simp only [inferChain, hT false, hops' false, R.bind_ok] at this
    rw [← pair_ok_inj this]
    intro o ho
    simp only [List.mem_cons] at ho
    rcases ho with rfl | ho
    · exact infer_noUnknown hct e Γ _ h.1 hΓ hT
    · exact inferChain_noUnknown hct rest Γ ops' h.2 hΓ hops' o ho
theorem inferPairs_noUnknown (hct : CtNoUnknown ct) : ∀ (ps : Pairs) (Γ : Env) (kvs : List (Ty × Ty)), wtPairs ct Γ ps = true → EnvNoUnknown Γ → InfOKPairs ct Γ ps kvs →
    ∀ kv ∈ kvs, kv.1.noUnknown = true ∧ kv.2.noUnknown = true
  | .nil, _, kvs, _, _, hk => by
    have := hk false; simp only [inferPairs] at this; rw [← pair_ok_inj this]; simp
  | .cons k v rest, Γ, kvs, h, hΓ, hk => by
    unfold wtPairs at h
    simp only [Bool.and_eq_true] at h
    obtain ⟨Tk, hTk⟩ := infer_ok k Γ h.1.1
    obtain ⟨Tv, hTv⟩ := infer_ok v Γ h.1.2
    obtain ⟨kvs', hkvs'⟩ := inferPairs_ok rest Γ h.2
    have := hk false
    simp only [inferPairs, hTk false, hTv false, hkvs' false, R.bind_ok] at this
    rw [← pair_ok_inj this]
    intro kv hkv
    simp only [List.mem_cons] at hkv
    rcases hkv with rfl | hkv
    · exact ⟨infer_noUnknown hct k Γ _ h.1.1 hΓ hTk, infer_noUnknown hct v Γ _ h.1.2 hΓ hTv⟩
    · exact inferPairs_noUnknown hct rest Γ kvs' h.2 hΓ hkvs' kv hkv
end

/-! ## soundness: conformance lemmas -/

theorem Conf.int_inv {v : Val} (h : Conf ct v .int) : ∃ n, v = .int n := by cases h; exact ⟨_, rfl⟩
theorem Conf.float_inv {v : Val} (h : Conf ct v .float) : ∃ x, v = .float x := by cases h; exact ⟨_, rfl⟩
theorem Conf.bool_inv {v : Val} (h : Conf ct v .bool) : ∃ b, v = .bool b := by cases h; exact ⟨_, rfl⟩
theorem Conf.str_inv {v : Val} (h : Conf ct v .str) : ∃ s, v = .str s := by cases h; exact ⟨_, rfl⟩
theorem Conf.none_inv {v : Val} (h : Conf ct v .none) : v = .none := by cases h; rfl
theorem Conf.list_inv {v : Val} {t : Ty} (h : Conf ct v (.list t)) : ∃ vs, v = .list vs ∧ ConfAll ct vs t := by
  cases h; exact ⟨_, rfl, ‹_›⟩
theorem Conf.dict_inv {v : Val} {k w : Ty} (h : Conf ct v (.dict k w)) : ∃ ks vs, v = .dict ks vs ∧ ConfAll ct ks k ∧ ConfAll ct vs w := by
  cases h; exact ⟨_, _, rfl, ‹_›, ‹_›⟩
theorem Conf.tuple_inv {v : Val} {ts : Tys} (h : Conf ct v (.tuple ts)) : ∃ vs, v = .tuple vs ∧ ConfZip ct vs ts := by
  cases h; exact ⟨_, rfl, ‹_›⟩

theorem ConfAll.mem {vs : List Val} {t : Ty} (h : ConfAll ct vs t) : ∀ v ∈ vs, Conf ct v t := by
  induction vs with
  | nil => intro v hv; simp at hv
  | cons a as ih =>
    cases h with
    | cons ha has =>
      intro v hv
      simp only [List.mem_cons] at hv
      rcases hv with rfl | hv
      · exact ha
      · exact ih has v hv

theorem ConfAll.of_mem {vs : List Val} {t : Ty} (h : ∀ v ∈ vs, Conf ct v t) : ConfAll ct vs t := by
  induction vs with
  | nil => exact .nil
  | cons a as ih => exact .cons (h a (by simp)) (ih (fun v hv => h v (by simp [hv])))

theorem ConfAll.append {a b : List Val} {t : Ty} (ha : ConfAll ct a t) (hb : ConfAll ct b t) : ConfAll ct (a ++ b) t :=
  ConfAll.of_mem (fun v hv => by
    simp only [List.mem_append] at hv
    rcases hv with hv | hv
    · exact ha.mem v hv
    · exact hb.mem v hv)

theorem ConfAll.repeat {a : List Val} {t : Ty} (ha : ConfAll ct a t) : ∀ n, ConfAll ct (repeatList a n) t
  | 0 => .nil
  | n + 1 => ConfAll.append ha (ConfAll.repeat ha n)

def Num.isI : Num → Bool
  | .i _ => true
  | .f _ => false

def arithTy (op : BOp) (a b : Num) : Ty :=
  if a.isI && b.isI then (if op = .div then .float else .int) else .float

theorem arithNum_conf {op : BOp} {a b : Num} {v : Val} (h : arithNum op a b = .ok v) : Conf ct v (arithTy op a b) := by
  cases a <;> cases b <;> cases op <;> simp only [arithNum] at h <;> (try (split at h)) <;> cases h <;>
    simp only [arithTy, Num.isI, Bool.and_self, Bool.and_false, Bool.false_and, if_true, if_false] <;> (try simp) <;> constructor

/-- numeric operands: the value's numeric view and whether it is integral -/
theorem Conf.num {x : Val} {l : Ty} (h : Conf ct x l) (hl : isNum l = true) :
    ∃ n, asNum? x = some n ∧ n.isI = isIntLike l ∧ isSeq x = false ∧
      (∀ s, x ≠ .str s) ∧ (∀ vs, x ≠ .list vs) ∧ (∀ vs, x ≠ .tuple vs) ∧ (∀ a b, x ≠ .dict a b) := by
  cases h <;> first
    | exact ⟨_, rfl, rfl, rfl, nofun, nofun, nofun, nofun⟩
    | simp [isNum, tIter, tItems, tPair] at hl

theorem Conf.intLike {x : Val} {l : Ty} (h : Conf ct x l) (hl : isIntLike l = true) : ∃ n, asInt? x = some n := by
  cases h <;> first
    | exact ⟨_, rfl⟩
    | simp [isIntLike, tIter, tItems, tPair] at hl

theorem arithTy_num {op : BOp} {a b : Num} {l r : Ty} (ha : a.isI = isIntLike l) (hb : b.isI = isIntLike r) (hop : op ≠ .div) :
    arithTy op a b = numResult l r := by
  simp only [arithTy, numResult, ha, hb, hop, if_false]

theorem arithTy_div {a b : Num} : arithTy .div a b = .float := by
  simp only [arithTy, if_true]; split <;> rfl

theorem Conf.numShape {x : Val} {l : Ty} (h : Conf ct x l) (hl : isNum l = true) :
    (∃ n, x = .int n ∧ l = .int) ∨ (∃ b, x = .bool b ∧ l = .bool) ∨ (∃ f, x = .float f ∧ l = .float) := by
  cases h <;> first
    | exact Or.inl ⟨_, rfl, rfl⟩
    | exact Or.inr (Or.inl ⟨_, rfl, rfl⟩)
    | exact Or.inr (Or.inr ⟨_, rfl, rfl⟩)
    | simp [isNum, tIter, tItems, tPair] at hl

theorem evalBin_num {op : BOp} {x y v : Val} {l r : Ty} (hx : Conf ct x l) (hy : Conf ct y r)
    (hl : isNum l = true) (hr : isNum r = true) (hop : op = .add ∨ op = .sub ∨ op = .mul ∨ op = .div ∨ op = .mod)
    (h : evalBin op x y = .ok v) : Conf ct v (if op = .div then .float else numResult l r) := by
  obtain ⟨a, ha, hai, -⟩ := hx.num hl
  obtain ⟨b, hb, hbi, -⟩ := hy.num hr
  have key : arithNum op a b = .ok v := by
    rcases hx.numShape hl with ⟨n, rfl, rfl⟩ | ⟨n, rfl, rfl⟩ | ⟨n, rfl, rfl⟩ <;>
    rcases hy.numShape hr with ⟨m, rfl, rfl⟩ | ⟨m, rfl, rfl⟩ | ⟨m, rfl, rfl⟩ <;>
    rcases hop with rfl | rfl | rfl | rfl | rfl <;>
    simp only [asNum?, Option.some.injEq] at ha hb <;> subst ha hb <;>
    simpa only [evalBin, asNum?] using h
  have := arithNum_conf (ct := ct) key
  by_cases hd : op = .div
  · subst hd; simpa only [arithTy_div, if_true] using this
  · simpa only [arithTy_num hai hbi hd, hd, if_false] using this

theorem Conf.intShape {x : Val} {l : Ty} (h : Conf ct x l) (hl : isIntLike l = true) :
    (∃ n, x = .int n ∧ l = .int) ∨ (∃ b, x = .bool b ∧ l = .bool) := by
  cases h <;> first
    | exact Or.inl ⟨_, rfl, rfl⟩
    | exact Or.inr ⟨_, rfl, rfl⟩
    | simp [isIntLike, tIter, tItems, tPair] at hl

theorem evalBin_bit {op : BOp} {x y v : Val} {l r : Ty} (hx : Conf ct x l) (hy : Conf ct y r)
    (hl : isIntLike l = true) (hr : isIntLike r = true) (hop : op = .band ∨ op = .bor ∨ op = .bxor)
    (h : evalBin op x y = .ok v) : Conf ct v (if l = .bool && r = .bool then .bool else .int) := by
  rcases hx.intShape hl with ⟨n, rfl, rfl⟩ | ⟨n, rfl, rfl⟩ <;>
  rcases hy.intShape hr with ⟨m, rfl, rfl⟩ | ⟨m, rfl, rfl⟩ <;>
  rcases hop with rfl | rfl | rfl <;>
  simp only [evalBin, asInt?] at h <;> cases h <;> simp <;> constructor

theorem evalBin_shift {op : BOp} {x y v : Val} {l r : Ty} (hx : Conf ct x l) (hy : Conf ct y r)
    (hl : isIntLike l = true) (hr : isIntLike r = true) (hop : op = .shl ∨ op = .shr)
    (h : evalBin op x y = .ok v) : Conf ct v .int := by
  rcases hx.intShape hl with ⟨n, rfl, rfl⟩ | ⟨n, rfl, rfl⟩ <;>
  rcases hy.intShape hr with ⟨m, rfl, rfl⟩ | ⟨m, rfl, rfl⟩ <;>
  rcases hop with rfl | rfl <;>
  simp only [evalBin, asInt?] at h <;> split at h <;> cases h <;> constructor

theorem seqRepeat_conf {x v : Val} {t : Ty} {n : Int} (hx : Conf ct x t) (ht : t = .str ∨ ∃ a, t = .list a)
    (h : seqRepeat x n = .ok v) : Conf ct v t := by
  rcases ht with rfl | ⟨a, rfl⟩
  · obtain ⟨s, rfl⟩ := hx.str_inv
    simp only [seqRepeat] at h; cases h; constructor
  · obtain ⟨vs, rfl, hvs⟩ := hx.list_inv
    simp only [seqRepeat] at h; cases h
    exact .list (hvs.repeat _)

theorem isIntLike_isNum {t : Ty} (h : isIntLike t = true) : isNum t = true := by
  cases t <;> simp_all [isIntLike, isNum]

theorem evalBin_mul_seq {x y v : Val} {l r : Ty} (hx : Conf ct x l) (hy : Conf ct y r) (hl : l = .str ∨ ∃ a, l = .list a)
    (hr : isIntLike r = true) : (evalBin .mul x y = .ok v → Conf ct v l) ∧ (evalBin .mul y x = .ok v → Conf ct v l) := by
  obtain ⟨n, hn⟩ := hy.intLike hr
  have hxn : asNum? x = none ∧ isSeq x = true := by
    rcases hl with rfl | ⟨a, rfl⟩
    · obtain ⟨s, rfl⟩ := hx.str_inv; exact ⟨rfl, rfl⟩
    · obtain ⟨vs, rfl, _⟩ := hx.list_inv; exact ⟨rfl, rfl⟩
  have hys : isSeq y = false := by
    rcases hy.intShape hr with ⟨m, rfl, rfl⟩ | ⟨m, rfl, rfl⟩ <;> rfl
  constructor
  · intro h
    simp only [evalBin, hxn.1, hxn.2, if_true, hn] at h
    exact seqRepeat_conf hx hl h
  · intro h
    have hyn : ∃ m, asNum? y = some m := by
      rcases hy.intShape hr with ⟨m, rfl, rfl⟩ | ⟨m, rfl, rfl⟩ <;> exact ⟨_, rfl⟩
    obtain ⟨m, hm⟩ := hyn
    simp only [evalBin, hxn.1, hm, hys, hxn.2, if_true, hn, Bool.false_eq_true, if_false] at h
    exact seqRepeat_conf hx hl h

theorem evalBin_conf {op : BOp} {x y v : Val} {l r t : Ty} (hx : Conf ct x l) (hy : Conf ct y r)
    (hpy : pyBinTy op l r = some t) (h : evalBin op x y = .ok v) : Conf ct v t := by
  cases op <;> simp only [pyBinTy] at hpy
  case add =>
    split at hpy
    · rename_i hn
      simp only [Bool.and_eq_true] at hn
      cases hpy
      simpa using evalBin_num hx hy hn.1 hn.2 (Or.inl rfl) h
    · split at hpy
      · cases hpy
        obtain ⟨a, rfl⟩ := hx.str_inv
        obtain ⟨b, rfl⟩ := hy.str_inv
        simp only [evalBin] at h; cases h; constructor
      · split at hpy
        · rename_i a b hab
          cases hpy
          subst hab
          obtain ⟨vs, rfl, hvs⟩ := hx.list_inv
          obtain ⟨ws, rfl, hws⟩ := hy.list_inv
          simp only [evalBin] at h; cases h
          exact .list (hvs.append hws)
        · cases hpy
      · cases hpy
  case sub =>
    split at hpy
    · rename_i hn
      simp only [Bool.and_eq_true] at hn
      cases hpy
      simpa using evalBin_num hx hy hn.1 hn.2 (Or.inr (Or.inl rfl)) h
    · cases hpy
  case mod =>
    split at hpy
    · rename_i hn
      simp only [Bool.and_eq_true] at hn
      cases hpy
      simpa using evalBin_num hx hy hn.1 hn.2 (Or.inr (Or.inr (Or.inr (Or.inr rfl)))) h
    · cases hpy
  case div =>
    split at hpy
    · rename_i hn
      simp only [Bool.and_eq_true] at hn
      cases hpy
      simpa using evalBin_num hx hy hn.1 hn.2 (Or.inr (Or.inr (Or.inr (Or.inl rfl)))) h
    · cases hpy
  case mul =>
    split at hpy
    · rename_i hn
      simp only [Bool.and_eq_true] at hn
      cases hpy
      simpa using evalBin_num hx hy hn.1 hn.2 (Or.inr (Or.inr (Or.inl rfl))) h
    · split at hpy
      all_goals (first | (split at hpy <;> cases hpy) | cases hpy)
      · exact (evalBin_mul_seq hx hy (Or.inl rfl) ‹_›).1 h
      · exact (evalBin_mul_seq hx hy (Or.inr ⟨_, rfl⟩) ‹_›).1 h
      · exact (evalBin_mul_seq hy hx (Or.inl rfl) ‹_›).2 h
      · exact (evalBin_mul_seq hy hx (Or.inr ⟨_, rfl⟩) ‹_›).2 h
  case band =>
    have := evalBin_bit (op := .band) (v := v) hx hy
    split at hpy
    · rename_i hb; cases hpy
      simp only [Bool.and_eq_true, decide_eq_true_eq] at hb
      obtain ⟨rfl, rfl⟩ := hb
      simpa using this rfl rfl (Or.inl rfl) h
    · rename_i hb
      split at hpy
      · rename_i hi; cases hpy
        simp only [Bool.and_eq_true] at hi
        have := this hi.1 hi.2 (Or.inl rfl) h
        simpa [hb] using this
      · cases hpy
  case bor =>
    have := evalBin_bit (op := .bor) (v := v) hx hy
    split at hpy
    · rename_i hb; cases hpy
      simp only [Bool.and_eq_true, decide_eq_true_eq] at hb
      obtain ⟨rfl, rfl⟩ := hb
      simpa using this rfl rfl (Or.inr (Or.inl rfl)) h
    · rename_i hb
      split at hpy
      · rename_i hi; cases hpy
        simp only [Bool.and_eq_true] at hi
        have := this hi.1 hi.2 (Or.inr (Or.inl rfl)) h
        simpa [hb] using this
      · cases hpy
  case bxor =>
    have := evalBin_bit (op := .bxor) (v := v) hx hy
    split at hpy
    · rename_i hb; cases hpy
      simp only [Bool.and_eq_true, decide_eq_true_eq] at hb
      obtain ⟨rfl, rfl⟩ := hb
      simpa using this rfl rfl (Or.inr (Or.inr rfl)) h
    · rename_i hb
      split at hpy
      · rename_i hi; cases hpy
        simp only [Bool.and_eq_true] at hi
        have := this hi.1 hi.2 (Or.inr (Or.inr rfl)) h
        simpa [hb] using this
      · cases hpy
  case shl =>
    split at hpy
    · rename_i hi; cases hpy
      simp only [Bool.and_eq_true] at hi
      exact evalBin_shift hx hy hi.1 hi.2 (Or.inl rfl) h
    · cases hpy
  case shr =>
    split at hpy
    · rename_i hi; cases hpy
      simp only [Bool.and_eq_true] at hi
      exact evalBin_shift hx hy hi.1 hi.2 (Or.inr rfl) h
    · cases hpy
  all_goals (cases hpy)

theorem bind_ok_inv {α β : Type} {x : Except Err α} {f : α → Except Err β} {v : β} (h : (x >>= f) = .ok v) :
    ∃ a, x = .ok a ∧ f a = .ok v := by
  cases x with
  | error e => simp [bind, Except.bind] at h
  | ok a => exact ⟨a, rfl, by simpa [bind, Except.bind] using h⟩

theorem map_ok_inv {α β : Type} {x : Except Err α} {f : α → β} {v : β} (h : (f <$> x) = .ok v) :
    ∃ a, x = .ok a ∧ f a = v := by
  cases x with
  | error e => simp [Functor.map, Except.map] at h
  | ok a => exact ⟨a, rfl, by simpa [Functor.map, Except.map] using h⟩

theorem evalFactor_conf {op : UOp} {x v : Val} {t : Ty} (hx : Conf ct x t) (ht : factorOk op t = true)
    (h : evalFactor op x = .ok v) : Conf ct v (if t = .bool then .int else t) := by
  simp only [factorOk, Option.isSome_iff_exists] at ht
  obtain ⟨r, hr⟩ := ht
  have hreq := pyFactorTy_eq hr
  cases t <;> simp only [pyFactorTy] at hr <;> first
    | (cases hr; done)
    | skip
  · obtain ⟨n, rfl⟩ := hx.int_inv
    cases op <;> simp only [evalFactor, asInt?] at h <;> cases h <;> simp <;> constructor
  · obtain ⟨f, rfl⟩ := hx.float_inv
    cases op <;> simp only [evalFactor] at h <;> first | (cases h; simp; constructor) | (simp [pyFactorTy] at hr)
  · obtain ⟨b, rfl⟩ := hx.bool_inv
    cases op <;> simp only [evalFactor, asInt?] at h <;> cases h <;> simp <;> constructor

theorem evalCmpChain_bool (ρ : VEnv) : ∀ (c : Chain) (l v : Val), evalCmpChain W ρ l c = .ok v → Conf ct v .bool
  | .nil, l, v, h => by simp only [evalCmpChain] at h; cases h; constructor
  | .cons op e rest, l, v, h => by
    simp only [evalCmpChain] at h
    obtain ⟨r, _, h⟩ := bind_ok_inv h
    obtain ⟨c, _, h⟩ := bind_ok_inv h
    split at h
    · cases h; constructor
    · split at h
      · cases h; constructor
      · exact evalCmpChain_bool ρ _ r v h

theorem chainFrom_mem_class : ∀ (fuel : Nat) (c d : Str), d ∈ chainFrom ct fuel c → (findClass ct d).isSome = true
  | 0, _, _, h => by simp [chainFrom] at h
  | fuel + 1, c, d, h => by
    unfold chainFrom at h
    split at h
    · simp at h
    · rename_i dc hdc
      simp only [List.mem_cons, List.mem_flatMap] at h
      rcases h with rfl | ⟨b, _, h⟩
      · simp [hdc]
      · exact chainFrom_mem_class fuel b d h

theorem Conf.className_None (hn0 : findClass ct s_None = Option.none) {v : Val} {a : Ty} (h : Conf ct v a) (hn : a.className = s_None) : v = .none := by
  cases h <;> first
    | rfl
    | (simp [Ty.className, s_None, tIter, tItems, tPair, s_Iterator, s_ItemsView, s_Pair] at hn; done)
    | skip
  rename_i c d ns vs hd _
  simp only [Ty.className] at hn
  subst hn
  have := chainFrom_mem_class _ _ _ hd
  rw [hn0] at this
  simp at this

theorem Conf.stripNullable (hn0 : findClass ct s_None = Option.none) {v : Val} {T : Ty} (h : Conf ct v T) : Conf ct v (stripNullable T) ∨ v = .none := by
  unfold Infer.stripNullable
  split
  · rename_i a b
    dsimp only
    cases h with
    | union hm hc =>
      simp only [Tys.mem, Bool.or_false, Bool.or_eq_true, decide_eq_true_eq] at hm
      split
      · rename_i hne
        split
        · rename_i hcn
          rcases hm with rfl | rfl
          · exact Or.inr (hc.className_None hn0 hcn)
          · exact Or.inl hc
        · rename_i hcn
          rcases hm with rfl | hm
          · exact Or.inl hc
          · subst hm
            rename_i t
            by_cases hn1 : t.className = s_None
            · exact Or.inr (hc.className_None hn0 hn1)
            · exact absurd (by simp [hcn, hn1]) hne
      · exact Or.inl (.union (by simp only [Tys.mem, Bool.or_false, Bool.or_eq_true, decide_eq_true_eq]; exact hm) hc)
  · exact Or.inl h

theorem normIndex_lt {n j : Nat} {i : Int} (h : normIndex n i = some j) : j < n := by
  simp only [normIndex] at h
  split at h <;> split at h <;> first | (cases h; omega) | cases h

theorem normIndex_nat {n m j : Nat} (h : normIndex n (m : Int) = some j) : j = m := by
  simp only [normIndex] at h
  split at h <;> split at h <;> first | (cases h; omega) | cases h

theorem getD_mem {vs : List Val} {j : Nat} (h : j < vs.length) : vs.getD j .none ∈ vs := by
  simp only [List.getD, List.getElem?_eq_getElem h, Option.getD_some]
  exact List.getElem_mem h

theorem dictGet_mem : ∀ (ks vs : List Val) (k v : Val), dictGet ks vs k = some v → v ∈ vs
  | [], _, _, _, h => by simp [dictGet] at h
  | _ :: _, [], _, _, h => by simp [dictGet] at h
  | k' :: ks, v' :: vs, k, v, h => by
    simp only [dictGet] at h
    split at h
    · cases h; simp
    · exact List.mem_cons_of_mem _ (dictGet_mem ks vs k v h)

theorem ConfZip.length : ∀ {vs : List Val} {ts : Tys}, ConfZip ct vs ts → vs.length = ts.length
  | _, _, .nil => rfl
  | _, _, .cons _ h => by simp only [List.length_cons, Tys.length, ConfZip.length h]

theorem ConfZip.get : ∀ {vs : List Val} {ts : Tys} (n : Nat) (T : Ty), ConfZip ct vs ts → ts.get? n = some T → Conf ct (vs.getD n .none) T
  | _, _, _, _, .nil, h => by simp [Tys.get?] at h
  | _, _, 0, T, .cons hv _, h => by
    simp only [Tys.get?, Option.some.injEq] at h; subst h
    simpa using hv
  | _, _, n + 1, T, .cons _ hvs, h => by
    simp only [Tys.get?] at h
    simpa using ConfZip.get n T hvs h

theorem evalIndex_conf {u T : Ty} {k : Expr} {vr vk v : Val} (hs : indexShapeOk u k = true) (hr : Conf ct vr u)
    (ho : onIndex u k = .ok T) (hk : ∀ n, k = .int n → vk = .int n) (h : evalIndex vr vk = .ok v) : Conf ct v T := by
  cases u with
  | str =>
    obtain ⟨s, rfl⟩ := hr.str_inv
    simp only [onIndex, Except.ok.injEq] at ho; subst ho
    simp only [evalIndex] at h
    split at h
    · split at h
      · cases h; constructor
      · cases h
    · cases h
  | list t =>
    obtain ⟨vs, rfl, hvs⟩ := hr.list_inv
    simp only [onIndex, Except.ok.injEq] at ho; subst ho
    simp only [evalIndex] at h
    split at h
    · split at h
      · rename_i j hj
        cases h
        exact hvs.mem _ (getD_mem (normIndex_lt hj))
      · cases h
    · cases h
  | dict a b =>
    obtain ⟨ks, vs, rfl, _, hvs⟩ := hr.dict_inv
    simp only [onIndex, Except.ok.injEq] at ho; subst ho
    simp only [evalIndex] at h
    split at h
    · cases h
    · split at h
      · cases h
      · split at h
        · rename_i w hw
          cases h
          exact hvs.mem _ (dictGet_mem _ _ _ _ hw)
        · cases h
  | tuple ts =>
    cases k with
    | int n =>
      obtain ⟨vs, rfl, hvs⟩ := hr.tuple_inv
      have := hk n rfl; subst this
      simp only [indexShapeOk, decide_eq_true_eq] at hs
      simp only [onIndex] at ho
      split at ho
      · rename_i t ht
        cases ho
        simp only [evalIndex, asInt?] at h
        split at h
        · rename_i j hj
          cases h
          have : j = n := normIndex_nat hj
          subst this
          exact hvs.get _ _ ht
        · cases h
      · cases ho
    | _ => simp [indexShapeOk] at hs
  | _ => simp [indexShapeOk] at hs

theorem sliceList_mem {α : Type} (xs : List α) (lo hi : Option Int) : ∀ x ∈ sliceList xs lo hi, x ∈ xs := by
  intro x hx
  unfold sliceList at hx
  exact List.mem_of_mem_drop (List.mem_of_mem_take hx)

theorem ConfZip.drop : ∀ {vs : List Val} {ts : Tys} (n : Nat), ConfZip ct vs ts → ConfZip ct (vs.drop n) (Tys.drop ts n)
  | _, _, 0, h => by simpa [Tys.drop] using h
  | _, _, _ + 1, .nil => by simp only [List.drop_nil, Tys.drop]; exact .nil
  | _, _, n + 1, .cons _ h => by simpa [Tys.drop] using ConfZip.drop n h

theorem ConfZip.take : ∀ {vs : List Val} {ts : Tys} (n : Nat), ConfZip ct vs ts → ConfZip ct (vs.take n) (Tys.take ts n)
  | _, _, 0, _ => by simp only [List.take_zero, Tys.take]; exact .nil
  | _, _, _ + 1, .nil => by simp only [List.take_nil, Tys.take]; exact .nil
  | _, _, n + 1, .cons hv h => by simp only [List.take_succ_cons, Tys.take]; exact .cons hv (ConfZip.take n h)

/-- the value of a literal slice bound -/
def boundVal : Option Int → Val
  | some n => .int n
  | none => .none

theorem sliceBound_boundVal (b : Option Int) : sliceBound (boundVal b) = .ok b := by
  cases b <;> rfl

theorem clampIdx_eq (n : Nat) (i : Int) : clampIdx n i = clampIndex n i := rfl

/-- a literal bound evaluates to the number the handler reads -/
theorem literalBound_eval {W : World} {ρ : VEnv} {e : Expr} {b : Option Int} {v : Val} (hb : literalBound e = some b)
    (hv : eval W ρ e = .ok v) : v = boundVal b := by
  unfold literalBound at hb
  split at hb
  · cases hb; simp only [eval] at hv; cases hv; rfl
  · cases hb; simp only [eval] at hv; cases hv; rfl
  · cases hb
    simp only [eval, bind, Except.bind, evalFactor, asInt?] at hv
    cases hv; rfl
  · cases hb
    simp only [eval, bind, Except.bind, evalFactor, asInt?] at hv
    cases hv; rfl
  · cases hb

theorem evalSlice_conf {u : Ty} {elo ehi : Expr} {vr lo hi v : Val} (hs : sliceShapeOk u elo ehi = true) (hr : Conf ct vr u)
    (hlo : ∀ b, literalBound elo = some b → lo = boundVal b) (hhi : ∀ b, literalBound ehi = some b → hi = boundVal b)
    (h : evalSlice vr lo hi = .ok v) : Conf ct v (onSlice u elo ehi) := by
  cases u with
  | str =>
    obtain ⟨s, rfl⟩ := hr.str_inv
    simp only [evalSlice] at h
    obtain ⟨a, _, h⟩ := bind_ok_inv h
    obtain ⟨b, _, h⟩ := bind_ok_inv h
    cases h; constructor
  | list t =>
    obtain ⟨vs, rfl, hvs⟩ := hr.list_inv
    simp only [evalSlice] at h
    obtain ⟨a, _, h⟩ := bind_ok_inv h
    obtain ⟨b, _, h⟩ := bind_ok_inv h
    cases h
    exact .list (ConfAll.of_mem (fun x hx => hvs.mem x (sliceList_mem vs a b x hx)))
  | tuple ts =>
    obtain ⟨vs, rfl, hvs⟩ := hr.tuple_inv
    simp only [sliceShapeOk, Bool.and_eq_true, Option.isSome_iff_exists] at hs
    obtain ⟨⟨bl, hbl⟩, ⟨bh, hbh⟩⟩ := hs
    have h1 := hlo bl hbl
    have h2 := hhi bh hbh
    subst h1 h2
    simp only [evalSlice, sliceBound_boundVal] at h
    simp only [bind, Except.bind, pure, Except.pure, Except.ok.injEq] at h
    subst h
    simp only [onSlice, hbl, hbh, Tys.slice, sliceList, clampIdx_eq, ← hvs.length]
    exact .tuple (ConfZip.take _ (ConfZip.drop _ hvs))
  | _ => simp [sliceShapeOk] at hs

theorem dictPut_conf {k w : Ty} {a b : Val} (ha : Conf ct a k) (hb : Conf ct b w) :
    ∀ (ks vs : List Val), ConfAll ct ks k → ConfAll ct vs w → ConfAll ct (dictPut ks vs a b).1 k ∧ ConfAll ct (dictPut ks vs a b).2 w
  | [], _, _, _ => by simp only [dictPut]; exact ⟨.cons ha .nil, .cons hb .nil⟩
  | _ :: _, [], _, _ => by simp only [dictPut]; exact ⟨.cons ha .nil, .cons hb .nil⟩
  | k' :: ks, v' :: vs, hks, hvs => by
    cases hks with
    | cons hk' hks' =>
      cases hvs with
      | cons hv' hvs' =>
        simp only [dictPut]
        split
        · exact ⟨.cons hk' hks', .cons hb hvs'⟩
        · have := dictPut_conf ha hb ks vs hks' hvs'
          exact ⟨.cons hk' this.1, .cons hv' this.2⟩

theorem dictOfPairs_conf {k w : Ty} : ∀ (ps : List (Val × Val)) (acc : List Val × List Val),
    (∀ kv ∈ ps, Conf ct kv.1 k ∧ Conf ct kv.2 w) → ConfAll ct acc.1 k → ConfAll ct acc.2 w →
    ConfAll ct (dictOfPairs ps acc).1 k ∧ ConfAll ct (dictOfPairs ps acc).2 w
  | [], acc, _, h1, h2 => by simp only [dictOfPairs]; exact ⟨h1, h2⟩
  | (a, b) :: rest, (ks, vs), h, h1, h2 => by
    simp only [dictOfPairs]
    have hab := h (a, b) (by simp)
    have := dictPut_conf hab.1 hab.2 ks vs h1 h2
    exact dictOfPairs_conf rest _ (fun kv hkv => h kv (by simp [hkv])) this.1 this.2

theorem ConfList.nil_inv {vs : List Val} (h : ConfList ct vs []) : vs = [] := by cases h; rfl
theorem ConfList.cons_inv {vs : List Val} {t : Ty} {ts : List Ty} (h : ConfList ct vs (t :: ts)) :
    ∃ a as, vs = a :: as ∧ Conf ct a t ∧ ConfList ct as ts := by cases h; exact ⟨_, _, rfl, ‹_›, ‹_›⟩
theorem ConfList.one_inv {vs : List Val} {t : Ty} (h : ConfList ct vs [t]) : ∃ a, vs = [a] ∧ Conf ct a t := by
  obtain ⟨a, as, rfl, ha, has⟩ := h.cons_inv
  rw [has.nil_inv]; exact ⟨a, rfl, ha⟩
theorem ConfList.two_inv {vs : List Val} {t u : Ty} (h : ConfList ct vs [t, u]) : ∃ a b, vs = [a, b] ∧ Conf ct a t ∧ Conf ct b u := by
  obtain ⟨a, as, rfl, ha, has⟩ := h.cons_inv
  obtain ⟨b, rfl, hb⟩ := has.one_inv
  exact ⟨a, b, rfl, ha, hb⟩

theorem ConfAll.map_str (l : List Str) : ConfAll ct (l.map Val.str) .str :=
  ConfAll.of_mem (fun v hv => by
    simp only [List.mem_map] at hv
    obtain ⟨s, _, rfl⟩ := hv
    constructor)

theorem zipTuples_conf {k w : Ty} : ∀ (ks vs : List Val), ConfAll ct ks k → ConfAll ct vs w → ConfAll ct (zipTuples ks vs) (tPair k w)
  | [], _, _, _ => by simp only [zipTuples]; exact .nil
  | _ :: _, [], _, _ => by simp only [zipTuples]; exact .nil
  | a :: ks, b :: vs, hk, hv => by
    cases hk with
    | cons ha hks =>
      cases hv with
      | cons hb hvs =>
        simp only [zipTuples]
        exact .cons (.pair ha hb) (zipTuples_conf ks vs hks hvs)

theorem evalMethod_conf {recv v : Val} {tr T : Ty} {m : MName} {args : List Val} {ts : List Ty}
    (hr : Conf ct recv tr) (ha : ConfList ct args ts) (hpy : pyMethodTy tr m ts = some T) (h : evalMethod recv m args = .ok v) : Conf ct v T := by
  unfold pyMethodTy at hpy
  split at hpy
  case h_1 => -- split
    cases hpy
    obtain ⟨s, rfl⟩ := hr.str_inv
    obtain ⟨a, rfl, ha1⟩ := ha.one_inv
    obtain ⟨sep, rfl⟩ := ha1.str_inv
    simp only [evalMethod] at h
    split at h
    · cases h
    · cases h; exact .list (ConfAll.map_str _)
  case h_2 => -- join
    cases hpy
    obtain ⟨s, rfl⟩ := hr.str_inv
    obtain ⟨a, rfl, ha1⟩ := ha.one_inv
    obtain ⟨vs, rfl, _⟩ := ha1.list_inv
    simp only [evalMethod] at h
    split at h
    · cases h; constructor
    · cases h
  case h_3 => cases hpy; obtain ⟨s, rfl⟩ := hr.str_inv; rw [ha.nil_inv] at h; simp only [evalMethod] at h; cases h; constructor
  case h_4 => cases hpy; obtain ⟨s, rfl⟩ := hr.str_inv; rw [ha.nil_inv] at h; simp only [evalMethod] at h; cases h; constructor
  case h_5 =>
    cases hpy; obtain ⟨s, rfl⟩ := hr.str_inv; obtain ⟨a, rfl, ha1⟩ := ha.one_inv; obtain ⟨p, rfl⟩ := ha1.str_inv
    simp only [evalMethod] at h; cases h; constructor
  case h_6 =>
    cases hpy; obtain ⟨s, rfl⟩ := hr.str_inv; obtain ⟨a, rfl, ha1⟩ := ha.one_inv; obtain ⟨p, rfl⟩ := ha1.str_inv
    simp only [evalMethod] at h; split at h <;> cases h <;> constructor
  case h_7 =>
    cases hpy; obtain ⟨s, rfl⟩ := hr.str_inv; obtain ⟨a, rfl, ha1⟩ := ha.one_inv; obtain ⟨p, rfl⟩ := ha1.str_inv
    simp only [evalMethod] at h; cases h; constructor
  case h_8 =>
    cases hpy; obtain ⟨s, rfl⟩ := hr.str_inv; obtain ⟨a, rfl, ha1⟩ := ha.one_inv; obtain ⟨p, rfl⟩ := ha1.str_inv
    simp only [evalMethod] at h; cases h; constructor
  case h_9 =>
    cases hpy; obtain ⟨s, rfl⟩ := hr.str_inv; obtain ⟨a, rfl, ha1⟩ := ha.one_inv; obtain ⟨p, rfl⟩ := ha1.str_inv
    simp only [evalMethod] at h; cases h; constructor
  case h_10 =>
    cases hpy; obtain ⟨s, rfl⟩ := hr.str_inv; obtain ⟨a, rfl, ha1⟩ := ha.one_inv; obtain ⟨p, rfl⟩ := ha1.str_inv
    simp only [evalMethod] at h; cases h; constructor
  case h_11 =>
    cases hpy; obtain ⟨s, rfl⟩ := hr.str_inv; obtain ⟨a, rfl, ha1⟩ := ha.one_inv; obtain ⟨p, rfl⟩ := ha1.str_inv
    simp only [evalMethod] at h; cases h; constructor
  case h_12 =>
    cases hpy; obtain ⟨s, rfl⟩ := hr.str_inv; obtain ⟨a, b, rfl, ha1, hb⟩ := ha.two_inv
    obtain ⟨p, rfl⟩ := ha1.str_inv; obtain ⟨q, rfl⟩ := hb.str_inv
    simp only [evalMethod] at h; split at h <;> cases h; constructor
  case h_13 =>
    cases hpy; obtain ⟨vs, rfl, hvs⟩ := hr.list_inv; rw [ha.nil_inv] at h
    simp only [evalMethod] at h; cases h; exact .list hvs
  case h_14 =>
    cases hpy; obtain ⟨vs, rfl, hvs⟩ := hr.list_inv; obtain ⟨a, rfl, _⟩ := ha.one_inv
    simp only [evalMethod] at h
    split at h
    · cases h
    · split at h <;> cases h; constructor
  case h_15 =>
    cases hpy; obtain ⟨ks, vs, rfl, hks, hvs⟩ := hr.dict_inv; rw [ha.nil_inv] at h
    simp only [evalMethod] at h; cases h; exact .dict hks hvs
  case h_16 =>
    cases hpy; obtain ⟨ks, vs, rfl, hks, hvs⟩ := hr.dict_inv; rw [ha.nil_inv] at h
    simp only [evalMethod] at h; cases h; exact .iter hks
  case h_17 =>
    cases hpy; obtain ⟨ks, vs, rfl, hks, hvs⟩ := hr.dict_inv; rw [ha.nil_inv] at h
    simp only [evalMethod] at h; cases h; exact .iter hvs
  case h_18 =>
    cases hpy; obtain ⟨ks, vs, rfl, hks, hvs⟩ := hr.dict_inv; rw [ha.nil_inv] at h
    simp only [evalMethod] at h; cases h; exact .items (zipTuples_conf ks vs hks hvs)
  case h_19 =>
    split at hpy
    · rename_i hd
      cases hpy
      obtain ⟨ks, vs, rfl, hks, hvs⟩ := hr.dict_inv
      obtain ⟨a, b, rfl, _, hb⟩ := ha.two_inv
      subst hd
      simp only [evalMethod] at h
      split at h
      · cases h
      · split at h
        · cases h
        · cases h
          split
          · rename_i w hw; exact hvs.mem _ (dictGet_mem _ _ _ _ hw)
          · exact hb
    · cases hpy
  case h_20 => cases hpy

theorem Conf.iter_inv {v : Val} {t : Ty} (h : Conf ct v (tIter t)) : ∃ vs, v = .list vs ∧ ConfAll ct vs t := by
  cases h; exact ⟨_, rfl, ‹_›⟩
theorem Conf.items_inv {v : Val} {k w : Ty} (h : Conf ct v (tItems k w)) : ∃ vs, v = .list vs ∧ ConfAll ct vs (tPair k w) := by
  cases h; exact ⟨_, rfl, ‹_›⟩
theorem Conf.pair_inv {v : Val} {k w : Ty} (h : Conf ct v (tPair k w)) : ∃ a b, v = .tuple [a, b] ∧ Conf ct a k ∧ Conf ct b w := by
  cases h; exact ⟨_, _, rfl, ‹_›, ‹_›⟩

theorem rangeList_conf : ∀ (n i : Nat), ConfAll ct (rangeList n i) .int
  | 0, _ => .nil
  | n + 1, i => .cons (.int _) (rangeList_conf n (i + 1))

theorem enumFrom_conf {t : Ty} : ∀ (vs : List Val) (i : Nat), ConfAll ct vs t → ConfAll ct (enumFrom i vs) (.tuple (.cons .int (.cons t .nil)))
  | [], _, _ => .nil
  | v :: vs, i, h => by
    cases h with
    | cons hv hvs => exact .cons (.tuple (.cons (.int _) (.cons hv .nil))) (enumFrom_conf vs (i + 1) hvs)

theorem ConfAll.reverse {vs : List Val} {t : Ty} (h : ConfAll ct vs t) : ConfAll ct vs.reverse t :=
  ConfAll.of_mem (fun v hv => h.mem v (List.mem_reverse.mp hv))

theorem evalCmp_pick {op : BOp} {x y v : Val} {t : Ty} (hx : Conf ct x t) (hy : Conf ct y t)
    (h : ((evalCmp op y x).map fun c => if c then y else x) = .ok v) : Conf ct v t := by
  obtain ⟨c, _, hc⟩ := map_ok_inv h
  subst hc
  split
  · exact hy
  · exact hx

theorem evalFunc_conf {f : FName} {args : List Val} {ts : List Ty} {T : Ty} {v : Val}
    (ha : ConfList ct args ts) (hpy : pyFuncTy f ts = some T) (h : evalFunc f args = .ok v) : Conf ct v T := by
  cases f <;> simp only [pyFuncTy] at hpy
  case len_ =>
    split at hpy <;> cases hpy
    · obtain ⟨a, rfl, ha1⟩ := ha.one_inv; obtain ⟨s, rfl⟩ := ha1.str_inv; simp only [evalFunc] at h; cases h; constructor
    · obtain ⟨a, rfl, ha1⟩ := ha.one_inv; obtain ⟨s, rfl, _⟩ := ha1.list_inv; simp only [evalFunc] at h; cases h; constructor
    · obtain ⟨a, rfl, ha1⟩ := ha.one_inv; obtain ⟨ks, vs, rfl, _, _⟩ := ha1.dict_inv; simp only [evalFunc] at h; cases h; constructor
    · obtain ⟨a, rfl, ha1⟩ := ha.one_inv; obtain ⟨s, rfl, _⟩ := ha1.tuple_inv; simp only [evalFunc] at h; cases h; constructor
  case abs_ =>
    split at hpy <;> cases hpy
    · obtain ⟨a, rfl, ha1⟩ := ha.one_inv; obtain ⟨s, rfl⟩ := ha1.int_inv; simp only [evalFunc, asInt?] at h; cases h; constructor
    · obtain ⟨a, rfl, ha1⟩ := ha.one_inv; obtain ⟨s, rfl⟩ := ha1.bool_inv; simp only [evalFunc, asInt?] at h; cases h; constructor
    · obtain ⟨a, rfl, ha1⟩ := ha.one_inv; obtain ⟨s, rfl⟩ := ha1.float_inv; simp only [evalFunc] at h; cases h; constructor
  case min_ =>
    split at hpy
    · split at hpy
      · rename_i hc
        cases hpy
        simp only [Bool.and_eq_true, decide_eq_true_eq] at hc
        obtain ⟨x, y, rfl, hx, hy⟩ := ha.two_inv
        rw [← hc.1] at hy
        simp only [evalFunc] at h
        exact evalCmp_pick hx hy h
      · cases hpy
    · cases hpy
  case max_ =>
    split at hpy
    · split at hpy
      · rename_i hc
        cases hpy
        simp only [Bool.and_eq_true, decide_eq_true_eq] at hc
        obtain ⟨x, y, rfl, hx, hy⟩ := ha.two_inv
        rw [← hc.1] at hy
        simp only [evalFunc] at h
        exact evalCmp_pick hx hy h
      · cases hpy
    · cases hpy
  case int_ =>
    split at hpy
    · split at hpy
      · rename_i hn
        cases hpy
        obtain ⟨a, rfl, ha1⟩ := ha.one_inv
        rcases ha1.numShape hn with ⟨n, rfl, rfl⟩ | ⟨n, rfl, rfl⟩ | ⟨n, rfl, rfl⟩ <;>
          simp only [evalFunc, asInt?] at h <;> cases h <;> constructor
      · cases hpy
    · cases hpy
  case float_ =>
    split at hpy
    · split at hpy
      · rename_i hn
        cases hpy
        obtain ⟨a, rfl, ha1⟩ := ha.one_inv
        rcases ha1.numShape hn with ⟨n, rfl, rfl⟩ | ⟨n, rfl, rfl⟩ | ⟨n, rfl, rfl⟩ <;>
          simp only [evalFunc, asNum?] at h <;> cases h <;> constructor
      · cases hpy
    · cases hpy
  case bool_ =>
    split at hpy
    · cases hpy
      obtain ⟨a, rfl, _⟩ := ha.one_inv
      simp only [evalFunc] at h; cases h; constructor
    · cases hpy
  case str_ =>
    split at hpy <;> cases hpy
    · obtain ⟨a, rfl, ha1⟩ := ha.one_inv; obtain ⟨s, rfl⟩ := ha1.str_inv; simp only [evalFunc] at h; cases h; constructor
    · obtain ⟨a, rfl, ha1⟩ := ha.one_inv; obtain ⟨s, rfl⟩ := ha1.int_inv; simp only [evalFunc] at h; cases h; constructor
    · obtain ⟨a, rfl, ha1⟩ := ha.one_inv; obtain ⟨s, rfl⟩ := ha1.bool_inv; simp only [evalFunc] at h; cases h; constructor
    · obtain ⟨a, rfl, ha1⟩ := ha.one_inv; have := ha1.none_inv; subst this; simp only [evalFunc] at h; cases h; constructor
  case list_ =>
    split at hpy
    · cases hpy
      obtain ⟨a, rfl, ha1⟩ := ha.one_inv; obtain ⟨vs, rfl, hvs⟩ := ha1.list_inv
      simp only [evalFunc, iterItems] at h; cases h; exact .list hvs
    · cases hpy
      obtain ⟨a, rfl, ha1⟩ := ha.one_inv; obtain ⟨ks, vs, rfl, hks, _⟩ := ha1.dict_inv
      simp only [evalFunc, iterItems] at h; cases h; exact .list hks
    · split at hpy
      · rename_i hn; subst hn; cases hpy
        obtain ⟨a, rfl, ha1⟩ := ha.one_inv; obtain ⟨vs, rfl, hvs⟩ := Conf.iter_inv ha1
        simp only [evalFunc, iterItems] at h; cases h; exact .list hvs
      · cases hpy
    · cases hpy
  case range_ =>
    split at hpy
    · split at hpy
      · rename_i hn
        cases hpy
        obtain ⟨a, rfl, ha1⟩ := ha.one_inv
        rcases ha1.intShape hn with ⟨n, rfl, rfl⟩ | ⟨n, rfl, rfl⟩ <;>
          simp only [evalFunc, asInt?] at h <;> cases h <;> exact .iter (rangeList_conf _ _)
      · cases hpy
    · cases hpy
  case reversed_ =>
    split at hpy
    · cases hpy
      obtain ⟨a, rfl, ha1⟩ := ha.one_inv; obtain ⟨vs, rfl, hvs⟩ := ha1.list_inv
      simp only [evalFunc] at h; cases h; exact .iter hvs.reverse
    · cases hpy
  case enumerate_ =>
    split at hpy
    · cases hpy
      obtain ⟨a, rfl, ha1⟩ := ha.one_inv; obtain ⟨vs, rfl, hvs⟩ := ha1.list_inv
      simp only [evalFunc, iterItems] at h; cases h; exact .iter (enumFrom_conf _ _ hvs)
    · split at hpy
      · rename_i hn; subst hn; cases hpy
        obtain ⟨a, rfl, ha1⟩ := ha.one_inv; obtain ⟨vs, rfl, hvs⟩ := Conf.iter_inv ha1
        simp only [evalFunc, iterItems] at h; cases h; exact .iter (enumFrom_conf _ _ hvs)
      · cases hpy
    · cases hpy
  case other => cases hpy

theorem compLoop_all {α : Type} {f : Val → Except Err (Option α)} {P : α → Prop} :
    ∀ (items : List Val) (out : List α), compLoop f items = .ok out →
    (∀ item ∈ items, ∀ a, f item = .ok (some a) → P a) → ∀ a ∈ out, P a
  | [], out, h, _ => by simp only [compLoop] at h; cases h; intro a ha; simp at ha
  | v :: vs, out, h, hf => by
    simp only [compLoop] at h
    obtain ⟨r, hr, h⟩ := bind_ok_inv h
    obtain ⟨rest, hrest, h⟩ := bind_ok_inv h
    have ih := compLoop_all vs rest hrest (fun item hi => hf item (by simp [hi]))
    simp only [pure, Except.pure, Except.ok.injEq] at h
    subst h
    intro a ha
    split at ha
    · rename_i b
      simp only [List.mem_cons] at ha
      rcases ha with rfl | ha
      · exact hf v (by simp) _ hr
      · exact ih a ha
    · exact ih a ha

theorem Conf.user_inv {v : Val} {d : Str} (h : Conf ct v (.cls d .nil)) : ∃ c ns vs, v = .obj c ns vs := by
  cases h; exact ⟨_, _, _, rfl⟩

theorem iterItemsW_conf (hW : WorldConf ct W) {v : Val} {tsrc elem : Ty} {items : List Val} (hv : Conf ct v tsrc)
    (hpy : pyIterTy ct tsrc = some elem) (h : iterItemsW W v = .ok items) : ConfAll ct items elem := by
  unfold pyIterTy at hpy
  split at hpy
  · cases hpy
    obtain ⟨vs, rfl, hvs⟩ := hv.list_inv
    simp only [iterItemsW, iterItems] at h; cases h; exact hvs
  · cases hpy
    obtain ⟨ks, vs, rfl, hks, _⟩ := hv.dict_inv
    simp only [iterItemsW, iterItems] at h; cases h; exact hks
  · split at hpy
    · rename_i hn; subst hn; cases hpy
      obtain ⟨vs, rfl, hvs⟩ := Conf.iter_inv hv
      simp only [iterItemsW, iterItems] at h; cases h; exact hvs
    · cases hpy
  · split at hpy
    · rename_i hn; subst hn; cases hpy
      obtain ⟨vs, rfl, hvs⟩ := Conf.items_inv hv
      simp only [iterItemsW, iterItems] at h; cases h; exact hvs
    · cases hpy
  · rename_i c
    obtain ⟨c0, ns, vs, rfl⟩ := hv.user_inv
    split at hpy
    · rename_i mi hmi
      split at hpy
      · cases hpy
      · rename_i hk
        have hkm : mi.kind = .method := by simpa using hk
        simp only [iterItemsW] at h
        split at hpy
        · -- `__iter__` is declared to return a builtin iterator
          rename_i n t hty
          split at hpy
          · rename_i hn; subst hn; cases hpy
            split at h
            · rename_i ws hcall
              cases h
              have := hW.call_ok _ c s_iter [] mi _ hv hmi (Or.inl hkm) hcall
              rw [hty] at this
              obtain ⟨ws', hws', hall⟩ := Conf.iter_inv this
              cases hws'; exact hall
            · rename_i c' ns' vs' hcall
              have := hW.call_ok _ c s_iter [] mi _ hv hmi (Or.inl hkm) hcall
              rw [hty] at this
              obtain ⟨ws', hws', _⟩ := Conf.iter_inv this
              cases hws'
            · cases h
            · cases h
          · cases hpy
        · -- classic protocol: `__iter__` is declared to return an instance of a class whose `__next__` yields the items
          rename_i c' hty
          split at hpy
          · rename_i mn hmn
            split at hpy
            · rename_i hkn
              cases hpy
              split at h
              · rename_i ws hcall
                have := hW.call_ok _ c s_iter [] mi _ hv hmi (Or.inl hkm) hcall
                rw [hty] at this
                obtain ⟨_, _, _, hx⟩ := this.user_inv
                cases hx
              · rename_i c2 ns2 vs2 hcall
                have hit := hW.call_ok _ c s_iter [] mi _ hv hmi (Or.inl hkm) hcall
                rw [hty] at hit
                exact ConfAll.of_mem (hW.nexts_ok _ c' mn items hit hmn hkn h)
              · cases h
              · cases h
            · cases hpy
          · cases hpy
        · cases hpy
    · cases hpy
  · cases hpy

/-- `ρ₁ ⊨ Γ₁` with equal domains, so that it extends any `ρ ⊨ Γ` -/
def EnvConfS (ct : ClassTable) (ρ₁ : VEnv) (Γ₁ : Env) : Prop :=
  ∀ x, match lookup x Γ₁ with
    | some T => ∃ v, lookup x ρ₁ = some v ∧ Conf ct v T
    | none => lookup x ρ₁ = none

theorem EnvConf.extend {ρ₁ ρ : VEnv} {Γ₁ Γ : Env} (h₁ : EnvConfS ct ρ₁ Γ₁) (h : EnvConf ct ρ Γ) : EnvConf ct (ρ₁ ++ ρ) (Γ₁ ++ Γ) := by
  intro x T hx
  rw [lookup_append] at hx
  rw [lookup_append]
  have := h₁ x
  split at hx
  · rename_i T' hT'
    cases hx
    rw [hT'] at this
    obtain ⟨v, hv, hc⟩ := this
    exact ⟨v, by rw [hv], hc⟩
  · rename_i hn
    rw [hn] at this
    simp only at this
    rw [this]
    exact h x T hx

theorem bindItem_conf {vars : List Str} {elem : Ty} {item : Val} {bs : VEnv} (hv : varsOk vars elem = true)
    (hc : Conf ct item elem) (h : bindItem vars item = .ok bs) : EnvConfS ct bs (bindVars vars elem) := by
  unfold varsOk at hv
  split at hv
  · rename_i y
    simp only [bindItem] at h; cases h
    intro x
    simp only [bindVars, lookup]
    by_cases hxy : x = y
    · simp only [hxy, if_true]; exact ⟨item, rfl, hc⟩
    · simp only [hxy, if_false]
  · rename_i y z
    split at hv
    · rename_i a b
      obtain ⟨vs, rfl, hvs⟩ := hc.tuple_inv
      cases hvs with
      | cons ha hrest =>
        cases hrest with
        | cons hb hnil =>
          cases hnil
          simp only [bindItem, List.length_cons, List.length_nil, if_true] at h
          cases h
          intro x
          simp only [bindVars, Ty.attrs, bindVarsFrom, Tys.get?, Option.getD, List.zip_cons_cons, List.zip_nil_right, lookup]
          by_cases hxy : x = y
          · simp only [hxy, if_true]; exact ⟨_, rfl, ha⟩
          · by_cases hxz : x = z
            · subst hxz; simp only [hxy, if_true, if_false]; exact ⟨_, rfl, hb⟩
            · simp only [hxy, hxz, if_false]
    · rename_i n a b hn
      simp only [decide_eq_true_eq] at hv
      subst hv
      obtain ⟨va, vb, rfl, ha, hb⟩ := Conf.pair_inv hc
      simp only [bindItem, List.length_cons, List.length_nil, if_true] at h
      cases h
      intro x
      simp only [bindVars, Ty.attrs, bindVarsFrom, Tys.get?, Option.getD, List.zip_cons_cons, List.zip_nil_right, lookup]
      by_cases hxy : x = y
      · simp only [hxy, if_true]; exact ⟨_, rfl, ha⟩
      · by_cases hxz : x = z
        · subst hxz; simp only [hxy, if_true, if_false]; exact ⟨_, rfl, hb⟩
        · simp only [hxy, hxz, if_false]
    · cases hv
  · cases hv

/-! ## soundness: the induction -/

theorem ConfList.all_eq {t : Ty} : ∀ {vs : List Val} {Ts : List Ty}, ConfList ct vs Ts → (∀ u ∈ Ts, u = t) → ConfAll ct vs t
  | _, _, .nil, _ => .nil
  | _, _, .cons hv hvs, h => by
    have := h _ (List.mem_cons_self ..)
    subst this
    exact .cons hv (ConfList.all_eq hvs (fun u hu => h u (List.mem_cons_of_mem _ hu)))

theorem ConfList.zip : ∀ {vs : List Val} {Ts : List Ty}, ConfList ct vs Ts → ConfZip ct vs (Tys.ofList Ts)
  | _, _, .nil => .nil
  | _, _, .cons hv hvs => .cons hv (ConfList.zip hvs)

theorem Conf.truthy_bool {v : Val} (h : Conf ct v .bool) : ∃ b, v = .bool b := h.bool_inv

theorem pyMethodTy_notObj {tr T : Ty} {m : MName} {ts : List Ty} {vr : Val} (h : pyMethodTy tr m ts = some T) (hc : Conf ct vr tr) :
    ∀ c ns fs, vr ≠ .obj c ns fs := by
  intro c ns fs hv
  subst hv
  cases hc with
  | obj _ _ => simp [pyMethodTy] at h
  | union _ _ => simp [pyMethodTy] at h

theorem userCallTy_inv {tr t : Ty} {m : Str} {ts : List Ty} (h : userCallTy ct tr m ts = some t) :
    ∃ c mem, tr = .cls c .nil ∧ memberOf ct c m = some mem ∧ (mem.kind = .method ∨ mem.kind = .classMethod) ∧ t = mem.ty := by
  unfold userCallTy at h
  split at h
  · rename_i c
    split at h
    · rename_i mem hm
      split at h
      · rename_i hk
        simp only [Bool.and_eq_true, Bool.or_eq_true, decide_eq_true_eq] at hk
        split at h
        · split at h
          · cases h; exact ⟨c, mem, rfl, hm, hk.1, rfl⟩
          · cases h
        · cases h
      · cases h
    · cases h
  · cases h

theorem Conf.field_get {c d : Str} {ns : List Str} {vs : List Val} {a : Str} {mem : Member}
    (h : Conf ct (.obj c ns vs) (.cls d .nil)) (hm : memberOf ct d a = some mem) (hn : mem.name = a) (hk : mem.kind = .field) :
    ∃ x, fieldGet ns vs a = some x ∧ Conf ct x mem.ty := by
  cases h with
  | obj hd hf =>
    have hmem : memberOf ct d a = some ⟨a, .field, mem.ty⟩ := by
      rw [hm]; cases mem; simp_all
    cases hf d a mem.ty hd hmem with
    | mk hg hc => exact ⟨_, hg, hc⟩

mutual
theorem sound_expr (hW : WorldConf ct W) : ∀ (e : Expr) (Γ : Env) (ρ : VEnv) (T : Ty) (v : Val),
    wt ct Γ e = true → EnvConf ct ρ Γ → InfOK ct Γ e T → eval W ρ e = .ok v → Conf ct v T
  | .int _, _, _, T, v, _, _, hT, hev => by
    have := hT false; simp only [infer] at this; rw [← pair_ok_inj this]
    simp only [eval] at hev; cases hev; constructor
  | .float _, _, _, T, v, _, _, hT, hev => by
    have := hT false; simp only [infer] at this; rw [← pair_ok_inj this]
    simp only [eval] at hev; cases hev; constructor
  | .str _, _, _, T, v, _, _, hT, hev => by
    have := hT false; simp only [infer] at this; rw [← pair_ok_inj this]
    simp only [eval] at hev; cases hev; constructor
  | .true_, _, _, T, v, _, _, hT, hev => by
    have := hT false; simp only [infer] at this; rw [← pair_ok_inj this]
    simp only [eval] at hev; cases hev; constructor
  | .false_, _, _, T, v, _, _, hT, hev => by
    have := hT false; simp only [infer] at this; rw [← pair_ok_inj this]
    simp only [eval] at hev; cases hev; constructor
  | .none_, _, _, T, v, _, _, hT, hev => by
    have := hT false; simp only [infer] at this; rw [← pair_ok_inj this]
    simp only [eval] at hev; cases hev; constructor
  | .empty_, _, _, T, v, _, _, hT, hev => by
    have := hT false; simp only [infer] at this; rw [← pair_ok_inj this]
    simp only [eval] at hev; cases hev; constructor
  | .var x, Γ, ρ, T, v, h, henv, hT, hev => by
    unfold wt at h
    split at h
    · rename_i t ht
      have := hT false
      simp only [infer, ht] at this
      simp only [ne_eq, decide_eq_true_eq] at h
      simp only [h, if_false] at this
      rw [← pair_ok_inj this]
      obtain ⟨w, hw, hc⟩ := henv x t ht
      simp only [eval, hw] at hev
      cases hev; exact hc
    · exact absurd h (by simp)
  | .factor op e, Γ, ρ, T, v, h, henv, hT, hev => by
    unfold wt at h
    simp only [Bool.and_eq_true] at h
    obtain ⟨Te, hTe⟩ := infer_ok e Γ h.1
    have h2 := h.2
    rw [hTe.inferT] at h2
    simp only [tyOk] at h2
    have := hT false
    simp only [infer, hTe false, R.bind_ok] at this
    simp only [eval] at hev
    obtain ⟨w, hw, hev⟩ := bind_ok_inv hev
    have hc := evalFactor_conf (sound_expr hW e Γ ρ Te w h.1 henv hTe hw) h2 hev
    split at this
    · rename_i hb
      rw [← pair_ok_inj this]; simpa only [hb, if_true] using hc
    · rename_i hb
      rw [← pair_ok_inj this]; simpa only [hb, if_false] using hc
  | .not_ e, Γ, ρ, T, v, h, henv, hT, hev => by
    unfold wt at h
    obtain ⟨Te, hTe⟩ := infer_ok e Γ h
    have := hT false
    simp only [infer, hTe false, R.bind_ok] at this
    rw [← pair_ok_inj this]
    simp only [eval] at hev
    obtain ⟨w, _, hev⟩ := bind_ok_inv hev
    cases hev; constructor
  | .bin e rest, Γ, ρ, T, v, h, henv, hT, hev => by
    unfold wt at h
    simp only [Bool.and_eq_true] at h
    obtain ⟨⟨h1, h2⟩, h3⟩ := h
    obtain ⟨Te, hTe⟩ := infer_ok e Γ h1
    obtain ⟨ops, hops⟩ := inferChain_ok rest Γ h2
    rw [hTe.inferT, hops.inferT] at h3
    simp only at h3
    have := hT false
    simp only [infer, hTe false, hops false, R.bind_ok, R.lift, Prod.mk.injEq, and_true] at this
    simp only [eval] at hev
    obtain ⟨vl, hvl, hev⟩ := bind_ok_inv hev
    exact sound_chain hW rest Γ ρ ops Te T vl v h2 henv hops (sound_expr hW e Γ ρ Te vl h1 henv hTe hvl) h3 this hev
  | .cmp e rest, Γ, ρ, T, v, h, henv, hT, hev => by
    unfold wt at h
    simp only [Bool.and_eq_true] at h
    obtain ⟨Te, hTe⟩ := infer_ok e Γ h.1
    obtain ⟨ops, hops⟩ := inferChain_ok rest Γ h.2
    have := hT false
    simp only [infer, hTe false, hops false, R.bind_ok] at this
    rw [← pair_ok_inj this]
    simp only [eval] at hev
    obtain ⟨vl, _, hev⟩ := bind_ok_inv hev
    exact evalCmpChain_bool ρ rest vl v hev
  | .and_ es, Γ, ρ, T, v, h, henv, hT, hev => by
    unfold wt at h
    simp only [Bool.and_eq_true] at h
    obtain ⟨Ts, hTs⟩ := inferList_ok es Γ h.1
    have h2 := h.2
    rw [hTs.inferT] at h2
    simp only [List.all_eq_true, decide_eq_true_eq] at h2
    have := hT false
    simp only [infer, hTs false, R.bind_ok] at this
    rw [← pair_ok_inj this]
    simp only [eval] at hev
    exact sound_and hW es Γ ρ Ts v h.1 henv hTs h2 hev
  | .or_ es, Γ, ρ, T, v, h, henv, hT, hev => by
    unfold wt at h
    simp only [Bool.and_eq_true] at h
    obtain ⟨Ts, hTs⟩ := inferList_ok es Γ h.1
    have h2 := h.2
    rw [hTs.inferT] at h2
    simp only [List.all_eq_true, decide_eq_true_eq] at h2
    have := hT false
    simp only [infer, hTs false, R.bind_ok] at this
    rw [← pair_ok_inj this]
    simp only [eval] at hev
    exact sound_or hW es Γ ρ Ts v h.1 henv hTs h2 hev
  | .tern a c d, Γ, ρ, T, v, h, henv, hT, hev => by
    unfold wt at h
    simp only [Bool.and_eq_true] at h
    obtain ⟨Ta, hTa⟩ := infer_ok a Γ h.1.1
    obtain ⟨Tc, hTc⟩ := infer_ok c Γ h.1.2
    obtain ⟨Td, hTd⟩ := infer_ok d Γ h.2
    have := hT false
    simp only [infer, hTa false, hTc false, hTd false, R.bind_ok] at this
    simp only [eval] at hev
    obtain ⟨vc, _, hev⟩ := bind_ok_inv hev
    split at hev
    · have hc := sound_expr hW a Γ ρ Ta v h.1.1 henv hTa hev
      split at this
      · rw [← pair_ok_inj this]; exact hc
      · rw [← pair_ok_inj this]
        exact .union (t := Ta) (by simp [Tys.mem]) hc
    · have hc := sound_expr hW d Γ ρ Td v h.2 henv hTd hev
      split at this
      · rename_i heq
        rw [← pair_ok_inj this, heq]; exact hc
      · rw [← pair_ok_inj this]
        exact .union (t := Td) (by simp [Tys.mem]) hc
  | .list es, Γ, ρ, T, v, h, henv, hT, hev => by
    unfold wt at h
    simp only [Bool.and_eq_true] at h
    obtain ⟨Ts, hTs⟩ := inferList_ok es Γ h.1
    have h2 := h.2
    rw [hTs.inferT] at h2
    split at h2
    · rename_i t ts heq
      simp only [Except.ok.injEq] at heq
      simp only [Bool.and_eq_true, decide_eq_true_eq] at h2
      have := hT false
      simp only [infer, hTs false, R.bind_ok, heq] at this
      rw [onList_const t ts false h2.1 (by simpa using h2.2)] at this
      rw [← pair_ok_inj this]
      simp only [eval] at hev
      obtain ⟨vs, hvs, hev⟩ := bind_ok_inv hev
      cases hev
      have hl := sound_list hW es Γ ρ Ts vs h.1 henv hTs hvs
      refine .list (hl.all_eq (fun u hu => ?_))
      rw [heq] at hu
      simp only [List.mem_cons] at hu
      rcases hu with rfl | hu
      · rfl
      · have := List.all_eq_true.mp h2.1 u hu
        simpa using this
    · exact absurd h2 (by simp)
  | .dict kvs, Γ, ρ, T, v, h, henv, hT, hev => by
    unfold wt at h
    simp only [Bool.and_eq_true] at h
    obtain ⟨items, hitems⟩ := inferPairs_ok kvs Γ h.1
    have h2 := h.2
    rw [hitems.inferT] at h2
    split at h2
    · rename_i kv rest heq
      simp only [Except.ok.injEq] at heq
      simp only [Bool.and_eq_true, decide_eq_true_eq] at h2
      have := hT false
      simp only [infer, hitems false, R.bind_ok, heq] at this
      rw [onDict_const kv rest (by simpa using h2.2)] at this
      rw [← pair_ok_inj this]
      simp only [eval] at hev
      obtain ⟨ps, hps, hev⟩ := bind_ok_inv hev
      split at hev
      · cases hev
      · split at hev
        · cases hev
        · cases hev
          have hall := sound_pairs hW kvs Γ ρ items ps h.1 henv hitems hps kv (by
            intro x hx
            rw [heq] at hx
            simp only [List.mem_cons] at hx
            rcases hx with rfl | hx
            · rfl
            · have := List.all_eq_true.mp h2.1 x hx
              simpa using this)
          have := dictOfPairs_conf (k := kv.1) (w := kv.2) ps ([], []) hall .nil .nil
          exact .dict this.1 this.2
    · exact absurd h2 (by simp)
  | .tuple es, Γ, ρ, T, v, h, henv, hT, hev => by
    unfold wt at h
    obtain ⟨Ts, hTs⟩ := inferList_ok es Γ h
    have := hT false
    simp only [infer, hTs false, R.bind_ok] at this
    rw [← pair_ok_inj this]
    simp only [eval] at hev
    obtain ⟨vs, hvs, hev⟩ := bind_ok_inv hev
    cases hev
    exact .tuple (sound_list hW es Γ ρ Ts vs h henv hTs hvs).zip
  | .index r k, Γ, ρ, T, v, h, henv, hT, hev => by
    unfold wt at h
    simp only [Bool.and_eq_true] at h
    obtain ⟨Tr, hTr⟩ := infer_ok r Γ h.1.1
    obtain ⟨Tk, hTk⟩ := infer_ok k Γ h.1.2
    have h2 := h.2
    rw [hTr.inferT] at h2
    simp only [tyOk, indexOk] at h2
    have := hT false
    simp only [infer, hTr false, hTk false, R.bind_ok, R.lift, Prod.mk.injEq, and_true] at this
    simp only [eval] at hev
    obtain ⟨vr, hvr, hev⟩ := bind_ok_inv hev
    obtain ⟨vk, hvk, hev⟩ := bind_ok_inv hev
    have hcr := sound_expr hW r Γ ρ Tr vr h.1.1 henv hTr hvr
    have hkk : ∀ n, k = .int n → vk = .int n := by
      intro n hn; subst hn; simp only [eval] at hvk; cases hvk; rfl
    rcases (hcr.stripNullable hW.no_None) with hcr' | rfl
    · exact evalIndex_conf h2 hcr' this hkk hev
    · simp only [evalIndex] at hev; cases hev
  | .slice r lo hi, Γ, ρ, T, v, h, henv, hT, hev => by
    unfold wt at h
    simp only [Bool.and_eq_true] at h
    obtain ⟨Tr, hTr⟩ := infer_ok r Γ h.1.1.1
    obtain ⟨Tl, hTl⟩ := infer_ok lo Γ h.1.1.2
    obtain ⟨Th, hTh⟩ := infer_ok hi Γ h.1.2
    have h2 := h.2
    rw [hTr.inferT] at h2
    simp only [tyOk, sliceOk] at h2
    have := hT false
    simp only [infer, hTr false, hTl false, hTh false, R.bind_ok] at this
    rw [← pair_ok_inj this]
    simp only [eval] at hev
    obtain ⟨vr, hvr, hev⟩ := bind_ok_inv hev
    obtain ⟨vlo, hvlo, hev⟩ := bind_ok_inv hev
    obtain ⟨vhi, hvhi, hev⟩ := bind_ok_inv hev
    have hcr := sound_expr hW r Γ ρ Tr vr h.1.1.1 henv hTr hvr
    have hblo : ∀ b, literalBound lo = some b → vlo = boundVal b := fun b hb => literalBound_eval hb hvlo
    have hbhi : ∀ b, literalBound hi = some b → vhi = boundVal b := fun b hb => literalBound_eval hb hvhi
    rcases (hcr.stripNullable hW.no_None) with hcr' | rfl
    · exact evalSlice_conf h2 hcr' hblo hbhi hev
    · simp only [evalSlice] at hev; cases hev
  | .group e, Γ, ρ, T, v, h, henv, hT, hev => by
    unfold wt at h
    simp only [eval] at hev
    exact sound_expr hW e Γ ρ T v h henv (fun s => by have := hT s; simpa only [infer] using this) hev
  | .attr r a, Γ, ρ, T, v, h, henv, hT, hev => by
    unfold wt at h
    simp only [Bool.and_eq_true] at h
    obtain ⟨Tr, hTr⟩ := infer_ok r Γ h.1
    have h2 := h.2
    rw [hTr.inferT] at h2
    simp only [tyOk] at h2
    obtain ⟨c, mem, hc, hm, hn, hk⟩ := attrOk_inv h2
    have := hT false
    simp only [infer, hTr false, R.bind_ok, R.lift, attr_infer hc hm hk] at this
    rw [← pair_ok_inj this]
    simp only [eval] at hev
    obtain ⟨vr, hvr, hev⟩ := bind_ok_inv hev
    have hcr := sound_expr hW r Γ ρ Tr vr h.1 henv hTr hvr
    rcases (hcr.stripNullable hW.no_None) with hcr' | rfl
    · rw [hc] at hcr'
      obtain ⟨c0, ns, vs, rfl⟩ := hcr'.user_inv
      simp only at hev
      rcases hk with hk | hk | hk
      · obtain ⟨x, hx, hcx⟩ := hcr'.field_get hm hn hk
        rw [hx] at hev
        cases hev; exact hcx
      · split at hev
        · -- an instance attribute of the same name shadows the class variable: not a declared field, nothing is known of it
          rename_i x hx
          cases hev
          exact hW.shadow_ok _ _ _ c a mem _ hcr' hm (Or.inl hk) hx
        · exact hW.classAttr_ok _ c a mem v hcr' hm (Or.inl hk) hev
      · split at hev
        · rename_i x hx
          cases hev
          exact hW.shadow_ok _ _ _ c a mem _ hcr' hm (Or.inr hk) hx
        · exact hW.classAttr_ok _ c a mem v hcr' hm (Or.inr hk) hev
    · simp only at hev; cases hev
  | .call r m args, Γ, ρ, T, v, h, henv, hT, hev => by
    unfold wt at h
    simp only [Bool.and_eq_true] at h
    obtain ⟨Tr, hTr⟩ := infer_ok r Γ h.1.1
    obtain ⟨Ts, hTs⟩ := inferList_ok args Γ h.1.2
    have h2 := h.2
    rw [hTr.inferT, hTs.inferT] at h2
    simp only [callOk, Bool.and_eq_true, decide_eq_true_eq] at h2
    obtain ⟨hs, h3⟩ := h2
    split at h3
    · rename_i row hrow
      simp only [Bool.or_eq_true, decide_eq_true_eq] at h3
      have := hT false
      simp only [infer, hTr false, R.bind_ok, hs, hrow, hTs false] at this
      rw [← pair_ok_inj this]
      simp only [eval] at hev
      obtain ⟨vr, hvr, hev⟩ := bind_ok_inv hev
      obtain ⟨vs, hvs, hev⟩ := bind_ok_inv hev
      have hcr := sound_expr hW r Γ ρ Tr vr h.1.1 henv hTr hvr
      rcases h3 with h3 | h3
      · have hnot := pyMethodTy_notObj h3 hcr
        have hev' : evalMethod vr (methodOf m) vs = .ok v := by
          cases vr <;> first | (exact absurd rfl (hnot _ _ _)) | (simpa using hev)
        exact evalMethod_conf hcr (sound_list hW args Γ ρ Ts vs h.1.2 henv hTs hvs) h3 hev'
      · obtain ⟨c, mem, rfl, hm, hk, ht⟩ := userCallTy_inv h3
        rw [ht]
        obtain ⟨c0, ns, fs, rfl⟩ := hcr.user_inv
        simp only at hev
        exact hW.call_ok _ c m vs mem v hcr hm hk hev
    · exact absurd h3 (by simp)
  | .fcall f args, Γ, ρ, T, v, h, henv, hT, hev => by
    unfold wt at h
    simp only [Bool.and_eq_true] at h
    obtain ⟨Ts, hTs⟩ := inferList_ok args Γ h.1.2
    have h2 := h.2
    rw [hTs.inferT] at h2
    simp only [fcallOk] at h2
    have hl : lookup f Γ = none := by simpa using h.1.1
    split at h2
    · rename_i row hrow
      simp only [Bool.or_eq_true, Bool.and_eq_true, decide_eq_true_eq] at h2
      have := hT false
      simp only [infer, hl, hrow, hTs false, R.bind_ok] at this
      rw [← pair_ok_inj this]
      simp only [eval] at hev
      obtain ⟨vs, hvs, hev⟩ := bind_ok_inv hev
      rcases h2 with h2 | h2
      · have hne : funcOf f ≠ .other := by intro ho; rw [ho] at h2; simp [pyFuncTy] at h2
        have hev' : evalFunc (funcOf f) vs = .ok v := by
          cases hfo : funcOf f <;> simp only [hfo] at hev hne <;> first | exact hev | exact absurd rfl hne
        exact evalFunc_conf (sound_list hW args Γ ρ Ts vs h.1.2 henv hTs hvs) h2 hev'
      · obtain ⟨⟨ho, hc⟩, hr⟩ := h2
        rw [ho] at hev
        simp only at hev
        rw [hr]
        exact hW.new_ok f vs v hc hev
    · exact absurd h2 (by simp)
  | .listComp proj vars src cond, Γ, ρ, T, v, h, henv, hT, hev => by
    unfold wt at h
    simp only [Bool.and_eq_true] at h
    obtain ⟨Tsrc, hTsrc⟩ := infer_ok src Γ h.1
    have h2 := h.2
    rw [hTsrc.inferT] at h2
    simp only at h2
    split at h2
    · rename_i bs hbs
      obtain ⟨elem, hit, hpy, hv, rfl⟩ := compEnv_some hbs
      simp only [Bool.and_eq_true] at h2
      obtain ⟨Tp, hTp⟩ := infer_ok proj _ h2.1
      obtain ⟨Tc, hTc⟩ := infer_ok cond _ h2.2
      have := hT false
      simp only [infer, hTsrc false, R.bind_ok, hit, hTp false, hTc false] at this
      rw [← pair_ok_inj this]
      simp only [eval] at hev
      obtain ⟨vsrc, hvsrc, hev⟩ := bind_ok_inv hev
      obtain ⟨items, hitems, hev⟩ := bind_ok_inv hev
      obtain ⟨out, hout, hev⟩ := bind_ok_inv hev
      cases hev
      have hitemsC := iterItemsW_conf hW (sound_expr hW src Γ ρ Tsrc vsrc h.1 henv hTsrc hvsrc) hpy hitems
      refine .list (ConfAll.of_mem (compLoop_all (P := fun a => Conf ct a Tp) items out hout ?_))
      intro item hi a hf
      obtain ⟨bsv, hbsv, hf⟩ := bind_ok_inv hf
      obtain ⟨vc, _, hf⟩ := bind_ok_inv hf
      split at hf
      · obtain ⟨va, hva, hf⟩ := bind_ok_inv hf
        have hva' : va = a := by simpa [pure, Except.pure] using hf
        subst hva'
        exact sound_expr hW proj _ _ Tp va h2.1 (EnvConf.extend (bindItem_conf hv (hitemsC.mem item hi) hbsv) henv) hTp hva
      · cases hf
    · exact absurd h2 (by simp)
  | .dictComp k w vars src cond, Γ, ρ, T, v, h, henv, hT, hev => by
    unfold wt at h
    simp only [Bool.and_eq_true] at h
    obtain ⟨Tsrc, hTsrc⟩ := infer_ok src Γ h.1
    have h2 := h.2
    rw [hTsrc.inferT] at h2
    simp only at h2
    split at h2
    · rename_i bs hbs
      obtain ⟨elem, hit, hpy, hv, rfl⟩ := compEnv_some hbs
      simp only [Bool.and_eq_true] at h2
      obtain ⟨Tk, hTk⟩ := infer_ok k _ h2.1.1
      obtain ⟨Tw, hTw⟩ := infer_ok w _ h2.1.2
      obtain ⟨Tc, hTc⟩ := infer_ok cond _ h2.2
      have := hT false
      simp only [infer, hTsrc false, R.bind_ok, hit, hTk false, hTw false, hTc false] at this
      rw [← pair_ok_inj this]
      simp only [eval] at hev
      obtain ⟨vsrc, hvsrc, hev⟩ := bind_ok_inv hev
      obtain ⟨items, hitems, hev⟩ := bind_ok_inv hev
      obtain ⟨out, hout, hev⟩ := bind_ok_inv hev
      cases hev
      have hitemsC := iterItemsW_conf hW (sound_expr hW src Γ ρ Tsrc vsrc h.1 henv hTsrc hvsrc) hpy hitems
      have hall : ∀ kv ∈ out, Conf ct kv.1 Tk ∧ Conf ct kv.2 Tw := by
        refine compLoop_all (P := fun kv => Conf ct kv.1 Tk ∧ Conf ct kv.2 Tw) items out hout ?_
        intro item hi a hf
        obtain ⟨bsv, hbsv, hf⟩ := bind_ok_inv hf
        obtain ⟨vc, _, hf⟩ := bind_ok_inv hf
        have henv' := EnvConf.extend (bindItem_conf hv (hitemsC.mem item hi) hbsv) henv
        split at hf
        · obtain ⟨vk, hvk, hf⟩ := bind_ok_inv hf
          obtain ⟨vw, hvw, hf⟩ := bind_ok_inv hf
          split at hf
          · cases hf
          · split at hf
            · cases hf
            · cases hf
              exact ⟨sound_expr hW k _ _ Tk vk h2.1.1 henv' hTk hvk, sound_expr hW w _ _ Tw vw h2.1.2 henv' hTw hvw⟩
        · cases hf
      have := dictOfPairs_conf (k := Tk) (w := Tw) out ([], []) hall .nil .nil
      exact .dict this.1 this.2
    · exact absurd h2 (by simp)
theorem sound_list (hW : WorldConf ct W) : ∀ (es : Exprs) (Γ : Env) (ρ : VEnv) (Ts : List Ty) (vs : List Val),
    wtList ct Γ es = true → EnvConf ct ρ Γ → InfOKList ct Γ es Ts → evalList W ρ es = .ok vs → ConfList ct vs Ts
  | .nil, _, _, Ts, vs, _, _, hTs, hev => by
    have := hTs false; simp only [inferList] at this; rw [← pair_ok_inj this]
    simp only [evalList] at hev; cases hev; exact .nil
  | .cons e es, Γ, ρ, Ts, vs, h, henv, hTs, hev => by
    unfold wtList at h
    simp only [Bool.and_eq_true] at h
    obtain ⟨T, hT⟩ := infer_ok e Γ h.1
    obtain ⟨Ts', hTs'⟩ := inferList_ok es Γ h.2
    have := hTs false
    simp only [inferList, hT false, hTs' false, R.bind_ok] at this
    rw [← pair_ok_inj this]
    simp only [evalList] at hev
    obtain ⟨v, hv, hev⟩ := bind_ok_inv hev
    obtain ⟨vs', hvs', hev⟩ := bind_ok_inv hev
    cases hev
    exact .cons (sound_expr hW e Γ ρ T v h.1 henv hT hv) (sound_list hW es Γ ρ Ts' vs' h.2 henv hTs' hvs')
theorem sound_chain (hW : WorldConf ct W) : ∀ (c : Chain) (Γ : Env) (ρ : VEnv) (ops : List (BOp × Ty)) (l T : Ty) (vl v : Val),
    wtChain ct Γ c = true → EnvConf ct ρ Γ → InfOKChain ct Γ c ops → Conf ct vl l → stepsOk ct l ops = true →
    foldBin ct l ops = .ok T → evalChain W ρ vl c = .ok v → Conf ct v T
  | .nil, _, _, ops, l, T, vl, v, _, _, hops, hl, _, hf, hev => by
    have := hops false; simp only [inferChain] at this
    have := pair_ok_inj this; subst this
    simp only [foldBin, Except.ok.injEq] at hf; subst hf
    simp only [evalChain] at hev; cases hev; exact hl
  | .cons op e rest, Γ, ρ, ops, l, T, vl, v, h, henv, hops, hl, hs, hf, hev => by
    unfold wtChain at h
    simp only [Bool.and_eq_true] at h
    obtain ⟨Te, hTe⟩ := infer_ok e Γ h.1
    obtain ⟨ops', hops'⟩ := inferChain_ok rest Γ h.2
    have := hops false
    simp only [inferChain, hTe false, hops' false, R.bind_ok] at this
    have := pair_ok_inj this; subst this
    unfold stepsOk at hs
    unfold foldBin at hf
    split at hs
    · rename_i t ht
      rw [ht] at hf
      simp only [Bool.and_eq_true, decide_eq_true_eq] at hs
      simp only [evalChain] at hev
      obtain ⟨vr, hvr, hev⟩ := bind_ok_inv hev
      obtain ⟨vn, hvn, hev⟩ := bind_ok_inv hev
      have hcr := sound_expr hW e Γ ρ Te vr h.1 henv hTe hvr
      exact sound_chain hW rest Γ ρ ops' t T vn v h.2 henv hops' (evalBin_conf hl hcr hs.1 hvn) hs.2 hf hev
    · exact absurd hs (by simp)
theorem sound_pairs (hW : WorldConf ct W) : ∀ (ps : Pairs) (Γ : Env) (ρ : VEnv) (kvs : List (Ty × Ty)) (vps : List (Val × Val)),
    wtPairs ct Γ ps = true → EnvConf ct ρ Γ → InfOKPairs ct Γ ps kvs → evalPairs W ρ ps = .ok vps →
    ∀ kv, (∀ x ∈ kvs, x = kv) → ∀ vp ∈ vps, Conf ct vp.1 kv.1 ∧ Conf ct vp.2 kv.2
  | .nil, _, _, kvs, vps, _, _, _, hev => by
    simp only [evalPairs] at hev; cases hev
    intro kv _ vp hvp; simp at hvp
  | .cons k w rest, Γ, ρ, kvs, vps, h, henv, hk, hev => by
    unfold wtPairs at h
    simp only [Bool.and_eq_true] at h
    obtain ⟨Tk, hTk⟩ := infer_ok k Γ h.1.1
    obtain ⟨Tw, hTw⟩ := infer_ok w Γ h.1.2
    obtain ⟨kvs', hkvs'⟩ := inferPairs_ok rest Γ h.2
    have := hk false
    simp only [inferPairs, hTk false, hTw false, hkvs' false, R.bind_ok] at this
    have := pair_ok_inj this; subst this
    simp only [evalPairs] at hev
    obtain ⟨vk, hvk, hev⟩ := bind_ok_inv hev
    obtain ⟨vw, hvw, hev⟩ := bind_ok_inv hev
    obtain ⟨r, hr, hev⟩ := bind_ok_inv hev
    cases hev
    intro kv hall vp hvp
    simp only [List.mem_cons] at hvp
    rcases hvp with rfl | hvp
    · have := hall (Tk, Tw) (by simp)
      subst this
      exact ⟨sound_expr hW k Γ ρ Tk vk h.1.1 henv hTk hvk, sound_expr hW w Γ ρ Tw vw h.1.2 henv hTw hvw⟩
    · exact sound_pairs hW rest Γ ρ kvs' r h.2 henv hkvs' hr kv (fun x hx => hall x (by simp [hx])) vp hvp
theorem sound_and (hW : WorldConf ct W) : ∀ (es : Exprs) (Γ : Env) (ρ : VEnv) (Ts : List Ty) (v : Val),
    wtList ct Γ es = true → EnvConf ct ρ Γ → InfOKList ct Γ es Ts → (∀ t ∈ Ts, t = .bool) → evalAnd W ρ es = .ok v → Conf ct v .bool
  | .nil, _, _, _, v, _, _, _, _, hev => by simp only [evalAnd] at hev; cases hev; constructor
  | .cons e .nil, Γ, ρ, Ts, v, h, henv, hTs, hb, hev => by
    simp only [wtList, Bool.and_true] at h
    obtain ⟨T, hT⟩ := infer_ok e Γ h
    have := hTs false
    simp only [inferList, hT false, R.bind_ok] at this
    have := pair_ok_inj this; subst this
    have := hb T (by simp); subst this
    simp only [evalAnd] at hev
    exact sound_expr hW e Γ ρ _ v h henv hT hev
  | .cons e (.cons e' es), Γ, ρ, Ts, v, h, henv, hTs, hb, hev => by
    unfold wtList at h
    simp only [Bool.and_eq_true] at h
    obtain ⟨T, hT⟩ := infer_ok e Γ h.1
    obtain ⟨Ts', hTs'⟩ := inferList_ok (.cons e' es) Γ h.2
    have := hTs false
    simp only [inferList, hT false, R.bind_ok] at this
    have h' := hTs' false
    simp only [inferList] at h'
    simp only [h', R.bind_ok] at this
    have := pair_ok_inj this; subst this
    have hTb := hb T (by simp); subst hTb
    simp only [evalAnd] at hev
    obtain ⟨w, hw, hev⟩ := bind_ok_inv hev
    split at hev
    · exact sound_and hW (.cons e' es) Γ ρ Ts' v h.2 henv hTs' (fun t ht => hb t (by simp [ht])) hev
    · have hwv : w = v := by simpa [pure, Except.pure] using hev
      subst hwv
      exact sound_expr hW e Γ ρ _ w h.1 henv hT hw
theorem sound_or (hW : WorldConf ct W) : ∀ (es : Exprs) (Γ : Env) (ρ : VEnv) (Ts : List Ty) (v : Val),
    wtList ct Γ es = true → EnvConf ct ρ Γ → InfOKList ct Γ es Ts → (∀ t ∈ Ts, t = .bool) → evalOr W ρ es = .ok v → Conf ct v .bool
  | .nil, _, _, _, v, _, _, _, _, hev => by simp only [evalOr] at hev; cases hev; constructor
  | .cons e .nil, Γ, ρ, Ts, v, h, henv, hTs, hb, hev => by
    simp only [wtList, Bool.and_true] at h
    obtain ⟨T, hT⟩ := infer_ok e Γ h
    have := hTs false
    simp only [inferList, hT false, R.bind_ok] at this
    have := pair_ok_inj this; subst this
    have := hb T (by simp); subst this
    simp only [evalOr] at hev
    exact sound_expr hW e Γ ρ _ v h henv hT hev
  | .cons e (.cons e' es), Γ, ρ, Ts, v, h, henv, hTs, hb, hev => by
    unfold wtList at h
    simp only [Bool.and_eq_true] at h
    obtain ⟨T, hT⟩ := infer_ok e Γ h.1
    obtain ⟨Ts', hTs'⟩ := inferList_ok (.cons e' es) Γ h.2
    have := hTs false
    simp only [inferList, hT false, R.bind_ok] at this
    have h' := hTs' false
    simp only [inferList] at h'
    simp only [h', R.bind_ok] at this
    have := pair_ok_inj this; subst this
    have hTb := hb T (by simp); subst hTb
    simp only [evalOr] at hev
    obtain ⟨w, hw, hev⟩ := bind_ok_inv hev
    split at hev
    · have hwv : w = v := by simpa [pure, Except.pure] using hev
      subst hwv
      exact sound_expr hW e Γ ρ _ w h.1 henv hT hw
    · exact sound_or hW (.cons e' es) Γ ρ Ts' v h.2 henv hTs' (fun t ht => hb t (by simp [ht])) hev
end

/-! ## denotation ⇒ equality for determined values -/

theorem typeOfL_eq_map : ∀ (vs : List Val), typeOfL vs = vs.map typeOf
  | [] => rfl
  | v :: vs => by simp only [typeOfL, List.map_cons, typeOfL_eq_map vs]

theorem mem_dedupTys : ∀ (l : List Ty) (x : Ty), x ∈ l → x ∈ dedupTys l
  | [], _, h => by simp at h
  | t :: ts, x, h => by
    simp only [dedupTys, List.mem_cons]
    by_cases hx : x = t
    · exact Or.inl hx
    · simp only [List.mem_cons] at h
      rcases h with h | h
      · exact absurd h hx
      · exact Or.inr (List.mem_filter.mpr ⟨mem_dedupTys ts x h, by simpa using hx⟩)

theorem elemTy_plain {l : List Ty} (h : (elemTy l).plain = true) : ∃ t, elemTy l = t ∧ l ≠ [] ∧ ∀ x ∈ l, x = t := by
  unfold elemTy at h ⊢
  split at h
  · simp [Ty.plain] at h
  · rename_i t hd
    refine ⟨t, rfl, ?_, ?_⟩
    · intro hl; subst hl; simp [dedupTys] at hd
    · intro x hx
      have := mem_dedupTys l x hx
      rw [hd] at this
      simpa using this
  · simp [Ty.plain] at h

mutual
theorem conf_typeOf : ∀ {v : Val} {T : Ty}, Conf ct v T → T.plain = true → (typeOf v).plain = true → typeOf v = T
  | _, _, .int _, _, _ => rfl
  | _, _, .float _, _, _ => rfl
  | _, _, .bool _, _, _ => rfl
  | _, _, .str _, _, _ => rfl
  | _, _, .none, _, _ => rfl
  | .list vs, .list t, .list hall, hT, hv => by
    simp only [typeOf, Ty.plain] at hv
    obtain ⟨t0, ht0, hne, hallt⟩ := elemTy_plain hv
    simp only [typeOf, ht0]
    rw [ht0] at hv
    simp only [Ty.plain] at hT
    have key := confAll_typeOf hall hT (fun x hx => by
      have := hallt (typeOf x) (by rw [typeOfL_eq_map]; exact List.mem_map_of_mem hx)
      rw [this]; exact hv)
    cases vs with
    | nil => simp [typeOfL] at hne
    | cons x xs =>
      have h1 := key x (by simp)
      have h2 := hallt (typeOf x) (by simp [typeOfL])
      rw [← h2, h1]
  | .dict ks vs, .dict k w, .dict hks hvs, hT, hv => by
    simp only [typeOf, Ty.plain, Bool.and_eq_true] at hv
    obtain ⟨k0, hk0, hkne, hkall⟩ := elemTy_plain hv.1
    obtain ⟨w0, hw0, hwne, hwall⟩ := elemTy_plain hv.2
    simp only [typeOf, hk0, hw0]
    rw [hk0] at hv; rw [hw0] at hv
    simp only [Ty.plain, Bool.and_eq_true] at hT
    have keyk := confAll_typeOf hks hT.1 (fun x hx => by
      have := hkall (typeOf x) (by rw [typeOfL_eq_map]; exact List.mem_map_of_mem hx)
      rw [this]; exact hv.1)
    have keyw := confAll_typeOf hvs hT.2 (fun x hx => by
      have := hwall (typeOf x) (by rw [typeOfL_eq_map]; exact List.mem_map_of_mem hx)
      rw [this]; exact hv.2)
    have e1 : k0 = k := by
      cases ks with
      | nil => simp [typeOfL] at hkne
      | cons x xs =>
        have h1 := keyk x (by simp)
        have h2 := hkall (typeOf x) (by simp [typeOfL])
        rw [← h2, h1]
    have e2 : w0 = w := by
      cases vs with
      | nil => simp [typeOfL] at hwne
      | cons x xs =>
        have h1 := keyw x (by simp)
        have h2 := hwall (typeOf x) (by simp [typeOfL])
        rw [← h2, h1]
    rw [e1, e2]
  | .tuple vs, .tuple ts, .tuple hz, hT, hv => by
    simp only [typeOf, Ty.plain] at hv hT ⊢
    rw [confZip_typeOf hz hT hv]
  | _, _, .union _ _, hT, _ => by simp [Ty.plain] at hT
  | _, _, .iter _, hT, _ => by simp [Ty.plain, tIter] at hT
  | _, _, .items _, hT, _ => by simp [Ty.plain, tItems] at hT
  | _, _, .pair _ _, hT, _ => by simp [Ty.plain, tPair] at hT
theorem confAll_typeOf : ∀ {vs : List Val} {t : Ty}, ConfAll ct vs t → t.plain = true → (∀ x ∈ vs, (typeOf x).plain = true) →
    ∀ x ∈ vs, typeOf x = t
  | _, _, .nil, _, _ => by intro x hx; simp at hx
  | _, _, .cons hv hvs, ht, hp => by
    intro x hx
    simp only [List.mem_cons] at hx
    rcases hx with rfl | hx
    · exact conf_typeOf hv ht (hp _ (by simp))
    · exact confAll_typeOf hvs ht (fun y hy => hp y (by simp [hy])) x hx
theorem confZip_typeOf : ∀ {vs : List Val} {ts : Tys}, ConfZip ct vs ts → Ty.plainL ts = true →
    Ty.plainL (Tys.ofList (typeOfL vs)) = true → Tys.ofList (typeOfL vs) = ts
  | _, _, .nil, _, _ => rfl
  | _, _, .cons hv hvs, ht, hp => by
    simp only [typeOfL, Tys.ofList, Ty.plainL, Bool.and_eq_true] at hp ht ⊢
    rw [conf_typeOf hv ht.1 hp.1, confZip_typeOf hvs ht.2 hp.2]
end

/-! ## scalar rows; the agreement subset is part of Core -/

theorem conf_of_typeOf_scalar {t : Ty} {x : Val} (ht : t ∈ scalarTys) (hx : typeOf x = t) : Conf ct x t := by
  simp only [scalarTys, List.mem_cons, List.mem_nil_iff, or_false] at ht
  cases x <;> simp only [typeOf] at hx <;> subst hx <;> first
    | (simp at ht; done)
    | constructor

theorem typeOf_of_conf_scalar {t : Ty} {v : Val} (ht : t ∈ scalarTys) (hc : Conf ct v t) : typeOf v = t := by
  simp only [scalarTys, List.mem_cons, List.mem_nil_iff, or_false] at ht
  rcases ht with rfl | rfl | rfl | rfl
  · obtain ⟨n, rfl⟩ := hc.int_inv; rfl
  · obtain ⟨n, rfl⟩ := hc.float_inv; rfl
  · obtain ⟨n, rfl⟩ := hc.bool_inv; rfl
  · obtain ⟨n, rfl⟩ := hc.str_inv; rfl


/-! ## no handler reads or writes the session state -/

/-- the computation neither reads nor writes the session state -/
def Stateless {α : Type} (f : Bool → R α) : Prop := ∃ r, ∀ s, f s = (r, s)

theorem Stateless.bind {α β : Type} {x : Bool → R α} {k : α → Bool → R β} (hx : Stateless x) (hk : ∀ a, Stateless (k a)) :
    Stateless (fun s => (x s).bind k) := by
  obtain ⟨r, hr⟩ := hx
  cases r with
  | error e => exact ⟨.error e, fun s => by simp only [hr s, R.bind_error]⟩
  | ok a =>
    obtain ⟨r', hr'⟩ := hk a
    exact ⟨r', fun s => by simp only [hr s, R.bind_ok, hr' s]⟩

theorem Stateless.pure {α : Type} (r : Except Err α) : Stateless (fun s => ((r, s) : R α)) := ⟨r, fun _ => rfl⟩

theorem onList_stateless (ts : List Ty) : Stateless (onList ts) := by
  unfold onList
  split
  · exact ⟨_, fun _ => rfl⟩
  · exact ⟨_, fun _ => rfl⟩
  · exact ⟨_, fun _ => rfl⟩

mutual
theorem infer_stateless : ∀ (e : Expr) (Γ : Env), Stateless (infer ct Γ e)
  | .int _, _ => ⟨_, fun _ => rfl⟩
  | .float _, _ => ⟨_, fun _ => rfl⟩
  | .str _, _ => ⟨_, fun _ => rfl⟩
  | .true_, _ => ⟨_, fun _ => rfl⟩
  | .false_, _ => ⟨_, fun _ => rfl⟩
  | .none_, _ => ⟨_, fun _ => rfl⟩
  | .empty_, _ => ⟨_, fun _ => rfl⟩
  | .var x, Γ => by
    unfold Stateless
    simp only [infer]
    split
    · split
      · exact ⟨_, fun _ => rfl⟩
      · exact ⟨_, fun _ => rfl⟩
    · exact ⟨_, fun _ => rfl⟩
  | .factor _ e, Γ => by
    unfold Stateless
    simp only [infer]
    refine Stateless.bind (infer_stateless e Γ) (fun t => ?_)
    by_cases hb : t = .bool
    · simp only [hb, if_true]; exact ⟨_, fun _ => rfl⟩
    · simp only [hb, if_false]; exact ⟨_, fun _ => rfl⟩
  | .not_ e, Γ => by
    unfold Stateless
    simp only [infer]
    exact Stateless.bind (infer_stateless e Γ) (fun _ => Stateless.pure _)
  | .bin e rest, Γ => by
    unfold Stateless
    simp only [infer]
    exact Stateless.bind (infer_stateless e Γ) (fun _ => Stateless.bind (inferChain_stateless rest Γ) (fun _ => Stateless.pure _))
  | .cmp e rest, Γ => by
    unfold Stateless
    simp only [infer]
    exact Stateless.bind (infer_stateless e Γ) (fun _ => Stateless.bind (inferChain_stateless rest Γ) (fun _ => Stateless.pure _))
  | .and_ es, Γ => by
    unfold Stateless
    simp only [infer]
    exact Stateless.bind (inferList_stateless es Γ) (fun _ => Stateless.pure _)
  | .or_ es, Γ => by
    unfold Stateless
    simp only [infer]
    exact Stateless.bind (inferList_stateless es Γ) (fun _ => Stateless.pure _)
  | .tern a c d, Γ => by
    unfold Stateless
    simp only [infer]
    refine Stateless.bind (infer_stateless a Γ) (fun ta => Stateless.bind (infer_stateless c Γ) (fun _ => Stateless.bind (infer_stateless d Γ) (fun tb => ?_)))
    by_cases hb : ta = tb
    · simp only [hb, if_true]; exact ⟨_, fun _ => rfl⟩
    · simp only [hb, if_false]; exact ⟨_, fun _ => rfl⟩
  | .list es, Γ => by
    unfold Stateless
    simp only [infer]
    exact Stateless.bind (inferList_stateless es Γ) (fun ts => onList_stateless ts)
  | .dict kvs, Γ => by
    unfold Stateless
    simp only [infer]
    exact Stateless.bind (inferPairs_stateless kvs Γ) (fun _ => Stateless.pure _)
  | .tuple es, Γ => by
    unfold Stateless
    simp only [infer]
    exact Stateless.bind (inferList_stateless es Γ) (fun _ => Stateless.pure _)
  | .index r k, Γ => by
    unfold Stateless
    simp only [infer, R.lift]
    exact Stateless.bind (infer_stateless r Γ) (fun _ => Stateless.bind (infer_stateless k Γ) (fun _ => Stateless.pure _))
  | .slice r lo hi, Γ => by
    unfold Stateless
    simp only [infer]
    exact Stateless.bind (infer_stateless r Γ) (fun _ => Stateless.bind (infer_stateless lo Γ) (fun _ =>
      Stateless.bind (infer_stateless hi Γ) (fun _ => Stateless.pure _)))
  | .group e, Γ => by
    unfold Stateless
    simp only [infer]
    exact infer_stateless e Γ
  | .attr r a, Γ => by
    unfold Stateless
    simp only [infer, R.lift]
    exact Stateless.bind (infer_stateless r Γ) (fun _ => Stateless.pure _)
  | .call r m args, Γ => by
    unfold Stateless
    simp only [infer]
    refine Stateless.bind (infer_stateless r Γ) (fun tr => ?_)
    cases hfm : findMethod ct (stripNullable tr).className m with
    | none => simp only [hfm]; exact ⟨_, fun _ => rfl⟩
    | some row =>
      simp only [hfm]
      exact Stateless.bind (inferList_stateless args Γ) (fun _ => Stateless.pure _)
  | .fcall f args, Γ => by
    unfold Stateless
    simp only [infer]
    cases hl : lookup f Γ with
    | some _ => simp only [hl]; exact ⟨_, fun _ => rfl⟩
    | none =>
      cases hf : findFunc ct f with
      | none => simp only [hl, hf]; exact ⟨_, fun _ => rfl⟩
      | some row =>
        simp only [hl, hf]
        exact Stateless.bind (inferList_stateless args Γ) (fun _ => Stateless.pure _)
  | .listComp proj vars src cond, Γ => by
    unfold Stateless
    simp only [infer]
    refine Stateless.bind (infer_stateless src Γ) (fun tsrc => ?_)
    cases hit : iterates ct tsrc with
    | error e => simp only [hit]; exact ⟨_, fun _ => rfl⟩
    | ok elem =>
      simp only [hit]
      exact Stateless.bind (infer_stateless proj _) (fun _ => Stateless.bind (infer_stateless cond _) (fun _ => Stateless.pure _))
  | .dictComp k v vars src cond, Γ => by
    unfold Stateless
    simp only [infer]
    refine Stateless.bind (infer_stateless src Γ) (fun tsrc => ?_)
    cases hit : iterates ct tsrc with
    | error e => simp only [hit]; exact ⟨_, fun _ => rfl⟩
    | ok elem =>
      simp only [hit]
      exact Stateless.bind (infer_stateless k _) (fun _ => Stateless.bind (infer_stateless v _) (fun _ =>
        Stateless.bind (infer_stateless cond _) (fun _ => Stateless.pure _)))
theorem inferList_stateless : ∀ (es : Exprs) (Γ : Env), Stateless (inferList ct Γ es)
  | .nil, _ => ⟨_, fun _ => rfl⟩
  | .cons e es, Γ => by
    unfold Stateless
    simp only [inferList]
    exact Stateless.bind (infer_stateless e Γ) (fun _ => Stateless.bind (inferList_stateless es Γ) (fun _ => Stateless.pure _))
theorem inferChain_stateless : ∀ (c : Chain) (Γ : Env), Stateless (inferChain ct Γ c)
  | .nil, _ => ⟨_, fun _ => rfl⟩
  | .cons _ e rest, Γ => by
    unfold Stateless
    simp only [inferChain]
    exact Stateless.bind (infer_stateless e Γ) (fun _ => Stateless.bind (inferChain_stateless rest Γ) (fun _ => Stateless.pure _))
theorem inferPairs_stateless : ∀ (ps : Pairs) (Γ : Env), Stateless (inferPairs ct Γ ps)
  | .nil, _ => ⟨_, fun _ => rfl⟩
  | .cons k v rest, Γ => by
    unfold Stateless
    simp only [inferPairs]
    exact Stateless.bind (infer_stateless k Γ) (fun _ => Stateless.bind (infer_stateless v Γ) (fun _ =>
      Stateless.bind (inferPairs_stateless rest Γ) (fun _ => Stateless.pure _)))
end

/-! ## template substitution: `list<t>.pop()` for every `t` -/

theorem prefix_take {p k : Path} (h : p <+: k) : k.take p.length = p := by
  obtain ⟨r, rfl⟩ := h
  simp

theorem expandTy_head (p : Path) (t : Ty) : ∃ rest, expandTy p t = (p, t) :: rest := by
  cases t <;> simp only [expandTy] <;> exact ⟨_, rfl⟩

/-- every key of `expandTy p t` extends `p`, and the keys are closed under prefixes not shorter than `p` -/
def Closed (p : Path) (ps : Props) : Prop :=
  ∀ e ∈ ps, p <+: e.1 ∧ ∀ m, p.length ≤ m → m ≤ e.1.length → e.1.take m ∈ ps.map (·.1)

def ClosedS (p : Path) (ps : Props) : Prop :=
  ∀ e ∈ ps, p <+: e.1 ∧ p.length < e.1.length ∧ ∀ m, p.length < m → m ≤ e.1.length → e.1.take m ∈ ps.map (·.1)

theorem Closed.cons_of_closedS {p : Path} {t : Ty} {ps : Props} (h : ClosedS p ps) : Closed p ((p, t) :: ps) := by
  intro e he
  simp only [List.mem_cons] at he
  rcases he with rfl | he
  · refine ⟨List.prefix_refl _, fun m h1 h2 => ?_⟩
    have : m = p.length := Nat.le_antisymm h2 h1
    subst this
    simp
  · obtain ⟨hp, hl, hc⟩ := h e he
    refine ⟨hp, fun m h1 h2 => ?_⟩
    by_cases hm : m = p.length
    · subst hm; rw [prefix_take hp]; simp
    · have := hc m (by omega) h2
      simp only [List.map_cons, List.mem_cons]
      exact Or.inr this

theorem Closed.cons_of_closed {p : Path} {t : Ty} {i : Nat} {ps : Props} (h : Closed (p ++ [i]) ps) : Closed p ((p, t) :: ps) := by
  apply Closed.cons_of_closedS
  intro e he
  obtain ⟨hp, hc⟩ := h e he
  have hpp : p <+: e.1 := List.IsPrefix.trans (List.prefix_append p [i]) hp
  have hlen : (p ++ [i]).length ≤ e.1.length := hp.length_le
  simp only [List.length_append, List.length_cons, List.length_nil] at hlen
  exact ⟨hpp, by omega, fun m h1 h2 => hc m (by simp; omega) h2⟩

mutual
theorem expandTy_closed : ∀ (t : Ty) (p : Path), Closed p (expandTy p t)
  | .list t, p => by simp only [expandTy]; exact Closed.cons_of_closed (expandTy_closed t (p ++ [0]))
  | .dict k v, p => by
    simp only [expandTy]
    apply Closed.cons_of_closedS
    intro e he
    simp only [List.mem_append] at he
    rcases he with he | he
    · obtain ⟨hp, hc⟩ := expandTy_closed k (p ++ [0]) e he
      have hlen : (p ++ [0]).length ≤ e.1.length := hp.length_le
      simp only [List.length_append, List.length_cons, List.length_nil] at hlen
      refine ⟨List.IsPrefix.trans (List.prefix_append p [0]) hp, by omega, fun m h1 h2 => ?_⟩
      have := hc m (by simp; omega) h2
      simp only [List.map_append, List.mem_append]; exact Or.inl this
    · obtain ⟨hp, hc⟩ := expandTy_closed v (p ++ [1]) e he
      have hlen : (p ++ [1]).length ≤ e.1.length := hp.length_le
      simp only [List.length_append, List.length_cons, List.length_nil] at hlen
      refine ⟨List.IsPrefix.trans (List.prefix_append p [1]) hp, by omega, fun m h1 h2 => ?_⟩
      have := hc m (by simp; omega) h2
      simp only [List.map_append, List.mem_append]; exact Or.inr this
  | .tuple ts, p => by simp only [expandTy]; exact Closed.cons_of_closedS (expandTys_closed ts p 0)
  | .union ts, p => by simp only [expandTy]; exact Closed.cons_of_closedS (expandTys_closed ts p 0)
  | .cls _ ts, p => by simp only [expandTy]; exact Closed.cons_of_closedS (expandTys_closed ts p 0)
  | .int, p => by simp only [expandTy]; exact Closed.cons_of_closedS (fun e he => by simp at he)
  | .float, p => by simp only [expandTy]; exact Closed.cons_of_closedS (fun e he => by simp at he)
  | .bool, p => by simp only [expandTy]; exact Closed.cons_of_closedS (fun e he => by simp at he)
  | .str, p => by simp only [expandTy]; exact Closed.cons_of_closedS (fun e he => by simp at he)
  | .none, p => by simp only [expandTy]; exact Closed.cons_of_closedS (fun e he => by simp at he)
  | .unknown, p => by simp only [expandTy]; exact Closed.cons_of_closedS (fun e he => by simp at he)
  | .tvar _, p => by simp only [expandTy]; exact Closed.cons_of_closedS (fun e he => by simp at he)
theorem expandTys_closed : ∀ (ts : Tys) (p : Path) (i : Nat), ClosedS p (expandTys p i ts)
  | .nil, _, _ => by simp only [expandTys]; intro e he; simp at he
  | .cons t ts, p, i => by
    simp only [expandTys]
    intro e he
    simp only [List.mem_append] at he
    rcases he with he | he
    · obtain ⟨hp, hc⟩ := expandTy_closed t (p ++ [i]) e he
      have hlen : (p ++ [i]).length ≤ e.1.length := hp.length_le
      simp only [List.length_append, List.length_cons, List.length_nil] at hlen
      refine ⟨List.IsPrefix.trans (List.prefix_append p [i]) hp, by omega, fun m h1 h2 => ?_⟩
      have := hc m (by simp; omega) h2
      simp only [List.map_append, List.mem_append]; exact Or.inl this
    · obtain ⟨hp, hl, hc⟩ := expandTys_closed ts p (i + 1) e he
      refine ⟨hp, hl, fun m h1 h2 => ?_⟩
      have := hc m h1 h2
      simp only [List.map_append, List.mem_append]; exact Or.inr this
end

mutual
theorem expandTy_leaf : ∀ (t : Ty) (p : Path), ∃ e ∈ expandTy p t, e.2.attrs = .nil
  | .list t, p => by
    obtain ⟨e, he, hl⟩ := expandTy_leaf t (p ++ [0])
    exact ⟨e, by simp only [expandTy, List.mem_cons]; exact Or.inr he, hl⟩
  | .dict k v, p => by
    obtain ⟨e, he, hl⟩ := expandTy_leaf k (p ++ [0])
    exact ⟨e, by simp only [expandTy, List.mem_cons, List.mem_append]; exact Or.inr (Or.inl he), hl⟩
  | .tuple .nil, p => ⟨(p, .tuple .nil), by simp [expandTy], rfl⟩
  | .tuple (.cons t ts), p => by
    obtain ⟨e, he, hl⟩ := expandTys_leaf t ts p 0
    exact ⟨e, by simp only [expandTy, List.mem_cons]; exact Or.inr he, hl⟩
  | .union .nil, p => ⟨(p, .union .nil), by simp [expandTy], rfl⟩
  | .union (.cons t ts), p => by
    obtain ⟨e, he, hl⟩ := expandTys_leaf t ts p 0
    exact ⟨e, by simp only [expandTy, List.mem_cons]; exact Or.inr he, hl⟩
  | .cls n .nil, p => ⟨(p, .cls n .nil), by simp [expandTy], rfl⟩
  | .cls n (.cons t ts), p => by
    obtain ⟨e, he, hl⟩ := expandTys_leaf t ts p 0
    exact ⟨e, by simp only [expandTy, List.mem_cons]; exact Or.inr he, hl⟩
  | .int, p => ⟨(p, .int), by simp [expandTy], rfl⟩
  | .float, p => ⟨(p, .float), by simp [expandTy], rfl⟩
  | .bool, p => ⟨(p, .bool), by simp [expandTy], rfl⟩
  | .str, p => ⟨(p, .str), by simp [expandTy], rfl⟩
  | .none, p => ⟨(p, .none), by simp [expandTy], rfl⟩
  | .unknown, p => ⟨(p, .unknown), by simp [expandTy], rfl⟩
  | .tvar n, p => ⟨(p, .tvar n), by simp [expandTy], rfl⟩
theorem expandTys_leaf : ∀ (t : Ty) (ts : Tys) (p : Path) (i : Nat), ∃ e ∈ expandTys p i (.cons t ts), e.2.attrs = .nil
  | t, _, p, i => by
    obtain ⟨e, he, hl⟩ := expandTy_leaf t (p ++ [i])
    exact ⟨e, by simp only [expandTys, List.mem_append]; exact Or.inl he, hl⟩
end

theorem propAt_of_mem {ps : Props} {b : Path} (h : b ∈ ps.map (·.1)) : ∃ u, propAt ps b = some u := by
  induction ps with
  | nil => simp at h
  | cons e rest ih =>
    simp only [List.map_cons, List.mem_cons] at h
    simp only [propAt, List.find?]
    by_cases he : e.1 = b
    · exact ⟨e.2, by simp [he]⟩
    · rcases h with h | h
      · exact absurd h.symm he
      · obtain ⟨u, hu⟩ := ih h
        refine ⟨u, ?_⟩
        simp only [he, decide_false]
        simpa [propAt] using hu

theorem filterMap_range_length (n : Nat) (f : Nat → Option Nat) (h : ∀ j, j < n → (f j).isSome = true) :
    ((List.range n).filterMap f).length = n := by
  induction n with
  | zero => simp
  | succ n ih =>
    rw [List.range_succ, List.filterMap_append, List.length_append, ih (fun j hj => h j (by omega))]
    have := h n (by omega)
    obtain ⟨v, hv⟩ := Option.isSome_iff_exists.mp this
    simp [List.filterMap, hv]

theorem findSome?_const {α β : Type} {l : List α} {f : α → Option β} {v : β}
    (hall : ∀ e ∈ l, f e = none ∨ f e = some v) (hex : ∃ e ∈ l, f e = some v) : l.findSome? f = some v := by
  induction l with
  | nil => obtain ⟨e, he, _⟩ := hex; simp at he
  | cons a rest ih =>
    simp only [List.findSome?]
    rcases hall a (by simp) with h | h
    · rw [h]
      obtain ⟨e, he, hv⟩ := hex
      simp only [List.mem_cons] at he
      rcases he with rfl | he
      · rw [h] at hv; cases hv
      · exact ih (fun e' he' => hall e' (by simp [he'])) ⟨e, he, hv⟩
    · rw [h]

theorem findSome?_filterMap {α β γ : Type} (l : List α) (f : α → Option β) (g : β → Option γ) :
    (l.filterMap f).findSome? g = l.findSome? (fun a => (f a).bind g) := by
  induction l with
  | nil => rfl
  | cons a rest ih =>
    cases hf : f a with
    | none => simp [List.filterMap_cons, hf, List.findSome?_cons, ih]
    | some b =>
      cases hg : g b with
      | none => simp [List.filterMap_cons, hf, List.findSome?_cons, hg, ih]
      | some c => simp [List.filterMap_cons, hf, List.findSome?_cons, hg]

/-- the actual side of `recv.m()` for a receiver `R` whose first type argument is `a`: the receiver flattened;
    `extra` = the flattened further arguments of `R` and the call arguments (nothing below `klass.0`) -/
def actualG (R a : Ty) (extra : Props) : Props := ([0], R) :: (expandTy [0, 0] a ++ extra)

def NoHit (extra : Props) : Prop := ∀ e ∈ extra, ([0, 0] : Path).isPrefixOf e.1 = false

theorem normFrom_false (props : Props) (pre : Path) (rest : List Nat) : normFrom props false pre rest = rest := by
  induction rest generalizing pre with
  | nil => rfl
  | cons i rest ih =>
    simp only [normFrom, Bool.false_and, Bool.not_false, ih]
    cases propAt props pre <;> simp

/-- on the actual side (Union levels kept) the normalised elements are the path without its root -/
theorem normIdx_false (props : Props) (k : Path) : normIdx props false k = k.tail := by
  cases k with
  | nil => rfl
  | cons r rest => simp [normIdx, normFrom_false]

theorem leaf_hits (R a : Ty) (extra : Props) {k : Path} {u : Ty} (he : (k, u) ∈ expandTy [0, 0] a) :
    hitOf [0, 0] [0] (k, normIdx (actualG R a extra) false k) = some [0, 0] := by
  obtain ⟨hp, _⟩ := expandTy_closed a [0, 0] (k, u) he
  obtain ⟨t, rfl⟩ := hp
  have hpre : ([0, 0] : Path).isPrefixOf ([0, 0] ++ t) = true := List.isPrefixOf_iff_prefix.mpr ⟨t, rfl⟩
  rw [normIdx_false]
  simp only [hitOf, hpre, if_true, List.cons_append, List.nil_append, List.tail_cons, List.length_cons, List.length_nil, Nat.zero_add,
    List.take_succ_cons, List.take_zero, ne_eq, not_true_eq_false, if_false]
  cases t with
  | nil => simp
  | cons x t =>
    have h1 : ¬ (t.length + 1 + 1 < 1) := by omega
    have h2 : ¬ (t.length + 1 + 1 = 1) := by omega
    simp only [List.length_cons, h1, if_false, h2]
    have : t.length + 1 + 1 + 1 - (t.length + 1 + 1 - 1) = 2 := by omega
    rw [this]
    rfl

theorem hit_of_entry (R a : Ty) (extra : Props) {k : Path} {u : Ty} (he : (k, u) ∈ expandTy [0, 0] a) :
    (normEntry (actualG R a extra) false (k, u)).bind (hitOf [0, 0] [0]) = none ∨
    (normEntry (actualG R a extra) false (k, u)).bind (hitOf [0, 0] [0]) = some [0, 0] := by
  unfold normEntry
  split
  · right; simp only [Option.bind]; exact leaf_hits R a extra he
  · left; rfl

theorem findHit (R a : Ty) (extra : Props) (hex : NoHit extra) :
    (normalizeProps (actualG R a extra) false).findSome? (hitOf [0, 0] [0]) = some [0, 0] := by
  unfold normalizeProps
  rw [findSome?_filterMap]
  apply findSome?_const
  · intro e he
    simp only [actualG, List.mem_cons, List.mem_append] at he
    rcases he with rfl | he | he
    · left; simp [normEntry]
    · exact hit_of_entry R a extra (k := e.1) (u := e.2) he
    · left
      unfold normEntry
      split
      · simp only [Option.bind, hitOf, hex e he, Bool.false_eq_true, if_false]
      · rfl
  · obtain ⟨e, he, hl⟩ := expandTy_leaf a [0, 0]
    refine ⟨e, by simp only [actualG, List.mem_cons, List.mem_append]; exact Or.inr (Or.inl he), ?_⟩
    obtain ⟨hp, _⟩ := expandTy_closed a [0, 0] e he
    have hlen : 2 ≤ e.1.length := by simpa using hp.length_le
    have : normEntry (actualG R a extra) false e = some (e.1, normIdx (actualG R a extra) false e.1) := by
      unfold normEntry
      have : (decide (e.1.length > 1) && decide (e.2.attrs = .nil)) = true := by simp [hl]; omega
      simp only [this, if_true]
    rw [this]
    simp only [Option.bind]
    exact leaf_hits R a extra (k := e.1) (u := e.2) he

theorem propAt_actualG (R a : Ty) (extra : Props) : propAt (actualG R a extra) [0, 0] = some a := by
  obtain ⟨rest, hr⟩ := expandTy_head [0, 0] a
  simp [propAt, actualG, hr, List.find?]

theorem noHit_nil : NoHit [] := fun e he => by simp at he

/-- `findActualPath` for a template that sits at `klass.0` of a schema whose normalised entry there is `[0]` -/
theorem findActual_klass0 (normS : List (Path × List Nat)) (R a : Ty) (extra : Props) (hex : NoHit extra)
    (h2 : (normS.find? (fun e => e.1 = [0, 0])).map (·.2) = some [0]) :
    findActualPath [0, 0] normS (normalizeProps (actualG R a extra) false) (actualG R a extra) = some [0, 0] := by
  unfold findActualPath
  have htk : List.take 2 ([0, 0] : Path) = [0, 0] := rfl
  simp only [h2, htk, List.length_cons, List.length_nil, Nat.zero_add, findHit R a extra hex]
  split <;> rfl

def s_TValue : Str := ['T', '_', 'V', 'a', 'l', 'u', 'e']
def s_TKey : Str := ['T', '_', 'K', 'e', 'y']
def s_T : Str := ['T']
def s_list : Str := ['l', 'i', 's', 't']
def s_dict : Str := ['d', 'i', 'c', 't']

/-- the stub rows as generated today (each checked against the table by a `findIn_…` lemma) -/
def popRow : Method := ⟨s_list, ['p', 'o', 'p'], .list (.tvar s_TValue), .cons .int .nil, .tvar s_TValue⟩
def listIterRow : Method := ⟨s_list, s_iter, .list (.tvar s_TValue), .nil, tIter (.tvar s_TValue)⟩
def dictIterRow : Method := ⟨s_dict, s_iter, .dict (.tvar s_TKey) (.tvar s_TValue), .nil, tIter (.tvar s_TKey)⟩
def iterNextRow : Method := ⟨s_Iterator, s_next, tIter (.tvar s_T), .nil, .tvar s_T⟩

theorem findIn_pop : findIn Dunder.methods s_list ['p', 'o', 'p'] = some popRow := by decide +kernel
theorem findIn_listIter : findIn Dunder.methods s_list s_iter = some listIterRow := by decide +kernel
theorem findIn_dictIter : findIn Dunder.methods s_dict s_iter = some dictIterRow := by decide +kernel
theorem findIn_iterNext : findIn Dunder.methods s_Iterator s_next = some iterNextRow := by decide +kernel
theorem findIn_listNext : findIn Dunder.methods s_list s_next = none := by decide +kernel
theorem findIn_dictNext : findIn Dunder.methods s_dict s_next = none := by decide +kernel
theorem findIn_objNext : findIn Dunder.methods s_object s_next = none := by decide +kernel

theorem findMethod_pop : findMethod ct ['l', 'i', 's', 't'] ['p', 'o', 'p'] = some popRow := by
  simp only [findMethod, show findIn Dunder.methods ['l', 'i', 's', 't'] ['p', 'o', 'p'] = some popRow from findIn_pop]

def schemaOf (m : Method) : Props := expandTy [0] m.self ++ expandTys [1] 0 m.params

/-- one target template bound through `klass.0`: the update list of `make_updates` -/
theorem updatesFor_klass0 (tp : Path) (tn : Str) (S : Props) (R a : Ty) (extra : Props) (hex : NoHit extra)
    (rest : List (Path × Str)) (h1 : templatesOf S = ([0, 0], tn) :: rest) (hrest : ∀ e ∈ rest, e.2 ≠ tn)
    (h2 : ((normalizeProps S true).find? (fun e => e.1 = [0, 0])).map (·.2) = some [0])
    (h3 : classAt S [0] s_Union = false) :
    updatesFor tp tn (templatesOf S) S (normalizeProps S true) (normalizeProps (actualG R a extra) false) (actualG R a extra) []
      = [(tp, [0, 0])] := by
  have hfind := findActual_klass0 (normalizeProps S true) R a extra hex h2
  have hskip : ∀ (l : List (Path × Str)) acc, (∀ e ∈ l, e.2 ≠ tn) →
      updatesFor tp tn l S (normalizeProps S true) (normalizeProps (actualG R a extra) false) (actualG R a extra) acc = acc := by
    intro l
    induction l with
    | nil => intro acc _; rfl
    | cons e l ih =>
      intro acc h
      obtain ⟨sp, sn⟩ := e
      have hne : sn ≠ tn := h (sp, sn) (by simp)
      simp only [updatesFor, ne_eq, hne, not_false_eq_true, if_true]
      exact ih acc (fun e he => h e (by simp [he]))
  have hno : noneForOptional S (actualG R a extra) [0, 0] [0, 0] = false := by
    have hd : ([0, 0] : Path).dropLast = [0] := rfl
    unfold noneForOptional
    rw [hd, h3, Bool.false_and]
  rw [h1]
  simp only [updatesFor, ne_eq, not_true_eq_false, if_false, hfind, hno, Bool.false_eq_true, putUpdate, propAt_actualG R a extra]
  split
  · exact hskip rest _ hrest
  · rfl

theorem returnsOf_pop (t : Ty) : returnsOf popRow (.list t) .nil = t := by
  have hact : expandTy [0] (.list t) ++ expandTys [1] 0 .nil = actualG (.list t) t [] := by
    simp [expandTy, expandTys, actualG]
  have htargets : templatesOf (expandTy [2] popRow.ret) = [([2], s_TValue)] := by decide +kernel
  unfold returnsOf resolveTemplates
  rw [hact]
  simp only [htargets, List.isEmpty_cons, Bool.false_eq_true, if_false, makeUpdates, List.foldl_cons, List.foldl_nil]
  show applyUpdates popRow.ret (actualG (.list t) t [])
    (updatesFor [2] s_TValue (templatesOf (schemaOf popRow)) (schemaOf popRow) (normalizeProps (schemaOf popRow) true)
      (normalizeProps (actualG (.list t) t []) false) (actualG (.list t) t []) []) = t
  rw [updatesFor_klass0 [2] s_TValue (schemaOf popRow) (.list t) t [] noHit_nil [] (by decide +kernel) (by simp) (by decide +kernel) (by decide +kernel)]
  simp [applyUpdates, propAt_actualG]

/-- `list<t>.__iter__()` is `Iterator<t>` for every `t` -/
theorem returnsOf_listIter (t : Ty) : returnsOf listIterRow (.list t) .nil = tIter t := by
  have hact : expandTy [0] (.list t) ++ expandTys [1] 0 .nil = actualG (.list t) t [] := by
    simp [expandTy, expandTys, actualG]
  have htargets : templatesOf (expandTy [2] listIterRow.ret) = [([2, 0], s_TValue)] := by decide +kernel
  unfold returnsOf resolveTemplates
  rw [hact]
  simp only [htargets, List.isEmpty_cons, Bool.false_eq_true, if_false, makeUpdates, List.foldl_cons, List.foldl_nil]
  show applyUpdates listIterRow.ret (actualG (.list t) t [])
    (updatesFor [2, 0] s_TValue (templatesOf (schemaOf listIterRow)) (schemaOf listIterRow) (normalizeProps (schemaOf listIterRow) true)
      (normalizeProps (actualG (.list t) t []) false) (actualG (.list t) t []) []) = tIter t
  rw [updatesFor_klass0 [2, 0] s_TValue (schemaOf listIterRow) (.list t) t [] noHit_nil [] (by decide +kernel) (by simp) (by decide +kernel) (by decide +kernel)]
  simp [applyUpdates, propAt_actualG, listIterRow, tIter, setAt, setAtL]

theorem prefix01_noHit (v : Ty) : NoHit (expandTy [0, 1] v) := by
  intro e he
  obtain ⟨hp, _⟩ := expandTy_closed v [0, 1] e he
  cases hb : ([0, 0] : Path).isPrefixOf e.1 with
  | false => rfl
  | true =>
    have h00 := List.isPrefixOf_iff_prefix.mp hb
    have t1 := prefix_take hp
    have t2 := prefix_take h00
    simp only [List.length_cons, List.length_nil, Nat.zero_add, Nat.reduceAdd] at t1 t2
    rw [t1] at t2
    simp at t2

/-- `dict<k, v>.__iter__()` is `Iterator<k>` for every `k`, `v` -/
theorem returnsOf_dictIter (k v : Ty) : returnsOf dictIterRow (.dict k v) .nil = tIter k := by
  have hact : expandTy [0] (.dict k v) ++ expandTys [1] 0 .nil = actualG (.dict k v) k (expandTy [0, 1] v) := by
    simp [expandTy, expandTys, actualG]
  have htargets : templatesOf (expandTy [2] dictIterRow.ret) = [([2, 0], s_TKey)] := by decide +kernel
  unfold returnsOf resolveTemplates
  rw [hact]
  simp only [htargets, List.isEmpty_cons, Bool.false_eq_true, if_false, makeUpdates, List.foldl_cons, List.foldl_nil]
  show applyUpdates dictIterRow.ret (actualG (.dict k v) k (expandTy [0, 1] v))
    (updatesFor [2, 0] s_TKey (templatesOf (schemaOf dictIterRow)) (schemaOf dictIterRow) (normalizeProps (schemaOf dictIterRow) true)
      (normalizeProps (actualG (.dict k v) k (expandTy [0, 1] v)) false) (actualG (.dict k v) k (expandTy [0, 1] v)) []) = tIter k
  rw [updatesFor_klass0 [2, 0] s_TKey (schemaOf dictIterRow) (.dict k v) k _ (prefix01_noHit v) [([0, 1], s_TValue)]
    (by decide +kernel) (by decide) (by decide +kernel) (by decide +kernel)]
  simp [applyUpdates, propAt_actualG, dictIterRow, tIter, setAt, setAtL]

/-- `Iterator<t>.__next__()` is `t` for every `t` -/
theorem returnsOf_iterNext (t : Ty) : returnsOf iterNextRow (tIter t) .nil = t := by
  have hact : expandTy [0] (tIter t) ++ expandTys [1] 0 .nil = actualG (tIter t) t [] := by
    simp [expandTy, expandTys, actualG, tIter]
  have htargets : templatesOf (expandTy [2] iterNextRow.ret) = [([2], s_T)] := by decide +kernel
  unfold returnsOf resolveTemplates
  rw [hact]
  simp only [htargets, List.isEmpty_cons, Bool.false_eq_true, if_false, makeUpdates, List.foldl_cons, List.foldl_nil]
  show applyUpdates iterNextRow.ret (actualG (tIter t) t [])
    (updatesFor [2] s_T (templatesOf (schemaOf iterNextRow)) (schemaOf iterNextRow) (normalizeProps (schemaOf iterNextRow) true)
      (normalizeProps (actualG (tIter t) t []) false) (actualG (tIter t) t []) []) = t
  rw [updatesFor_klass0 [2] s_T (schemaOf iterNextRow) (tIter t) t [] noHit_nil [] (by decide +kernel) (by simp) (by decide +kernel) (by decide +kernel)]
  simp [applyUpdates, propAt_actualG]

/-! ## declarations, operator chains -/

theorem EnvConf.cons {ρ : VEnv} {Γ : Env} {x : Str} {v : Val} {T : Ty} (h : EnvConf ct ρ Γ) (hc : Conf ct v T) :
    EnvConf ct ((x, v) :: ρ) ((x, T) :: Γ) := by
  intro y U hy
  simp only [lookup] at hy ⊢
  by_cases hyx : y = x
  · simp only [hyx, if_true] at hy ⊢
    cases hy; exact ⟨v, rfl, hc⟩
  · simp only [hyx, if_false] at hy ⊢
    exact h y U hy

theorem pyBinTy_shape {op : BOp} {l r t : Ty} (h : pyBinTy op l r = some t) : t ∈ scalarTys ∨ ∃ a, t = .list a := by
  unfold pyBinTy at h
  split at h
  all_goals (try (split at h))
  all_goals (try (split at h))
  all_goals (try (split at h))
  all_goals (first | (cases h; done) | skip)
  all_goals (try (simp only [Option.some.injEq] at h; subst h))
  all_goals (first
    | (left; unfold numResult; split <;> decide)
    | (left; decide)
    | (right; exact ⟨_, rfl⟩))

theorem foldBin_shape : ∀ (ops : List (BOp × Ty)) (l T : Ty), ops ≠ [] → stepsOk ct l ops = true → foldBin ct l ops = .ok T →
    T ∈ scalarTys ∨ ∃ a, T = .list a
  | [], _, _, h, _, _ => absurd rfl h
  | (op, r) :: rest, l, T, _, hs, hf => by
    unfold stepsOk at hs
    unfold foldBin at hf
    split at hs
    · rename_i t ht
      rw [ht] at hf
      simp only [Bool.and_eq_true, decide_eq_true_eq] at hs
      cases rest with
      | nil => simp only [foldBin, Except.ok.injEq] at hf; subst hf; exact pyBinTy_shape hs.1
      | cons o rest' => exact foldBin_shape (o :: rest') t T (by simp) hs.2 hf
    · exact absurd hs (by simp)

theorem conf_scalar_typeOf {v : Val} {T : Ty} (hc : Conf ct v T) (hv : typeOf v ∈ scalarTys) (hT : T ∈ scalarTys ∨ ∃ a, T = .list a) :
    T = typeOf v := by
  rcases hT with hT | ⟨a, rfl⟩
  · exact (typeOf_of_conf_scalar hT hc).symm
  · obtain ⟨vs, rfl, _⟩ := hc.list_inv
    simp [typeOf, scalarTys] at hv

/-! ## iteration over user classes -/

theorem returnsOf_noTemplates (m : Method) (recv : Ty) (args : Tys) (h : templatesOf (expandTy [2] m.ret) = []) :
    returnsOf m recv args = m.ret := by
  unfold returnsOf resolveTemplates
  simp [h]

theorem iteratorName_eq : Dunder.iteratorName = s_next := by decide
theorem iterableName_eq : Dunder.iterableName = s_iter := by decide

/-- `iterates` on an instance of a user class that has `__next__` (own or inherited): the declared return type of `__next__`
    (`_resolve_method` asks for `__next__` first, traits.py:332-343) -/
theorem iterates_user_next {c : Str} {mn : Member} (hstub : findIn Dunder.methods c s_next = none)
    (hm : memberOf ct c s_next = some mn) (hk : mn.callable = true)
    (hnt : templatesOf (expandTy [2] mn.ty) = []) (hni : ∀ a rest, mn.ty ≠ .cls s_Iterator (.cons a rest)) :
    iterates ct (.cls c .nil) = .ok mn.ty := by
  have hfm : findMethod ct c s_next = some ⟨c, s_next, .cls c .nil, .nil, mn.ty⟩ := by
    simp only [findMethod, hstub, userMethod, hm, hk, if_true]
  unfold iterates
  simp only [stripNullable, Ty.className, iteratorName_eq, hfm]
  rw [returnsOf_noTemplates _ _ _ hnt]
  simp only
  split
  · rename_i n a rest heq
    split
    · rename_i hn; subst hn; exact absurd heq (hni a rest)
    · rw [heq]
  · rfl

/-! ## iteration over the stub containers, for every element type -/

theorem userMethod_none {c m : Str} (h : findClass ct c = Option.none) : userMethod ct c m = Option.none := by
  have : chainOf ct c = [] := by
    unfold chainOf chainFrom
    simp [h]
  simp [userMethod, memberOf, this]

/-- `for x in <list<t>>`: `x : t`, for every `t` (no user class is called `list`) -/
theorem iterates_list (hc : findClass ct s_list = Option.none) (t : Ty) : iterates ct (.list t) = .ok t := by
  have h1 : findMethod ct s_list s_next = Option.none := by
    simp only [findMethod, findIn_listNext, userMethod_none hc, findIn_objNext]
  have h2 : findMethod ct s_list s_iter = some listIterRow := by
    simp only [findMethod, findIn_listIter]
  unfold iterates
  simp only [stripNullable, Ty.className, iteratorName_eq, iterableName_eq]
  rw [show (['l', 'i', 's', 't'] : Str) = s_list from rfl, h1, h2]
  simp only [returnsOf_listIter, tIter, if_true]

/-- `for x in <dict<k, v>>`: `x : k` -/
theorem iterates_dict (hc : findClass ct s_dict = Option.none) (k v : Ty) : iterates ct (.dict k v) = .ok k := by
  have h1 : findMethod ct s_dict s_next = Option.none := by
    simp only [findMethod, findIn_dictNext, userMethod_none hc, findIn_objNext]
  have h2 : findMethod ct s_dict s_iter = some dictIterRow := by
    simp only [findMethod, findIn_dictIter]
  unfold iterates
  simp only [stripNullable, Ty.className, iteratorName_eq, iterableName_eq]
  rw [show (['d', 'i', 'c', 't'] : Str) = s_dict from rfl, h1, h2]
  simp only [returnsOf_dictIter, tIter, if_true]

/-- `for x in <Iterator<t>>` (range, enumerate, reversed, keys/values): `x : t`, unless `t` is itself an `Iterator<…>`
    (then `iterates` unwraps a second time, traits.py:330) -/
theorem iterates_iterator (t : Ty) (hni : ∀ a rest, t ≠ .cls s_Iterator (.cons a rest)) : iterates ct (tIter t) = .ok t := by
  have h1 : findMethod ct s_Iterator s_next = some iterNextRow := by
    simp only [findMethod, findIn_iterNext]
  unfold iterates
  simp only [tIter, stripNullable, Ty.className, iteratorName_eq, h1]
  have := returnsOf_iterNext t
  simp only [tIter] at this
  rw [this]
  cases t with
  | cls n args =>
    cases args with
    | nil => rfl
    | cons a rest =>
      simp only
      split
      · rename_i hn; subst hn; exact absurd rfl (hni a rest)
      · rfl
  | _ => rfl

end Tranp.Infer
