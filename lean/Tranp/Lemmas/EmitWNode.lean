/-
  The emitted text of a node, read through the wrapper grammar (Tranp.Model.EmitW): token equality, no fused signs,
  C++ normal form by construction, Python's grouping up to parentheses. Used by `C01.group_full`.
-/
import Tranp.Lemmas.Emit
import Tranp.Lemmas.EmitW

namespace Tranp.Emit
open Tranp Tranp.Generated.CppTemplates Tranp.Prec

/-! ## raw shapes of the remaining templates (closed computations over the generated branches) -/

theorem in_raw_dict_in (lty rty : Ty) (l r : List RTok) :
    renderBinary .in_ true lty rty l r =
      r ++ (.t (.sym ['.']) :: .t (.sym nContains) :: .t (.sym ['(']) :: (l ++ [.t (.sym [')'])])) := by rfl

theorem in_raw_dict_notin (lty rty : Ty) (l r : List RTok) :
    renderBinary .notIn true lty rty l r =
      .t (.sym ['(']) :: .t (.sym ['!']) :: (r ++ (.t (.sym ['.']) :: .t (.sym nContains) :: .t (.sym ['(']) ::
        (l ++ [.t (.sym [')']), .t (.sym [')'])]))) := by rfl

def listInRaw (cmp : Str) (l r : List RTok) : List RTok :=
  .t (.sym ['(']) :: .t (.sym nFind) :: .t (.sym ['(']) :: (r ++ (.t (.sym ['.']) :: .t (.sym nBegin) :: .t (.sym ['(']) :: .t (.sym [')']) ::
    .t (.sym [',']) :: .sp :: (r ++ (.t (.sym ['.']) :: .t (.sym nEnd) :: .t (.sym ['(']) :: .t (.sym [')']) :: .t (.sym [',']) :: .sp ::
    (l ++ (.t (.sym [')']) :: .sp :: .t (.sym cmp) :: .sp ::
    (r ++ [.t (.sym ['.']), .t (.sym nEnd), .t (.sym ['(']), .t (.sym [')']), .t (.sym [')'])])))))))

theorem in_raw_list_in (lty rty : Ty) (l r : List RTok) : renderBinary .in_ false lty rty l r = listInRaw ['!', '='] l r := by rfl
theorem in_raw_list_notin (lty rty : Ty) (l r : List RTok) : renderBinary .notIn false lty rty l r = listInRaw ['=', '='] l r := by rfl

theorem tern_raw (p c s : List RTok) :
    render ternaryOperator {} [(sPrimary, p), (sCondition, c), (sSecondary, s)] =
      c ++ (.sp :: .t (.sym ['?']) :: .sp :: (p ++ (.sp :: .t (.sym [':']) :: .sp :: (s ++ [])))) := by rfl

theorem fmod_raw (dict : Bool) (lty rty : Ty) (l r : List RTok) (h : (lty.isFloat || rty.isFloat) = true) :
    renderBinary .mod dict lty rty l r =
      .t (.sym nFmod) :: .t (.sym ['(']) :: (l ++ (.t (.sym [',']) :: .sp :: (r ++ [.t (.sym [')'])]))) := by
  unfold renderBinary
  simp only [isIn, ↓reduceIte, render, select_binary, h, binShape]
  rfl

/-! ## token equality -/

/-- wrapper tokens of a raw fragment -/
def wt (r : List RTok) : List WTok := (unspaced r).map CTok.toW

theorem wt_append (a b : List RTok) : wt (a ++ b) = wt a ++ wt b := by simp [wt, unspaced_append]
theorem wt_sp (r : List RTok) : wt (.sp :: r) = wt r := rfl
theorem wt_tok (k : CTok) (r : List RTok) : wt (.t k :: r) = k.toW :: wt r := rfl
theorem wt_nil : wt [] = [] := rfl

theorem printSufs_append : ∀ (s t : Sufs), printSufs (s.append t) = printSufs s ++ printSufs t
  | .nil, _ => rfl
  | .member n rest, t => by simp [Sufs.append, printSufs, printSufs_append rest t]
  | .call args rest, t => by simp [Sufs.append, printSufs, printSufs_append rest t]

def isLeafO : O → Bool
  | .leaf _ _ => true
  | _ => false

theorem printO_sufO {o : O} (h : isLeafO o = true) (t : Sufs) : printO (sufO o t) = printO o ++ printSufs t := by
  cases o with
  | leaf b s => simp [sufO, printO, printSufs_append]
  | bin _ _ _ => cases h
  | pre _ _ => cases h

theorem toW_op_of_cpp {op : BOp} {s : Str} (h : op.cpp = some s) : CTok.toW (.sym s) = .op op.code := by
  cases op <;> simp only [BOp.cpp, Option.some.injEq, reduceCtorEq] at h <;> subst h <;> rfl

theorem toW_uop (op : UOp) : CTok.toW (.sym op.tok) = .op op.code := by cases op <;> rfl

theorem wt_guard {r : List RTok} {o : O} (b : Bool) (h : wt r = printO o) : wt (guardIf b r) = printO (guardO b o) := by
  cases b
  · simpa [guardIf, guardO] using h
  · simp only [guardIf, guardO, ↓reduceIte, wrapParen, wt_tok, wt_append, h, parenO, printO, printB, printX, printSufs, wt_nil, List.append_nil]
    rfl

/-- one fold step: the tokens of the rendered template are the print of `stepO` (for `in`, the container must be a primary) -/
theorem wt_step (op : BOp) (dict : Bool) (lty rty : Ty) (l r : List RTok) (ol or : O)
    (hop : op.cpp.isSome = true ∨ (isIn op = true ∧ isLeafO or = true))
    (hl : wt l = printO ol) (hr : wt r = printO or) :
    wt (renderBinary op dict lty rty l r) = printO (stepO op dict lty rty ol or) := by
  by_cases hin : isIn op = true
  · have hleaf : isLeafO or = true := by
      rcases hop with h | h
      · cases op <;> simp_all [isIn, BOp.cpp]
      · exact h.2
    have hsuf := fun t => printO_sufO hleaf t
    simp only [stepO, hin, ↓reduceIte, inForm]
    cases op <;> simp only [isIn, beq_self_eq_true, Bool.or_true, Bool.true_or, Bool.or_self, reduceCtorEq, BEq.beq, decide_eq_true_eq] at hin <;> try (exact absurd hin (by decide))
    all_goals cases dict
    all_goals first
      | (simp only [in_raw_dict_in, in_raw_dict_notin, in_raw_list_in, in_raw_list_notin, listInRaw, wt_append, wt_tok, wt_sp, wt_nil, hl, hr]
         simp (config := { decide := true }) only [↓reduceIte, parenO, arg1, printO, printB, printX, printSufs, printArgs, hsuf, List.append_assoc, List.cons_append,
           List.nil_append, List.append_nil, Bool.false_eq_true, beq_self_eq_true, BEq.beq]
         rfl)
  · have hs : op.cpp.isSome = true := by
      rcases hop with h | h
      · exact h
      · exact absurd h.1 hin
    obtain ⟨s, hs⟩ := Option.isSome_iff_exists.mp hs
    simp only [stepO, hin, Bool.false_eq_true, ↓reduceIte]
    by_cases hf : (op == .mod && (lty.isFloat || rty.isFloat)) = true
    · simp only [Bool.and_eq_true, beq_iff_eq] at hf
      obtain ⟨rfl, hfl⟩ := hf
      simp only [beq_self_eq_true, hfl, Bool.and_self, ↓reduceIte, fmod_raw dict lty rty l r hfl, wt_tok, wt_append, wt_sp, wt_nil, hl, hr,
        printO, printB, printSufs, printArgs, printX, List.append_nil, List.cons_append, List.nil_append, List.append_assoc]
      rfl
    · have hf' : (op == .mod && (lty.isFloat || rty.isFloat)) = false := by simpa using hf
      simp only [hf', Bool.false_eq_true, ↓reduceIte, renderBinary_raw op dict lty rty l r s hs hf', wt_append, wt_sp, wt_tok, hl, hr, printO,
        toW_op_of_cpp hs]

theorem matches_tern (n : Node) : (n matches .ternary ..) = n.isTern := by cases n <;> rfl

theorem xOfG_plain (g : Bool) : ∀ (n : Node), n.isTern = false → xOfG g n = .plain (oOfG g n)
  | .atom _ _, _ => rfl
  | .group _, _ => rfl
  | .factor _ _, _ => rfl
  | .notCompare _, _ => rfl
  | .chain _ _ _ _, _ => rfl
  | .ternary _ _ _, h => by simp [Node.isTern] at h

theorem notTern_of_level {n : Node} {k : Nat} (h : k < topLevel n) : n.isTern = false := by
  cases n <;> first | rfl | (simp [topLevel] at h)

/-- the guarded right operand of `in` is a primary -/
theorem isLeaf_guard_in {e : Node} {op : BOp} (hin : isIn op = true) (hw : wf e = true) (hc : coreW e = true)
    (hlv : cmpLevel < topLevel e) (hf : e.isFactor = false) (hn : e.isNot = false) (ht : e.isTern = false) :
    isLeafO (guardO ((true || isIn op) && isRegrouped e op.tok) (oOfG true e)) = true := by
  cases e with
  | atom id t => rfl
  | group e' => rfl
  | factor _ _ => simp [Node.isFactor] at hf
  | notCompare _ => simp [Node.isNot] at hn
  | ternary _ _ _ => simp [Node.isTern] at ht
  | chain lv fty first rest =>
    have hreg : isRegrouped (.chain lv fty first rest) op.tok = true := by
      simp only [wf, Bool.and_eq_true, decide_eq_true_eq] at hw
      simp only [coreW, Bool.and_eq_true] at hc
      cases rest with
      | nil => simp [Rest.length] at hw
      | cons o2 d t e2 r2 =>
        have hprec : precOf op.tok = 11 := by cases op <;> first | rfl | simp [isIn] at hin
        simp only [wfRest, Bool.and_eq_true, decide_eq_true_eq] at hw
        simp only [coreWRest, Bool.and_eq_true, Bool.or_eq_true] at hc
        simp only [topLevel] at hlv
        have hl2 : o2.level = lv := hw.2.1.1.1.1
        have hcpp : o2.cpp.isSome = true := by
          rcases hc.2.1.1 with h | h
          · exact h
          · have : o2.level = cmpLevel := by cases o2 <;> first | rfl | simp [isIn] at h
            simp only [cmpLevel] at this hlv; omega
        obtain ⟨s2, hs2⟩ := Option.isSome_iff_exists.mp hcpp
        have hp := prec_facts hs2
        simp only [isRegrouped, restPrecs, hp.1, hprec, List.isEmpty_cons, Bool.false_eq_true, ↓reduceIte, decide_eq_true_eq]
        have := minList_le (l := o2.prec :: restPrecs r2) List.mem_cons_self
        omega
    simp [hreg, guardO, parenO, isLeafO]

theorem level_of_isIn {op : BOp} (h : isIn op = true) : op.level = cmpLevel := by
  cases op <;> first | rfl | simp [isIn] at h

mutual
/-- the wrapper tokens of the emitted text are the print of the emitted tree -/
theorem tokX : ∀ (n : Node), coreW n = true → wf n = true → wt (emitRaw n) = printX (xOfG true n)
  | .atom _ _, _, _ => rfl
  | .group e, hc, hw => by
    have ih := tokX e (by simpa [coreW] using hc) (by simpa [wf] using hw)
    simp only [emitRaw, render_group, wt_tok, wt_append, wt_nil, ih, xOfG, parenO, printX, printO, printB, printSufs, List.append_nil]
    rfl
  | .factor op e, hc, hw => by
    simp only [wf, Bool.and_eq_true, decide_eq_true_eq] at hw
    have ih := tokX e (by simpa [coreW] using hc) hw.2
    rw [xOfG_plain true e (notTern_of_level (k := 9) (by simp only [factorLevel] at hw; omega))] at ih
    have hg := wt_guard (sameSign op e) (by simpa [printX] using ih)
    simp only [emitRaw, renderUnary_eq, List.append_nil, wt_tok, hg, xOfG, printX, printO, toW_uop, Bool.true_and]
  | .notCompare e, hc, hw => by
    simp only [wf, Bool.and_eq_true, decide_eq_true_eq, Bool.not_eq_true', matches_tern] at hw
    have ih := tokX e (by simpa [coreW] using hc) hw.2
    rw [xOfG_plain true e hw.1.2] at ih
    have hg := wt_guard (isRegrouped e ['!']) (by simpa [printX] using ih)
    simp only [emitRaw, renderUnary_eq, List.append_nil, wt_tok, hg, xOfG, printX, printO, Bool.true_and]
    rfl
  | .chain lv fty first rest, hc, hw => by
    simp only [coreW, Bool.and_eq_true] at hc
    simp only [wf, Bool.and_eq_true, decide_eq_true_eq, Bool.not_eq_true', matches_tern] at hw
    obtain ⟨⟨⟨⟨_, hnt⟩, hwf⟩, _⟩, hwr⟩ := hw
    have ih := tokX first hc.1 hwf
    rw [xOfG_plain true first hnt] at ih
    have hg := wt_guard (match rest.firstTok with | some o => isRegrouped first o | none => false) (by simpa [printX] using ih)
    simp only [emitRaw, xOfG, printX, Bool.true_and]
    exact tokRest rest lv fty _ _ hc.2 hwr hg
  | .ternary p c s, hc, hw => by
    simp only [coreW, Bool.and_eq_true] at hc
    simp only [wf, Bool.and_eq_true, Bool.not_eq_true', matches_tern] at hw
    obtain ⟨⟨⟨⟨hnp, hnc⟩, hwp⟩, hwc⟩, hws⟩ := hw
    have ihp := tokX p hc.1.1 hwp
    have ihc := tokX c hc.1.2 hwc
    have ihs := tokX s hc.2 hws
    rw [xOfG_plain true c hnc] at ihc
    simp only [printX] at ihc
    simp only [emitRaw, tern_raw, wt_append, wt_sp, wt_tok, List.append_nil, ihp, ihc, ihs, xOfG, printX]
    rfl
theorem tokRest : ∀ (rest : Rest) (lv : Nat) (pty : Ty) (prim : List RTok) (acc : O), coreWRest rest = true → wfRest lv rest = true →
    wt prim = printO acc → wt (emitRest prim pty rest) = printO (oRestG true acc pty rest)
  | .nil, _, _, _, _, _, _, h => by simpa [emitRest, oRestG] using h
  | .cons op dict ty e rest, lv, pty, prim, acc, hc, hw, h => by
    simp only [coreWRest, Bool.and_eq_true, Bool.or_eq_true, Bool.not_eq_true'] at hc
    obtain ⟨⟨hop, hce⟩, hcr⟩ := hc
    simp only [wfRest, Bool.and_eq_true, decide_eq_true_eq, Bool.not_eq_true', matches_tern] at hw
    obtain ⟨⟨⟨⟨hlv, hlt⟩, hnt⟩, hwe⟩, hwr⟩ := hw
    have ih := tokX e hce hwe
    rw [xOfG_plain true e hnt] at ih
    have hg := wt_guard (isRegrouped e op.tok) (by simpa [printX] using ih)
    simp only [emitRest, oRestG, Bool.true_and]
    apply tokRest rest lv _ _ _ hcr hwr
    apply wt_step op dict pty ty prim _ acc _ ?_ h hg
    rcases hop with h1 | h1
    · exact Or.inl h1
    · refine Or.inr ⟨h1.1.1, ?_⟩
      have := isLeaf_guard_in (e := e) (op := op) h1.1.1 hwe hce (by rw [← level_of_isIn h1.1.1, hlv]; exact hlt) h1.1.2 h1.2 hnt
      simpa using this
end

theorem toksW_eq (n : Node) (hc : coreW n = true) (hw : wf n = true) (hl : cppLex (emitRaw n) = unspaced (emitRaw n)) :
    toksW n = printX (xOf n) := by
  simp only [toksW, emit, hl]
  exact tokX n hc hw

/-! ## no fused signs, for every node of the full operator language -/

/-- a fragment that can be put anywhere between non-sign neighbours -/
structure Seg (r : List RTok) : Prop where
  free : fuseFree none r = true
  free' : ∀ a, isSign a = false → fuseFree (some a) r = true
  last : ∀ p, (∀ k, p = some k → isSign k = false) → ∀ k, lastTok p r = some k → isSign k = false

theorem seg_nil : Seg [] := ⟨rfl, fun _ _ => rfl, fun p hp k hk => hp k hk⟩

theorem seg_append {a b : List RTok} (ha : Seg a) (hb : Seg b) : Seg (a ++ b) := by
  refine ⟨?_, fun x hx => ?_, fun p hp k hk => ?_⟩
  · rw [fuseFree_append, ha.free, Bool.true_and]
    cases h : lastTok none a with
    | none => exact hb.free
    | some k => exact hb.free' k (ha.last none (fun _ hk => by cases hk) k h)
  · rw [fuseFree_append, ha.free' x hx, Bool.true_and]
    cases h : lastTok (some x) a with
    | none => exact hb.free
    | some k => exact hb.free' k (ha.last (some x) (fun _ hk => by cases hk; exact hx) k h)
  · rw [lastTok_append] at hk
    exact hb.last (lastTok p a) (fun k' hk' => ha.last p hp k' hk') k hk

theorem seg_tok {k : CTok} (h : isSign k = false) : Seg [.t k] :=
  ⟨rfl, fun a ha => by simp [fuseFree, okPair_of_not_sign_left ha], fun _ _ k' hk' => by simp [lastTok] at hk'; subst hk'; exact h⟩

theorem seg_sp : Seg [.sp] := ⟨rfl, fun _ _ => rfl, fun _ _ k hk => by simp [lastTok] at hk⟩

theorem seg_cons_tok {k : CTok} {r : List RTok} (h : isSign k = false) (hr : Seg r) : Seg (.t k :: r) := seg_append (seg_tok h) hr
theorem seg_cons_sp {r : List RTok} (hr : Seg r) : Seg (.sp :: r) := seg_append seg_sp hr

theorem seg_of_good {r : List RTok} (g : Good r) : Seg r :=
  ⟨g.free, fun _ ha => fuseFree_after_closed g ha, fun p _ k hk => by
    obtain ⟨k', hk', hs⟩ := g.ends p
    rw [hk'] at hk; cases hk; exact hs⟩

theorem ends_snoc (x : List RTok) {k : CTok} (hk : isSign k = false) : ∀ p, ∃ k', lastTok p (x ++ [.t k]) = some k' ∧ isSign k' = false :=
  fun p => ⟨k, by simp [lastTok_append, lastTok], hk⟩

theorem ends_append_good (x : List RTok) {s : List RTok} (g : Good s) : ∀ p, ∃ k', lastTok p (x ++ s) = some k' ∧ isSign k' = false :=
  fun p => by rw [lastTok_append]; exact g.ends _

macro "seg_tac" : tactic => `(tactic|
  repeat (first
    | exact seg_nil
    | apply seg_cons_sp
    | apply seg_cons_tok (by decide)
    | apply seg_append
    | (apply seg_of_good; assumption)))

theorem good_dict_in {l r : List RTok} (gl : Good l) (gr : Good r) :
    Good (r ++ (.t (.sym ['.']) :: .t (.sym nContains) :: .t (.sym ['(']) :: (l ++ [.t (.sym [')'])]))) := by
  have hs : Seg (r ++ (.t (.sym ['.']) :: .t (.sym nContains) :: .t (.sym ['(']) :: (l ++ [.t (.sym [')'])]))) := by seg_tac
  obtain ⟨b, ts, rfl⟩ := gr.starts
  refine ⟨hs.free, ⟨_, _, rfl⟩, ?_⟩
  have := ends_snoc (.t b :: ts ++ (.t (.sym ['.']) :: .t (.sym nContains) :: .t (.sym ['(']) :: l)) (k := .sym [')']) (by decide)
  simpa using this

theorem good_paren_end (x : List RTok) (hs : Seg (.t (.sym ['(']) :: (x ++ [.t (.sym [')'])]))) :
    Good (.t (.sym ['(']) :: (x ++ [.t (.sym [')'])])) :=
  ⟨hs.free, ⟨_, _, rfl⟩, by simpa using ends_snoc (.t (.sym ['(']) :: x) (k := .sym [')']) (by decide)⟩

theorem good_dict_notin {l r : List RTok} (gl : Good l) (gr : Good r) :
    Good (.t (.sym ['(']) :: .t (.sym ['!']) :: (r ++ (.t (.sym ['.']) :: .t (.sym nContains) :: .t (.sym ['(']) ::
      (l ++ [.t (.sym [')']), .t (.sym [')'])])))) := by
  have := good_paren_end (.t (.sym ['!']) :: (r ++ (.t (.sym ['.']) :: .t (.sym nContains) :: .t (.sym ['(']) :: (l ++ [.t (.sym [')'])]))))
    (by simp only [List.cons_append, List.append_assoc]; seg_tac)
  simpa using this

theorem good_listIn (cmp : Str) (hc : isSign (.sym cmp) = false) {l r : List RTok} (gl : Good l) (gr : Good r) : Good (listInRaw cmp l r) := by
  have := good_paren_end (.t (.sym nFind) :: .t (.sym ['(']) :: (r ++ (.t (.sym ['.']) :: .t (.sym nBegin) :: .t (.sym ['(']) :: .t (.sym [')']) ::
    .t (.sym [',']) :: .sp :: (r ++ (.t (.sym ['.']) :: .t (.sym nEnd) :: .t (.sym ['(']) :: .t (.sym [')']) :: .t (.sym [',']) :: .sp ::
    (l ++ (.t (.sym [')']) :: .sp :: .t (.sym cmp) :: .sp ::
    (r ++ [.t (.sym ['.']), .t (.sym nEnd), .t (.sym ['(']), .t (.sym [')'])]))))))))
    (by
      simp only [List.cons_append, List.append_assoc]
      repeat (first
        | exact seg_nil
        | apply seg_cons_sp
        | apply seg_cons_tok hc
        | apply seg_cons_tok (by decide)
        | apply seg_append
        | (apply seg_of_good; assumption)))
  simpa [listInRaw] using this

theorem good_fmod {l r : List RTok} (gl : Good l) (gr : Good r) :
    Good (.t (.sym nFmod) :: .t (.sym ['(']) :: (l ++ (.t (.sym [',']) :: .sp :: (r ++ [.t (.sym [')'])])))) := by
  have hs : Seg (.t (.sym nFmod) :: .t (.sym ['(']) :: (l ++ (.t (.sym [',']) :: .sp :: (r ++ [.t (.sym [')'])])))) := by seg_tac
  refine ⟨hs.free, ⟨_, _, rfl⟩, ?_⟩
  have := ends_snoc (.t (.sym nFmod) :: .t (.sym ['(']) :: (l ++ (.t (.sym [',']) :: .sp :: r))) (k := .sym [')']) (by decide)
  simpa using this

theorem good_tern {p c s : List RTok} (gp : Good p) (gc : Good c) (gs : Good s) :
    Good (c ++ (.sp :: .t (.sym ['?']) :: .sp :: (p ++ (.sp :: .t (.sym [':']) :: .sp :: (s ++ []))))) := by
  have hs : Seg (c ++ (.sp :: .t (.sym ['?']) :: .sp :: (p ++ (.sp :: .t (.sym [':']) :: .sp :: (s ++ []))))) := by seg_tac
  obtain ⟨b, ts, rfl⟩ := gc.starts
  refine ⟨hs.free, ⟨_, _, rfl⟩, ?_⟩
  have := ends_append_good (.t b :: ts ++ (.sp :: .t (.sym ['?']) :: .sp :: (p ++ [.sp, .t (.sym [':']), .sp]))) gs
  simpa using this

/-- one fold step keeps the fragment well-behaved -/
theorem good_step (op : BOp) (dict : Bool) (lty rty : Ty) {l r : List RTok} (hop : op.cpp.isSome = true ∨ isIn op = true)
    (gl : Good l) (gr : Good r) : Good (renderBinary op dict lty rty l r) := by
  by_cases hin : isIn op = true
  · cases op <;> simp only [isIn, reduceCtorEq, BEq.beq, decide_eq_true_eq, Bool.or_self, Bool.or_false, Bool.false_or] at hin <;> try (exact absurd hin (by decide))
    all_goals cases dict
    · rw [in_raw_list_in]; exact good_listIn _ (by decide) gl gr
    · rw [in_raw_dict_in]; exact good_dict_in gl gr
    · rw [in_raw_list_notin]; exact good_listIn _ (by decide) gl gr
    · rw [in_raw_dict_notin]; exact good_dict_notin gl gr
  · have hs : op.cpp.isSome = true := by
      rcases hop with h | h
      · exact h
      · exact absurd h hin
    obtain ⟨s, hs⟩ := Option.isSome_iff_exists.mp hs
    by_cases hf : (op == .mod && (lty.isFloat || rty.isFloat)) = true
    · simp only [Bool.and_eq_true, beq_iff_eq] at hf
      obtain ⟨rfl, hfl⟩ := hf
      rw [fmod_raw dict lty rty l r hfl]; exact good_fmod gl gr
    · rw [renderBinary_raw op dict lty rty l r s hs (by simpa using hf)]
      exact good_binary gl gr s

mutual
theorem goodW_emitRaw : ∀ (n : Node), coreW n = true → wf n = true → Good (emitRaw n)
  | .atom id t, _, _ => good_atom id t
  | .group e, hc, hw => by
    have ih := goodW_emitRaw e (by simpa [coreW] using hc) (by simpa [wf] using hw)
    simpa [emitRaw, render_group, wrapParen] using good_wrapParen ih
  | .factor op e, hc, hw => by
    simp only [wf, Bool.and_eq_true, decide_eq_true_eq] at hw
    have hce : coreW e = true := by simpa [coreW] using hc
    have ih := goodW_emitRaw e hce hw.2
    simp only [emitRaw, renderUnary_eq]
    apply good_unary (good_guardIf ih _)
    intro b hb
    cases hs : sameSign op e with
    | true => simp only [hs, guardIf, ↓reduceIte, headTok_wrapParen, Option.some.injEq] at hb; subst hb; exact okPair_lp _
    | false =>
      simp only [hs, guardIf, Bool.false_eq_true, ↓reduceIte] at hb
      cases e with
      | atom id t => simp only [emitRaw, headTok, Option.some.injEq] at hb; subst hb; exact okPair_atom _ _ _
      | group e' => simp only [emitRaw, render_group, headTok, Option.some.injEq] at hb; subst hb; exact okPair_lp _
      | factor op' e' =>
        simp only [emitRaw, renderUnary_eq, headTok, Option.some.injEq] at hb; subst hb
        exact okPair_uop_of_not_sameSign (by simpa [sameSign] using hs)
      | notCompare e' => simp [topLevel, factorLevel, notLevel] at hw
      | chain lv fty f r =>
        have := wf_chain_level_le hw.2
        simp only [topLevel, factorLevel] at hw; omega
      | ternary p c s => simp [topLevel, factorLevel] at hw
  | .notCompare e, hc, hw => by
    simp only [wf, Bool.and_eq_true, decide_eq_true_eq] at hw
    have ih := goodW_emitRaw e (by simpa [coreW] using hc) hw.2
    simp only [emitRaw, renderUnary_eq]
    exact good_unary (good_guardIf ih _) _ (fun b _ => okPair_bang b)
  | .chain lv fty first rest, hc, hw => by
    simp only [coreW, Bool.and_eq_true] at hc
    simp only [wf, Bool.and_eq_true, decide_eq_true_eq] at hw
    obtain ⟨⟨⟨⟨_, _⟩, hwf⟩, _⟩, hwr⟩ := hw
    have ih := goodW_emitRaw first hc.1 hwf
    simp only [emitRaw]
    exact goodW_emitRest rest lv fty _ hc.2 hwr (good_guardIf ih _)
  | .ternary p c s, hc, hw => by
    simp only [coreW, Bool.and_eq_true] at hc
    simp only [wf, Bool.and_eq_true] at hw
    obtain ⟨⟨⟨_, hwp⟩, hwc⟩, hws⟩ := hw
    simp only [emitRaw, tern_raw]
    exact good_tern (goodW_emitRaw p hc.1.1 hwp) (goodW_emitRaw c hc.1.2 hwc) (goodW_emitRaw s hc.2 hws)
theorem goodW_emitRest : ∀ (rest : Rest) (lv : Nat) (pty : Ty) (prim : List RTok), coreWRest rest = true → wfRest lv rest = true →
    Good prim → Good (emitRest prim pty rest)
  | .nil, _, _, _, _, _, g => by simpa [emitRest] using g
  | .cons op dict ty e rest, lv, pty, prim, hc, hw, g => by
    simp only [coreWRest, Bool.and_eq_true, Bool.or_eq_true] at hc
    obtain ⟨⟨hop, hce⟩, hcr⟩ := hc
    simp only [wfRest, Bool.and_eq_true, decide_eq_true_eq] at hw
    obtain ⟨⟨⟨⟨_, _⟩, _⟩, hwe⟩, hwr⟩ := hw
    have ih := goodW_emitRaw e hce hwe
    simp only [emitRest]
    apply goodW_emitRest rest lv _ _ hcr hwr
    exact good_step op dict pty ty (hop.imp id (fun h => h.1.1)) g (good_guardIf ih _)
end

theorem cppLexW_emitRaw (n : Node) (hc : coreW n = true) (hw : wf n = true) : cppLex (emitRaw n) = unspaced (emitRaw n) := by
  have := cppLexGo_of_fuseFree none _ (goodW_emitRaw n hc hw).free
  simpa [cppLex] using this

/-! ## C++ normal form by construction, on the wrapper trees -/

theorem head_guardO (b : Bool) (o : O) : (guardO b o).head = if b then .leaf else o.head := by cases b <;> rfl

theorem nfO_guardO (b : Bool) (o : O) : nfO (guardO b o) = nfO o := by
  cases b
  · rfl
  · simp [guardO, parenO, nfO, nfB, nfX, nfSufs]

theorem nfSufs_append : ∀ (s t : Sufs), nfSufs (s.append t) = (nfSufs s && nfSufs t)
  | .nil, _ => by simp [Sufs.append, nfSufs]
  | .member _ rest, t => by simp [Sufs.append, nfSufs, nfSufs_append rest t]
  | .call args rest, t => by simp [Sufs.append, nfSufs, nfSufs_append rest t, Bool.and_assoc]

theorem nfO_sufO (o : O) (t : Sufs) : nfO (sufO o t) = (nfO o && nfSufs t) := by
  cases o with
  | leaf b s => simp [sufO, nfO, nfSufs_append, Bool.and_assoc]
  | bin _ _ _ => simp [sufO, nfO, nfB, nfX]
  | pre _ _ => simp [sufO, nfO, nfB, nfX]

theorem head_sufO (o : O) (t : Sufs) : (sufO o t).head = .leaf := by cases o <;> rfl

theorem nfO_parenO_plain (o : O) : nfO (parenO (.plain o)) = nfO o := by simp [parenO, nfO, nfB, nfX, nfSufs]

theorem nfO_inForm (op : BOp) (dict : Bool) (l r : O) (hl : nfO l = true) (hr : nfO r = true) : nfO (inForm op dict l r) = true := by
  have e1 : nfO (sufO r (.member nEnd (.call .nil .nil))) = true := by simp [nfO_sufO, hr, nfSufs, nfArgs]
  have e2 : nfO (sufO r (.member nBegin (.call .nil .nil))) = true := by simp [nfO_sufO, hr, nfSufs, nfArgs]
  have e3 : nfO (sufO r (.member nContains (.call (arg1 l) .nil))) = true := by simp [nfO_sufO, hr, nfSufs, nfArgs, arg1, nfX, hl]
  have hne : slotOk cppOps (.bin (symCode ['!', '='])) .left .leaf = true ∧ slotOk cppOps (.bin (symCode ['!', '='])) .right .leaf = true := by decide
  have heq : slotOk cppOps (.bin (symCode ['=', '='])) .left .leaf = true ∧ slotOk cppOps (.bin (symCode ['=', '='])) .right .leaf = true := by decide
  have hbang : slotOk cppOps (.pre bangCode) .operand .leaf = true := by decide
  have hfnd : ∀ x y z, nfO (O.leaf (.name nFind) (.call (.cons (.plain x) (.cons (.plain y) (.cons (.plain z) .nil))) .nil))
      = (nfO x && nfO y && nfO z) := by intro x y z; simp [nfO, nfB, nfSufs, nfArgs, nfX, Bool.and_assoc]
  cases dict
  · by_cases h : (op == BOp.in_) = true
    · simp only [inForm, Bool.false_eq_true, ↓reduceIte, h, nfO_parenO_plain, nfO, head_sufO]
      simp [O.head, nfB, nfSufs, nfArgs, nfX, e1, e2, hl, hne.1, hne.2]
    · have h' : (op == BOp.in_) = false := by simpa using h
      simp only [inForm, Bool.false_eq_true, ↓reduceIte, h', nfO_parenO_plain, nfO, head_sufO]
      simp [O.head, nfB, nfSufs, nfArgs, nfX, e1, e2, hl, heq.1, heq.2]
  · by_cases h : (op == BOp.in_) = true
    · simp only [inForm, ↓reduceIte, h, e3]
    · have h' : (op == BOp.in_) = false := by simpa using h
      simp only [inForm, ↓reduceIte, h', Bool.false_eq_true, nfO_parenO_plain, nfO, head_sufO, hbang, e3, Bool.and_self]

theorem head_inForm (op : BOp) (dict : Bool) (l r : O) : (inForm op dict l r).head = .leaf := by
  cases dict <;> cases h : (op == BOp.in_) <;> simp only [inForm, h, ↓reduceIte, Bool.false_eq_true, head_sufO] <;> rfl

/-- what the head of the emitted tree of a node can be (wrapper version of `HeadOK`) -/
def HeadOKW (n : Node) : Prop :=
  (oOfG true n).head = .leaf ∨ (∃ c, (oOfG true n).head = .pre c ∧ cppOps.pre c = some 10) ∨
  (∃ (o : BOp) (s : Str), (oOfG true n).head = .bin o.code ∧ o.cpp = some s ∧ o.level = topLevel n ∧
    ∀ tok, isRegrouped n tok = false → precOf tok ≤ o.prec)

theorem head_stepO (op : BOp) (dict : Bool) (lty rty : Ty) (l r : O) :
    (stepO op dict lty rty l r).head = .leaf ∨ ((stepO op dict lty rty l r).head = .bin op.code ∧ isIn op = false) := by
  by_cases hin : isIn op = true
  · exact Or.inl (by simp [stepO, hin, head_inForm])
  · by_cases hf : (op == .mod && (lty.isFloat || rty.isFloat)) = true
    · exact Or.inl (by simp only [stepO, hin, hf]; rfl)
    · exact Or.inr ⟨by simp only [stepO, hin, hf]; rfl, by simpa using hin⟩

theorem head_oRestG : ∀ (rest : Rest) (acc : O) (pty : Ty) (o : BOp), rest.lastOp = some o →
    (oRestG true acc pty rest).head = .leaf ∨ ((oRestG true acc pty rest).head = .bin o.code ∧ isIn o = false)
  | .nil, _, _, _, h => by cases h
  | .cons op d t e rest, acc, pty, o, h => by
    simp only [Rest.lastOp] at h
    simp only [oRestG]
    cases hlo : rest.lastOp with
    | none =>
      rw [hlo] at h; cases h
      cases rest with
      | nil => simpa [oRestG] using head_stepO _ _ _ _ _ _
      | cons _ _ _ _ r2 =>
        simp only [Rest.lastOp] at hlo
        cases h2 : r2.lastOp <;> simp [h2] at hlo
    | some o' =>
      rw [hlo] at h; cases h
      exact head_oRestG rest _ _ o hlo

theorem lastOpW_facts : ∀ (rest : Rest) (lv : Nat) (o : BOp), coreWRest rest = true → wfRest lv rest = true →
    rest.lastOp = some o → (o.cpp.isSome = true ∨ isIn o = true) ∧ o.level = lv ∧ (∀ s, o.cpp = some s → o.prec ∈ restPrecs rest)
  | .nil, _, _, _, _, hl => by cases hl
  | .cons op d t e rest, lv, o, hc, hw, hl => by
    simp only [coreWRest, Bool.and_eq_true, Bool.or_eq_true] at hc
    simp only [wfRest, Bool.and_eq_true, decide_eq_true_eq] at hw
    simp only [Rest.lastOp] at hl
    cases hlo : rest.lastOp with
    | none =>
      rw [hlo] at hl; cases hl
      refine ⟨hc.1.1.imp id (fun h => h.1.1), hw.1.1.1.1, fun s hs => ?_⟩
      simp only [restPrecs, (prec_facts hs).1]; exact List.mem_cons_self
    | some o' =>
      rw [hlo] at hl; cases hl
      have := lastOpW_facts rest lv o hc.2 hw.2 hlo
      refine ⟨this.1, this.2.1, fun s hs => ?_⟩
      have hm := this.2.2 s hs
      simp only [restPrecs]
      cases lookup op.tok cppPrecBinary with
      | none => exact hm
      | some k => exact List.mem_cons_of_mem _ hm

theorem headOKW (n : Node) (hc : coreW n = true) (hw : wf n = true) (hnt : n.isTern = false) : HeadOKW n := by
  cases n with
  | atom id t => exact Or.inl rfl
  | group e => exact Or.inl rfl
  | factor op e => exact Or.inr (Or.inl ⟨op.code, rfl, cppOps_pre_uop op⟩)
  | notCompare e => exact Or.inr (Or.inl ⟨bangCode, rfl, cppOps_pre_bang⟩)
  | ternary p c s => simp [Node.isTern] at hnt
  | chain lv fty first rest =>
    simp only [coreW, Bool.and_eq_true] at hc
    simp only [wf, Bool.and_eq_true, decide_eq_true_eq] at hw
    obtain ⟨⟨⟨_, _⟩, hlen⟩, hwr⟩ := hw
    obtain ⟨o, hlo⟩ := lastOp_isSome_of_length rest hlen
    obtain ⟨hcore, hlv, hmem⟩ := lastOpW_facts rest lv o hc.2 hwr hlo
    simp only [HeadOKW, oOfG]
    generalize guardO _ (oOfG true first) = acc
    rcases head_oRestG rest acc fty o hlo with h | ⟨h, hni⟩
    · exact Or.inl h
    · have hcpp : o.cpp.isSome = true := by
        rcases hcore with h' | h'
        · exact h'
        · rw [hni] at h'; cases h'
      obtain ⟨s, hs⟩ := Option.isSome_iff_exists.mp hcpp
      refine Or.inr (Or.inr ⟨o, s, h, hs, hlv, ?_⟩)
      intro tok hreg
      simp only [isRegrouped] at hreg
      split at hreg
      · next hemp => simp only [List.isEmpty_iff] at hemp; have := hmem s hs; rw [hemp] at this; cases this
      · have := minList_le (hmem s hs)
        simp only [decide_eq_false_iff_not, Nat.not_lt] at hreg
        omega

theorem right_okW {P : BOp} {s : Str} (hP : P.cpp = some s) {e : Node} (hk : HeadOKW e) (hlt : P.level < topLevel e) :
    okAt cppOps (P.prec - 1 + 1) (guardO (true && isRegrouped e P.tok) (oOfG true e)).head = true := by
  have hp := prec_facts hP
  rw [head_guardO]
  cases hreg : isRegrouped e P.tok with
  | true => rfl
  | false =>
    simp only [Bool.and_false, Bool.false_eq_true, ↓reduceIte]
    rcases hk with h | ⟨c, h, hc⟩ | ⟨o, so, h, ho, hlv, hmin⟩
    · rw [h]; rfl
    · rw [h]; simp only [okAt, hc]; simp; omega
    · have h1 := hmin _ hreg
      rw [precOf_tok hP] at h1
      have h2 := prec_ne_of_level hP ho (by omega)
      have ho' := prec_facts ho
      rw [h]; simp only [okAt, ho'.2.1]; simp; omega

theorem left_okW {P : BOp} {s : Str} (hP : P.cpp = some s) {e : Node} (hk : HeadOKW e) :
    okL cppOps (P.prec - 1) (guardO (true && isRegrouped e P.tok) (oOfG true e)).head = true := by
  have hp := prec_facts hP
  rw [head_guardO]
  cases hreg : isRegrouped e P.tok with
  | true => rfl
  | false =>
    simp only [Bool.and_false, Bool.false_eq_true, ↓reduceIte]
    rcases hk with h | ⟨c, h, hc⟩ | ⟨o, so, h, ho, hlv, hmin⟩
    · rw [h]; rfl
    · rw [h]; simp only [okL, hc]; simp; omega
    · have h1 := hmin _ hreg
      rw [precOf_tok hP] at h1
      have ho' := prec_facts ho
      rw [h]; simp only [okL, ho'.2.1]; simp; omega

/-- the accumulated left operand of a chain of Python level `lv`: a primary, or an infix of that very level -/
def AccOK (lv : Nat) (acc : O) : Prop :=
  acc.head = .leaf ∨ ∃ (o : BOp) (s : Str), acc.head = .bin o.code ∧ o.cpp = some s ∧ o.level = lv

/-- nf of one fold step, given the slot conditions for the infix case -/
theorem nfO_stepO (op : BOp) (dict : Bool) (lty rty : Ty) (l r : O) (hl : nfO l = true) (hr : nfO r = true)
    (hslot : isIn op = false → ∀ s, op.cpp = some s →
      okL cppOps (op.prec - 1) l.head = true ∧ okAt cppOps (op.prec - 1 + 1) r.head = true)
    (hop : op.cpp.isSome = true ∨ isIn op = true) : nfO (stepO op dict lty rty l r) = true := by
  by_cases hin : isIn op = true
  · simp only [stepO, hin, ↓reduceIte]; exact nfO_inForm op dict l r hl hr
  · by_cases hf : (op == .mod && (lty.isFloat || rty.isFloat)) = true
    · simp [stepO, hin, hf, nfO, nfB, nfSufs, nfArgs, nfX, hl, hr]
    · have hs : op.cpp.isSome = true := hop.resolve_right hin
      obtain ⟨s, hs⟩ := Option.isSome_iff_exists.mp hs
      have hsl := hslot (by simpa using hin) s hs
      simp only [stepO, hin, hf, Bool.false_eq_true, ↓reduceIte, nfO, slotOk, (prec_facts hs).2.1, hl, hr, hsl.1, hsl.2, Bool.and_self]

mutual
/-- **by construction**: the emitted tree of a chain-free node is in C++ normal form, at every level of nesting -/
theorem nfX_node : ∀ (n : Node), coreW n = true → wf n = true → cmpChainFree n = true → nfX (xOfG true n) = true
  | .atom _ _, _, _, _ => rfl
  | .group e, hc, hw, hf => by
    have ih := nfX_node e (by simpa [coreW] using hc) (by simpa [wf] using hw) (by simpa [cmpChainFree] using hf)
    simp [xOfG, nfX, parenO, nfO, nfB, nfSufs, ih]
  | .factor op e, hc, hw, hf => by
    simp only [wf, Bool.and_eq_true, decide_eq_true_eq] at hw
    have hce : coreW e = true := by simpa [coreW] using hc
    have hnt : e.isTern = false := notTern_of_level (k := 9) (by simp only [factorLevel] at hw; omega)
    have ih := nfX_node e hce hw.2 (by simpa [cmpChainFree] using hf)
    rw [xOfG_plain true e hnt] at ih
    simp only [nfX] at ih
    simp only [xOfG, nfX, nfO, slotOk, cppOps_pre_uop, Bool.and_eq_true, nfO_guardO, head_guardO, Bool.true_and]
    refine ⟨?_, ih⟩
    cases hs : sameSign op e with
    | true => rfl
    | false =>
      simp only [Bool.false_eq_true, ↓reduceIte]
      rcases headOKW e hce hw.2 hnt with h | ⟨c, h, hc'⟩ | ⟨o, so, h, ho, hlv, _⟩
      · rw [h]; rfl
      · rw [h]; simp [okAt, hc']
      · have := level_le_nine o
        simp only [factorLevel] at hw; omega
  | .notCompare e, hc, hw, hf => by
    simp only [wf, Bool.and_eq_true, decide_eq_true_eq, Bool.not_eq_true', matches_tern] at hw
    have hce : coreW e = true := by simpa [coreW] using hc
    have ih := nfX_node e hce hw.2 (by simpa [cmpChainFree] using hf)
    rw [xOfG_plain true e hw.1.2] at ih
    simp only [nfX] at ih
    simp only [xOfG, nfX, nfO, slotOk, cppOps_pre_bang, Bool.and_eq_true, nfO_guardO, head_guardO, Bool.true_and]
    refine ⟨?_, ih⟩
    cases hreg : isRegrouped e ['!'] with
    | true => rfl
    | false =>
      simp only [Bool.false_eq_true, ↓reduceIte]
      rcases headOKW e hce hw.2 hw.1.2 with h | ⟨c, h, hc'⟩ | ⟨o, so, h, ho, hlv, hmin⟩
      · rw [h]; rfl
      · rw [h]; simp [okAt, hc']
      · have h1 := hmin _ hreg
        have := (prec_facts ho).2.2.2
        rw [precOf_bang] at h1; omega
  | .chain lv fty first rest, hc, hw, hf => by
    simp only [coreW, Bool.and_eq_true] at hc
    simp only [wf, Bool.and_eq_true, decide_eq_true_eq, Bool.not_eq_true', matches_tern] at hw
    obtain ⟨⟨⟨⟨hlt, hnt⟩, hwf⟩, hlen⟩, hwr⟩ := hw
    simp only [cmpChainFree, Bool.and_eq_true, Bool.not_eq_true'] at hf
    obtain ⟨⟨hcmp, hff⟩, hfr⟩ := hf
    have ihf := nfX_node first hc.1 hwf hff
    rw [xOfG_plain true first hnt] at ihf
    simp only [nfX] at ihf
    cases rest with
    | nil => simp [Rest.length] at hlen
    | cons op d ty e rest' =>
      simp only [xOfG, nfX, Rest.firstTok]
      refine nfRest (.cons op d ty e rest') lv fty _ hc.2 hwr hfr (fun h => ?_) (by simpa [nfO_guardO] using ihf) (fun o2 s2 h2 _ hft => ?_)
      · cases rest' with
        | nil => simp [Rest.length]
        | cons _ _ _ _ _ => simp [h, Rest.length, cmpLevel] at hcmp
      · -- the first operand, guarded against operators[0]
        simp only [Rest.firstTok, Option.some.injEq] at hft
        rw [hft]
        exact left_okW h2 (headOKW first hc.1 hwf hnt)
  | .ternary p c s, hc, hw, hf => by
    simp only [coreW, Bool.and_eq_true] at hc
    simp only [wf, Bool.and_eq_true, Bool.not_eq_true', matches_tern] at hw
    obtain ⟨⟨⟨⟨hnp, hnc⟩, hwp⟩, hwc⟩, hws⟩ := hw
    simp only [cmpChainFree, Bool.and_eq_true] at hf
    have ihc := nfX_node c hc.1.2 hwc hf.1.2
    rw [xOfG_plain true c hnc] at ihc
    simp only [nfX] at ihc
    simp only [xOfG, nfX, ihc, nfX_node p hc.1.1 hwp hf.1.1, nfX_node s hc.2 hws hf.2, Bool.and_self]
/-- fold over the rest of a chain: `acc` is in normal form and may stand as the left operand of the next operator -/
theorem nfRest : ∀ (rest : Rest) (lv : Nat) (pty : Ty) (acc : O), coreWRest rest = true → wfRest lv rest = true →
    cmpChainFreeRest rest = true → (lv = cmpLevel → rest.length ≤ 1) → nfO acc = true →
    (∀ (o : BOp) (s : Str), o.cpp = some s → o.level = lv → rest.firstTok = some o.tok → okL cppOps (o.prec - 1) acc.head = true) →
    nfO (oRestG true acc pty rest) = true
  | .nil, _, _, _, _, _, _, _, hn, _ => by simpa [oRestG] using hn
  | .cons op d ty e rest, lv, pty, acc, hc, hw, hf, hcmp, hn, hacc => by
    simp only [coreWRest, Bool.and_eq_true, Bool.or_eq_true] at hc
    obtain ⟨⟨hop, hce⟩, hcr⟩ := hc
    simp only [wfRest, Bool.and_eq_true, decide_eq_true_eq, Bool.not_eq_true', matches_tern] at hw
    obtain ⟨⟨⟨⟨hlv, hlte⟩, hnt⟩, hwe⟩, hwr⟩ := hw
    simp only [cmpChainFreeRest, Bool.and_eq_true] at hf
    have ihe := nfX_node e hce hwe hf.1
    rw [xOfG_plain true e hnt] at ihe
    simp only [nfX] at ihe
    have hstep : nfO (stepO op d pty ty acc (guardO ((true || isIn op) && isRegrouped e op.tok) (oOfG true e))) = true := by
      apply nfO_stepO op d pty ty _ _ hn (by simpa [nfO_guardO] using ihe) ?_ (hop.imp id (fun h => h.1.1))
      intro _ s hs
      exact ⟨hacc op s hs hlv rfl, right_okW hs (headOKW e hce hwe hnt) (by omega)⟩
    simp only [oRestG]
    apply nfRest rest lv _ _ hcr hwr hf.2 ?_ hstep ?_
    · intro h
      have := hcmp h
      simp only [Rest.length] at this
      omega
    · intro o2 s2 h2 hl2 hft
      -- a second operator exists: lv is not the comparison level, so both operators share their C++ precedence
      have hne : lv ≠ cmpLevel := by
        intro h
        have := hcmp h
        cases rest with
        | nil => simp [Rest.firstTok] at hft
        | cons _ _ _ _ _ => simp [Rest.length] at this
      rcases head_stepO op d pty ty acc (guardO ((true || isIn op) && isRegrouped e op.tok) (oOfG true e)) with h | ⟨h, hni⟩
      · rw [h]; rfl
      · have hs : op.cpp.isSome = true := by
          rcases hop with h' | h'
          · exact h'
          · rw [hni] at h'; exact absurd h'.1.1 (by decide)
        obtain ⟨s, hs⟩ := Option.isSome_iff_exists.mp hs
        have heq : o2.prec = op.prec := prec_eq_of_level h2 hs (by omega) (by omega)
        rw [h]; simp only [okL, (prec_facts hs).2.1]; simp; omega
end

/-! ## the emitted tree is Python's grouping up to redundant parentheses -/

theorem stripO_eq (o : O) : stripO o = unwrapTop (stripKeepO o) := by
  cases o with
  | bin _ _ _ => rfl
  | pre _ _ => rfl
  | leaf b s =>
    cases b with
    | atom _ => cases s <;> rfl
    | name _ => cases s <;> rfl
    | paren x =>
      cases x with
      | tern _ _ _ => cases s <;> rfl
      | plain o' => cases s <;> rfl

theorem stripO_guardO (b : Bool) (o : O) : stripO (guardO b o) = stripO o := by cases b <;> rfl

theorem stripSufs_append : ∀ (s t : Sufs), stripSufs (s.append t) = (stripSufs s).append (stripSufs t)
  | .nil, _ => rfl
  | .member _ rest, t => by simp [Sufs.append, stripSufs, stripSufs_append rest t]
  | .call _ rest, t => by simp [Sufs.append, stripSufs, stripSufs_append rest t]

theorem stripKeepO_sufO (r : O) (t : Sufs) (ht : t ≠ .nil) : stripKeepO (sufO r t) = sufO (stripKeepO r) (stripSufs t) := by
  cases r with
  | leaf b s => simp [sufO, stripKeepO, stripSufs_append]
  | bin o l r' =>
    cases t with
    | nil => exact absurd rfl ht
    | member _ _ => simp [sufO, stripKeepO, stripB, stripX, stripO]
    | call _ _ => simp [sufO, stripKeepO, stripB, stripX, stripO]
  | pre o e =>
    cases t with
    | nil => exact absurd rfl ht
    | member _ _ => simp [sufO, stripKeepO, stripB, stripX, stripO]
    | call _ _ => simp [sufO, stripKeepO, stripB, stripX, stripO]

theorem stripKeepO_guardO_true (o : O) : stripKeepO (guardO true o) = parenO (.plain (stripO o)) := by
  simp [guardO, parenO, stripKeepO, stripB, stripX, stripSufs]

/-- one fold step respects the comparison: left operands up to `stripO`, the right one up to `stripO`, and — for `in`,
    where it becomes the receiver of the call form — up to `stripKeepO` -/
theorem stripKeepO_stepO (op : BOp) (dict : Bool) (lty rty : Ty) (l l' r r' : O) (hl : stripO l = stripO l')
    (hr : stripO r = stripO r') (hk : isIn op = true → stripKeepO r = stripKeepO r') :
    stripKeepO (stepO op dict lty rty l r) = stripKeepO (stepO op dict lty rty l' r') := by
  by_cases hin : isIn op = true
  · have hkr := hk hin
    have sE : ∀ (q : O), stripKeepO (sufO q (.member nEnd (.call .nil .nil))) = sufO (stripKeepO q) (.member nEnd (.call .nil .nil)) :=
      fun q => by rw [stripKeepO_sufO _ _ (by simp)]; rfl
    have sB : ∀ (q : O), stripKeepO (sufO q (.member nBegin (.call .nil .nil))) = sufO (stripKeepO q) (.member nBegin (.call .nil .nil)) :=
      fun q => by rw [stripKeepO_sufO _ _ (by simp)]; rfl
    have sC : ∀ (q a : O), stripKeepO (sufO q (.member nContains (.call (arg1 a) .nil)))
        = sufO (stripKeepO q) (.member nContains (.call (arg1 (stripO a)) .nil)) :=
      fun q a => by rw [stripKeepO_sufO _ _ (by simp)]; rfl
    have hsuf : ∀ (q : O) (t : Sufs), t ≠ .nil → stripO (sufO q t) = stripKeepO (sufO q t) := by
      intro q t ht
      cases q with
      | leaf b s =>
        cases s with
        | nil => cases t <;> first | exact absurd rfl ht | (cases b <;> first | rfl | (rename_i x; cases x <;> rfl))
        | member _ _ => cases b <;> first | rfl | (rename_i x; cases x <;> rfl)
        | call _ _ => cases b <;> first | rfl | (rename_i x; cases x <;> rfl)
      | bin _ _ _ => cases t <;> first | exact absurd rfl ht | rfl
      | pre _ _ => cases t <;> first | exact absurd rfl ht | rfl
    have hname : ∀ (nm : Str) (sf : Sufs), stripO (.leaf (.name nm) sf) = .leaf (.name nm) (stripSufs sf) := by
      intro nm sf; cases sf <;> rfl
    have hE := fun q => (hsuf q (.member nEnd (.call .nil .nil)) (by simp)).trans (sE q)
    have hB := fun q => (hsuf q (.member nBegin (.call .nil .nil)) (by simp)).trans (sB q)
    have hC := fun q a => (hsuf q (.member nContains (.call (arg1 a) .nil)) (by simp)).trans (sC q a)
    simp only [stepO, hin, ↓reduceIte, inForm]
    cases dict <;> cases (op == BOp.in_)
    all_goals simp only [Bool.false_eq_true, ↓reduceIte]
    · have hp : ∀ x, stripKeepO (parenO x) = parenO (stripX x) := fun _ => rfl
      simp only [hp, stripX, stripO, hname, stripSufs, stripArgs, hE, hB, hkr, hl]
    · have hp : ∀ x, stripKeepO (parenO x) = parenO (stripX x) := fun _ => rfl
      simp only [hp, stripX, stripO, hname, stripSufs, stripArgs, hE, hB, hkr, hl]
    · have hp : ∀ x, stripKeepO (parenO x) = parenO (stripX x) := fun _ => rfl
      simp only [hp, stripX, stripO, hC, hkr, hl]
    · simp only [sC, hkr, hl]
  · by_cases hf : (op == .mod && (lty.isFloat || rty.isFloat)) = true
    · simp only [stepO, hin, hf, Bool.false_eq_true, ↓reduceIte, stripKeepO, stripB, stripSufs, stripArgs, stripX, hl, hr]
    · simp only [stepO, hin, hf, Bool.false_eq_true, ↓reduceIte, stripKeepO, hl, hr]

theorem stripO_of_keep {a b : O} (h : stripKeepO a = stripKeepO b) : stripO a = stripO b := by rw [stripO_eq, stripO_eq, h]

mutual
theorem stripKeep_node : ∀ (n : Node), wf n = true → stripKeepO (oOfG true n) = stripKeepO (oOfG false n)
  | .atom _ _, _ => rfl
  | .group e, hw => by
    have ih := stripX_node e (by simpa [wf] using hw)
    simp only [oOfG, parenO, stripKeepO, stripB, ih]
  | .factor op e, hw => by
    simp only [wf, Bool.and_eq_true] at hw
    have hs := stripO_of_keep (stripKeep_node e hw.2)
    simp only [oOfG, stripKeepO, stripO_guardO, hs]
  | .notCompare e, hw => by
    simp only [wf, Bool.and_eq_true] at hw
    have hs := stripO_of_keep (stripKeep_node e hw.2)
    simp only [oOfG, stripKeepO, stripO_guardO, hs]
  | .chain lv fty first rest, hw => by
    simp only [wf, Bool.and_eq_true, decide_eq_true_eq] at hw
    obtain ⟨⟨⟨_, hwf⟩, hlen⟩, hwr⟩ := hw
    have hs := stripO_of_keep (stripKeep_node first hwf)
    simp only [oOfG]
    exact stripKeep_rest rest lv fty _ _ hwr hlen (by rw [stripO_guardO, stripO_guardO]; exact hs)
  | .ternary _ _ _, _ => rfl
theorem stripX_node : ∀ (n : Node), wf n = true → stripX (xOfG true n) = stripX (xOfG false n)
  | .atom _ _, _ => rfl
  | .group e, hw => by
    have ih := stripX_node e (by simpa [wf] using hw)
    have : stripO (parenO (xOfG true e)) = stripO (parenO (xOfG false e)) :=
      stripO_of_keep (by simp only [parenO, stripKeepO, stripB, ih])
    simp only [xOfG, stripX, this]
  | .factor op e, hw => by
    simp only [wf, Bool.and_eq_true] at hw
    have hs := stripO_of_keep (stripKeep_node e hw.2)
    simp only [xOfG, stripX, stripO, stripO_guardO, hs]
  | .notCompare e, hw => by
    simp only [wf, Bool.and_eq_true] at hw
    have hs := stripO_of_keep (stripKeep_node e hw.2)
    simp only [xOfG, stripX, stripO, stripO_guardO, hs]
  | .chain lv fty first rest, hw => by
    simp only [wf, Bool.and_eq_true, decide_eq_true_eq] at hw
    obtain ⟨⟨⟨_, hwf⟩, hlen⟩, hwr⟩ := hw
    have hs := stripO_of_keep (stripKeep_node first hwf)
    simp only [xOfG, stripX]
    exact congrArg X.plain (stripO_of_keep (stripKeep_rest rest lv fty _ _ hwr hlen (by rw [stripO_guardO, stripO_guardO]; exact hs)))
  | .ternary p c s, hw => by
    simp only [wf, Bool.and_eq_true] at hw
    obtain ⟨⟨⟨_, hwp⟩, hwc⟩, hws⟩ := hw
    simp only [xOfG, stripX, stripO_of_keep (stripKeep_node c hwc), stripX_node p hwp, stripX_node s hws]
/-- a non-empty rest of a chain: equal up to `stripO` accumulators give equal results up to `stripKeepO` -/
theorem stripKeep_rest : ∀ (rest : Rest) (lv : Nat) (pty : Ty) (a b : O), wfRest lv rest = true → 1 ≤ rest.length →
    stripO a = stripO b → stripKeepO (oRestG true a pty rest) = stripKeepO (oRestG false b pty rest)
  | .nil, _, _, _, _, _, hlen, _ => by simp [Rest.length] at hlen
  | .cons op d ty e rest, lv, pty, a, b, hw, _, hab => by
    simp only [wfRest, Bool.and_eq_true, decide_eq_true_eq] at hw
    obtain ⟨⟨_, hwe⟩, hwr⟩ := hw
    have ihe := stripKeep_node e hwe
    have hse := stripO_of_keep ihe
    have hstep : stripKeepO (stepO op d pty ty a (guardO ((true || isIn op) && isRegrouped e op.tok) (oOfG true e)))
        = stripKeepO (stepO op d pty ty b (guardO ((false || isIn op) && isRegrouped e op.tok) (oOfG false e))) := by
      apply stripKeepO_stepO op d pty ty a b _ _ hab
      · rw [stripO_guardO, stripO_guardO]; exact hse
      · intro hin
        simp only [hin, Bool.or_true, Bool.true_and]
        cases isRegrouped e op.tok
        · simpa [guardO] using ihe
        · rw [stripKeepO_guardO_true, stripKeepO_guardO_true, hse]
    simp only [oRestG]
    cases rest with
    | nil => simpa [oRestG] using hstep
    | cons op2 d2 t2 e2 r2 =>
      exact stripKeep_rest (.cons op2 d2 t2 e2 r2) lv _ _ _ hwr (by simp [Rest.length]) (stripO_of_keep hstep)
end

end Tranp.Emit
