/-
  Helper lemmas for property C14 (symbol-table JSON export / import).
-/
import Tranp.Model.SymbolJson

namespace Tranp.SymbolJson
open Tranp

/-! ## insertion-ordered dict -/

theorem dictInsert_new {α β : Type} [DecidableEq α] (d : List (α × β)) (k : α) (v : β)
    (h : ∀ kv ∈ d, kv.1 ≠ k) : dictInsert d k v = d ++ [(k, v)] := by
  induction d with
  | nil => rfl
  | cons x rest ih =>
    obtain ⟨k', v'⟩ := x
    have hk : k' ≠ k := h (k', v') (by simp)
    simp only [dictInsert, hk, if_false, List.cons_append]
    rw [ih (fun kv hkv => h kv (by simp [hkv]))]

theorem dictMerge_disjoint {α β : Type} [DecidableEq α] (b a : List (α × β))
    (hd : ∀ x ∈ a, ∀ y ∈ b, x.1 ≠ y.1) (hn : (b.map Prod.fst).Nodup) : dictMerge a b = a ++ b := by
  induction b generalizing a with
  | nil => simp [dictMerge]
  | cons y rest ih =>
    have hy : dictInsert a y.1 y.2 = a ++ [y] := by
      rw [dictInsert_new a y.1 y.2 (fun kv hkv => hd kv hkv y (by simp))]
    simp only [List.map_cons, List.nodup_cons] at hn
    have : dictMerge a (y :: rest) = dictMerge (a ++ [y]) rest := by
      simp only [dictMerge, List.foldl_cons, hy]
    rw [this, ih (a ++ [y]) ?_ hn.2]
    · simp
    · intro x hx z hz
      rcases List.mem_append.mp hx with hx | hx
      · exact hd x hx z (by simp [hz])
      · simp only [List.mem_singleton] at hx
        subst hx
        intro he
        exact hn.1 (by rw [he]; exact List.mem_map_of_mem hz)

/-! ## `expand` is the pre-order listing -/

/-- prefix a relative path -/
def pre (p : Path) (pk : Path × Str) : Path × Str := (p ++ pk.1, pk.2)

def consIdx (i : Nat) (pk : Path × Str) : Path × Str := (i :: pk.1, pk.2)

mutual
theorem flatNode_keys_nodup (a : Attr) : ((flatNode a).map Prod.fst).Nodup := by
  match a with
  | .mk k cs =>
    simp only [flatNode, List.map_cons, List.nodup_cons]
    refine ⟨?_, flatList_keys_nodup 0 cs⟩
    intro h
    obtain ⟨x, hx, hx'⟩ := List.mem_map.mp h
    have := (flatList_heads 0 cs x hx).1
    rw [hx'] at this
    exact this rfl
theorem flatList_keys_nodup (i : Nat) (cs : List Attr) : ((flatList i cs).map Prod.fst).Nodup := by
  match cs with
  | [] => simp [flatList]
  | a :: rest =>
    simp only [flatList, List.map_append, List.map_map, List.nodup_append]
    refine ⟨?_, flatList_keys_nodup (i + 1) rest, ?_⟩
    · have := flatNode_keys_nodup a
      have hm : (List.map (Prod.fst ∘ fun pk : Path × Str => (i :: pk.1, pk.2)) (flatNode a))
          = ((flatNode a).map Prod.fst).map (fun p => i :: p) := by simp [List.map_map, Function.comp_def]
      rw [hm]
      exact List.Pairwise.map _ (fun x y hxy h => hxy (List.cons.inj h).2) this
    · intro p hp q hq
      obtain ⟨x, _, hx'⟩ := List.mem_map.mp hp
      obtain ⟨y, hy, hy'⟩ := List.mem_map.mp hq
      obtain ⟨_, j, r, hj, hjr⟩ := flatList_heads (i + 1) rest y hy
      simp only [Function.comp] at hx'
      rw [← hx', ← hy', hjr]
      intro he
      have := (List.cons.inj he).1
      omega
/-- every path of `flatList i cs` is non-empty and starts with an index ≥ i -/
theorem flatList_heads (i : Nat) (cs : List Attr) :
    ∀ x ∈ flatList i cs, x.1 ≠ [] ∧ ∃ j r, i ≤ j ∧ x.1 = j :: r := by
  match cs with
  | [] => simp [flatList]
  | a :: rest =>
    intro x hx
    simp only [flatList, List.mem_append, List.mem_map] at hx
    rcases hx with ⟨y, _, hy⟩ | hx
    · rw [← hy]; exact ⟨by simp, i, y.1, Nat.le_refl _, rfl⟩
    · obtain ⟨hne, j, r, hj, hjr⟩ := flatList_heads (i + 1) rest x hx
      exact ⟨hne, j, r, by omega, hjr⟩
end

mutual
theorem expandNode_eq (p : Path) (a : Attr) : expandNode p a = (flatNode a).map (pre p) := by
  match a with
  | .mk k cs =>
    simp only [expandNode, flatNode, List.map_cons]
    rw [expandElems_eq p 0 cs [(p, k)]]
    · simp [pre]
    · intro x hx y hy
      simp only [List.mem_singleton] at hx
      subst hx
      obtain ⟨hne, _⟩ := flatList_heads 0 cs y hy
      simp only [pre]
      intro he
      exact hne (by simpa using he.symm)
theorem expandElems_eq (p : Path) (i : Nat) (cs : List Attr) (entries : Flat)
    (hd : ∀ x ∈ entries, ∀ y ∈ flatList i cs, x.1 ≠ (pre p y).1) :
    expandElems p i cs entries = entries ++ (flatList i cs).map (pre p) := by
  match cs with
  | [] => simp [expandElems, flatList]
  | a :: rest =>
    simp only [expandElems, flatList, List.map_append, List.map_map]
    have hmap : List.map (pre p ∘ fun pk : Path × Str => (i :: pk.1, pk.2)) (flatNode a) = (flatNode a).map (pre (p ++ [i])) := by
      apply List.map_congr_left
      intro x _
      simp [pre]
    rw [expandNode_eq (p ++ [i]) a, dictMerge_disjoint]
    · rw [expandElems_eq p (i + 1) rest]
      · simp [hmap]
      · intro x hx y hy
        rcases List.mem_append.mp hx with hx | hx
        · exact hd x hx y (by simp only [flatList, List.mem_append]; exact Or.inr hy)
        · obtain ⟨z, _, hz⟩ := List.mem_map.mp hx
          obtain ⟨_, j, r, hj, hjr⟩ := flatList_heads (i + 1) rest y hy
          rw [← hz]
          simp only [pre, hjr, List.append_assoc, List.singleton_append]
          intro he
          have := List.append_cancel_left he
          have := (List.cons.inj this).1
          omega
    · intro x hx y hy
      obtain ⟨z, hz, hz'⟩ := List.mem_map.mp hy
      have := hd x hx (i :: z.1, z.2) (by
        simp only [flatList, List.mem_append, List.mem_map]
        exact Or.inl ⟨z, hz, rfl⟩)
      rw [← hz']
      simpa [pre] using this
    · have := flatNode_keys_nodup a
      have hm : List.map Prod.fst ((flatNode a).map (pre (p ++ [i]))) = ((flatNode a).map Prod.fst).map (fun q => (p ++ [i]) ++ q) := by
        simp [List.map_map, Function.comp_def, pre]
      rw [hm]
      exact List.Pairwise.map _ (fun x y hxy h => hxy (List.append_cancel_left h)) this
end

theorem expand_eq_flatten (f : Forest) : expand f = flatten f := by
  unfold expand flatten
  rw [expandElems_eq [] 0 f [] (by simp)]
  simp only [List.nil_append]
  conv => rhs; rw [← List.map_id (flatList 0 f)]
  apply List.map_congr_left
  intro x _
  simp [pre]

/-! ## the string codec of index paths -/

theorem decVal_digitChar : ∀ d, d < 10 → Str.decVal (Str.digitChar d) = some d := by decide

theorem digitChar_ne_dot : ∀ d, d < 10 → Str.digitChar d ≠ '.' := by decide

theorem decFold_append (s t : Str) (acc : Nat) :
    Str.decFold acc (s ++ t) = (Str.decFold acc s).bind (fun a => Str.decFold a t) := by
  induction s generalizing acc with
  | nil => simp [Str.decFold]
  | cons c cs ih =>
    simp only [List.cons_append, Str.decFold]
    cases Str.decVal c with
    | none => simp
    | some d => simp [ih]

theorem natToDec_spec (n : Nat) :
    Str.natToDec n ≠ [] ∧ (∀ c ∈ Str.natToDec n, c ≠ '.') ∧ Str.decFold 0 (Str.natToDec n) = some n := by
  induction n using Nat.strongRecOn with
  | _ n ih =>
    rw [Str.natToDec]
    split
    · rename_i h
      refine ⟨by simp, ?_, ?_⟩
      · intro c hc
        simp only [List.mem_singleton] at hc
        rw [hc]; exact digitChar_ne_dot n h
      · simp [Str.decFold, decVal_digitChar n h]
    · rename_i h
      obtain ⟨h1, h2, h3⟩ := ih (n / 10) (by omega)
      refine ⟨by simp, ?_, ?_⟩
      · intro c hc
        rcases List.mem_append.mp hc with hc | hc
        · exact h2 c hc
        · simp only [List.mem_singleton] at hc
          rw [hc]; exact digitChar_ne_dot _ (by omega)
      · rw [decFold_append, h3]
        simp only [Option.bind_some, Str.decFold, decVal_digitChar (n % 10) (by omega)]
        congr 1
        omega

theorem decToNat_natToDec (n : Nat) : Str.decToNat? (Str.natToDec n) = some n := by
  obtain ⟨h1, _, h3⟩ := natToDec_spec n
  have : ∀ s : Str, s ≠ [] → Str.decToNat? s = Str.decFold 0 s := by
    intro s hs
    cases s with
    | nil => exact absurd rfl hs
    | cons c cs => rfl
  rw [this _ h1, h3]

theorem splitOn_nodot (s : Str) (h : ∀ c ∈ s, c ≠ '.') : Str.splitOn '.' s = [s] := by
  induction s with
  | nil => rfl
  | cons c cs ih =>
    have hc : c ≠ '.' := h c (by simp)
    simp [Str.splitOn, hc, ih (fun x hx => h x (by simp [hx]))]

theorem splitOn_append_dot (s t : Str) (h : ∀ c ∈ s, c ≠ '.') :
    Str.splitOn '.' (s ++ '.' :: t) = s :: Str.splitOn '.' t := by
  induction s with
  | nil => simp [Str.splitOn]
  | cons c cs ih =>
    have hc : c ≠ '.' := h c (by simp)
    simp [Str.splitOn, hc, ih (fun x hx => h x (by simp [hx]))]

theorem splitOn_join (xs : List Str) (hne : xs ≠ []) (h : ∀ x ∈ xs, ∀ c ∈ x, c ≠ '.') :
    Str.splitOn '.' (Str.join ['.'] xs) = xs := by
  induction xs with
  | nil => exact absurd rfl hne
  | cons x rest ih =>
    cases rest with
    | nil => simp [Str.join, splitOn_nodot x (h x (by simp))]
    | cons y ys =>
      simp only [Str.join, List.append_assoc, List.singleton_append]
      rw [splitOn_append_dot x _ (h x (by simp)), ih (by simp) (fun z hz => h z (by simp [hz]))]

theorem count_nodot (s : Str) (h : ∀ c ∈ s, c ≠ '.') : Str.count '.' s = 0 := by
  simp only [Str.count, List.length_eq_zero_iff, List.filter_eq_nil_iff]
  intro c hc
  simpa using h c hc

theorem count_join (xs : List Str) (h : ∀ x ∈ xs, ∀ c ∈ x, c ≠ '.') :
    Str.count '.' (Str.join ['.'] xs) = xs.length - 1 := by
  induction xs with
  | nil => simp [Str.join, Str.count]
  | cons x rest ih =>
    cases rest with
    | nil => simp [Str.join, count_nodot x (h x (by simp))]
    | cons y ys =>
      have hx := count_nodot x (h x (by simp))
      have := ih (fun z hz => h z (by simp [hz]))
      simp only [Str.join, Str.count, List.filter_append, List.length_append] at *
      simp only [List.length_cons] at this ⊢
      rw [hx, this]
      simp
      omega

theorem decPath_encPath (p : Path) (hne : p ≠ []) : decPath (encPath p) = some p := by
  unfold decPath encPath
  rw [splitOn_join _ (by simpa using hne) (by
    intro x hx
    obtain ⟨n, _, hn⟩ := List.mem_map.mp hx
    rw [← hn]; exact (natToDec_spec n).2.1)]
  clear hne
  induction p with
  | nil => rfl
  | cons n rest ih => simp [List.mapM_cons, decToNat_natToDec, ih]

theorem count_encPath (p : Path) : Str.count '.' (encPath p) = depth p := by
  unfold encPath depth
  rw [count_join _ (by
    intro x hx
    obtain ⟨n, _, hn⟩ := List.mem_map.mp hx
    rw [← hn]; exact (natToDec_spec n).2.1)]
  simp

/-! ## level structure of the flattened forest -/

/-- a same-parent run of the depth-sorted paths: the parent path and the children of that node -/
abbrev Run := Path × List Attr

/-- the dict items of the children `cs` of the node at `q`, numbered from `j` -/
def items (q : Path) : Nat → List Attr → Flat
  | _, [] => []
  | j, c :: cs => (q ++ [j], c.key) :: items q (j + 1) cs

def group (r : Run) : Flat := items r.1 0 r.2

def consRun (i : Nat) (r : Run) : Run := (i :: r.1, r.2)

mutual
/-- the nodes at depth `d` below `a` (`a` itself = depth 0) that have children, in pre-order -/
def runsN : Nat → Attr → List Run
  | 0, .mk _ cs => if cs.isEmpty then [] else [([], cs)]
  | d + 1, .mk _ cs => runsL d 0 cs
def runsL : Nat → Nat → List Attr → List Run
  | _, _, [] => []
  | d, i, a :: rest => (runsN d a).map (consRun i) ++ runsL d (i + 1) rest
end

def lenIs (n : Nat) (pk : Path × Str) : Bool := pk.1.length == n

theorem items_cons (i : Nat) (q : Path) (j : Nat) (cs : List Attr) :
    items (i :: q) j cs = (items q j cs).map (consIdx i) := by
  induction cs generalizing j with
  | nil => rfl
  | cons c cs ih => simp [items, ih, consIdx]

theorem group_consRun (i : Nat) (r : Run) : group (consRun i r) = (group r).map (consIdx i) := by
  simp [group, consRun, items_cons]

theorem lenIs_consIdx (n i : Nat) : (lenIs (n + 1) ∘ consIdx i) = lenIs n := by
  funext pk
  simp [lenIs, consIdx]

theorem flatList_filter_nil (i : Nat) (cs : List Attr) : (flatList i cs).filter (lenIs 0) = [] := by
  rw [List.filter_eq_nil_iff]
  intro x hx
  have := (flatList_heads i cs x hx).1
  simp [lenIs]
  exact this

theorem flatNode_filter_zero (a : Attr) : (flatNode a).filter (lenIs 0) = [([], a.key)] := by
  match a with
  | .mk k cs =>
    have h0 : lenIs 0 (([] : Path), k) = true := by simp [lenIs]
    simp only [flatNode, List.filter_cons, h0, if_true, Attr.key, flatList_filter_nil 0 cs]

theorem flatList_filter_one (i : Nat) (cs : List Attr) : (flatList i cs).filter (lenIs 1) = items [] i cs := by
  induction cs generalizing i with
  | nil => rfl
  | cons a rest ih =>
    simp only [flatList, List.filter_append, items, List.nil_append]
    rw [ih (i + 1)]
    have : (fun pk : Path × Str => (i :: pk.1, pk.2)) = consIdx i := rfl
    rw [this, List.filter_map, lenIs_consIdx, flatNode_filter_zero]
    simp [consIdx]

mutual
theorem flatNode_filter_succ (n : Nat) (a : Attr) :
    (flatNode a).filter (lenIs (n + 1)) = (runsN n a).flatMap group := by
  match a with
  | .mk k cs =>
    have h0 : lenIs (n + 1) (([] : Path), k) = false := by simp [lenIs]
    simp only [flatNode, List.filter_cons, h0]
    match n with
    | 0 =>
      rw [flatList_filter_one]
      cases cs with
      | nil => simp [runsN, items]
      | cons c cs' => simp [runsN, group]
    | m + 1 =>
      simp only [runsN]
      exact flatList_filter_succ m 0 cs
theorem flatList_filter_succ (n i : Nat) (cs : List Attr) :
    (flatList i cs).filter (lenIs (n + 2)) = (runsL n i cs).flatMap group := by
  match cs with
  | [] => simp [flatList, runsL]
  | a :: rest =>
    simp only [flatList, runsL, List.filter_append, List.flatMap_append]
    rw [flatList_filter_succ n (i + 1) rest]
    have : (fun pk : Path × Str => (i :: pk.1, pk.2)) = consIdx i := rfl
    rw [this, List.filter_map, lenIs_consIdx, flatNode_filter_succ n a, List.map_flatMap, List.flatMap_map]
    simp only [group_consRun]
end

/-! ## the depth sort of a flattened forest, run by run -/

theorem depth_le_maxDepth (l : Flat) : ∀ x ∈ l, depth x.1 ≤ maxDepth l := by
  induction l with
  | nil => simp
  | cons y rest ih =>
    intro x hx
    simp only [maxDepth, List.foldr_cons]
    rcases List.mem_cons.mp hx with h | h
    · subst h; exact Nat.le_max_left _ _
    · exact Nat.le_trans (ih x h) (Nat.le_max_right _ _)

theorem filter_depth_eq_lenIs (l : Flat) (h : ∀ x ∈ l, x.1 ≠ []) (d : Nat) :
    l.filter (fun pk => depth pk.1 == d) = l.filter (lenIs (d + 1)) := by
  apply List.filter_congr
  intro x hx
  have := h x hx
  cases hp : x.1 with
  | nil => exact absurd hp this
  | cons a as => simp [depth, lenIs, hp]

/-- the runs of levels `d+1 … d+n` -/
def allRunsFrom (f : Forest) : Nat → Nat → List Run
  | _, 0 => []
  | d, n + 1 => runsL d 0 f ++ allRunsFrom f (d + 1) n

theorem flatten_ne_nil (f : Forest) : ∀ x ∈ flatten f, x.1 ≠ [] :=
  fun x hx => (flatList_heads 0 f x hx).1

theorem buckets_flatten (f : Forest) (d n : Nat) :
    buckets (flatten f) (d + 1) n = (allRunsFrom f d n).flatMap group := by
  induction n generalizing d with
  | zero => simp [buckets, allRunsFrom]
  | succ n ih =>
    simp only [buckets, allRunsFrom, List.flatMap_append]
    rw [ih (d + 1), filter_depth_eq_lenIs _ (flatten_ne_nil f)]
    unfold flatten
    rw [flatList_filter_succ d 0 f]

theorem sortByDepth_flatten (f : Forest) :
    sortByDepth (flatten f) = items [] 0 f ++ (allRunsFrom f 0 (maxDepth (flatten f))).flatMap group := by
  unfold sortByDepth
  simp only [buckets]
  rw [buckets_flatten f 0, filter_depth_eq_lenIs _ (flatten_ne_nil f)]
  unfold flatten
  rw [flatList_filter_one]

theorem items_ne_nil (q : Path) (j : Nat) (cs : List Attr) (h : cs ≠ []) : items q j cs ≠ [] := by
  cases cs with
  | nil => exact absurd rfl h
  | cons c cs => simp [items]

/-- no node of level `maxDepth` has children -/
theorem runsL_maxDepth (f : Forest) (hne : ∀ d, ∀ r ∈ runsL d 0 f, r.2 ≠ []) :
    runsL (maxDepth (flatten f)) 0 f = [] := by
  have h1 : (flatten f).filter (fun pk => depth pk.1 == maxDepth (flatten f) + 1) = [] := by
    rw [List.filter_eq_nil_iff]
    intro x hx
    have := depth_le_maxDepth (flatten f) x hx
    simp only [beq_iff_eq]
    omega
  rw [filter_depth_eq_lenIs _ (flatten_ne_nil f)] at h1
  unfold flatten at h1
  rw [flatList_filter_succ] at h1
  cases hr : runsL (maxDepth (flatList 0 f)) 0 f with
  | nil => unfold flatten; exact hr
  | cons r rest =>
    exfalso
    rw [hr] at h1
    simp only [List.flatMap_cons, List.append_eq_nil_iff] at h1
    have := hne (maxDepth (flatList 0 f)) r (by rw [hr]; simp)
    exact items_ne_nil r.1 0 r.2 this h1.1

/-! ## the grouping scan on a concatenation of runs -/

theorem groupsFuel_nil (n : Nat) : groupsFuel n [] = [] := by
  cases n <;> rfl

theorem length_dropWhile_le' {α : Type} (p : α → Bool) (l : List α) : (l.dropWhile p).length ≤ l.length := by
  induction l with
  | nil => simp
  | cons x xs ih =>
    simp only [List.dropWhile_cons]
    split
    · simp; omega
    · simp

theorem groupsFuel_enough (n : Nat) : ∀ (l : Flat) (m : Nat), l.length ≤ n → l.length ≤ m →
    groupsFuel n l = groupsFuel m l := by
  induction n with
  | zero =>
    intro l m h _
    have : l = [] := List.length_eq_zero_iff.mp (by omega)
    subst this
    rw [groupsFuel_nil, groupsFuel_nil]
  | succ n ih =>
    intro l m h hm
    cases l with
    | nil => rw [groupsFuel_nil, groupsFuel_nil]
    | cons x rest =>
      cases m with
      | zero => simp at hm
      | succ m =>
        simp only [groupsFuel]
        have hl := length_dropWhile_le' (fun pk : Path × Str => parent pk.1 == parent x.1) rest
        simp only [List.length_cons] at h hm
        rw [ih _ m (by omega) (by omega)]

theorem span_run (same : Path × Str → Bool) (g t : Flat) (hg : ∀ y ∈ g, same y = true)
    (ht : t = [] ∨ ∃ z t', t = z :: t' ∧ same z = false) :
    (g ++ t).takeWhile same = g ∧ (g ++ t).dropWhile same = t := by
  induction g with
  | nil =>
    rcases ht with h | ⟨z, t', h, hz⟩
    · subst h; simp
    · subst h; simp [hz]
  | cons y ys ih =>
    have hy := hg y (by simp)
    have := ih (fun z hz => hg z (by simp [hz]))
    simp [hy, this]

theorem groups_cons_run (x : Path × Str) (g t : Flat)
    (hg : ∀ y ∈ g, parent y.1 = parent x.1)
    (ht : t = [] ∨ ∃ z t', t = z :: t' ∧ parent z.1 ≠ parent x.1) :
    groups (x :: (g ++ t)) = (x :: g) :: groups t := by
  unfold groups
  simp only [List.length_cons, groupsFuel]
  have := span_run (fun pk : Path × Str => parent pk.1 == parent x.1) g t
    (fun y hy => by simp [hg y hy])
    (by
      rcases ht with h | ⟨z, t', h, hz⟩
      · exact Or.inl h
      · exact Or.inr ⟨z, t', h, by simp [hz]⟩)
  rw [this.1, this.2]
  congr 1
  exact groupsFuel_enough _ t t.length (by simp) (Nat.le_refl _)

theorem parent_snoc (q : Path) (j : Nat) : parent (q ++ [j]) = q := by
  simp [parent]

theorem items_parent (q : Path) (j : Nat) (cs : List Attr) : ∀ y ∈ items q j cs, parent y.1 = q := by
  induction cs generalizing j with
  | nil => simp [items]
  | cons c cs ih =>
    intro y hy
    simp only [items, List.mem_cons] at hy
    rcases hy with h | h
    · rw [h]; exact parent_snoc q j
    · exact ih (j + 1) y h

theorem groups_runs (rs : List Run) (hn : (rs.map Prod.fst).Nodup) (hne : ∀ r ∈ rs, r.2 ≠ []) :
    groups (rs.flatMap group) = rs.map group := by
  induction rs with
  | nil => rfl
  | cons r rest ih =>
    obtain ⟨q, cs⟩ := r
    have hcs : cs ≠ [] := hne (q, cs) (by simp)
    simp only [List.map_cons, List.nodup_cons] at hn
    cases cs with
    | nil => exact absurd rfl hcs
    | cons c cs' =>
      simp only [List.flatMap_cons, List.map_cons, group, items, List.cons_append]
      rw [groups_cons_run]
      · rw [ih hn.2 (fun r hr => hne r (by simp [hr]))]
      · intro y hy
        rw [items_parent q 1 cs' y hy, parent_snoc]
      · cases rest with
        | nil => exact Or.inl rfl
        | cons r' rest' =>
          right
          obtain ⟨q', cs2⟩ := r'
          have hcs2 : cs2 ≠ [] := hne (q', cs2) (by simp)
          cases cs2 with
          | nil => exact absurd rfl hcs2
          | cons c2 cs2' =>
            refine ⟨(q' ++ [0], c2.key), items q' 1 cs2' ++ List.flatMap group rest', ?_, ?_⟩
            · simp [List.flatMap_cons, group, items]
            · rw [parent_snoc, parent_snoc]
              intro he
              exact hn.1 (by simp [he])

/-! ## rebuilding level by level -/

/-- the attributes a stacked entry for key `k` inherits -/
def inhOf (look : Lookup) (k : Str) : Forest :=
  match look k with
  | some (_, inh) => inh
  | none => []

mutual
/-- the forest cut below level `d`, as reflections under reconstruction -/
def embedN (look : Lookup) : Nat → Attr → RNode
  | 0, .mk k _ => .mk k [] (inhOf look k)
  | d + 1, .mk k cs => .mk k (embedL look d cs) (inhOf look k)
def embedL (look : Lookup) : Nat → List Attr → List RNode
  | _, [] => []
  | d, a :: rest => embedN look d a :: embedL look d rest
end

mutual
def embedFullN (look : Lookup) : Attr → RNode
  | .mk k cs => .mk k (embedFullL look cs) (inhOf look k)
def embedFullL (look : Lookup) : List Attr → List RNode
  | [] => []
  | a :: rest => embedFullN look a :: embedFullL look rest
end

/-- the fold of `extendAt` over runs -/
def applyRuns (look : Lookup) : List Run → List RNode → Except Err (List RNode)
  | [], attrs => .ok attrs
  | r :: rs, attrs =>
    match extendAt (embedL look 0 r.2) r.1 attrs with
    | .ok attrs' => applyRuns look rs attrs'
    | .error e => .error e

def applyRunsN (look : Lookup) : List Run → RNode → Except Err RNode
  | [], x => .ok x
  | r :: rs, x =>
    match extendNode (embedL look 0 r.2) r.1 x with
    | .ok x' => applyRunsN look rs x'
    | .error e => .error e

theorem applyRuns_append (look : Lookup) (r1 r2 : List Run) (attrs : List RNode) :
    applyRuns look (r1 ++ r2) attrs =
      match applyRuns look r1 attrs with
      | .ok a' => applyRuns look r2 a'
      | .error e => .error e := by
  induction r1 generalizing attrs with
  | nil => rfl
  | cons r rs ih =>
    simp only [List.cons_append, applyRuns]
    cases extendAt (embedL look 0 r.2) r.1 attrs with
    | ok a' => exact ih a'
    | error e => rfl

theorem embedL_length (look : Lookup) (d : Nat) (cs : List Attr) : (embedL look d cs).length = cs.length := by
  induction cs with
  | nil => simp [embedL]
  | cons a rest ih => simp [embedL, ih]

/-- runs that go through element `i` only touch element `i` -/
theorem applyRuns_at (look : Lookup) (i : Nat) (rs : List Run) (pfx post : List RNode) (x : RNode)
    (hi : pfx.length = i) :
    applyRuns look (rs.map (consRun i)) (pfx ++ x :: post) =
      match applyRunsN look rs x with
      | .ok x' => .ok (pfx ++ x' :: post)
      | .error e => .error e := by
  induction rs generalizing x with
  | nil => rfl
  | cons r rs ih =>
    simp only [List.map_cons, applyRuns, applyRunsN, consRun, extendAt]
    have hget : (pfx ++ x :: post)[i]? = some x := by
      rw [List.getElem?_append_right (by omega)]; simp [hi]
    cases hx : extendNode (embedL look 0 r.2) r.1 x with
    | error e => simp only [hget, hx]
    | ok x' =>
      have hset : (pfx ++ x :: post).set i x' = pfx ++ x' :: post := by
        rw [List.set_append]; simp [hi]
      simp only [hget, hx, hset]
      exact ih x'

/-- below a node with own attributes the walk continues in the own attributes -/
theorem applyRunsN_node (look : Lookup) (k : Str) (inh : Forest) (rs : List Run) (own : List RNode)
    (hown : own ≠ []) (hrs : ∀ r ∈ rs, r.1 ≠ []) :
    applyRunsN look rs (.mk k own inh) =
      match applyRuns look rs own with
      | .ok own' => .ok (.mk k own' inh)
      | .error e => .error e := by
  induction rs generalizing own with
  | nil => rfl
  | cons r rs ih =>
    obtain ⟨q, cs⟩ := r
    have hq : q ≠ [] := hrs (q, cs) (by simp)
    cases q with
    | nil => exact absurd rfl hq
    | cons j q' =>
      have hemp : own.isEmpty = false := by
        cases own with
        | nil => exact absurd rfl hown
        | cons _ _ => rfl
      simp only [applyRunsN, applyRuns, extendNode, extendAt, hemp]
      cases hj : own[j]? with
      | none => simp
      | some c =>
        simp only
        cases hc : extendNode (embedL look 0 cs) q' c with
        | error e => simp
        | ok c' =>
          simp only [Bool.false_eq_true, if_false]
          have hne : own.set j c' ≠ [] := by
            intro h
            have := congrArg List.length h
            simp at this
            exact hown this
          exact ih (own.set j c') hne (fun r hr => hrs r (by simp [hr]))

mutual
theorem runsN_paths (d : Nat) (a : Attr) : ∀ r ∈ runsN d a, r.1.length = d ∧ r.2 ≠ [] := by
  match d, a with
  | 0, .mk k cs =>
    intro r hr
    simp only [runsN] at hr
    split at hr
    · simp at hr
    · rename_i h
      simp only [List.mem_singleton] at hr
      subst hr
      refine ⟨rfl, ?_⟩
      intro h'; simp at h'; simp [h'] at h
  | d + 1, .mk k cs =>
    intro r hr
    simp only [runsN] at hr
    exact runsL_paths d 0 cs r hr
theorem runsL_paths (d i : Nat) (cs : List Attr) : ∀ r ∈ runsL d i cs, r.1.length = d + 1 ∧ r.2 ≠ [] := by
  match cs with
  | [] => simp [runsL]
  | a :: rest =>
    intro r hr
    simp only [runsL, List.mem_append, List.mem_map] at hr
    rcases hr with ⟨r', hr', he⟩ | hr
    · have := runsN_paths d a r' hr'
      rw [← he]; simp [consRun, this]
    · exact runsL_paths d (i + 1) rest r hr
end

theorem runsL_ne_nil (d i : Nat) (cs : List Attr) : ∀ r ∈ runsL d i cs, r.1 ≠ [] := by
  intro r hr h
  have := (runsL_paths d i cs r hr).1
  rw [h] at this
  simp at this

mutual
/-- one level: extending every node of level `d` with its children turns the cut at `d` into the cut at `d+1` -/
theorem applyRunsN_level (look : Lookup) (d : Nat) (a : Attr) :
    applyRunsN look (runsN d a) (embedN look d a) = .ok (embedN look (d + 1) a) := by
  match d, a with
  | 0, .mk k cs =>
    cases cs with
    | nil => simp [runsN, applyRunsN, embedN, embedL]
    | cons c cs' => simp [runsN, applyRunsN, embedN, extendNode]
  | d + 1, .mk k cs =>
    cases cs with
    | nil => simp [runsN, runsL, applyRunsN, embedN, embedL]
    | cons c cs' =>
      simp only [runsN, embedN]
      rw [applyRunsN_node look k _ _ _ (by simp [embedL]) (runsL_ne_nil d 0 (c :: cs'))]
      have := applyRuns_level look d 0 (c :: cs') [] rfl
      simp only [List.nil_append] at this
      rw [this]
theorem applyRuns_level (look : Lookup) (d i : Nat) (cs : List Attr) (pfx : List RNode) (hi : pfx.length = i) :
    applyRuns look (runsL d i cs) (pfx ++ embedL look d cs) = .ok (pfx ++ embedL look (d + 1) cs) := by
  match cs with
  | [] => simp [runsL, applyRuns, embedL]
  | a :: rest =>
    simp only [runsL, embedL]
    rw [applyRuns_append, applyRuns_at look i _ pfx _ _ hi, applyRunsN_level look d a]
    simp only
    have := applyRuns_level look d (i + 1) rest (pfx ++ [embedN look (d + 1) a]) (by simp [hi])
    simp only [List.append_assoc, List.singleton_append] at this
    exact this
end

theorem applyRuns_allRunsFrom (look : Lookup) (f : Forest) (d n : Nat) :
    applyRuns look (allRunsFrom f d n) (embedL look d f) = .ok (embedL look (d + n) f) := by
  induction n generalizing d with
  | zero => simp [allRunsFrom, applyRuns]
  | succ n ih =>
    simp only [allRunsFrom]
    rw [applyRuns_append]
    have := applyRuns_level look d 0 f [] rfl
    simp only [List.nil_append] at this
    rw [this]
    simp only
    rw [ih (d + 1)]
    congr 2
    omega

mutual
theorem embedN_full (look : Lookup) (d : Nat) (a : Attr) (h : runsN d a = []) : embedN look d a = embedFullN look a := by
  match d, a with
  | 0, .mk k cs =>
    cases cs with
    | nil => simp [embedN, embedFullN, embedFullL]
    | cons c cs' => simp [runsN] at h
  | d + 1, .mk k cs =>
    simp only [runsN] at h
    simp only [embedN, embedFullN]
    rw [embedL_full look d 0 cs h]
theorem embedL_full (look : Lookup) (d i : Nat) (cs : List Attr) (h : runsL d i cs = []) : embedL look d cs = embedFullL look cs := by
  match cs with
  | [] => simp [embedL, embedFullL]
  | a :: rest =>
    simp only [runsL, List.append_eq_nil_iff, List.map_eq_nil_iff] at h
    simp only [embedL, embedFullL]
    rw [embedN_full look d a h.1, embedL_full look d (i + 1) rest h.2]
end

/-! ## run paths are pairwise distinct -/

mutual
theorem runsN_nodup (d : Nat) (a : Attr) : ((runsN d a).map Prod.fst).Nodup := by
  match d, a with
  | 0, .mk k cs =>
    simp only [runsN]
    split <;> simp
  | d + 1, .mk k cs =>
    simp only [runsN]
    exact runsL_nodup d 0 cs
theorem runsL_nodup (d i : Nat) (cs : List Attr) : ((runsL d i cs).map Prod.fst).Nodup := by
  match cs with
  | [] => simp [runsL]
  | a :: rest =>
    simp only [runsL, List.map_append, List.map_map, List.nodup_append]
    refine ⟨?_, runsL_nodup d (i + 1) rest, ?_⟩
    · have hm : List.map (Prod.fst ∘ consRun i) (runsN d a) = ((runsN d a).map Prod.fst).map (fun p => i :: p) := by
        simp [List.map_map, Function.comp_def, consRun]
      rw [hm]
      exact List.Pairwise.map _ (fun x y hxy h => hxy (List.cons.inj h).2) (runsN_nodup d a)
    · intro p hp q hq
      obtain ⟨x, _, hx'⟩ := List.mem_map.mp hp
      obtain ⟨y, hy, hy'⟩ := List.mem_map.mp hq
      obtain ⟨j, r, hj, hjr⟩ := runsL_heads d (i + 1) rest y hy
      simp only [Function.comp, consRun] at hx'
      rw [← hx', ← hy', hjr]
      intro he
      have := (List.cons.inj he).1
      omega
theorem runsL_heads (d i : Nat) (cs : List Attr) : ∀ r ∈ runsL d i cs, ∃ j q, i ≤ j ∧ r.1 = j :: q := by
  match cs with
  | [] => simp [runsL]
  | a :: rest =>
    intro r hr
    simp only [runsL, List.mem_append, List.mem_map] at hr
    rcases hr with ⟨r', _, he⟩ | hr
    · rw [← he]; exact ⟨i, r'.1, Nat.le_refl _, rfl⟩
    · obtain ⟨j, q, hj, hjq⟩ := runsL_heads d (i + 1) rest r hr
      exact ⟨j, q, by omega, hjq⟩
end

theorem allRunsFrom_paths (f : Forest) (d n : Nat) :
    ∀ r ∈ allRunsFrom f d n, d + 1 ≤ r.1.length ∧ r.2 ≠ [] := by
  induction n generalizing d with
  | zero => simp [allRunsFrom]
  | succ n ih =>
    intro r hr
    simp only [allRunsFrom, List.mem_append] at hr
    rcases hr with hr | hr
    · have := runsL_paths d 0 f r hr
      exact ⟨by omega, this.2⟩
    · have := ih (d + 1) r hr
      exact ⟨by omega, this.2⟩

theorem allRunsFrom_nodup (f : Forest) (d n : Nat) : ((allRunsFrom f d n).map Prod.fst).Nodup := by
  induction n generalizing d with
  | zero => simp [allRunsFrom]
  | succ n ih =>
    simp only [allRunsFrom, List.map_append, List.nodup_append]
    refine ⟨runsL_nodup d 0 f, ih (d + 1), ?_⟩
    intro p hp q hq
    obtain ⟨x, hx, hx'⟩ := List.mem_map.mp hp
    obtain ⟨y, hy, hy'⟩ := List.mem_map.mp hq
    have h1 := (runsL_paths d 0 f x hx).1
    have h2 := (allRunsFrom_paths f (d + 1) n y hy).1
    intro he
    rw [← hx', ← hy'] at he
    rw [he] at h1
    omega

/-! ## the loop of `_deserialize_attrs` on runs -/

mutual
/-- every key of the forest is a table key whose entry has that very type key, and entries of leaf keys have no attributes -/
def GoodN (look : Lookup) : Attr → Prop
  | .mk k cs => (∃ inh, look k = some (k, inh) ∧ (cs = [] → inh = [])) ∧ GoodL look cs
def GoodL (look : Lookup) : List Attr → Prop
  | [] => True
  | a :: rest => GoodN look a ∧ GoodL look rest
end

theorem stackAll_items (look : Lookup) (q : Path) (j : Nat) (cs : List Attr) (h : GoodL look cs) :
    stackAll look (items q j cs) = .ok (embedL look 0 cs) := by
  induction cs generalizing j with
  | nil => rfl
  | cons c cs ih =>
    obtain ⟨k, cc⟩ := c
    simp only [GoodL, GoodN] at h
    obtain ⟨⟨⟨inh, hk, _⟩, _⟩, hrest⟩ := h
    simp only [items, stackAll, Attr.key, hk, ih (j + 1) hrest, embedL, embedN, inhOf]

mutual
theorem runsN_good (look : Lookup) (d : Nat) (a : Attr) (h : GoodN look a) : ∀ r ∈ runsN d a, GoodL look r.2 := by
  match d, a with
  | 0, .mk k cs =>
    intro r hr
    simp only [runsN] at hr
    split at hr
    · simp at hr
    · simp only [List.mem_singleton] at hr
      subst hr
      simp only [GoodN] at h
      exact h.2
  | d + 1, .mk k cs =>
    intro r hr
    simp only [runsN] at hr
    simp only [GoodN] at h
    exact runsL_good look d 0 cs h.2 r hr
theorem runsL_good (look : Lookup) (d i : Nat) (cs : List Attr) (h : GoodL look cs) : ∀ r ∈ runsL d i cs, GoodL look r.2 := by
  match cs with
  | [] => simp [runsL]
  | a :: rest =>
    intro r hr
    simp only [GoodL] at h
    simp only [runsL, List.mem_append, List.mem_map] at hr
    rcases hr with ⟨r', hr', he⟩ | hr
    · rw [← he]; exact runsN_good look d a h.1 r' hr'
    · exact runsL_good look d (i + 1) rest h.2 r hr
end

theorem allRunsFrom_good (look : Lookup) (f : Forest) (h : GoodL look f) (d n : Nat) :
    ∀ r ∈ allRunsFrom f d n, GoodL look r.2 := by
  induction n generalizing d with
  | zero => simp [allRunsFrom]
  | succ n ih =>
    intro r hr
    simp only [allRunsFrom, List.mem_append] at hr
    rcases hr with hr | hr
    · exact runsL_good look d 0 f h r hr
    · exact ih (d + 1) r hr

theorem stepGroups_runs (look : Lookup) (rs : List Run) (attrs : List RNode)
    (h : ∀ r ∈ rs, r.1 ≠ [] ∧ r.2 ≠ [] ∧ GoodL look r.2) :
    stepGroups look (rs.map group) attrs = applyRuns look rs attrs := by
  induction rs generalizing attrs with
  | nil => rfl
  | cons r rs ih =>
    obtain ⟨q, cs⟩ := r
    obtain ⟨hq, hcs, hg⟩ := h (q, cs) (by simp)
    cases cs with
    | nil => exact absurd rfl hcs
    | cons c cs' =>
      have hst := stackAll_items look q 0 (c :: cs') hg
      simp only [items] at hst
      have hlen : ¬ (q ++ [0]).length ≤ 1 := by
        cases q with
        | nil => exact absurd rfl hq
        | cons _ _ => simp
      simp only [List.map_cons, stepGroups, applyRuns, group, items, stepGroup, hst, hlen, if_false, parent_snoc]
      cases extendAt (embedL look 0 (c :: cs')) q attrs with
      | error e => rfl
      | ok a' => exact ih a' (fun r hr => h r (by simp [hr]))

mutual
theorem obs_embedFullN (look : Lookup) (a : Attr) (h : GoodN look a) : obs (embedFullN look a) = a := by
  match a with
  | .mk k cs =>
    simp only [GoodN] at h
    obtain ⟨⟨inh, hk, hleaf⟩, hcs⟩ := h
    cases cs with
    | nil =>
      have : inhOf look k = [] := by simp [inhOf, hk, hleaf rfl]
      simp [embedFullN, embedFullL, obs, this]
    | cons c cs' =>
      have := obsList_embedFullL look (c :: cs') hcs
      simp only [embedFullL, obsList] at this
      simp only [embedFullN, embedFullL, obs]
      rw [List.cons.injEq] at this
      rw [this.1, this.2]
theorem obsList_embedFullL (look : Lookup) (cs : List Attr) (h : GoodL look cs) : obsList (embedFullL look cs) = cs := by
  match cs with
  | [] => rfl
  | a :: rest =>
    simp only [GoodL] at h
    simp only [embedFullL, obsList]
    rw [obs_embedFullN look a h.1, obsList_embedFullL look rest h.2]
end

/-- `_deserialize_attrs` on the flattening of `f` builds exactly the reflections of `f`. -/
theorem rebuild_flatten (look : Lookup) (f : Forest) (h : GoodL look f) :
    rebuild look (flatten f) = .ok (embedFullL look f) := by
  unfold rebuild
  rw [sortByDepth_flatten]
  cases f with
  | nil => simp [items, allRunsFrom, flatten, flatList, maxDepth, groups, groupsFuel, stepGroups, embedFullL, List.flatMap]
  | cons a rest =>
    let f := a :: rest
    let m := maxDepth (flatten f)
    have hrun : items [] 0 f ++ (allRunsFrom f 0 m).flatMap group = ((([], f) : Run) :: allRunsFrom f 0 m).flatMap group := by
      simp [List.flatMap_cons, group]
    show stepGroups look (groups (items [] 0 f ++ (allRunsFrom f 0 m).flatMap group)) [] = _
    rw [hrun, groups_runs]
    · simp only [List.map_cons, stepGroups]
      have hst := stackAll_items look [] 0 f h
      have h0 : stepGroup look [] (group (([], f) : Run)) = .ok (embedL look 0 f) := by
        simp only [group, f, items, stepGroup, List.nil_append, Nat.zero_add] at hst ⊢
        rw [hst]
        simp
      rw [h0]
      simp only
      rw [stepGroups_runs, applyRuns_allRunsFrom]
      · simp only [Nat.zero_add]
        rw [embedL_full look m 0 f (runsL_maxDepth f (fun d r hr => (runsL_paths d 0 f r hr).2))]
      · intro r hr
        have h1 := allRunsFrom_paths f 0 m r hr
        refine ⟨?_, h1.2, allRunsFrom_good look f h 0 m r hr⟩
        intro he
        rw [he] at h1
        simp at h1
    · simp only [List.map_cons, List.nodup_cons]
      refine ⟨?_, allRunsFrom_nodup f 0 m⟩
      intro hmem
      obtain ⟨r, hr, he⟩ := List.mem_map.mp hmem
      have := (allRunsFrom_paths f 0 m r hr).1
      rw [he] at this
      simp at this
    · intro r hr
      rcases List.mem_cons.mp hr with h' | h'
      · rw [h']; simp [f]
      · exact (allRunsFrom_paths f 0 m r h').2

/-! ## what the grouping scan sees on a flattened forest -/

/-- the parent path a group of the scan stands for (`own_path` of its first path) -/
def groupParent : Flat → Path
  | [] => []
  | (p, _) :: _ => parent p

theorem groupParent_group (r : Run) (h : r.2 ≠ []) : groupParent (group r) = r.1 := by
  obtain ⟨q, cs⟩ := r
  cases cs with
  | nil => exact absurd rfl h
  | cons c cs' => simp [group, items, groupParent, parent_snoc]

theorem groups_flatten_forest (f : Forest) (hf : f ≠ []) :
    groups (sortByDepth (flatten f)) = ((([], f) : Run) :: allRunsFrom f 0 (maxDepth (flatten f))).map group := by
  rw [sortByDepth_flatten]
  have hrun : items [] 0 f ++ (allRunsFrom f 0 (maxDepth (flatten f))).flatMap group
      = ((([], f) : Run) :: allRunsFrom f 0 (maxDepth (flatten f))).flatMap group := by
    simp [List.flatMap_cons, group]
  rw [hrun, groups_runs]
  · simp only [List.map_cons, List.nodup_cons]
    refine ⟨?_, allRunsFrom_nodup f 0 _⟩
    intro hmem
    obtain ⟨r, hr, he⟩ := List.mem_map.mp hmem
    have := (allRunsFrom_paths f 0 _ r hr).1
    rw [he] at this
    simp at this
  · intro r hr
    rcases List.mem_cons.mp hr with h' | h'
    · rw [h']; exact hf
    · exact (allRunsFrom_paths f 0 _ r h').2

theorem groupParents_nodup (f : Forest) : ((groups (sortByDepth (flatten f))).map groupParent).Nodup := by
  cases f with
  | nil => simp [flatten, flatList, sortByDepth, buckets, maxDepth, groups, groupsFuel]
  | cons a rest =>
    rw [groups_flatten_forest (a :: rest) (by simp)]
    have hmap : List.map groupParent (List.map group ((([], a :: rest) : Run) :: allRunsFrom (a :: rest) 0 (maxDepth (flatten (a :: rest)))))
        = List.map Prod.fst ((([], a :: rest) : Run) :: allRunsFrom (a :: rest) 0 (maxDepth (flatten (a :: rest)))) := by
      rw [List.map_map]
      apply List.map_congr_left
      intro r hr
      simp only [Function.comp]
      apply groupParent_group
      rcases List.mem_cons.mp hr with h' | h'
      · rw [h']; simp
      · exact (allRunsFrom_paths _ 0 _ r h').2
    rw [hmap]
    simp only [List.map_cons, List.nodup_cons]
    refine ⟨?_, allRunsFrom_nodup _ 0 _⟩
    intro hmem
    obtain ⟨r, hr, he⟩ := List.mem_map.mp hmem
    have := (allRunsFrom_paths _ 0 _ r hr).1
    rw [he] at this
    simp at this

theorem mem_takeWhile_true {α : Type} (p : α → Bool) (l : List α) (x : α) (h : x ∈ l.takeWhile p) : p x = true := by
  induction l with
  | nil => simp at h
  | cons y ys ih =>
    simp only [List.takeWhile_cons] at h
    split at h
    · rename_i hy
      rcases List.mem_cons.mp h with h | h
      · rw [h]; exact hy
      · exact ih h
    · simp at h

/-- every group of the scan is a same-parent segment, and the groups concatenate to the scanned list -/
theorem groupsFuel_spec (n : Nat) : ∀ l : Flat, l.length ≤ n →
    (groupsFuel n l).flatten = l ∧ ∀ g ∈ groupsFuel n l, ∀ y ∈ g, parent y.1 = groupParent g := by
  induction n with
  | zero =>
    intro l h
    have : l = [] := List.length_eq_zero_iff.mp (by omega)
    subst this
    simp [groupsFuel]
  | succ n ih =>
    intro l h
    cases l with
    | nil => simp [groupsFuel]
    | cons x rest =>
      simp only [groupsFuel]
      have hl := length_dropWhile_le' (fun pk : Path × Str => parent pk.1 == parent x.1) rest
      simp only [List.length_cons] at h
      obtain ⟨h1, h2⟩ := ih (rest.dropWhile (fun pk : Path × Str => parent pk.1 == parent x.1)) (by omega)
      refine ⟨?_, ?_⟩
      · simp only [List.flatten_cons, h1, List.cons_append, List.takeWhile_append_dropWhile]
      · intro g hg y hy
        rcases List.mem_cons.mp hg with hg | hg
        · subst hg
          obtain ⟨xp, xk⟩ := x
          simp only [groupParent]
          rcases List.mem_cons.mp hy with hy | hy
          · rw [hy]
          · have := mem_takeWhile_true _ _ _ hy
            simpa using this
        · exact h2 g hg y hy

/-! ## the bucket sort is the stable sort by depth -/

theorem buckets_filter (l : Flat) (d s n : Nat) :
    (buckets l s n).filter (fun pk => depth pk.1 == d) =
      if s ≤ d ∧ d < s + n then l.filter (fun pk => depth pk.1 == d) else [] := by
  induction n generalizing s with
  | zero =>
    have : ¬ (s ≤ d ∧ d < s + 0) := by omega
    rw [if_neg this]
    rfl
  | succ n ih =>
    simp only [buckets, List.filter_append, List.filter_filter, ih (s + 1)]
    by_cases hsd : s = d
    · subst hsd
      have h1 : ¬ (s + 1 ≤ s ∧ s < s + 1 + n) := by omega
      have h2 : s ≤ s ∧ s < s + (n + 1) := by omega
      simp only [h1, h2, if_false, List.append_nil]
      apply List.filter_congr
      intro x _
      simp
    · have h0 : l.filter (fun a => (depth a.1 == d) && (depth a.1 == s)) = [] := by
        rw [List.filter_eq_nil_iff]
        intro x _
        simp only [Bool.and_eq_true, beq_iff_eq, not_and]
        intro h1 h2
        exact hsd (by omega)
      rw [h0, List.nil_append]
      by_cases h : s + 1 ≤ d ∧ d < s + 1 + n
      · have : s ≤ d ∧ d < s + (n + 1) := by omega
        simp [h, this]
      · have : ¬ (s ≤ d ∧ d < s + (n + 1)) := by omega
        simp [h, this]

/-- stability: the paths of each depth keep their relative order -/
theorem sortByDepth_stable (l : Flat) (d : Nat) :
    (sortByDepth l).filter (fun pk => depth pk.1 == d) = l.filter (fun pk => depth pk.1 == d) := by
  unfold sortByDepth
  rw [buckets_filter]
  split
  · rfl
  · rename_i h
    symm
    rw [List.filter_eq_nil_iff]
    intro x hx
    have := depth_le_maxDepth l x hx
    simp only [beq_iff_eq]
    omega

theorem buckets_ge (l : Flat) (s n : Nat) : ∀ x ∈ buckets l s n, s ≤ depth x.1 := by
  induction n generalizing s with
  | zero => simp [buckets]
  | succ n ih =>
    intro x hx
    simp only [buckets, List.mem_append, List.mem_filter, beq_iff_eq] at hx
    rcases hx with ⟨_, h⟩ | h
    · omega
    · have := ih (s + 1) x h
      omega

/-- sortedness: depths never decrease along the sorted list -/
theorem sortByDepth_sorted (l : Flat) : (sortByDepth l).Pairwise (fun a b => depth a.1 ≤ depth b.1) := by
  unfold sortByDepth
  generalize maxDepth l + 1 = n
  generalize 0 = s
  induction n generalizing s with
  | zero => simp [buckets]
  | succ n ih =>
    simp only [buckets, List.pairwise_append]
    refine ⟨?_, ih (s + 1), ?_⟩
    · rw [List.pairwise_iff_forall_sublist]
      intro a b hab
      have ha := hab.subset (List.mem_cons_self)
      have hb := hab.subset (List.mem_cons_of_mem _ List.mem_cons_self)
      simp only [List.mem_filter, beq_iff_eq] at ha hb
      omega
    · intro a ha b hb
      simp only [List.mem_filter, beq_iff_eq] at ha
      have := buckets_ge l (s + 1) n b hb
      omega

theorem filter_or_perm {α : Type} (p q : α → Bool) (l : List α) (h : ∀ x ∈ l, ¬ (p x = true ∧ q x = true)) :
    (l.filter p ++ l.filter q).Perm (l.filter (fun x => p x || q x)) := by
  induction l with
  | nil => simp
  | cons x xs ih =>
    have ih' := ih (fun y hy => h y (by simp [hy]))
    have hx := h x (by simp)
    cases hp : p x <;> cases hq : q x
    · simpa [List.filter_cons, hp, hq] using ih'
    · simp only [List.filter_cons, hp, hq, Bool.or_true, if_true, Bool.false_eq_true, if_false]
      exact List.perm_middle.trans (List.Perm.cons x ih')
    · simp only [List.filter_cons, hp, hq, Bool.or_false, if_true, Bool.false_eq_true, if_false, List.cons_append]
      exact List.Perm.cons x ih'
    · exact absurd ⟨hp, hq⟩ hx

theorem buckets_perm (l : Flat) (s n : Nat) :
    (buckets l s n).Perm (l.filter (fun pk => decide (s ≤ depth pk.1 ∧ depth pk.1 < s + n))) := by
  induction n generalizing s with
  | zero =>
    simp only [buckets]
    have : l.filter (fun pk => decide (s ≤ depth pk.1 ∧ depth pk.1 < s + 0)) = [] := by
      rw [List.filter_eq_nil_iff]; intro x _; simp
    rw [this]
  | succ n ih =>
    simp only [buckets]
    refine (List.Perm.append_left _ (ih (s + 1))).trans ?_
    refine (filter_or_perm _ _ l ?_).trans ?_
    · intro x _
      simp only [beq_iff_eq, decide_eq_true_eq]
      omega
    · apply List.Perm.of_eq
      apply List.filter_congr
      intro x _
      rw [Bool.eq_iff_iff]
      simp only [Bool.or_eq_true, beq_iff_eq, decide_eq_true_eq]
      omega

/-- the sorted list is a rearrangement of the keys -/
theorem sortByDepth_perm (l : Flat) : (sortByDepth l).Perm l := by
  unfold sortByDepth
  refine (buckets_perm l 0 (maxDepth l + 1)).trans ?_
  apply List.Perm.of_eq
  rw [List.filter_eq_self]
  intro x hx
  have := depth_le_maxDepth l x hx
  simp only [decide_eq_true_eq]
  omega

/-! ## table lemmas -/

theorem dictGet_insert {α β : Type} [DecidableEq α] (d : List (α × β)) (k k' : α) (v : β) :
    dictGet? (dictInsert d k v) k' = if k = k' then some v else dictGet? d k' := by
  induction d with
  | nil =>
    simp only [dictInsert, dictGet?]
  | cons x rest ih =>
    obtain ⟨kx, vx⟩ := x
    simp only [dictInsert]
    by_cases h : kx = k
    · subst h
      simp only [if_true, dictGet?]
      by_cases h2 : kx = k' <;> simp [h2]
    · simp only [h, if_false, dictGet?, ih]
      by_cases h2 : kx = k'
      · subst h2
        have : ¬ k = kx := fun h' => h h'.symm
        simp [this]
      · simp [h2]

theorem dictInsert_same {α β : Type} [DecidableEq α] (d : List (α × β)) (k : α) (v : β)
    (h : dictGet? d k = some v) : dictInsert d k v = d := by
  induction d with
  | nil => simp [dictGet?] at h
  | cons x rest ih =>
    obtain ⟨kx, vx⟩ := x
    simp only [dictGet?] at h
    simp only [dictInsert]
    by_cases hk : kx = k
    · simp only [hk, if_true] at h ⊢
      simp at h; rw [h]
    · simp only [hk, if_false] at h ⊢
      rw [ih h]

/-- keys a row looks up in the table -/
def rowRefs : Row → List Str
  | .symbol _ fl => fl.map Prod.snd
  | .reflection _ _ o v fl => o :: v :: fl.map Prod.snd

theorem stackAll_congr (look look' : Lookup) (g : Flat) (h : ∀ y ∈ g, look y.2 = look' y.2) :
    stackAll look g = stackAll look' g := by
  induction g with
  | nil => rfl
  | cons y ys ih =>
    obtain ⟨p, k⟩ := y
    have hk := h (p, k) (by simp)
    simp only at hk
    simp only [stackAll, hk, ih (fun z hz => h z (by simp [hz]))]

theorem stepGroups_congr (look look' : Lookup) (gs : List Flat) (attrs : List RNode)
    (h : ∀ g ∈ gs, ∀ y ∈ g, look y.2 = look' y.2) :
    stepGroups look gs attrs = stepGroups look' gs attrs := by
  induction gs generalizing attrs with
  | nil => rfl
  | cons g gs ih =>
    have hg : stepGroup look attrs g = stepGroup look' attrs g := by
      cases g with
      | nil => rfl
      | cons y ys =>
        obtain ⟨p, k⟩ := y
        simp only [stepGroup, stackAll_congr look look' ((p, k) :: ys) (h _ (by simp))]
    simp only [stepGroups, hg]
    cases stepGroup look' attrs g with
    | error e => rfl
    | ok a' => exact ih a' (fun g' hg' => h g' (by simp [hg']))

theorem mem_groups (l : Flat) : ∀ g ∈ groups l, ∀ y ∈ g, y ∈ l := by
  intro g hg y hy
  have := (groupsFuel_spec l.length l (Nat.le_refl _)).1
  unfold groups at hg
  rw [← this]
  exact List.mem_flatten.mpr ⟨g, hg, hy⟩

/-- `_deserialize_attrs` looks only the keys of the dict up -/
theorem rebuild_congr (look look' : Lookup) (fl : Flat) (h : ∀ y ∈ fl, look y.2 = look' y.2) :
    rebuild look fl = rebuild look' fl := by
  unfold rebuild
  apply stepGroups_congr
  intro g hg y hy
  have := mem_groups _ g hg y hy
  exact h y ((sortByDepth_perm fl).mem_iff.mp this)

theorem deserialize_congr (W : World) (t t' : Table) (row : Row)
    (h : ∀ r ∈ rowRefs row, dictGet? t.items r = dictGet? t'.items r) :
    deserialize W t row = deserialize W t' row := by
  cases row with
  | symbol ty fl =>
    have hl : rebuild (t.lookup W) fl = rebuild (t'.lookup W) fl := by
      apply rebuild_congr
      intro y hy
      have := h y.2 (by simp only [rowRefs]; exact List.mem_map_of_mem hy)
      simp only [Table.lookup, this]
    simp only [deserialize, hl]
  | reflection nd dc o v fl =>
    have hl : rebuild (t.lookup W) fl = rebuild (t'.lookup W) fl := by
      apply rebuild_congr
      intro y hy
      have := h y.2 (by simp only [rowRefs]; exact List.mem_cons_of_mem _ (List.mem_cons_of_mem _ (List.mem_map_of_mem hy)))
      simp only [Table.lookup, this]
    have ho : t.get o = t'.get o := by simp only [Table.get, h o (by simp [rowRefs])]
    have hv : t.get v = t'.get v := by simp only [Table.get, h v (by simp [rowRefs])]
    simp only [deserialize, hl, ho, hv]

theorem isCompleted_onComplete (t : Table) (m m' : Str) (h : t.isCompleted m' = true) : (t.onComplete m).isCompleted m' = true := by
  unfold Table.onComplete
  split
  · exact h
  · simp only [Table.isCompleted] at h ⊢
    simp at h ⊢
    exact Or.inl h

theorem isCompleted_onComplete_self (t : Table) (m : Str) : (t.onComplete m).isCompleted m = true := by
  unfold Table.onComplete
  split
  · rename_i h; exact h
  · simp [Table.isCompleted]

theorem onComplete_of_completed (t : Table) (m : Str) (h : t.isCompleted m = true) : t.onComplete m = t := by
  unfold Table.onComplete
  simp only [Table.isCompleted] at h
  rw [if_pos h]

theorem onComplete_items (t : Table) (m : Str) : (t.onComplete m).items = t.items := by
  unfold Table.onComplete
  split <;> rfl

theorem importJson_completed_mono (W : World) (d : List (Str × Row)) (t t1 : Table) (m : Str)
    (h : importJson W t d = .ok t1) (hm : t.isCompleted m = true) : t1.isCompleted m = true := by
  induction d generalizing t with
  | nil => simp only [importJson] at h; cases h; exact hm
  | cons kr rest ih =>
    obtain ⟨k, row⟩ := kr
    simp only [importJson] at h
    cases hd : deserialize W t row with
    | error e => rw [hd] at h; cases h
    | ok s =>
      rw [hd] at h
      exact ih _ h (isCompleted_onComplete _ _ _ (by simpa [Table.set, Table.isCompleted] using hm))

/-- keys that are not imported keep their entry -/
theorem importJson_frame (W : World) (d : List (Str × Row)) (t t1 : Table) (r : Str)
    (h : importJson W t d = .ok t1) (hr : ∀ kr ∈ d, kr.1 ≠ r) : dictGet? t1.items r = dictGet? t.items r := by
  induction d generalizing t with
  | nil => simp only [importJson] at h; cases h; rfl
  | cons kr rest ih =>
    obtain ⟨k, row⟩ := kr
    simp only [importJson] at h
    cases hd : deserialize W t row with
    | error e => rw [hd] at h; cases h
    | ok s =>
      rw [hd] at h
      rw [ih _ h (fun kr hkr => hr kr (by simp [hkr]))]
      have hk : k ≠ r := hr (k, row) (by simp)
      simp only [onComplete_items, Table.set, dictGet_insert, hk, if_false]

/-- no row refers to its own key or to the key of a later row -/
def RefsEarlier : List (Str × Row) → Prop
  | [] => True
  | (k, row) :: rest => (∀ r ∈ rowRefs row, r ≠ k ∧ ∀ kr ∈ rest, r ≠ kr.1) ∧ RefsEarlier rest

/-- after a successful import every row deserializes, against the final table, to the entry the table holds -/
theorem importJson_fixed (W : World) (d : List (Str × Row)) (t t1 : Table)
    (h : importJson W t d = .ok t1) (hn : (d.map Prod.fst).Nodup) (he : RefsEarlier d) :
    ∀ kr ∈ d, ∃ s, deserialize W t1 kr.2 = .ok s ∧ dictGet? t1.items kr.1 = some s ∧ t1.isCompleted (modOf kr.1) = true := by
  induction d generalizing t with
  | nil => simp
  | cons kr rest ih =>
    obtain ⟨k, row⟩ := kr
    simp only [importJson] at h
    simp only [List.map_cons, List.nodup_cons] at hn
    simp only [RefsEarlier] at he
    cases hd : deserialize W t row with
    | error e => rw [hd] at h; cases h
    | ok s =>
      rw [hd] at h
      intro kr hkr
      rcases List.mem_cons.mp hkr with hkr | hkr
      · subst hkr
        refine ⟨s, ?_, ?_, ?_⟩
        · rw [← hd]
          apply deserialize_congr
          intro r hr
          obtain ⟨hrk, hrest⟩ := he.1 r hr
          rw [importJson_frame W rest _ t1 r h (fun kr' hkr' => (hrest kr' hkr').symm)]
          simp only [onComplete_items, Table.set, dictGet_insert, Ne.symm hrk, if_false]
        · rw [importJson_frame W rest _ t1 k h (fun kr' hkr' he' => hn.1 (by rw [← he']; exact List.mem_map_of_mem hkr'))]
          simp only [onComplete_items, Table.set, dictGet_insert, if_true]
        · exact importJson_completed_mono W rest _ t1 _ h (isCompleted_onComplete_self _ _)
      · exact ih _ h hn.2 he.2 kr hkr

theorem importJson_again (W : World) (d : List (Str × Row)) (t1 : Table)
    (h : ∀ kr ∈ d, ∃ s, deserialize W t1 kr.2 = .ok s ∧ dictGet? t1.items kr.1 = some s ∧ t1.isCompleted (modOf kr.1) = true) :
    importJson W t1 d = .ok t1 := by
  induction d with
  | nil => rfl
  | cons kr rest ih =>
    obtain ⟨k, row⟩ := kr
    obtain ⟨s, hs, hg, hc⟩ := h (k, row) (by simp)
    simp only [importJson, hs]
    have h1 : t1.set k s = t1 := by
      simp only [Table.set, dictInsert_same _ _ _ hg]
    rw [h1, onComplete_of_completed _ _ hc]
    exact ih (fun kr hkr => h kr (by simp [hkr]))

/-! ## export, then import into the table of the other modules -/

mutual
def keysN : Attr → List Str
  | .mk k cs => k :: keysL cs
def keysL : List Attr → List Str
  | [] => []
  | a :: rest => keysN a ++ keysL rest
end

mutual
theorem flatNode_keys (a : Attr) : (flatNode a).map Prod.snd = keysN a := by
  match a with
  | .mk k cs => simp only [flatNode, keysN, List.map_cons, flatList_keys 0 cs]
theorem flatList_keys (i : Nat) (cs : List Attr) : (flatList i cs).map Prod.snd = keysL cs := by
  match cs with
  | [] => rfl
  | a :: rest =>
    simp only [flatList, keysL, List.map_append, List.map_map, flatList_keys (i + 1) rest]
    congr 1
    rw [← flatNode_keys a]
    apply List.map_congr_left
    intro x _
    rfl
end

mutual
theorem GoodN_congr (look look' : Lookup) (a : Attr) (h : ∀ k ∈ keysN a, look' k = look k) (hg : GoodN look a) : GoodN look' a := by
  match a with
  | .mk k cs =>
    simp only [GoodN] at hg ⊢
    simp only [keysN] at h
    refine ⟨?_, GoodL_congr look look' cs (fun k' hk' => h k' (by simp [hk'])) hg.2⟩
    rw [h k (by simp)]
    exact hg.1
theorem GoodL_congr (look look' : Lookup) (cs : List Attr) (h : ∀ k ∈ keysL cs, look' k = look k) (hg : GoodL look cs) : GoodL look' cs := by
  match cs with
  | [] => trivial
  | a :: rest =>
    simp only [GoodL] at hg ⊢
    simp only [keysL] at h
    exact ⟨GoodN_congr look look' a (fun k hk => h k (by simp [hk])) hg.1,
      GoodL_congr look look' rest (fun k hk => h k (by simp [hk])) hg.2⟩
end

/-- the description the property compares: type, node, declaration, nested type arguments -/
def DescEq (a b : Sym) : Prop := a.types = b.types ∧ a.node = b.node ∧ a.decl = b.decl ∧ a.attrs = b.attrs

theorem DescEq.rfl' (a : Sym) : DescEq a a := ⟨rfl, rfl, rfl, rfl⟩

/-- what a loaded table guarantees about an entry (the stated invariant of `C14.rt`) -/
structure SymOK (W : World) (t : Table) (s : Sym) : Prop where
  /-- a class entry is its own node, and the entrypoints know the class -/
  cls : s.isClassSymbol W = true → s.node = s.types ∧ W.known s.types = true
  /-- any other entry: its nodes are known, and the entry of its type key carries that type (and no attributes if it has none) -/
  ref : s.isClassSymbol W = false → W.known s.node = true ∧ W.known s.decl = true ∧ W.isDecl s.decl = true ∧
    ∃ o, dictGet? t.items (s.typesKey W) = some o ∧ o.types = s.types ∧ (s.attrs = [] → o.attrs = [])
  /-- every attribute key is the key of an entry of that very type; entries of leaf keys have no attributes -/
  attrs : GoodL (t.lookup W) s.attrs

/-- the entries of `avail` are present in `T` with the description they have in `t` -/
def Agree (T t : Table) (avail : List Str) : Prop :=
  ∀ r ∈ avail, ∃ s' s, dictGet? T.items r = some s' ∧ dictGet? t.items r = some s ∧ DescEq s' s

/-- every row refers only to keys of `avail` or of earlier rows -/
def RefsAvail : List Str → List (Str × Row) → Prop
  | _, [] => True
  | avail, (k, row) :: rest => (∀ r ∈ rowRefs row, r ∈ avail) ∧ RefsAvail (avail ++ [k]) rest

theorem lookup_agree (W : World) (T t : Table) (avail : List Str) (h : Agree T t avail) :
    ∀ r ∈ avail, T.lookup W r = t.lookup W r := by
  intro r hr
  obtain ⟨s', s, h1, h2, hd⟩ := h r hr
  simp only [Table.lookup, h1, h2, Sym.typesKey, hd.1, hd.2.2.2]

theorem rebuild_isEmpty (look : Lookup) (f : Forest) : (embedFullL look f).isEmpty = f.isEmpty := by
  cases f <;> simp [embedFullL]

theorem deserialize_serialize (W : World) (T t : Table) (avail : List Str) (s : Sym)
    (hs : SymOK W t s) (hr : ∀ r ∈ rowRefs (serialize W s), r ∈ avail) (ha : Agree T t avail) :
    ∃ s', deserialize W T (serialize W s) = .ok s' ∧ DescEq s' s := by
  have hkeys : ∀ k ∈ keysL s.attrs, k ∈ rowRefs (serialize W s) := by
    intro k hk
    have : k ∈ (expand s.attrs).map Prod.snd := by
      rw [expand_eq_flatten]; unfold flatten; rw [flatList_keys]; exact hk
    unfold serialize
    split
    · simpa [rowRefs] using this
    · simp only [rowRefs, List.mem_cons]
      exact Or.inr (Or.inr this)
  have hgood : GoodL (T.lookup W) s.attrs :=
    GoodL_congr (t.lookup W) (T.lookup W) s.attrs (fun k hk => lookup_agree W T t avail ha k (hr k (hkeys k hk))) hs.attrs
  have hreb : rebuild (T.lookup W) (expand s.attrs) = .ok (embedFullL (T.lookup W) s.attrs) := by
    rw [expand_eq_flatten]; exact rebuild_flatten _ _ hgood
  have hobs := obsList_embedFullL (T.lookup W) s.attrs hgood
  cases hc : s.isClassSymbol W with
  | true =>
    obtain ⟨hnode, hknown⟩ := hs.cls hc
    have hc' := hc
    simp only [Sym.isClassSymbol, Bool.and_eq_true, beq_iff_eq] at hc'
    have hcd : W.isClassDef s.types = true := by rw [← hnode]; exact hc'.1
    refine ⟨{ types := s.types, node := s.types, decl := s.types, via := W.fullyname s.types, attrs := s.attrs }, ?_, ?_⟩
    · simp only [serialize, hc, if_true, deserialize, hknown, hcd, hreb, hobs, Bool.not_true, Bool.false_eq_true, if_false]
    · exact ⟨rfl, hnode.symm, hc'.2, rfl⟩
  | false =>
    obtain ⟨hkn, hkd, hdecl, o, ho, hot, hoa⟩ := hs.ref hc
    have hrow : serialize W s = .reflection s.node s.decl (s.typesKey W) s.via (expand s.attrs) := by
      simp [serialize, hc]
    rw [hrow] at hr ⊢
    obtain ⟨o', o0, hTo, hto, hdo⟩ := ha (s.typesKey W) (hr _ (by simp [rowRefs]))
    rw [ho] at hto
    cases hto
    obtain ⟨v', _, hTv, _, _⟩ := ha s.via (hr _ (by simp [rowRefs]))
    let vk : Str := if s.typesKey W != s.via then v'.typesKey W else o'.via
    refine ⟨{ types := o'.types, node := s.node, decl := s.decl, via := vk,
              attrs := if (embedFullL (T.lookup W) s.attrs).isEmpty then o'.attrs else s.attrs }, ?_, ?_⟩
    · simp only [deserialize, hkn, hkd, hdecl, Table.get, hTo, hTv, hreb, hobs, Bool.not_true, Bool.false_eq_true, if_false]
      by_cases hv : (s.typesKey W != s.via) = true
      · simp [hv, vk]
      · simp [hv, vk]
    · refine ⟨by rw [hdo.1, hot], rfl, rfl, ?_⟩
      simp only [rebuild_isEmpty]
      cases ha' : s.attrs with
      | nil => simp [hdo.2.2.2, hoa ha']
      | cons a rest => simp

theorem import_restores (W : World) (t : Table) (d : List (Str × Row)) :
    ∀ (T : Table) (avail : List Str),
    (∀ kr ∈ d, ∃ s, dictGet? t.items kr.1 = some s ∧ kr.2 = serialize W s ∧ SymOK W t s) →
    RefsAvail avail d → Agree T t avail →
    ∃ T', importJson W T d = .ok T' ∧ Agree T' t (avail ++ d.map Prod.fst) := by
  induction d with
  | nil => intro T avail _ _ ha; exact ⟨T, rfl, by simpa using ha⟩
  | cons kr rest ih =>
    intro T avail hd hav ha
    obtain ⟨k, row⟩ := kr
    obtain ⟨s, hts, hrow, hok⟩ := hd (k, row) (by simp)
    simp only at hts hrow
    simp only [RefsAvail] at hav
    subst hrow
    obtain ⟨s', hds, hdesc⟩ := deserialize_serialize W T t avail s hok hav.1 ha
    have ha' : Agree ((T.set k s').onComplete (modOf k)) t (avail ++ [k]) := by
      intro r hr
      by_cases hrk : k = r
      · subst hrk
        exact ⟨s', s, by simp [onComplete_items, Table.set, dictGet_insert], hts, hdesc⟩
      · rcases List.mem_append.mp hr with hr | hr
        · obtain ⟨a, b, h1, h2, h3⟩ := ha r hr
          exact ⟨a, b, by simp [onComplete_items, Table.set, dictGet_insert, hrk, h1], h2, h3⟩
        · simp at hr; exact absurd hr.symm hrk
    obtain ⟨T', hT', hag⟩ := ih _ _ (fun kr hkr => hd kr (by simp [hkr])) hav.2 ha'
    refine ⟨T', ?_, ?_⟩
    · simp only [importJson, hds]; exact hT'
    · simpa [List.append_assoc] using hag

/-! ## generic facts about availability lists, `to_json` rows and dict lookups -/

/-- every key of the list is available (in `avail` or earlier in the list) when it is reached -/
def ValidFrom (refs : Str → List Str) : List Str → List Str → Prop
  | _, [] => True
  | avail, k :: rest => (∀ r ∈ refs k, r ∈ avail) ∧ ValidFrom refs (avail ++ [k]) rest

theorem validFrom_snoc (refs : Str → List Str) (xs : List Str) (k : Str) :
    ∀ avail, ValidFrom refs avail (xs ++ [k]) ↔ ValidFrom refs avail xs ∧ ∀ r ∈ refs k, r ∈ avail ++ xs := by
  induction xs with
  | nil => intro avail; simp [ValidFrom]
  | cons x rest ih =>
    intro avail
    simp only [List.cons_append, ValidFrom, ih (avail ++ [x]), List.append_assoc]
    constructor
    · rintro ⟨h1, h2, h3⟩; exact ⟨⟨h1, h2⟩, h3⟩
    · rintro ⟨⟨h1, h2⟩, h3⟩; exact ⟨h1, h2, h3⟩

theorem mem_dictInsert {α β : Type} [DecidableEq α] (d : List (α × β)) (k : α) (v : β) :
    ∀ kv ∈ dictInsert d k v, kv ∈ d ∨ kv = (k, v) := by
  induction d with
  | nil => simp [dictInsert]
  | cons x rest ih =>
    obtain ⟨kx, vx⟩ := x
    intro kv hkv
    simp only [dictInsert] at hkv
    split at hkv
    · rename_i h
      rcases List.mem_cons.mp hkv with h' | h'
      · right; rw [h', h]
      · left; exact List.mem_cons_of_mem _ h'
    · rcases List.mem_cons.mp hkv with h' | h'
      · left; rw [h']; exact List.mem_cons_self
      · rcases ih kv h' with h'' | h''
        · left; exact List.mem_cons_of_mem _ h''
        · right; exact h''

/-- with pairwise distinct keys `to_json` lists one row per key, in the order of the keys -/
theorem toJsonRows_nodup (W : World) (t : Table) (ks : List Str) :
    ∀ (acc d : List (Str × Row)), toJsonRows W t ks acc = .ok d → ks.Nodup → (∀ k ∈ ks, ∀ kr ∈ acc, kr.1 ≠ k) →
      ∃ rows, d = acc ++ rows ∧ rows.map Prod.fst = ks ∧
        ∀ kr ∈ rows, ∃ s, dictGet? t.items kr.1 = some s ∧ kr.2 = serialize W s := by
  induction ks with
  | nil => intro acc d h _ _; simp only [toJsonRows] at h; cases h; exact ⟨[], by simp⟩
  | cons k rest ih =>
    intro acc d h hn hd
    simp only [toJsonRows, Table.get] at h
    cases hg : dictGet? t.items k with
    | none => rw [hg] at h; cases h
    | some s =>
      rw [hg] at h
      simp only at h
      rw [dictInsert_new acc k _ (fun kv hkv => hd k (by simp) kv hkv)] at h
      simp only [List.nodup_cons] at hn
      obtain ⟨rows, h1, h2, h3⟩ := ih _ d h hn.2 (by
        intro k' hk' kr hkr
        rcases List.mem_append.mp hkr with h' | h'
        · exact hd k' (by simp [hk']) kr h'
        · simp only [List.mem_singleton] at h'
          rw [h']
          intro he
          simp only at he
          exact hn.1 (by rw [he]; exact hk'))
      refine ⟨(k, serialize W s) :: rows, by simp [h1], by simp [h2], ?_⟩
      intro kr hkr
      rcases List.mem_cons.mp hkr with h' | h'
      · rw [h']; exact ⟨s, hg, rfl⟩
      · exact h3 kr h'

/-- the keys a table entry's row looks up on import -/
def refsOf (W : World) (t : Table) (k : Str) : List Str :=
  match dictGet? t.items k with
  | some s => rowRefs (serialize W s)
  | none => []

theorem refsAvail_of_valid (W : World) (t : Table) (rows : List (Str × Row))
    (h : ∀ kr ∈ rows, ∃ s, dictGet? t.items kr.1 = some s ∧ kr.2 = serialize W s) :
    ∀ avail, ValidFrom (refsOf W t) avail (rows.map Prod.fst) → RefsAvail avail rows := by
  induction rows with
  | nil => intro _ _; trivial
  | cons kr rest ih =>
    obtain ⟨k, row⟩ := kr
    intro avail hv
    simp only [List.map_cons, ValidFrom] at hv
    obtain ⟨s, hs, hrow⟩ := h (k, row) (by simp)
    simp only at hs hrow
    refine ⟨?_, ih (fun kr hkr => h kr (by simp [hkr])) _ hv.2⟩
    have : refsOf W t k = rowRefs row := by simp [refsOf, hs, hrow]
    rw [← this]
    exact hv.1

theorem refsEarlier_of_avail (d : List (Str × Row)) :
    ∀ avail, RefsAvail avail d → (∀ kr ∈ d, kr.1 ∉ avail) → (d.map Prod.fst).Nodup → RefsEarlier d := by
  induction d with
  | nil => intro _ _ _ _; trivial
  | cons kr rest ih =>
    obtain ⟨k, row⟩ := kr
    intro avail ha hd hn
    simp only [RefsAvail] at ha
    simp only [List.map_cons, List.nodup_cons] at hn
    refine ⟨?_, ih (avail ++ [k]) ha.2 ?_ hn.2⟩
    · intro r hr
      have := ha.1 r hr
      refine ⟨fun he => hd (k, row) (by simp) (by rw [← he]; exact this), ?_⟩
      intro kr hkr he
      exact hd kr (by simp [hkr]) (by rw [← he]; exact this)
    · intro kr hkr hmem
      rcases List.mem_append.mp hmem with h | h
      · exact hd kr (by simp [hkr]) h
      · simp only [List.mem_singleton] at h
        exact hn.1 (by rw [← h]; exact List.mem_map_of_mem hkr)

theorem importJson_completed (W : World) (d : List (Str × Row)) (t t1 : Table)
    (h : importJson W t d = .ok t1) : ∀ kr ∈ d, t1.isCompleted (modOf kr.1) = true := by
  induction d generalizing t with
  | nil => simp
  | cons kr rest ih =>
    obtain ⟨k, row⟩ := kr
    simp only [importJson] at h
    cases hd : deserialize W t row with
    | error e => rw [hd] at h; cases h
    | ok s =>
      rw [hd] at h
      intro kr hkr
      rcases List.mem_cons.mp hkr with h' | h'
      · rw [h']
        exact importJson_completed_mono W rest _ t1 _ h (isCompleted_onComplete_self _ _)
      · exact ih _ h kr h'

theorem dictGet_filter {β : Type} (p : Str → Bool) (l : List (Str × β)) (k : Str) :
    dictGet? (l.filter (fun kv => p kv.1)) k = if p k then dictGet? l k else none := by
  induction l with
  | nil => simp [dictGet?]
  | cons x rest ih =>
    obtain ⟨kx, vx⟩ := x
    simp only [List.filter_cons]
    by_cases hp : p kx = true
    · simp only [hp, if_true, dictGet?, ih]
      by_cases hk : kx = k
      · subst hk; simp [hp]
      · simp [hk]
    · simp only [hp, Bool.false_eq_true, if_false, dictGet?, ih]
      by_cases hk : kx = k
      · subst hk; simp [hp]
      · simp [hk]

theorem dictGet_of_mem_keys {β : Type} (l : List (Str × β)) (k : Str) (h : k ∈ l.map Prod.fst) : ∃ v, dictGet? l k = some v := by
  induction l with
  | nil => simp at h
  | cons x rest ih =>
    obtain ⟨kx, vx⟩ := x
    simp only [dictGet?]
    by_cases hk : kx = k
    · exact ⟨vx, by simp [hk]⟩
    · simp only [hk, if_false]
      simp only [List.map_cons, List.mem_cons] at h
      rcases h with h | h
      · exact absurd h.symm hk
      · exact ih h

theorem mem_of_dictGet {β : Type} (l : List (Str × β)) (k : Str) (v : β) (h : dictGet? l k = some v) : (k, v) ∈ l := by
  induction l with
  | nil => simp [dictGet?] at h
  | cons x rest ih =>
    obtain ⟨kx, vx⟩ := x
    simp only [dictGet?] at h
    by_cases hk : kx = k
    · simp only [hk, if_true, Option.some.injEq] at h
      rw [hk, h]; exact List.mem_cons_self
    · simp only [hk, if_false] at h
      exact List.mem_cons_of_mem _ (ih h)

/-! ## the export order (`_order_keys_recursive` after fix 95feeba) -/

theorem orderNode_unfold (look : Str → Option Forest) (sub : Forest → List Str → List Str → List Str)
    (M : Str) (hM : M ≠ []) (k : Str) (cs : List Attr) (o res : List Str) :
    orderNode look sub (some M) (.mk k cs) o res =
      if M = modOf k ∧ k ∉ orderList look sub (some M) cs o res then
        (if k ∉ entryFirst look sub k (orderList look sub (some M) cs o res) res
          then entryFirst look sub k (orderList look sub (some M) cs o res) res ++ [k]
          else entryFirst look sub k (orderList look sub (some M) cs o res) res)
      else orderList look sub (some M) cs o res := by
  have hf : falsy (some M) = false := by
    cases M with
    | nil => exact absurd rfl hM
    | cons _ _ => rfl
  simp only [orderNode, hf, Bool.false_or]
  by_cases h1 : M = modOf k
  · subst h1
    by_cases h2 : k ∈ orderList look sub (some (modOf k)) cs o res
    · simp [h2]
    · by_cases h3 : k ∈ entryFirst look sub k (orderList look sub (some (modOf k)) cs o res) res
      · simp [h2, h3]
      · simp [h2, h3]
  · have : (some M == some (modOf k)) = false := by simp [h1]
    simp [this, h1]

theorem entryFirst_gen (look : Str → Option Forest) (sub : Forest → List Str → List Str → List Str) (M : Str)
    (hs : ∀ f o res, (∀ x ∈ o, x ∈ sub f o res) ∧ (o.Nodup → (sub f o res).Nodup) ∧ ((∀ x ∈ o, modOf x = M) → ∀ x ∈ sub f o res, modOf x = M))
    (k : Str) (o res : List Str) :
    (∀ x ∈ o, x ∈ entryFirst look sub k o res) ∧ (o.Nodup → (entryFirst look sub k o res).Nodup) ∧
      ((∀ x ∈ o, modOf x = M) → ∀ x ∈ entryFirst look sub k o res, modOf x = M) := by
  unfold entryFirst
  split
  · split
    · exact ⟨fun _ h => h, fun h => h, fun h => h⟩
    · exact hs _ _ _
  · exact ⟨fun _ h => h, fun h => h, fun h => h⟩

/-- the walk only appends: `orders` grows, stays duplicate-free and inside the module -/
def GenOK (M : Str) (o o' : List Str) : Prop :=
  (∀ x ∈ o, x ∈ o') ∧ (o.Nodup → o'.Nodup) ∧ ((∀ x ∈ o, modOf x = M) → ∀ x ∈ o', modOf x = M)

theorem GenOK.refl (M : Str) (o : List Str) : GenOK M o o := ⟨fun _ h => h, fun h => h, fun h => h⟩

theorem GenOK.trans {M : Str} {a b c : List Str} (h1 : GenOK M a b) (h2 : GenOK M b c) : GenOK M a c :=
  ⟨fun x hx => h2.1 x (h1.1 x hx), fun h => h2.2.1 (h1.2.1 h), fun h => h2.2.2 (h1.2.2 h)⟩

theorem GenOK.snoc (M : Str) (o : List Str) (k : Str) (hk : k ∉ o) (hm : modOf k = M) : GenOK M o (o ++ [k]) := by
  refine ⟨fun x hx => List.mem_append.mpr (Or.inl hx), ?_, ?_⟩
  · intro hn
    rw [List.nodup_append]
    refine ⟨hn, by simp, ?_⟩
    intro x hx y hy
    simp only [List.mem_singleton] at hy
    subst hy
    intro he; subst he; exact hk hx
  · intro h x hx
    rcases List.mem_append.mp hx with h' | h'
    · exact h x h'
    · simp only [List.mem_singleton] at h'; rw [h']; exact hm

def SubGen (M : Str) (sub : Forest → List Str → List Str → List Str) : Prop :=
  ∀ f o res, GenOK M o (sub f o res)

mutual
theorem orderNode_gen (look : Str → Option Forest) (sub : Forest → List Str → List Str → List Str) (M : Str) (hM : M ≠ [])
    (hs : SubGen M sub) (a : Attr) (o res : List Str) :
    GenOK M o (orderNode look sub (some M) a o res) ∧
      ∀ c ∈ keysN a, modOf c = M → c ∈ orderNode look sub (some M) a o res := by
  match a with
  | .mk k cs =>
    obtain ⟨g1, c1⟩ := orderList_gen look sub M hM hs cs o res
    rw [orderNode_unfold look sub M hM]
    split
    · rename_i hc
      have g2 : GenOK M (orderList look sub (some M) cs o res) (entryFirst look sub k (orderList look sub (some M) cs o res) res) :=
        entryFirst_gen look sub M hs k _ res
      split
      · rename_i hk
        have g3 := GenOK.snoc M _ k hk hc.1.symm
        refine ⟨g1.trans (g2.trans g3), ?_⟩
        intro c hcm hmod
        simp only [keysN, List.mem_cons] at hcm
        rcases hcm with h | h
        · rw [h]; exact List.mem_append.mpr (Or.inr (by simp))
        · exact g3.1 c (g2.1 c (c1 c h hmod))
      · rename_i hk
        refine ⟨g1.trans g2, ?_⟩
        intro c hcm hmod
        simp only [keysN, List.mem_cons] at hcm
        rcases hcm with h | h
        · rw [h]; exact Classical.not_not.mp hk
        · exact g2.1 c (c1 c h hmod)
    · rename_i hc
      refine ⟨g1, ?_⟩
      intro c hcm hmod
      simp only [keysN, List.mem_cons] at hcm
      rcases hcm with h | h
      · subst h
        exact Classical.not_not.mp (fun hn => hc ⟨hmod.symm, hn⟩)
      · exact c1 c h hmod
theorem orderList_gen (look : Str → Option Forest) (sub : Forest → List Str → List Str → List Str) (M : Str) (hM : M ≠ [])
    (hs : SubGen M sub) (cs : List Attr) (o res : List Str) :
    GenOK M o (orderList look sub (some M) cs o res) ∧
      ∀ c ∈ keysL cs, modOf c = M → c ∈ orderList look sub (some M) cs o res := by
  match cs with
  | [] => exact ⟨GenOK.refl _ _, by simp [keysL]⟩
  | a :: rest =>
    obtain ⟨g1, c1⟩ := orderNode_gen look sub M hM hs a o res
    obtain ⟨g2, c2⟩ := orderList_gen look sub M hM hs rest (orderNode look sub (some M) a o res) res
    simp only [orderList]
    refine ⟨g1.trans g2, ?_⟩
    intro c hc hmod
    simp only [keysL, List.mem_append] at hc
    rcases hc with h | h
    · exact g2.1 c (c1 c h hmod)
    · exact c2 c h hmod
end

theorem orderFuel_gen (look : Str → Option Forest) (M : Str) (hM : M ≠ []) (n : Nat) : SubGen M (orderFuel look (some M) n) := by
  induction n with
  | zero => intro f o res; exact GenOK.refl _ _
  | succ n ih => intro f o res; exact (orderList_gen look (orderFuel look (some M) n) M hM ih f o res).1

/-- keys of the other modules -/
def baseKeys (t : Table) (M : Str) : List Str := (t.items.filter (fun ks => modOf ks.1 != M)).map Prod.fst

theorem mem_baseKeys (t : Table) (M r : Str) (h : r ∈ t.items.map Prod.fst) (hm : modOf r ≠ M) : r ∈ baseKeys t M := by
  obtain ⟨ks, hks, hk⟩ := List.mem_map.mp h
  exact List.mem_map.mpr ⟨ks, List.mem_filter.mpr ⟨hks, by simp [hk, hm]⟩, hk⟩

theorem dictGet_of_mem_nodup {β : Type} (l : List (Str × β)) (k : Str) (v : β)
    (hn : (l.map Prod.fst).Nodup) (h : (k, v) ∈ l) : dictGet? l k = some v := by
  induction l with
  | nil => simp at h
  | cons x rest ih =>
    obtain ⟨kx, vx⟩ := x
    simp only [List.map_cons, List.nodup_cons] at hn
    simp only [dictGet?]
    rcases List.mem_cons.mp h with h' | h'
    · cases h'; simp
    · have : kx ≠ k := fun he => hn.1 (by rw [he]; exact List.mem_map_of_mem h')
      simp only [this, if_false]
      exact ih hn.2 h'

/-- the key of a table entry that is a class symbol (`serialize`'s `Symbol` shape) -/
def ClsEntry (W : World) (t : Table) (c : Str) : Prop :=
  ∃ sc, dictGet? t.items c = some sc ∧ sc.isClassSymbol W = true

instance (W : World) (t : Table) (c : Str) : Decidable (ClsEntry W t c) :=
  match h : dictGet? t.items c with
  | some sc =>
    if hc : sc.isClassSymbol W = true then isTrue ⟨sc, h, hc⟩
    else isFalse (by rintro ⟨sc', h', hc'⟩; rw [h] at h'; cases h'; exact hc hc')
  | none => isFalse (by rintro ⟨sc', h', _⟩; rw [h] at h'; cases h')

/-- What a loaded table guarantees about module `M` (the hypotheses of the order law), for a rank function on keys:
    every reference is a key; in-module type keys are keys of class symbols; a class symbol refers only to in-module classes of
    smaller rank (no class refers to itself through its attributes — otherwise no import order exists at all); the `via`
    of a non-class entry is a key of another module or one of its own type keys. -/
structure Loaded (W : World) (t : Table) (M : Str) (rank : Str → Nat) : Prop where
  nodup : (t.items.map Prod.fst).Nodup
  closed : ∀ ks ∈ t.items, ∀ r ∈ rowRefs (serialize W ks.2), r ∈ t.items.map Prod.fst
  clsKeys : ∀ ks ∈ t.items, modOf ks.1 = M → ∀ c ∈ keysN (ks.2.asAttr W), modOf c = M → ClsEntry W t c
  rankBound : ∀ ks ∈ t.items, rank ks.1 ≤ t.items.length
  acyclic : ∀ ks ∈ t.items, modOf ks.1 = M → ks.2.isClassSymbol W = true →
    ∀ c' ∈ keysL ks.2.attrs, modOf c' = M → rank c' < rank ks.1
  viaOK : ∀ ks ∈ t.items, modOf ks.1 = M → ks.2.isClassSymbol W = false →
    ks.2.via ∈ baseKeys t M ∨ ks.2.via ∈ keysN (ks.2.asAttr W)

theorem expand_keys (f : Forest) : (expand f).map Prod.snd = keysL f := by
  rw [expand_eq_flatten]; unfold flatten; exact flatList_keys 0 f

theorem refsOf_cls (W : World) (t : Table) (c : Str) (sc : Sym) (h : dictGet? t.items c = some sc)
    (hc : sc.isClassSymbol W = true) : refsOf W t c = keysL sc.attrs := by
  simp [refsOf, h, serialize, hc, rowRefs, expand_keys]

theorem refsOf_ref (W : World) (t : Table) (c : Str) (sc : Sym) (h : dictGet? t.items c = some sc)
    (hc : sc.isClassSymbol W = false) : refsOf W t c = sc.typesKey W :: sc.via :: keysL sc.attrs := by
  simp [refsOf, h, serialize, hc, rowRefs, expand_keys]

/-- every reference of a table entry is a key of another module, or one of the entry's own type keys inside the module -/
theorem refs_split (W : World) (t : Table) (M : Str) (rank : Str → Nat) (hl : Loaded W t M rank)
    (K : Str) (s : Sym) (hks : (K, s) ∈ t.items) (hK : modOf K = M) :
    ∀ r ∈ refsOf W t K, r ∈ baseKeys t M ∨ (modOf r = M ∧ r ∈ keysN (s.asAttr W)) := by
  have hget := dictGet_of_mem_nodup t.items K s hl.nodup hks
  have hclosed : ∀ r ∈ refsOf W t K, r ∈ t.items.map Prod.fst := by
    intro r hr
    have := hl.closed (K, s) hks r
    simp only [refsOf, hget] at hr
    exact this hr
  intro r hr
  by_cases hm : modOf r = M
  · right
    refine ⟨hm, ?_⟩
    cases hc : s.isClassSymbol W with
    | true =>
      rw [refsOf_cls W t K s hget hc] at hr
      simp only [Sym.asAttr, keysN, List.mem_cons]
      exact Or.inr hr
    | false =>
      rw [refsOf_ref W t K s hget hc] at hr
      simp only [Sym.asAttr, keysN, List.mem_cons] at hr ⊢
      rcases hr with h | h | h
      · exact Or.inl h
      · rcases hl.viaOK (K, s) hks hK hc with hv | hv
        · exfalso
          rw [← h] at hv
          obtain ⟨ks, hks', hk'⟩ := List.mem_map.mp hv
          have := (List.mem_filter.mp hks').2
          rw [hk', hm] at this
          simp at this
        · rw [h]
          simpa [Sym.asAttr, keysN] using hv
      · exact Or.inr h
  · exact Or.inl (mem_baseKeys t M r (hclosed r hr) hm)

/-- the entries of `res` (classes being expanded) have larger rank than every in-module key still to be walked -/
def ResAbove (M : Str) (rank : Str → Nat) (res ks : List Str) : Prop :=
  ∀ r ∈ res, ∀ c ∈ ks, modOf c = M → rank c < rank r

/-- what the nested walk does on the attributes of a class entry of rank ≤ n -/
def SubOK (W : World) (t : Table) (M : Str) (rank : Str → Nat) (sub : Forest → List Str → List Str → List Str) (n : Nat) : Prop :=
  ∀ c sc o res, dictGet? t.items c = some sc → sc.isClassSymbol W = true → modOf c = M → rank c ≤ n →
    ValidFrom (refsOf W t) (baseKeys t M) o → ResAbove M rank res (keysL sc.attrs) →
    ValidFrom (refsOf W t) (baseKeys t M) (sub sc.attrs o res) ∧
      ∀ c' ∈ keysL sc.attrs, modOf c' = M → c' ∈ sub sc.attrs o res

mutual
theorem orderNode_valid (W : World) (t : Table) (M : Str) (hM : M ≠ []) (rank : Str → Nat) (hl : Loaded W t M rank)
    (sub : Forest → List Str → List Str → List Str) (n : Nat) (hg : SubGen M sub) (hs : SubOK W t M rank sub n)
    (a : Attr) (o res : List Str)
    (hk : ∀ c ∈ keysN a, modOf c = M → rank c ≤ n ∧ ClsEntry W t c)
    (hr : ResAbove M rank res (keysN a)) (hv : ValidFrom (refsOf W t) (baseKeys t M) o) :
    ValidFrom (refsOf W t) (baseKeys t M) (orderNode t.entryAttrs sub (some M) a o res) := by
  match a with
  | .mk k cs =>
    have ih := orderList_valid W t M hM rank hl sub n hg hs cs o res
      (fun c hc hm => hk c (by simp [keysN, hc]) hm)
      (fun r hr' c hc hm => hr r hr' c (by simp [keysN, hc]) hm) hv
    rw [orderNode_unfold t.entryAttrs sub M hM]
    split
    · rename_i hc
      obtain ⟨hrank, sc, hsc, hcls⟩ := hk k (by simp [keysN]) hc.1.symm
      have hlook : t.entryAttrs k = some sc.attrs := by simp [Table.entryAttrs, hsc]
      have hres : k ∉ res := by
        intro hin
        have := hr k hin k (by simp [keysN]) hc.1.symm
        omega
      have hef : entryFirst t.entryAttrs sub k (orderList t.entryAttrs sub (some M) cs o res) res
          = sub sc.attrs (orderList t.entryAttrs sub (some M) cs o res) (res ++ [k]) := by
        simp [entryFirst, hlook, hres]
      rw [hef]
      have hra : ResAbove M rank (res ++ [k]) (keysL sc.attrs) := by
        intro r hr' c' hc' hm'
        have hlt : rank c' < rank k := hl.acyclic (k, sc) (mem_of_dictGet _ _ _ hsc) hc.1.symm hcls c' hc' hm'
        rcases List.mem_append.mp hr' with h | h
        · have := hr r h k (by simp [keysN]) hc.1.symm
          omega
        · simp only [List.mem_singleton] at h; rw [h]; exact hlt
      obtain ⟨hv2, hcov⟩ := hs k sc _ (res ++ [k]) hsc hcls hc.1.symm hrank ih hra
      split
      · rw [validFrom_snoc]
        refine ⟨hv2, ?_⟩
        intro r hr'
        rw [refsOf_cls W t k sc hsc hcls] at hr'
        by_cases hm : modOf r = M
        · exact List.mem_append.mpr (Or.inr (hcov r hr' hm))
        · refine List.mem_append.mpr (Or.inl (mem_baseKeys t M r ?_ hm))
          have := hl.closed (k, sc) (mem_of_dictGet _ _ _ hsc) r
          simp only [serialize, hcls, if_true, rowRefs, expand_keys] at this
          exact this hr'
      · exact hv2
    · exact ih
theorem orderList_valid (W : World) (t : Table) (M : Str) (hM : M ≠ []) (rank : Str → Nat) (hl : Loaded W t M rank)
    (sub : Forest → List Str → List Str → List Str) (n : Nat) (hg : SubGen M sub) (hs : SubOK W t M rank sub n)
    (cs : List Attr) (o res : List Str)
    (hk : ∀ c ∈ keysL cs, modOf c = M → rank c ≤ n ∧ ClsEntry W t c)
    (hr : ResAbove M rank res (keysL cs)) (hv : ValidFrom (refsOf W t) (baseKeys t M) o) :
    ValidFrom (refsOf W t) (baseKeys t M) (orderList t.entryAttrs sub (some M) cs o res) := by
  match cs with
  | [] => exact hv
  | a :: rest =>
    simp only [orderList]
    exact orderList_valid W t M hM rank hl sub n hg hs rest _ res
      (fun c hc hm => hk c (by simp [keysL, hc]) hm)
      (fun r hr' c hc hm => hr r hr' c (by simp [keysL, hc]) hm)
      (orderNode_valid W t M hM rank hl sub n hg hs a o res
        (fun c hc hm => hk c (by simp [keysL, hc]) hm)
        (fun r hr' c hc hm => hr r hr' c (by simp [keysL, hc]) hm) hv)
end

theorem orderFuel_subOK (W : World) (t : Table) (M : Str) (hM : M ≠ []) (rank : Str → Nat) (hl : Loaded W t M rank) (n : Nat) :
    SubOK W t M rank (orderFuel t.entryAttrs (some M) n) n := by
  induction n with
  | zero =>
    intro c sc o res hsc hcls hm hrank hv _
    refine ⟨hv, ?_⟩
    intro c' hc' hm'
    have : rank c' < rank c := hl.acyclic (c, sc) (mem_of_dictGet _ _ _ hsc) hm hcls c' hc' hm'
    omega
  | succ n ih =>
    intro c sc o res hsc hcls hm hrank hv hra
    have hkeys : ∀ c' ∈ keysL sc.attrs, modOf c' = M → rank c' ≤ n ∧ ClsEntry W t c' := by
      intro c' hc' hm'
      have : rank c' < rank c := hl.acyclic (c, sc) (mem_of_dictGet _ _ _ hsc) hm hcls c' hc' hm'
      refine ⟨by omega, ?_⟩
      exact hl.clsKeys (c, sc) (mem_of_dictGet _ _ _ hsc) hm c' (by simp [Sym.asAttr, keysN, hc']) hm'
    refine ⟨?_, ?_⟩
    · exact orderList_valid W t M hM rank hl _ n (orderFuel_gen _ M hM n) ih sc.attrs o res hkeys hra hv
    · exact (orderList_gen t.entryAttrs _ M hM (orderFuel_gen _ M hM n) sc.attrs o res).2

/-! ## `_order_keys` and `to_json` -/

theorem orderKeysLoop_cons (W : World) (t : Table) (M : Str) (k : Str) (s : Sym) (rest : List (Str × Sym)) (o : List Str) :
    orderKeysLoop W t (some M) ((k, s) :: rest) o =
      if M = modOf k then
        orderKeysLoop W t (some M) rest
          (if k ∈ orderFuel t.entryAttrs (some M) (t.items.length + 1) [s.asAttr W] o []
            then orderFuel t.entryAttrs (some M) (t.items.length + 1) [s.asAttr W] o []
            else orderFuel t.entryAttrs (some M) (t.items.length + 1) [s.asAttr W] o [] ++ [k])
      else orderKeysLoop W t (some M) rest o := by
  simp only [orderKeysLoop]
  by_cases h : M = modOf k
  · subst h
    simp
  · have : (some M == some (modOf k)) = false := by simp [h]
    simp [this, h]

theorem orderKeysLoop_spec (W : World) (t : Table) (M : Str) (hM : M ≠ []) (items : List (Str × Sym)) :
    ∀ o : List Str, o.Nodup → (∀ x ∈ o, modOf x = M) →
      (orderKeysLoop W t (some M) items o).Nodup ∧ (∀ x ∈ orderKeysLoop W t (some M) items o, modOf x = M) ∧
      (∀ x ∈ o, x ∈ orderKeysLoop W t (some M) items o) ∧
      (∀ ks ∈ items, modOf ks.1 = M → ks.1 ∈ orderKeysLoop W t (some M) items o) := by
  induction items with
  | nil => intro o h1 h2; exact ⟨h1, h2, fun x hx => hx, by simp⟩
  | cons ks rest ih =>
    obtain ⟨k, s⟩ := ks
    intro o h1 h2
    rw [orderKeysLoop_cons]
    split
    · rename_i hk
      obtain ⟨gmono, gnodup, gmod⟩ := orderFuel_gen t.entryAttrs M hM (t.items.length + 1) [s.asAttr W] o []
      split
      · rename_i hin
        obtain ⟨a, b, c, d⟩ := ih _ (gnodup h1) (gmod h2)
        refine ⟨a, b, fun x hx => c x (gmono x hx), ?_⟩
        intro ks hks hmod
        rcases List.mem_cons.mp hks with h | h
        · rw [h]; exact c k hin
        · exact d ks h hmod
      · rename_i hin
        obtain ⟨smono, snodup, smod⟩ := GenOK.snoc M _ k hin hk.symm
        obtain ⟨a, b, c, d⟩ := ih _ (snodup (gnodup h1)) (smod (gmod h2))
        refine ⟨a, b, fun x hx => c x (smono x (gmono x hx)), ?_⟩
        intro ks hks hmod
        rcases List.mem_cons.mp hks with h | h
        · rw [h]; exact c k (by simp)
        · exact d ks h hmod
    · rename_i hk
      obtain ⟨a, b, c, d⟩ := ih o h1 h2
      refine ⟨a, b, c, ?_⟩
      intro ks hks hmod
      rcases List.mem_cons.mp hks with h | h
      · rw [h] at hmod; exact absurd hmod.symm hk
      · exact d ks h hmod

theorem orderKeysLoop_valid (W : World) (t : Table) (M : Str) (hM : M ≠ []) (rank : Str → Nat) (hl : Loaded W t M rank)
    (items : List (Str × Sym)) (hsub : ∀ ks ∈ items, ks ∈ t.items) :
    ∀ o, ValidFrom (refsOf W t) (baseKeys t M) o → ValidFrom (refsOf W t) (baseKeys t M) (orderKeysLoop W t (some M) items o) := by
  induction items with
  | nil => intro o hv; exact hv
  | cons ks rest ih =>
    obtain ⟨k, s⟩ := ks
    intro o hv
    have hks : (k, s) ∈ t.items := hsub (k, s) (by simp)
    have ih' := ih (fun ks hks => hsub ks (by simp [hks]))
    rw [orderKeysLoop_cons]
    split
    · rename_i hk
      have hkeys : ∀ c ∈ keysL [s.asAttr W], modOf c = M → rank c ≤ t.items.length ∧ ClsEntry W t c := by
        intro c hc hm
        simp only [keysL, List.append_nil] at hc
        have hce := hl.clsKeys (k, s) hks hk.symm c hc hm
        obtain ⟨sc, hsc, hcls⟩ := hce
        exact ⟨hl.rankBound (c, sc) (mem_of_dictGet _ _ _ hsc), ⟨sc, hsc, hcls⟩⟩
      have hv1 : ValidFrom (refsOf W t) (baseKeys t M) (orderFuel t.entryAttrs (some M) (t.items.length + 1) [s.asAttr W] o []) :=
        orderList_valid W t M hM rank hl _ t.items.length (orderFuel_gen _ M hM _) (orderFuel_subOK W t M hM rank hl _)
          [s.asAttr W] o [] hkeys (fun r hr => by simp at hr) hv
      have hcov := (orderList_gen t.entryAttrs _ M hM (orderFuel_gen t.entryAttrs M hM t.items.length) [s.asAttr W] o []).2
      split
      · exact ih' _ hv1
      · apply ih'
        rw [validFrom_snoc]
        refine ⟨hv1, ?_⟩
        intro r hr
        rcases refs_split W t M rank hl k s hks hk.symm r hr with h | h
        · exact List.mem_append.mpr (Or.inl h)
        · exact List.mem_append.mpr (Or.inr (hcov r (by simp [keysL, h.2]) h.1))
    · exact ih' o hv

/-! ## the fuel of the order walk is never used up -/

/-- pigeonhole: a duplicate-free list inside `K` is no longer than `K` -/
theorem nodup_subset_length {α : Type} [DecidableEq α] (l : List α) : ∀ K : List α, l.Nodup → (∀ x ∈ l, x ∈ K) → l.length ≤ K.length := by
  induction l with
  | nil => intro K _ _; simp
  | cons x xs ih =>
    intro K hn hs
    simp only [List.nodup_cons] at hn
    have hx : x ∈ K := hs x (by simp)
    have := ih (K.erase x) hn.2 (by
      intro y hy
      have hne : y ≠ x := fun h => hn.1 (h ▸ hy)
      exact (List.mem_erase_of_ne hne).mpr (hs y (by simp [hy])))
    rw [List.length_erase_of_mem hx] at this
    have hpos : 0 < K.length := List.length_pos_of_mem hx
    simp only [List.length_cons]
    omega

theorem entryFirst_congr (look : Str → Option Forest) (sub sub' : Forest → List Str → List Str → List Str)
    (k : Str) (o res : List Str)
    (h : ∀ ea o', look k = some ea → k ∉ res → sub ea o' (res ++ [k]) = sub' ea o' (res ++ [k])) :
    entryFirst look sub k o res = entryFirst look sub' k o res := by
  unfold entryFirst
  cases hl : look k with
  | none => rfl
  | some ea =>
    by_cases hr : k ∈ res
    · simp [hr]
    · simp only [List.contains_iff_mem, hr, if_false]
      exact h ea o hl hr

mutual
/-- the walk uses `sub` only on the attributes of table entries whose key is not being expanded -/
theorem orderNode_congr (look : Str → Option Forest) (sub sub' : Forest → List Str → List Str → List Str) (fm : Option Str)
    (res : List Str)
    (h : ∀ k ea o', look k = some ea → k ∉ res → sub ea o' (res ++ [k]) = sub' ea o' (res ++ [k]))
    (a : Attr) (o : List Str) : orderNode look sub fm a o res = orderNode look sub' fm a o res := by
  match a with
  | .mk k cs =>
    simp only [orderNode]
    rw [orderList_congr look sub sub' fm res h cs o,
      entryFirst_congr look sub sub' k _ res (fun ea o' => h k ea o')]
theorem orderList_congr (look : Str → Option Forest) (sub sub' : Forest → List Str → List Str → List Str) (fm : Option Str)
    (res : List Str)
    (h : ∀ k ea o', look k = some ea → k ∉ res → sub ea o' (res ++ [k]) = sub' ea o' (res ++ [k]))
    (cs : List Attr) (o : List Str) : orderList look sub fm cs o res = orderList look sub' fm cs o res := by
  match cs with
  | [] => rfl
  | a :: rest =>
    simp only [orderList]
    rw [orderNode_congr look sub sub' fm res h a o, orderList_congr look sub sub' fm res h rest _]
end

/-- with `d` table keys not yet in `resolving`, any two fuels above `d` give the same walk -/
theorem orderFuel_stable (look : Str → Option Forest) (fm : Option Str) (K : List Str)
    (hK : ∀ k ea, look k = some ea → k ∈ K) (d : Nat) :
    ∀ (res : List Str), res.Nodup → (∀ r ∈ res, r ∈ K) → K.length ≤ res.length + d →
      ∀ n m, d + 1 ≤ n → d + 1 ≤ m → ∀ f o, orderFuel look fm n f o res = orderFuel look fm m f o res := by
  induction d with
  | zero =>
    intro res hn hs hlen n m hn' hm' f o
    cases n with
    | zero => omega
    | succ n =>
      cases m with
      | zero => omega
      | succ m =>
        simp only [orderFuel]
        apply orderList_congr
        intro k ea o' hl hk
        exfalso
        have hnd : (res ++ [k]).Nodup := by
          rw [List.nodup_append]
          refine ⟨hn, by simp, ?_⟩
          intro x hx y hy
          simp only [List.mem_singleton] at hy
          subst hy
          intro he; subst he; exact hk hx
        have := nodup_subset_length (res ++ [k]) K hnd (by
          intro x hx
          rcases List.mem_append.mp hx with h | h
          · exact hs x h
          · simp only [List.mem_singleton] at h; rw [h]; exact hK k ea hl)
        simp at this
        omega
  | succ d ih =>
    intro res hn hs hlen n m hn' hm' f o
    cases n with
    | zero => omega
    | succ n =>
      cases m with
      | zero => omega
      | succ m =>
        simp only [orderFuel]
        apply orderList_congr
        intro k ea o' hl hk
        have hnd : (res ++ [k]).Nodup := by
          rw [List.nodup_append]
          refine ⟨hn, by simp, ?_⟩
          intro x hx y hy
          simp only [List.mem_singleton] at hy
          subst hy
          intro he; subst he; exact hk hx
        apply ih (res ++ [k]) hnd
        · intro x hx
          rcases List.mem_append.mp hx with h | h
          · exact hs x h
          · simp only [List.mem_singleton] at h; rw [h]; exact hK k ea hl
        · simp; omega
        · omega
        · omega

theorem entryAttrs_key (t : Table) (k : Str) (ea : Forest) (h : t.entryAttrs k = some ea) : k ∈ t.items.map Prod.fst := by
  unfold Table.entryAttrs at h
  cases hg : dictGet? t.items k with
  | none => rw [hg] at h; cases h
  | some s => exact List.mem_map.mpr ⟨(k, s), mem_of_dictGet _ _ _ hg, rfl⟩

/-- **fuel sufficiency, for every table** (also with class entries that refer to themselves or to each other): every expansion
    adds a new table key to `resolving`, so more fuel than `number of keys + 1` never changes the walk -/
theorem orderFuel_sufficient (t : Table) (fm : Option Str) (n : Nat) (hn : t.items.length + 1 ≤ n) (f : Forest) (o : List Str) :
    orderFuel t.entryAttrs fm n f o [] = orderFuel t.entryAttrs fm (t.items.length + 1) f o [] := by
  apply orderFuel_stable t.entryAttrs fm (t.items.map Prod.fst) (entryAttrs_key t) t.items.length [] (by simp) (by simp) (by simp) n _ hn (Nat.le_refl _)

/-! ## an importable order is a rank: cyclic references cannot be imported in any order -/

theorem importable_rank (d : List (Str × Row)) :
    ∀ avail, RefsAvail avail d → (∀ kr ∈ d, kr.1 ∉ avail) → (d.map Prod.fst).Nodup →
      ∃ rank : Str → Nat, ∀ kr ∈ d, ∀ r ∈ rowRefs kr.2, r ∈ d.map Prod.fst → rank r < rank kr.1 := by
  induction d with
  | nil => intro _ _ _ _; exact ⟨fun _ => 0, by simp⟩
  | cons x rest ih =>
    obtain ⟨k, row⟩ := x
    intro avail ha hd hn
    simp only [RefsAvail] at ha
    simp only [List.map_cons, List.nodup_cons] at hn
    obtain ⟨rank', hr'⟩ := ih (avail ++ [k]) ha.2 (by
      intro kr hkr hmem
      rcases List.mem_append.mp hmem with h | h
      · exact hd kr (by simp [hkr]) h
      · simp only [List.mem_singleton] at h
        exact hn.1 (by rw [← h]; exact List.mem_map_of_mem hkr)) hn.2
    refine ⟨fun x => if x = k then 0 else rank' x + 1, ?_⟩
    intro kr hkr r hr hmem
    rcases List.mem_cons.mp hkr with h | h
    · -- the first row refers to available keys only, none of which is imported
      subst h
      exfalso
      have hav := ha.1 r hr
      simp only [List.map_cons, List.mem_cons] at hmem
      rcases hmem with h' | h'
      · exact hd (k, row) (by simp) (by rw [← h']; exact hav)
      · obtain ⟨kr', hkr', he⟩ := List.mem_map.mp h'
        exact hd kr' (by simp [hkr']) (by rw [he]; exact hav)
    · have hne : kr.1 ≠ k := fun he => hn.1 (by rw [← he]; exact List.mem_map_of_mem h)
      simp only [hne, if_false]
      by_cases hrk : r = k
      · simp [hrk]
      · simp only [hrk, if_false]
        have : r ∈ rest.map Prod.fst := by
          simp only [List.map_cons, List.mem_cons] at hmem
          rcases hmem with h' | h'
          · exact absurd h' hrk
          · exact h'
        have := hr' kr h r hr this
        omega

/-- two rows that refer to each other cannot both be imported, in whatever order they are listed -/
theorem mutual_refs_unimportable (d : List (Str × Row)) (avail : List Str) (k1 k2 : Str) (r1 r2 : Row)
    (h1 : (k1, r1) ∈ d) (h2 : (k2, r2) ∈ d) (h12 : k2 ∈ rowRefs r1) (h21 : k1 ∈ rowRefs r2)
    (hd : ∀ kr ∈ d, kr.1 ∉ avail) (hn : (d.map Prod.fst).Nodup) : ¬ RefsAvail avail d := by
  intro ha
  obtain ⟨rank, hr⟩ := importable_rank d avail ha hd hn
  have a := hr (k1, r1) h1 k2 h12 (List.mem_map.mpr ⟨(k2, r2), h2, rfl⟩)
  have b := hr (k2, r2) h2 k1 h21 (List.mem_map.mpr ⟨(k1, r1), h1, rfl⟩)
  simp only at a b
  omega

/-! ## `_deserialize_attrs` on a prefix-closed dict never touches an attribute object of a table entry -/

/-- the index walk `own[i₀].own[i₁]…` from a node succeeds and ends on a node that has own attributes -/
def NonEmptyNode : RNode → Path → Prop
  | .mk _ own _, [] => own ≠ []
  | .mk _ own _, i :: rest => ∃ c, own[i]? = some c ∧ NonEmptyNode c rest

def NonEmptyAt (attrs : List RNode) : Path → Prop
  | [] => True
  | i :: rest => ∃ a, attrs[i]? = some a ∧ NonEmptyNode a rest

theorem extendNode_not_shared (new : List RNode) (q : Path) :
    ∀ a : RNode, (∀ y, y <+: q → y ≠ q → NonEmptyNode a y) → extendNode new q a ≠ .error .sharedEntry := by
  induction q with
  | nil =>
    intro a _
    obtain ⟨k, own, inh⟩ := a
    simp only [extendNode]
    split <;> simp
  | cons j rest ih =>
    intro a h
    obtain ⟨k, own, inh⟩ := a
    have hown : own ≠ [] := by
      have := h [] (List.nil_prefix) (by simp)
      simpa [NonEmptyNode] using this
    have hemp : own.isEmpty = false := by
      cases own with
      | nil => exact absurd rfl hown
      | cons _ _ => rfl
    simp only [extendNode, hemp, Bool.false_eq_true, if_false]
    cases hj : own[j]? with
    | none => simp
    | some c =>
      simp only
      have hc := ih c (by
        intro y hy hne
        have := h (j :: y) (by simpa using hy) (by simpa using hne)
        simp only [NonEmptyNode, hj, Option.some.injEq] at this
        obtain ⟨c', hc', hn⟩ := this
        rw [hc']; exact hn)
      cases he : extendNode new rest c with
      | ok c' => simp
      | error e =>
        simp only
        intro hcontra
        cases hcontra
        exact hc he

theorem extendAt_not_shared (new : List RNode) (q : Path) (attrs : List RNode)
    (h : ∀ y, y <+: q → y ≠ q → y ≠ [] → NonEmptyAt attrs y) : extendAt new q attrs ≠ .error .sharedEntry := by
  cases q with
  | nil => simp [extendAt]
  | cons i rest =>
    simp only [extendAt]
    cases hi : attrs[i]? with
    | none => simp
    | some a =>
      simp only
      have ha := extendNode_not_shared new rest a (by
        intro y hy hne
        have := h (i :: y) (by simpa using hy) (by simpa using hne) (by simp)
        simp only [NonEmptyAt, hi, Option.some.injEq] at this
        obtain ⟨a', ha', hn⟩ := this
        rw [ha']; exact hn)
      cases he : extendNode new rest a with
      | ok a' => simp
      | error e =>
        simp only
        intro hcontra
        cases hcontra
        exact ha he

theorem extendNode_preserves (new : List RNode) (hnew : new ≠ []) (q : Path) :
    ∀ a a' : RNode, extendNode new q a = .ok a' → NonEmptyNode a' q ∧ ∀ z, NonEmptyNode a z → NonEmptyNode a' z := by
  induction q with
  | nil =>
    intro a a' h
    obtain ⟨k, own, inh⟩ := a
    simp only [extendNode] at h
    split at h
    · rename_i hemp
      cases h
      have hown : own = [] := by simpa using hemp
      subst hown
      refine ⟨by simpa [NonEmptyNode] using hnew, ?_⟩
      intro z hz
      cases z with
      | nil => simp [NonEmptyNode] at hz
      | cons i r => simp [NonEmptyNode] at hz
    · cases h
  | cons j rest ih =>
    intro a a' h
    obtain ⟨k, own, inh⟩ := a
    simp only [extendNode] at h
    split at h
    · split at h <;> cases h
    · rename_i hemp
      cases hj : own[j]? with
      | none => rw [hj] at h; cases h
      | some c =>
        rw [hj] at h
        simp only at h
        cases he : extendNode new rest c with
        | error e => rw [he] at h; cases h
        | ok c' =>
          rw [he] at h
          cases h
          obtain ⟨h1, h2⟩ := ih c c' he
          have hjlt : j < own.length := by
            have := List.getElem?_eq_some_iff.mp hj
            exact this.1
          refine ⟨⟨c', by simp [hjlt], h1⟩, ?_⟩
          intro z hz
          cases z with
          | nil =>
            simp only [NonEmptyNode] at hz ⊢
            intro hcontra
            have := congrArg List.length hcontra
            simp at this
            exact hz this
          | cons i r =>
            simp only [NonEmptyNode] at hz ⊢
            obtain ⟨x, hx, hn⟩ := hz
            by_cases hij : j = i
            · subst hij
              rw [hj] at hx
              cases hx
              exact ⟨c', by simp [hjlt], h2 r hn⟩
            · exact ⟨x, by simp [hij, hx], hn⟩

theorem extendAt_preserves (new : List RNode) (hnew : new ≠ []) (q : Path) (hq : q ≠ []) (attrs attrs' : List RNode)
    (h : extendAt new q attrs = .ok attrs') : NonEmptyAt attrs' q ∧ ∀ z, NonEmptyAt attrs z → NonEmptyAt attrs' z := by
  cases q with
  | nil => exact absurd rfl hq
  | cons i rest =>
    simp only [extendAt] at h
    cases hi : attrs[i]? with
    | none => rw [hi] at h; cases h
    | some a =>
      rw [hi] at h
      simp only at h
      cases he : extendNode new rest a with
      | error e => rw [he] at h; cases h
      | ok a' =>
        rw [he] at h
        cases h
        obtain ⟨h1, h2⟩ := extendNode_preserves new hnew rest a a' he
        have hilt : i < attrs.length := (List.getElem?_eq_some_iff.mp hi).1
        refine ⟨⟨a', by simp [hilt], h1⟩, ?_⟩
        intro z hz
        cases z with
        | nil => trivial
        | cons j r =>
          simp only [NonEmptyAt] at hz ⊢
          obtain ⟨x, hx, hn⟩ := hz
          by_cases hij : i = j
          · subst hij
            rw [hi] at hx
            cases hx
            exact ⟨a', by simp [hilt], h2 r hn⟩
          · exact ⟨x, by simp [hij, hx], hn⟩

theorem nonEmptyAt_append (attrs new : List RNode) (z : Path) (h : NonEmptyAt attrs z) : NonEmptyAt (attrs ++ new) z := by
  cases z with
  | nil => trivial
  | cons i r =>
    simp only [NonEmptyAt] at h ⊢
    obtain ⟨a, ha, hn⟩ := h
    have hilt : i < attrs.length := (List.getElem?_eq_some_iff.mp ha).1
    exact ⟨a, by rw [List.getElem?_append_left hilt]; exact ha, hn⟩

theorem stackAll_ne_nil (look : Lookup) (g : Flat) (hg : g ≠ []) (new : List RNode) (h : stackAll look g = .ok new) : new ≠ [] := by
  cases g with
  | nil => exact absurd rfl hg
  | cons x rest =>
    obtain ⟨p, k⟩ := x
    simp only [stackAll] at h
    cases hl : look k with
    | none => rw [hl] at h; cases h
    | some v =>
      rw [hl] at h
      obtain ⟨tk, inh⟩ := v
      simp only at h
      cases hs : stackAll look rest with
      | error e => rw [hs] at h; cases h
      | ok rs => rw [hs] at h; cases h; simp

/-- every path of the dict with at least two components has its parent path in the dict (what `serialize` produces) -/
def PrefixClosed (data : Flat) : Prop :=
  ∀ pk ∈ data, 2 ≤ pk.1.length → parent pk.1 ∈ data.map Prod.fst

theorem prefix_of_dropLast {α : Type} (y p : List α) (h : y <+: p) (hne : y ≠ p) : y <+: p.dropLast := by
  obtain ⟨t, ht⟩ := h
  cases ht' : t.reverse with
  | nil =>
    have : t = [] := by simpa using ht'
    subst this
    simp at ht
    exact absurd ht hne
  | cons z zs =>
    have : t = zs.reverse ++ [z] := by
      have := congrArg List.reverse ht'
      simpa using this
    subst this
    refine ⟨zs.reverse, ?_⟩
    rw [← ht, ← List.append_assoc, List.dropLast_concat]

theorem prefixClosed_prefixes (data : Flat) (hp : PrefixClosed data) :
    ∀ n (p : Path), p.length = n → p ∈ data.map Prod.fst → ∀ y, y <+: p → y ≠ [] → y ∈ data.map Prod.fst := by
  intro n
  induction n with
  | zero =>
    intro p hl _ y hy hne
    have : p = [] := List.length_eq_zero_iff.mp hl
    subst this
    exact absurd (List.prefix_nil.mp hy) hne
  | succ n ih =>
    intro p hl hmem y hy hne
    by_cases he : y = p
    · rw [he]; exact hmem
    · have hy' := prefix_of_dropLast y p hy he
      have hlen : 2 ≤ p.length := by
        have h1 : y.length ≤ p.dropLast.length := hy'.length_le
        have h2 : 0 < y.length := List.length_pos_iff.mpr hne
        simp at h1
        omega
      obtain ⟨pk, hpk, hpe⟩ := List.mem_map.mp hmem
      have := hp pk hpk (by rw [hpe]; exact hlen)
      rw [hpe] at this
      exact ih p.dropLast (by simp; omega) this y hy' hne

/-- the paths whose group has been processed: the parent of each has own attributes by now -/
def DoneInv (attrs : List RNode) (done : Flat) : Prop :=
  ∀ x ∈ done, 2 ≤ x.1.length → NonEmptyAt attrs (parent x.1)

/-- every path that a group's walk passes through was processed in an earlier group -/
def Ready : Flat → List Flat → Prop
  | _, [] => True
  | done, g :: rest =>
    (∀ p ∈ g.head?, ∀ y, y <+: parent p.1 → 2 ≤ y.length → y ∈ done.map Prod.fst) ∧
    g ≠ [] ∧ (∀ x ∈ g, parent x.1 = groupParent g) ∧ Ready (done ++ g) rest

theorem stepGroups_not_shared (look : Lookup) (gs : List Flat) :
    ∀ (attrs : List RNode) (done : Flat), DoneInv attrs done → Ready done gs →
      stepGroups look gs attrs ≠ .error .sharedEntry := by
  induction gs with
  | nil => intro attrs done _ _; simp [stepGroups]
  | cons g rest ih =>
    intro attrs done hinv hready
    obtain ⟨hneed, hgne, hsame, hrest⟩ := hready
    cases g with
    | nil => exact absurd rfl hgne
    | cons x xs =>
      obtain ⟨p, k⟩ := x
      simp only [stepGroups, stepGroup]
      cases hst : stackAll look ((p, k) :: xs) with
      | error e =>
        simp only
        intro hc; cases hc
        -- stackAll only fails with SymbolNotDefined
        have : ∀ (g : Flat) e, stackAll look g = .error e → e = .symbolNotDefined := by
          intro g
          induction g with
          | nil => intro e h; simp [stackAll] at h
          | cons y ys ihg =>
            intro e h
            obtain ⟨py, ky⟩ := y
            simp only [stackAll] at h
            cases hl : look ky with
            | none => rw [hl] at h; cases h; rfl
            | some v =>
              rw [hl] at h
              obtain ⟨tk, inh⟩ := v
              simp only at h
              cases hs : stackAll look ys with
              | error e2 => rw [hs] at h; cases h; exact ihg _ hs
              | ok rs => rw [hs] at h; cases h
        have := this _ _ hst
        cases this
      | ok new =>
        simp only
        have hnew := stackAll_ne_nil look _ (by simp) new hst
        by_cases hlen : p.length ≤ 1
        · simp only [hlen, if_true]
          apply ih (attrs ++ new) (done ++ (p, k) :: xs) _ hrest
          intro x hx hx2
          rcases List.mem_append.mp hx with h | h
          · exact nonEmptyAt_append _ _ _ (hinv x h hx2)
          · exfalso
            have := hsame x h
            simp only [groupParent] at this
            have hl : (parent x.1).length = (parent p).length := by rw [this]
            simp only [parent, List.length_dropLast] at hl
            omega
        · simp only [hlen, if_false]
          have hq : parent p ≠ [] := by
            intro h
            have := congrArg List.length h
            simp [parent] at this
            omega
          have hns : extendAt new (parent p) attrs ≠ .error .sharedEntry := by
            apply extendAt_not_shared
            intro y hy hne hyne
            -- the next longer prefix of the parent path was processed before
            obtain ⟨t, ht⟩ := hy
            cases t with
            | nil => simp at ht; exact absurd ht hne
            | cons i t' =>
              have hpre : (y ++ [i]) <+: parent p := ⟨t', by rw [← ht]; simp⟩
              have hmem := hneed (p, k) (by simp) (y ++ [i]) hpre (by
                have : 0 < y.length := List.length_pos_iff.mpr hyne
                simp; omega)
              obtain ⟨x, hx, hxe⟩ := List.mem_map.mp hmem
              have := hinv x hx (by rw [hxe]; have : 0 < y.length := List.length_pos_iff.mpr hyne; simp; omega)
              rw [hxe, parent_snoc] at this
              exact this
          cases hext : extendAt new (parent p) attrs with
          | error e =>
            simp only
            intro hc; cases hc
            exact hns hext
          | ok attrs' =>
            simp only
            obtain ⟨h1, h2⟩ := extendAt_preserves new hnew (parent p) hq attrs attrs' hext
            apply ih attrs' (done ++ (p, k) :: xs) _ hrest
            intro x hx hx2
            rcases List.mem_append.mp hx with h | h
            · exact h2 _ (hinv x h hx2)
            · have := hsame x h
              simp only [groupParent] at this
              rw [this]; exact h1

/-! ## the groups of a depth-sorted prefix-closed dict are `Ready` -/

theorem groupsFuel_ne_nil (n : Nat) : ∀ l : Flat, ∀ g ∈ groupsFuel n l, g ≠ [] := by
  induction n with
  | zero => intro l g hg; simp [groupsFuel] at hg
  | succ n ih =>
    intro l g hg
    cases l with
    | nil => simp [groupsFuel] at hg
    | cons x rest =>
      simp only [groupsFuel] at hg
      rcases List.mem_cons.mp hg with h | h
      · rw [h]; simp
      · exact ih _ g h

theorem ready_of_sorted (gs : List Flat) :
    ∀ done : Flat, (done ++ gs.flatten).Pairwise (fun a b => depth a.1 ≤ depth b.1) →
      (∀ g ∈ gs, g ≠ [] ∧ ∀ x ∈ g, parent x.1 = groupParent g) →
      (∀ x ∈ (done ++ gs.flatten).map Prod.fst, ∀ y, y <+: x → y ≠ [] → y ∈ (done ++ gs.flatten).map Prod.fst) →
      Ready done gs := by
  induction gs with
  | nil => intro _ _ _ _; trivial
  | cons g rest ih =>
    intro done hs hg hpc
    obtain ⟨hgne, hsame⟩ := hg g (by simp)
    refine ⟨?_, hgne, hsame, ?_⟩
    · intro p hp y hy hy2
      cases g with
      | nil => exact absurd rfl hgne
      | cons x xs =>
        simp only [List.head?_cons, Option.mem_def, Option.some.injEq] at hp
        subst hp
        obtain ⟨pp, k⟩ := x
        have hyne : y ≠ [] := by intro h; rw [h] at hy2; simp at hy2
        have hylen : y.length ≤ (parent pp).length := hy.length_le
        have hplen : (parent pp).length = pp.length - 1 := by simp [parent]
        have hppre : parent pp <+: pp := by
          simp only [parent]; exact List.dropLast_prefix pp
        have hmem : y ∈ (done ++ (((pp, k) :: xs) :: rest).flatten).map Prod.fst :=
          hpc pp (by simp) y (hy.trans hppre) hyne
        simp only [List.flatten_cons, List.map_append, List.mem_append] at hmem
        rcases hmem with h | h | h
        · exact h
        · exfalso
          obtain ⟨z, hz, hze⟩ := List.mem_map.mp h
          have := hsame z hz
          simp only [groupParent] at this
          have hl : (parent z.1).length = (parent pp).length := by rw [this]
          rw [hze] at hl
          have hyl : (parent y).length = y.length - 1 := by simp [parent]
          omega
        · exfalso
          obtain ⟨z, hz, hze⟩ := List.mem_map.mp h
          simp only [List.flatten_cons] at hs
          have hs2 := (List.pairwise_append.mp hs).2.1
          have hs3 := (List.pairwise_append.mp hs2).2.2 (pp, k) (by simp) z hz
          simp only [depth, hze] at hs3
          omega
    · apply ih (done ++ g)
      · simpa [List.append_assoc] using hs
      · intro g' hg'; exact hg g' (by simp [hg'])
      · simpa [List.append_assoc] using hpc

/-- `_deserialize_attrs` on a prefix-closed dict never walks into (and so never extends in place) an attribute object that
    belongs to a table entry: every node it extends was created by `stack()` in this very call -/
theorem rebuild_not_shared (look : Lookup) (data : Flat) (hp : PrefixClosed data) :
    rebuild look data ≠ .error .sharedEntry := by
  unfold rebuild
  have hspec := groupsFuel_spec (sortByDepth data).length (sortByDepth data) (Nat.le_refl _)
  apply stepGroups_not_shared look _ [] [] (by intro x hx; simp at hx)
  apply ready_of_sorted
  · simp only [List.nil_append]
    unfold groups
    rw [hspec.1]
    exact sortByDepth_sorted data
  · intro g hg
    exact ⟨groupsFuel_ne_nil _ _ g hg, hspec.2 g hg⟩
  · simp only [List.nil_append]
    unfold groups
    rw [hspec.1]
    intro x hx y hy hyne
    have hperm := sortByDepth_perm data
    have hx' : x ∈ data.map Prod.fst := by
      obtain ⟨z, hz, hze⟩ := List.mem_map.mp hx
      exact List.mem_map.mpr ⟨z, hperm.mem_iff.mp hz, hze⟩
    have := prefixClosed_prefixes data hp x.length x rfl hx' y hy hyne
    obtain ⟨z, hz, hze⟩ := List.mem_map.mp this
    exact List.mem_map.mpr ⟨z, hperm.mem_iff.mpr hz, hze⟩

mutual
theorem flatNode_prefixClosed (a : Attr) : ∀ pk ∈ flatNode a, 1 ≤ pk.1.length → parent pk.1 ∈ (flatNode a).map Prod.fst := by
  match a with
  | .mk k cs =>
    intro pk hpk hlen
    simp only [flatNode, List.mem_cons] at hpk
    rcases hpk with h | h
    · rw [h] at hlen; simp at hlen
    · simp only [flatNode, List.map_cons, List.mem_cons]
      by_cases h1 : pk.1.length = 1
      · left
        simp only [parent]
        apply List.length_eq_zero_iff.mp
        simp [h1]
      · right
        exact flatList_prefixClosed 0 cs pk h (by omega)
theorem flatList_prefixClosed (i : Nat) (cs : List Attr) : ∀ pk ∈ flatList i cs, 2 ≤ pk.1.length → parent pk.1 ∈ (flatList i cs).map Prod.fst := by
  match cs with
  | [] => simp [flatList]
  | a :: rest =>
    intro pk hpk hlen
    simp only [flatList, List.mem_append, List.mem_map] at hpk
    simp only [flatList, List.map_append, List.mem_append]
    rcases hpk with ⟨z, hz, hze⟩ | h
    · left
      have := flatNode_prefixClosed a z hz (by rw [← hze] at hlen; simp at hlen; omega)
      obtain ⟨w, hw, hwe⟩ := List.mem_map.mp this
      refine List.mem_map.mpr ⟨(i :: w.1, w.2), List.mem_map.mpr ⟨w, hw, rfl⟩, ?_⟩
      rw [← hze]
      simp only [parent] at hwe ⊢
      rw [hwe]
      have hz1 : z.1 ≠ [] := by
        intro h0; rw [← hze, h0] at hlen; simp at hlen
      rw [List.dropLast_cons_of_ne_nil hz1]
    · right
      exact flatList_prefixClosed (i + 1) rest pk h hlen
end

theorem flatten_prefixClosed (f : Forest) : PrefixClosed (flatten f) :=
  fun pk hpk hlen => flatList_prefixClosed 0 f pk hpk hlen

/-! ## shared objects: `expand` ignores identity; `to_temporary` makes new objects at every depth -/

mutual
theorem expandINode_erase (p : Path) (a : IAttr) : expandINode p a = expandNode p (eraseN a) := by
  match a with
  | .mk i k cs => simp only [expandINode, eraseN, expandNode, expandIElems_erase p 0 cs]
theorem expandIElems_erase (p : Path) (i : Nat) (cs : List IAttr) (entries : Flat) :
    expandIElems p i cs entries = expandElems p i (eraseL cs) entries := by
  match cs with
  | [] => rfl
  | a :: rest => simp only [expandIElems, eraseL, expandElems, expandINode_erase (p ++ [i]) a, expandIElems_erase p (i + 1) rest]
end

theorem expandI_erase (f : IForest) : expandI f = expand (eraseL f) := expandIElems_erase [] 0 f []

mutual
theorem toTemp_spec (a : IAttr) (n : Nat) :
    eraseN (toTemp a n).1 = eraseN a ∧ n ≤ (toTemp a n).2 ∧ ∀ i ∈ idsN (toTemp a n).1, n ≤ i ∧ i < (toTemp a n).2 := by
  match a with
  | .mk i k cs =>
    obtain ⟨h1, h2, h3⟩ := toTempL_spec cs (n + 1)
    simp only [toTemp, eraseN, idsN, List.mem_cons]
    refine ⟨by rw [h1], by omega, ?_⟩
    intro j hj
    rcases hj with h | h
    · omega
    · have := h3 j h; omega
theorem toTempL_spec (cs : List IAttr) (n : Nat) :
    eraseL (toTempL cs n).1 = eraseL cs ∧ n ≤ (toTempL cs n).2 ∧ ∀ i ∈ idsL (toTempL cs n).1, n ≤ i ∧ i < (toTempL cs n).2 := by
  match cs with
  | [] => simp [toTempL, eraseL, idsL]
  | a :: rest =>
    obtain ⟨a1, a2, a3⟩ := toTemp_spec a n
    obtain ⟨r1, r2, r3⟩ := toTempL_spec rest (toTemp a n).2
    simp only [toTempL, eraseL, idsL, List.mem_append]
    refine ⟨by rw [a1, r1], by omega, ?_⟩
    intro j hj
    rcases hj with h | h
    · have := a3 j h; omega
    · have := r3 j h; omega
end

mutual
theorem setSlot_noop (target j : Nat) (v : IAttr) (a : IAttr) (h : target ∉ idsN a) : setSlot target j v a = a := by
  match a with
  | .mk i k cs =>
    simp only [idsN, List.mem_cons, not_or] at h
    have hi : ¬ i = target := fun he => h.1 he.symm
    simp only [setSlot, hi, if_false, setSlotL_noop target j v cs h.2]
theorem setSlotL_noop (target j : Nat) (v : IAttr) (cs : List IAttr) (h : target ∉ idsL cs) : setSlotL target j v cs = cs := by
  match cs with
  | [] => rfl
  | a :: rest =>
    simp only [idsL, List.mem_append, not_or] at h
    simp only [setSlotL, setSlot_noop target j v a h.1, setSlotL_noop target j v rest h.2]
end

/-- a sequence of writes, each into the attribute list of one object -/
def applyWrites : List (Nat × Nat × IAttr) → IAttr → IAttr
  | [], a => a
  | w :: ws, a => applyWrites ws (setSlot w.1 w.2.1 w.2.2 a)

theorem applyWrites_noop (ws : List (Nat × Nat × IAttr)) (a : IAttr) (h : ∀ w ∈ ws, w.1 ∉ idsN a) : applyWrites ws a = a := by
  induction ws with
  | nil => rfl
  | cons w rest ih =>
    simp only [applyWrites]
    rw [setSlot_noop w.1 w.2.1 w.2.2 a (h w (by simp))]
    exact ih (fun w' hw' => h w' (by simp [hw']))

/-! ## node DSNs survive `full_joined` / `parsed` -/

theorem splitOn_none (d : Char) (s : Str) (h : ∀ c ∈ s, c ≠ d) : Str.splitOn d s = [s] := by
  induction s with
  | nil => rfl
  | cons c cs ih =>
    have hc : c ≠ d := h c (by simp)
    simp [Str.splitOn, hc, ih (fun x hx => h x (by simp [hx]))]

theorem splitOn_append (d : Char) (s t : Str) (h : ∀ c ∈ s, c ≠ d) :
    Str.splitOn d (s ++ d :: t) = s :: Str.splitOn d t := by
  induction s with
  | nil => simp [Str.splitOn]
  | cons c cs ih =>
    have hc : c ≠ d := h c (by simp)
    simp [Str.splitOn, hc, ih (fun x hx => h x (by simp [hx]))]

theorem contains_false_of (s : Str) (d : Char) (h : ∀ c ∈ s, c ≠ d) : s.contains d = false := by
  induction s with
  | nil => rfl
  | cons c cs ih =>
    have hc : c ≠ d := h c (by simp)
    simp only [List.contains_cons, ih (fun x hx => h x (by simp [hx])), Bool.or_false]
    simp [Ne.symm hc]

/-- `parsed(full_joined(module, path)) = (module, path)` for a non-empty module path, when neither part contains `#` -/
theorem dsnParsed_fullJoined (m p : Str) (hm : m ≠ []) (hm' : ∀ c ∈ m, c ≠ '#') (hp' : ∀ c ∈ p, c ≠ '#') :
    dsnParsed (fullJoined m [p]) = (m, p) := by
  have hme : m.isEmpty = false := by cases m with | nil => exact absurd rfl hm | cons _ _ => rfl
  simp only [fullJoined, contains_false_of m '#' hm', Bool.false_eq_true, if_false, localJoined]
  cases p with
  | nil =>
    simp [dsnJoin, hme, Str.join, dsnParsed, splitOn_none '#' m hm']
  | cons c cs =>
    simp only [dsnJoin, List.filter_cons, List.isEmpty_cons, Bool.not_false, if_true, List.filter_nil, Str.join, hme]
    simp only [dsnParsed, List.append_assoc, List.singleton_append]
    rw [splitOn_append '#' m _ hm', splitOn_none '#' _ hp']

/-- the module part of a key (`modOf`) is `parsed(key)[0]` -/
theorem modOf_eq_parsed (k : Str) : modOf k = (dsnParsed k).1 := by
  have : ∀ k : Str, ∃ rest, Str.splitOn '#' k = k.takeWhile (fun c => c != '#') :: rest := by
    intro k
    induction k with
    | nil => exact ⟨[], rfl⟩
    | cons c cs ih =>
      obtain ⟨rest, hr⟩ := ih
      by_cases hc : c = '#'
      · subst hc; exact ⟨Str.splitOn '#' cs, by simp [Str.splitOn]⟩
      · refine ⟨rest, ?_⟩
        simp [Str.splitOn, hc, hr]
  obtain ⟨rest, hr⟩ := this k
  unfold dsnParsed modOf
  rw [hr]
  cases rest <;> rfl

/-! ## decision procedures for the recursive invariants (used by the concrete examples) -/

def decRefsAvail : (d : List (Str × Row)) → (avail : List Str) → Decidable (RefsAvail avail d)
  | [], _ => isTrue trivial
  | (k, row) :: rest, avail =>
    have := decRefsAvail rest (avail ++ [k])
    inferInstanceAs (Decidable ((∀ r ∈ rowRefs row, r ∈ avail) ∧ RefsAvail (avail ++ [k]) rest))

instance (avail : List Str) (d : List (Str × Row)) : Decidable (RefsAvail avail d) := decRefsAvail d avail

/-! ## deciding the table invariants (for generated tables of shipped modules) -/

def goodHead (look : Lookup) (k : Str) (leaf : Bool) : Bool :=
  match look k with
  | some (k', inh) => k' == k && (!leaf || inh.isEmpty)
  | none => false

theorem goodHead_iff (look : Lookup) (k : Str) (cs : List Attr) :
    goodHead look k cs.isEmpty = true ↔ ∃ inh, look k = some (k, inh) ∧ (cs = [] → inh = []) := by
  unfold goodHead
  cases hl : look k with
  | none => simp
  | some v =>
    obtain ⟨k', inh⟩ := v
    simp only [Bool.and_eq_true, beq_iff_eq, Bool.or_eq_true, Bool.not_eq_true', List.isEmpty_iff, Option.some.injEq, Prod.mk.injEq]
    constructor
    · rintro ⟨h1, h2⟩
      refine ⟨inh, ⟨h1, rfl⟩, ?_⟩
      intro hc
      rcases h2 with h | h
      · rw [hc] at h; simp at h
      · exact h
    · rintro ⟨inh', ⟨h1, h2⟩, h3⟩
      subst h2
      refine ⟨h1, ?_⟩
      by_cases hc : cs = []
      · exact Or.inr (h3 hc)
      · left
        cases cs with
        | nil => exact absurd rfl hc
        | cons _ _ => rfl

mutual
def decGoodN (look : Lookup) : (a : Attr) → Decidable (GoodN look a)
  | .mk k cs =>
    have := decGoodL look cs
    decidable_of_iff (goodHead look k cs.isEmpty = true ∧ GoodL look cs) (by
      rw [goodHead_iff]
      exact Iff.rfl)
def decGoodL (look : Lookup) : (cs : List Attr) → Decidable (GoodL look cs)
  | [] => isTrue trivial
  | a :: rest =>
    have := decGoodN look a
    have := decGoodL look rest
    inferInstanceAs (Decidable (GoodN look a ∧ GoodL look rest))
end

instance (look : Lookup) (cs : List Attr) : Decidable (GoodL look cs) := decGoodL look cs

/-- the `ref` clause of `SymOK`, as a check -/
def refOK (W : World) (t : Table) (s : Sym) : Bool :=
  W.known s.node && W.known s.decl && W.isDecl s.decl &&
    (match dictGet? t.items (s.typesKey W) with
      | some o => o.types == s.types && (!s.attrs.isEmpty || o.attrs.isEmpty)
      | none => false)

theorem refOK_sound (W : World) (t : Table) (s : Sym) (h : refOK W t s = true) :
    W.known s.node = true ∧ W.known s.decl = true ∧ W.isDecl s.decl = true ∧
      ∃ o, dictGet? t.items (s.typesKey W) = some o ∧ o.types = s.types ∧ (s.attrs = [] → o.attrs = []) := by
  unfold refOK at h
  simp only [Bool.and_eq_true] at h
  obtain ⟨⟨⟨h1, h2⟩, h3⟩, h4⟩ := h
  refine ⟨h1, h2, h3, ?_⟩
  cases hg : dictGet? t.items (s.typesKey W) with
  | none => rw [hg] at h4; cases h4
  | some o =>
    rw [hg] at h4
    simp only [Bool.and_eq_true, beq_iff_eq, Bool.or_eq_true, Bool.not_eq_true', List.isEmpty_iff] at h4
    refine ⟨o, rfl, h4.1, ?_⟩
    intro ha
    rcases h4.2 with h | h
    · rw [ha] at h; simp at h
    · exact h

/-- `SymOK` as a check -/
def symOKb (W : World) (t : Table) (s : Sym) : Bool :=
  (if s.isClassSymbol W then s.node == s.types && W.known s.types else refOK W t s) && decide (GoodL (t.lookup W) s.attrs)

theorem symOKb_sound (W : World) (t : Table) (s : Sym) (h : symOKb W t s = true) : SymOK W t s := by
  unfold symOKb at h
  simp only [Bool.and_eq_true, decide_eq_true_eq] at h
  obtain ⟨h1, h2⟩ := h
  refine ⟨?_, ?_, h2⟩
  · intro hc
    simp only [hc, if_true, Bool.and_eq_true, beq_iff_eq] at h1
    exact h1
  · intro hc
    simp only [hc, Bool.false_eq_true, if_false] at h1
    exact refOK_sound W t s h1

/-- all entries of module `M` pass the check ⇒ the hypothesis of `C14.rt` -/
theorem symOK_of_check (W : World) (t : Table) (M : Str)
    (h : (t.items.all (fun ks => modOf ks.1 != M || symOKb W t ks.2)) = true) :
    ∀ K s, dictGet? t.items K = some s → modOf K = M → SymOK W t s := by
  intro K s hs hm
  have hmem := mem_of_dictGet _ _ _ hs
  have := List.all_eq_true.mp h (K, s) hmem
  simp only [hm, bne_self_eq_false, Bool.false_or] at this
  exact symOKb_sound W t s this


theorem loaded_iff (W : World) (t : Table) (M : Str) (rank : Str → Nat) :
    Loaded W t M rank ↔
      ((t.items.map Prod.fst).Nodup ∧
       (∀ ks ∈ t.items, ∀ r ∈ rowRefs (serialize W ks.2), r ∈ t.items.map Prod.fst) ∧
       (∀ ks ∈ t.items, modOf ks.1 = M → ∀ c ∈ keysN (ks.2.asAttr W), modOf c = M → ClsEntry W t c) ∧
       (∀ ks ∈ t.items, rank ks.1 ≤ t.items.length) ∧
       (∀ ks ∈ t.items, modOf ks.1 = M → ks.2.isClassSymbol W = true →
          ∀ c' ∈ keysL ks.2.attrs, modOf c' = M → rank c' < rank ks.1) ∧
       (∀ ks ∈ t.items, modOf ks.1 = M → ks.2.isClassSymbol W = false →
          ks.2.via ∈ baseKeys t M ∨ ks.2.via ∈ keysN (ks.2.asAttr W))) :=
  ⟨fun h => ⟨h.nodup, h.closed, h.clsKeys, h.rankBound, h.acyclic, h.viaOK⟩,
   fun h => ⟨h.1, h.2.1, h.2.2.1, h.2.2.2.1, h.2.2.2.2.1, h.2.2.2.2.2⟩⟩

instance (W : World) (t : Table) (M : Str) (rank : Str → Nat) : Decidable (Loaded W t M rank) :=
  have d1 : Decidable ((t.items.map Prod.fst).Nodup) := inferInstance
  have d2 : Decidable (∀ ks ∈ t.items, ∀ r ∈ rowRefs (serialize W ks.2), r ∈ t.items.map Prod.fst) := inferInstance
  have d3 : Decidable (∀ ks ∈ t.items, modOf ks.1 = M → ∀ c ∈ keysN (ks.2.asAttr W), modOf c = M → ClsEntry W t c) := inferInstance
  have d4 : Decidable (∀ ks ∈ t.items, rank ks.1 ≤ t.items.length) := inferInstance
  have d5 : Decidable (∀ ks ∈ t.items, modOf ks.1 = M → ks.2.isClassSymbol W = true →
      ∀ c' ∈ keysL ks.2.attrs, modOf c' = M → rank c' < rank ks.1) := inferInstance
  have d6 : Decidable (∀ ks ∈ t.items, modOf ks.1 = M → ks.2.isClassSymbol W = false →
      ks.2.via ∈ baseKeys t M ∨ ks.2.via ∈ keysN (ks.2.asAttr W)) := inferInstance
  decidable_of_iff _ (loaded_iff W t M rank).symm

/-! ## the export is a function of the entries alone -/

theorem entryAttrs_items (t t' : Table) (h : t.items = t'.items) : t.entryAttrs = t'.entryAttrs := by
  funext k
  simp only [Table.entryAttrs, h]

theorem orderKeysLoop_items (W : World) (t t' : Table) (h : t.items = t'.items) (fm : Option Str) (l : List (Str × Sym)) :
    ∀ o, orderKeysLoop W t fm l o = orderKeysLoop W t' fm l o := by
  induction l with
  | nil => intro o; rfl
  | cons ks rest ih =>
    obtain ⟨k, s⟩ := ks
    intro o
    simp only [orderKeysLoop, entryAttrs_items t t' h, h, ih]

theorem toJsonRows_items (W : World) (t t' : Table) (h : t.items = t'.items) (ks : List Str) :
    ∀ acc, toJsonRows W t ks acc = toJsonRows W t' ks acc := by
  induction ks with
  | nil => intro acc; rfl
  | cons k rest ih =>
    intro acc
    simp only [toJsonRows, Table.get, h, ih]

/-- `to_json` reads the entries (`__items` / `__paths`) and nothing else: not the completed marks, and there is no other state -/
theorem toJson_items (W : World) (t t' : Table) (h : t.items = t'.items) (fm : Option Str) : toJson W t fm = toJson W t' fm := by
  unfold toJson orderKeys
  rw [orderKeysLoop_items W t t' h fm, toJsonRows_items W t t' h, h]

/-! ## exported index paths are canonical decimals -/

/-- what `str(index)` produces: ASCII digits, no sign, no leading zero (except "0" itself) -/
def isCanonicalDec (s : Str) : Bool :=
  !s.isEmpty && s.all (fun c => (Str.decVal c).isSome) && (s.head? != some '0' || s.length == 1)

theorem digitChar_props : ∀ d, d < 10 → (Str.decVal (Str.digitChar d)).isSome = true ∧ (1 ≤ d → Str.digitChar d ≠ '0') := by decide

theorem natToDec_digits (n : Nat) : Str.natToDec n ≠ [] ∧ (∀ c ∈ Str.natToDec n, (Str.decVal c).isSome = true) ∧
    (1 ≤ n → (Str.natToDec n).head? ≠ some '0') := by
  induction n using Nat.strongRecOn with
  | _ n ih =>
    rw [Str.natToDec]
    split
    · rename_i h
      obtain ⟨h1, h2⟩ := digitChar_props n h
      refine ⟨by simp, ?_, ?_⟩
      · intro c hc; simp only [List.mem_singleton] at hc; rw [hc]; exact h1
      · intro hn; simp only [List.head?_cons, ne_eq, Option.some.injEq]; exact h2 hn
    · rename_i h
      obtain ⟨a, b, c⟩ := ih (n / 10) (by omega)
      obtain ⟨h1, _⟩ := digitChar_props (n % 10) (by omega)
      refine ⟨by simp, ?_, ?_⟩
      · intro x hx
        rcases List.mem_append.mp hx with hx | hx
        · exact b x hx
        · simp only [List.mem_singleton] at hx; rw [hx]; exact h1
      · intro _
        have := c (by omega)
        cases hq : Str.natToDec (n / 10) with
        | nil => exact absurd hq a
        | cons y ys => rw [hq] at this; simpa using this

theorem natToDec_canonical (n : Nat) : isCanonicalDec (Str.natToDec n) = true := by
  obtain ⟨a, b, c⟩ := natToDec_digits n
  unfold isCanonicalDec
  have h1 : (Str.natToDec n).isEmpty = false := by
    cases h : Str.natToDec n with
    | nil => exact absurd h a
    | cons _ _ => rfl
  have h2 : (Str.natToDec n).all (fun c => (Str.decVal c).isSome) = true := List.all_eq_true.mpr b
  simp only [h1, h2, Bool.not_false, Bool.true_and, Bool.or_eq_true, bne_iff_ne, ne_eq, beq_iff_eq]
  by_cases hn : 1 ≤ n
  · exact Or.inl (c hn)
  · have : n = 0 := by omega
    subst this
    right
    rw [Str.natToDec]; simp

/-- every component of an encoded path is a canonical decimal -/
theorem encPath_components (p : Path) (hp : p ≠ []) :
    ∀ comp ∈ Str.splitOn '.' (encPath p), isCanonicalDec comp = true := by
  unfold encPath
  rw [splitOn_join _ (by simpa using hp) (by
    intro x hx
    obtain ⟨n, _, hn⟩ := List.mem_map.mp hx
    rw [← hn]; exact (natToDec_spec n).2.1)]
  intro comp hc
  obtain ⟨n, _, hn⟩ := List.mem_map.mp hc
  rw [← hn]; exact natToDec_canonical n

/-! ## canonical decimals are exactly the strings that `int` / `str` round-trip -/

theorem digitChar_decVal (c : Char) (d : Nat) (h : Str.decVal c = some d) : d < 10 ∧ Str.digitChar d = c := by
  unfold Str.decVal at h
  split at h
  · rename_i hc
    simp only [Option.some.injEq] at h
    refine ⟨by omega, ?_⟩
    unfold Str.digitChar
    have : 48 + d = c.toNat := by omega
    rw [this]
    exact Char.ofNat_toNat c
  · cases h

theorem canonical_roundtrip (s : Str) (h : isCanonicalDec s = true) :
    ∃ n, Str.decToNat? s = some n ∧ Str.natToDec n = s := by
  have key : ∀ (r : Str), r ≠ [] → (∀ c ∈ r, (Str.decVal c).isSome = true) → (r.reverse.head? ≠ some '0' ∨ r.length = 1) →
      ∃ n, Str.decFold 0 r.reverse = some n ∧ Str.natToDec n = r.reverse := by
    intro r
    induction r with
    | nil => intro h; exact absurd rfl h
    | cons c t ih =>
      intro _ hd hz
      have hc := hd c (by simp)
      cases hv : Str.decVal c with
      | none => rw [hv] at hc; cases hc
      | some d =>
        obtain ⟨hd10, hdc⟩ := digitChar_decVal c d hv
        cases ht : t with
        | nil =>
          refine ⟨d, by simp [Str.decFold, hv], ?_⟩
          rw [Str.natToDec]; simp [hd10, hdc]
        | cons y ys =>
          have htne : t ≠ [] := by rw [ht]; simp
          have hrev : (c :: t).reverse = t.reverse ++ [c] := by simp
          have hhead : t.reverse.head? ≠ some '0' := by
            rcases hz with h | h
            · rw [hrev] at h
              cases hq : t.reverse with
              | nil => exact absurd (List.reverse_eq_nil_iff.mp hq) htne
              | cons z zs => rw [hq] at h; simpa using h
            · rw [ht] at h; simp at h
          obtain ⟨m, hm1, hm2⟩ := ih htne (fun x hx => hd x (by simp [hx])) (Or.inl hhead)
          have hm : 1 ≤ m := by
            rcases Nat.lt_or_ge m 1 with hlt | hge
            · exfalso
              have : m = 0 := by omega
              subst this
              rw [Str.natToDec] at hm2
              simp at hm2
              rw [← hm2] at hhead
              exact hhead (by decide)
            · exact hge
          refine ⟨m * 10 + d, ?_, ?_⟩
          · rw [← ht, hrev, decFold_append, hm1]
            simp [Str.decFold, hv]
          · rw [← ht, hrev, Str.natToDec]
            have h10 : ¬ (m * 10 + d < 10) := by omega
            simp only [h10, if_false]
            have h1 : (m * 10 + d) / 10 = m := by omega
            have h2 : (m * 10 + d) % 10 = d := by omega
            rw [h1, h2, hm2, hdc]
  unfold isCanonicalDec at h
  simp only [Bool.and_eq_true, Bool.not_eq_true', List.isEmpty_eq_false_iff, List.all_eq_true, Bool.or_eq_true, bne_iff_ne, ne_eq, beq_iff_eq] at h
  obtain ⟨⟨h1, h2⟩, h3⟩ := h
  obtain ⟨n, hn1, hn2⟩ := key s.reverse (by simpa using h1) (fun c hc => h2 c (by simpa using hc)) (by simpa using h3)
  simp only [List.reverse_reverse] at hn1 hn2
  refine ⟨n, ?_, hn2⟩
  cases s with
  | nil => exact absurd rfl h1
  | cons c cs => exact hn1

end Tranp.SymbolJson
