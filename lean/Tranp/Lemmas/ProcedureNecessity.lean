/-
  Necessity of `WFNode` (property C09): every tree with a visited ill-formed node is told apart from the reference
  semantics by some handler table. Helper lemmas; the theorem is `Tranp.C09.wf_necessary`.
-/
import Tranp.Lemmas.Procedure

namespace Tranp.Procedure
open Tranp

set_option linter.unusedSectionVars false

/-! ### structural size, children, visiting is transitive -/

mutual
def ssize : PNode → Nat
  | .mk _ _ _ props under => 1 + ssizeProps props + ssizeList under
def ssizeList : List PNode → Nat
  | [] => 0
  | c :: cs => ssize c + ssizeList cs
def ssizeProps : List PProp → Nat
  | [] => 0
  | .one _ _ n :: ps => ssize n + ssizeProps ps
  | .many _ _ ns :: ps => ssizeList ns + ssizeProps ps
end

theorem ssize_pos (n : PNode) : 0 < ssize n := by cases n; simp [ssize]; omega

theorem ssize_le_list (cs : List PNode) (c : PNode) (h : c ∈ cs) : ssize c ≤ ssizeList cs := by
  induction cs with
  | nil => simp at h
  | cons x xs ih =>
    simp only [ssizeList]
    rcases List.mem_cons.mp h with rfl | h
    · omega
    · have := ih h; omega

theorem ssize_le_props (ps : List PProp) (p : PProp) (hp : p ∈ ps) (c : PNode) (hc : c ∈ p.nodes) :
    ssize c ≤ ssizeProps ps := by
  induction ps with
  | nil => simp at hp
  | cons x xs ih =>
    rcases List.mem_cons.mp hp with rfl | hp
    · cases p with
      | one k a n => simp [PProp.nodes] at hc; subst hc; simp [ssizeProps]
      | many k a ns => simp only [PProp.nodes] at hc; have := ssize_le_list ns c hc; simp only [ssizeProps]; omega
    · have := ih hp
      cases x <;> simp only [ssizeProps] <;> omega

/-- the direct children `procedural` flattens (node.py:249-253) -/
def childrenOf (n : PNode) : List PNode :=
  if n.terminal then [] else if (propExpand n.props).isEmpty then n.under else propExpand n.props

theorem dedupKey_map {α β : Type} (l : List (Key × α)) (g : α → β) :
    dedupKey (l.map fun e => (e.1, g e.2)) = (dedupKey l).map fun e => (e.1, g e.2) := by
  induction l with
  | nil => rfl
  | cons x xs ih =>
    obtain ⟨k, a⟩ := x
    simp only [List.map_cons, dedupKey, ih, List.filter_map]
    rfl

theorem proceduralList_append (l1 l2 : List PNode) :
    proceduralList (l1 ++ l2) = proceduralList l1 ++ proceduralList l2 := by
  induction l1 with
  | nil => simp [proceduralList]
  | cons c cs ih => simp [proceduralList, ih]

theorem proceduralList_flatMap {α : Type} (l : List α) (f : α → List PNode) :
    proceduralList (l.flatMap f) = l.flatMap (fun a => proceduralList (f a)) := by
  induction l with
  | nil => simp [proceduralList]
  | cons x xs ih => simp [proceduralList_append, ih]

theorem procedural_eq (n : PNode) : procedural n = proceduralList (childrenOf n) := by
  obtain ⟨id, cls, t, props, under⟩ := n
  cases t with
  | true => simp [procedural, childrenOf, PNode.terminal, proceduralList]
  | false =>
    by_cases he : (propExpand props).isEmpty = true
    · simp [procedural, childrenOf, PNode.terminal, PNode.props, PNode.under, he]
    · have h1 : (props.map fun p => (p.key, proceduralList p.nodes)) =
          ((props.map fun p => (p.key, p.nodes)).map fun e => (e.1, proceduralList e.2)) := by
        rw [List.map_map]; rfl
      have h2 : (dedupKey (proceduralProps props)).flatMap (·.2) = proceduralList (propExpand props) := by
        rw [proceduralProps_eq_map, h1, dedupKey_map]
        unfold propExpand
        rw [proceduralList_flatMap, List.flatMap_map]
      simp [procedural, childrenOf, PNode.terminal, PNode.props, he, h2]

theorem mem_proceduralList (cs : List PNode) (m : PNode) :
    m ∈ proceduralList cs ↔ ∃ c ∈ cs, m ∈ visited c := by
  induction cs with
  | nil => simp [proceduralList]
  | cons c cs ih =>
    simp only [proceduralList, List.mem_append, ih, visited, List.mem_cons, List.not_mem_nil, or_false]
    constructor
    · rintro ((h | h) | ⟨c', hc', h⟩)
      · exact ⟨c, Or.inl rfl, Or.inl h⟩
      · exact ⟨c, Or.inl rfl, Or.inr h⟩
      · exact ⟨c', Or.inr hc', h⟩
    · rintro ⟨c', rfl | hc', h⟩
      · rcases h with h | h
        · exact Or.inl (Or.inl h)
        · exact Or.inl (Or.inr h)
      · exact Or.inr ⟨c', hc', h⟩

theorem propExpand_mem (ps : List PProp) (c : PNode) (h : c ∈ propExpand ps) : ∃ p ∈ ps, c ∈ p.nodes := by
  unfold propExpand at h
  obtain ⟨e, he, hc⟩ := List.mem_flatMap.mp h
  have := dedupKey_subset _ e he
  obtain ⟨p, hp, rfl⟩ := List.mem_map.mp this
  exact ⟨p, hp, hc⟩

theorem ssize_child (n c : PNode) (h : c ∈ childrenOf n) : ssize c < ssize n := by
  obtain ⟨id, cls, t, props, under⟩ := n
  simp only [childrenOf, PNode.terminal, PNode.props, PNode.under] at h
  simp only [ssize]
  cases t with
  | true => simp at h
  | false =>
    by_cases he : (propExpand props).isEmpty = true
    · simp only [Bool.false_eq_true, if_false, he, if_true] at h
      have := ssize_le_list under c h; omega
    · simp only [Bool.false_eq_true, if_false, he] at h
      obtain ⟨p, hp, hc⟩ := propExpand_mem props c h
      have := ssize_le_props props p hp c hc; omega

theorem visited_mem_iff (n m : PNode) : m ∈ visited n ↔ m = n ∨ ∃ c ∈ childrenOf n, m ∈ visited c := by
  unfold visited
  rw [procedural_eq, List.mem_append, mem_proceduralList]
  simp only [List.mem_singleton]
  constructor
  · rintro (h | h)
    · exact Or.inr h
    · exact Or.inl h
  · rintro (h | h)
    · exact Or.inr h
    · exact Or.inl h

theorem ssize_visited : ∀ (k : Nat) (n m : PNode), ssize n < k → m ∈ visited n → m = n ∨ ssize m < ssize n := by
  intro k
  induction k with
  | zero => intro n m h; omega
  | succ k ih =>
    intro n m hk hm
    rcases (visited_mem_iff n m).mp hm with h | ⟨c, hc, hmc⟩
    · exact Or.inl h
    · have hlt := ssize_child n c hc
      rcases ih c m (by omega) hmc with h | h
      · subst h; exact Or.inr hlt
      · exact Or.inr (by omega)

theorem visited_trans : ∀ (k : Nat) (n m x : PNode), ssize n < k → m ∈ visited n → x ∈ visited m → x ∈ visited n := by
  intro k
  induction k with
  | zero => intro n m x h; omega
  | succ k ih =>
    intro n m x hk hm hx
    rcases (visited_mem_iff n m).mp hm with h | ⟨c, hc, hmc⟩
    · subst h; exact hx
    · have hlt := ssize_child n c hc
      exact (visited_mem_iff n x).mpr (Or.inr ⟨c, hc, ih c m x (by omega) hmc hx⟩)

theorem self_mem_visited (n : PNode) : n ∈ visited n := by simp [visited]

/-- among the visited ill-formed nodes there is one below which everything visited is well-formed -/
theorem exists_minimal_violation : ∀ (k : Nat) (root m : PNode), ssize m < k → m ∈ visited root → ¬ WFNode m →
    ∃ m' ∈ visited root, ¬ WFNode m' ∧ ∀ x ∈ procedural m', WFNode x := by
  intro k
  induction k with
  | zero => intro root m h; omega
  | succ k ih =>
    intro root m hk hm hbad
    by_cases hall : ∀ x ∈ procedural m, WFNode x
    · exact ⟨m, hm, hbad, hall⟩
    · have : ∃ x, x ∈ procedural m ∧ ¬ WFNode x := by
        apply Classical.byContradiction
        intro hne
        exact hall (fun x hx => Classical.byContradiction fun hw => hne ⟨x, hx, hw⟩)
      obtain ⟨x, hx, hxbad⟩ := this
      have hxv : x ∈ visited m := by simp [visited, hx]
      have hlt : ssize x < ssize m := by
        rcases ssize_visited (ssize m + 1) m x (by omega) hxv with h | h
        · subst h
          -- x = m would put m in its own flattening: impossible by size
          rw [procedural_eq, mem_proceduralList] at hx
          obtain ⟨c, hc, hmc⟩ := hx
          have h1 := ssize_child x c hc
          rcases ssize_visited (ssize c + 1) c x (by omega) hmc with h | h
          · subst h; omega
          · omega
        · exact h
      exact ih root x (by omega) (visited_trans (ssize root + 1) root m x (by omega) hm hxv) hxbad

/-! ### the revealing handler table: every handler returns the shape of the event it received -/

/-- results: the keys of the received event with "is a list" flags -/
abbrev Sh := List (Key × Bool)

def kind {R : Type} : EvVal R → Bool
  | .one _ => false
  | .many _ => true

def shapeOf {R : Type} (ev : Event R) : Sh := ev.map fun kv => (kv.1, kind kv.2)

def shapeH : Handler Sh := fun _ ev => .ret (shapeOf ev)

/-- only `on_fallback`, returning the shape of its event: never fails, never nests -/
def plainT : Handlers Sh := ⟨fun _ => none, some shapeH⟩

theorem plainT_good (P : PNode → Prop) : plainT.Good P := by
  intro cls h hf n ev
  simp [plainT, Handlers.find] at hf
  subst hf
  exact .ret _

/-- insertion-ordered dict of flags -/
def dsetB : Sh → Key → Bool → Sh
  | [], k, b => [(k, b)]
  | (k', b') :: rest, k, b => if k' = k then (k, b) :: rest else (k', b') :: dsetB rest k b

def dgetB (k : Key) : Sh → Option Bool
  | [] => none
  | (k', b') :: rest => if k' = k then some b' else dgetB k rest

theorem shapeOf_dictSet {R : Type} (acc : Event R) (k : Key) (v : EvVal R) :
    shapeOf (dictSet acc k v) = dsetB (shapeOf acc) k (kind v) := by
  induction acc with
  | nil => rfl
  | cons x xs ih =>
    obtain ⟨k', v'⟩ := x
    simp only [dictSet, shapeOf, List.map_cons, dsetB]
    split
    · rfl
    · simp only [List.map_cons, List.cons.injEq, true_and]; exact ih

theorem dgetB_dsetB_same (d : Sh) (k : Key) (b : Bool) : dgetB k (dsetB d k b) = some b := by
  induction d with
  | nil => simp [dsetB, dgetB]
  | cons x xs ih =>
    obtain ⟨k', b'⟩ := x
    simp only [dsetB]
    split
    · simp [dgetB]
    · rename_i hne; simp [dgetB, hne, ih]

theorem dgetB_dsetB_other (d : Sh) (k k2 : Key) (b : Bool) (h : k2 ≠ k) : dgetB k (dsetB d k2 b) = dgetB k d := by
  induction d with
  | nil => simp [dsetB, dgetB, h]
  | cons x xs ih =>
    obtain ⟨k', b'⟩ := x
    simp only [dsetB]
    split
    · rename_i he; subst he; simp [dgetB, h]
    · by_cases hk : k' = k <;> simp [dgetB, hk, ih]

/-- the flag dict built from a list of properties with flag function `g` -/
def foldFlags (g : PProp → Bool) (l : List PProp) (acc : Sh) : Sh :=
  l.foldl (fun a q => dsetB a q.key (g q)) acc

theorem foldFlags_get_absent (g : PProp → Bool) (l : List PProp) (acc : Sh) (k : Key) (h : ∀ q ∈ l, q.key ≠ k) :
    dgetB k (foldFlags g l acc) = dgetB k acc := by
  induction l generalizing acc with
  | nil => rfl
  | cons x xs ih =>
    simp only [foldFlags, List.foldl_cons]
    have := ih (dsetB acc x.key (g x)) (fun q hq => h q (by simp [hq]))
    simp only [foldFlags] at this
    rw [this, dgetB_dsetB_other _ _ _ _ (h x (by simp))]

theorem foldFlags_get (g : PProp → Bool) (l : List PProp) (acc : Sh) (k : Key) (b : Bool)
    (hall : ∀ q ∈ l, q.key = k → g q = b) (hex : ∃ q ∈ l, q.key = k) :
    dgetB k (foldFlags g l acc) = some b := by
  induction l generalizing acc with
  | nil => obtain ⟨q, hq, _⟩ := hex; simp at hq
  | cons x xs ih =>
    simp only [foldFlags, List.foldl_cons]
    by_cases hin : ∃ q ∈ xs, q.key = k
    · exact ih _ (fun q hq => hall q (by simp [hq])) hin
    · have habs : ∀ q ∈ xs, q.key ≠ k := fun q hq hk => hin ⟨q, hq, hk⟩
      have := foldFlags_get_absent g xs (dsetB acc x.key (g x)) k habs
      simp only [foldFlags] at this
      rw [this]
      obtain ⟨q, hq, hk⟩ := hex
      rcases List.mem_cons.mp hq with rfl | hq
      · rw [hk, hall q (by simp) hk, dgetB_dsetB_same]
      · exact absurd hk (habs q hq)

/-- `getattr` is a function of the key: entries with the same key are the same entry -/
def KeyConsistent (n : PNode) : Prop := ∀ p ∈ n.props, ∀ q ∈ n.props, p.key = q.key → p = q

theorem keyConsistent_of_nodup (n : PNode) (h : (n.props.map PProp.key).Nodup) : KeyConsistent n := by
  intro p hp q hq hk
  generalize n.props = l at h hp hq
  induction l with
  | nil => simp at hp
  | cons x xs ih =>
    simp only [List.map_cons, List.nodup_cons] at h
    rcases List.mem_cons.mp hp with hpx | hpx
    · rcases List.mem_cons.mp hq with hqx | hqx
      · rw [hpx, hqx]
      · exact absurd (by rw [← hpx, hk]; exact List.mem_map_of_mem hqx) h.1
    · rcases List.mem_cons.mp hq with hqx | hqx
      · exact absurd (by rw [← hqx, ← hk]; exact List.mem_map_of_mem hpx) h.1
      · exact ih h.2 hpx hqx

theorem keyConsistent_pair (id : Nat) (cls : Str) (t : Bool) (p : PProp) (under : List PNode) :
    KeyConsistent (.mk id cls t [p, p] under) := by
  intro a ha b hb _
  simp [PNode.props] at ha hb
  rw [ha, hb]

/-- two flag functions that build the same dict agree on every entry (keys are consistent) -/
theorem foldFlags_inj (g1 g2 : PProp → Bool) (l : List PProp)
    (hc : ∀ p ∈ l, ∀ q ∈ l, p.key = q.key → p = q)
    (h : foldFlags g1 l [] = foldFlags g2 l []) : ∀ q ∈ l, g1 q = g2 q := by
  intro q hq
  have h1 := foldFlags_get g1 l [] q.key (g1 q) (fun p hp hk => by rw [hc p hp q hq hk]) ⟨q, hq, rfl⟩
  have h2 := foldFlags_get g2 l [] q.key (g2 q) (fun p hp hk => by rw [hc p hp q hq hk]) ⟨q, hq, rfl⟩
  rw [h] at h1
  rw [h1] at h2
  exact Option.some.inj h2

theorem lookupProp_consistent (props : List PProp) (hc : ∀ p ∈ props, ∀ q ∈ props, p.key = q.key → p = q)
    (q : PProp) (hq : q ∈ props) : (lookupProp props q.key).getD q = q := by
  cases hl : lookupProp props q.key with
  | none => rfl
  | some p =>
    obtain ⟨hp, hk⟩ := lookupProp_mem props q.key p hl
    simp [hc p hp q hq hk]

/-! ### what a successful `__make_event` loop says about the frame and the event -/

/-- how many results an entry pops -/
def need : PProp → Nat
  | .one _ _ _ => 1
  | .many _ a ns => if a then ns.length else 1

def total (l : List PProp) : Nat := (l.map need).sum

/-- `len()` of a node: the TypeError entry -/
def badLen : PProp → Bool
  | .one _ a _ => a
  | .many _ _ _ => false

theorem popN_some {R : Type} (k : Nat) (fr fr' xs : List R) (h : popN k fr = (fr', some xs)) :
    k ≤ fr.length ∧ fr' = fr.drop k := by
  induction k generalizing fr fr' xs with
  | zero => simp [popN] at h; simp [h.1]
  | succ k ih =>
    cases fr with
    | nil => simp [popN] at h
    | cons x rest =>
      simp only [popN] at h
      cases hp : popN k rest with
      | mk f o =>
        rw [hp] at h
        cases o with
        | none => simp at h
        | some ys =>
          simp at h
          obtain ⟨h1, h2⟩ := ih rest f ys hp
          simp only [List.length_cons, List.drop_succ_cons]
          exact ⟨by omega, by rw [← h.1, h2]⟩

theorem makeEventLoop_ok_inv {R : Type} (props : List PProp) (l : List PProp) (fr : List R) (acc : Event R)
    (fr' : List R) (ev : Event R)
    (hself : ∀ q ∈ l, (lookupProp props q.key).getD q = q)
    (h : makeEventLoop props l fr acc = (fr', .ok ev)) :
    (∀ q ∈ l, badLen q = false) ∧ total l ≤ fr.length ∧ fr' = fr.drop (total l) ∧
      shapeOf ev = foldFlags PProp.annList l (shapeOf acc) := by
  induction l generalizing fr acc with
  | nil =>
    simp [makeEventLoop] at h
    simp [total, foldFlags, h.1, h.2]
  | cons q qs ih =>
    have hq := hself q (by simp)
    have ih' := fun fr acc h => ih fr acc (fun p hp => hself p (by simp [hp])) h
    simp only [makeEventLoop, hq] at h
    simp only [total, List.map_cons, List.sum_cons, foldFlags, List.foldl_cons]
    cases q with
    | one k a n =>
      cases a with
      | true => simp at h
      | false =>
        simp only [Bool.false_eq_true, if_false] at h
        cases fr with
        | nil => simp at h
        | cons x rest =>
          simp only at h
          obtain ⟨h1, h2, h3, h4⟩ := ih' rest _ h
          refine ⟨?_, ?_, ?_, ?_⟩
          · intro p hp
            rcases List.mem_cons.mp hp with rfl | hp
            · rfl
            · exact h1 p hp
          · simp only [need, List.length_cons]; unfold total at h2; omega
          · simp only [need]; unfold total at h3; rw [h3]; simp [Nat.add_comm]
          · rw [h4, shapeOf_dictSet]; rfl
    | many k a ns =>
      cases a with
      | true =>
        simp only [if_true] at h
        cases hp : popN ns.length fr with
        | mk f o =>
          rw [hp] at h
          cases o with
          | none => simp at h
          | some xs =>
            simp only at h
            obtain ⟨hle, hdrop⟩ := popN_some ns.length fr f xs hp
            obtain ⟨h1, h2, h3, h4⟩ := ih' f _ h
            refine ⟨?_, ?_, ?_, ?_⟩
            · intro p hp
              rcases List.mem_cons.mp hp with rfl | hp
              · rfl
              · exact h1 p hp
            · simp only [need, if_true]; unfold total at h2; rw [hdrop, List.length_drop] at h2; omega
            · simp only [need, if_true]; unfold total at h3; rw [h3, hdrop, List.drop_drop]
            · rw [h4, shapeOf_dictSet]; rfl
      | false =>
        simp only [Bool.false_eq_true, if_false] at h
        cases fr with
        | nil => simp at h
        | cons x rest =>
          simp only at h
          obtain ⟨h1, h2, h3, h4⟩ := ih' rest _ h
          refine ⟨?_, ?_, ?_, ?_⟩
          · intro p hp
            rcases List.mem_cons.mp hp with rfl | hp
            · rfl
            · exact h1 p hp
          · simp only [need, Bool.false_eq_true, if_false, List.length_cons]; unfold total at h2; omega
          · simp only [need, Bool.false_eq_true, if_false]; unfold total at h3; rw [h3]; simp [Nat.add_comm]
          · rw [h4, shapeOf_dictSet]; rfl

/-! ### the reference under the revealing table -/

theorem denoteProps_kinds {R : Type} (dn : PNode → Except Err R) (hs : Handlers R) (ps : List PProp) (evs : Event R)
    (h : denoteProps dn hs ps = .ok evs) : shapeOf evs = ps.map fun p => (p.key, p.isMany) := by
  induction ps generalizing evs with
  | nil => simp [denoteProps] at h; subst h; rfl
  | cons p ps ih =>
    cases p with
    | one k a n =>
      simp only [denoteProps] at h
      split at h
      · cases h
      · split at h
        · cases h
        · rename_i evs' he
          cases h
          simp [shapeOf, kind, PProp.key, PProp.isMany] at *
          exact ih evs' he
    | many k a ns =>
      simp only [denoteProps] at h
      split at h
      · cases h
      · split at h
        · cases h
        · rename_i evs' he
          cases h
          simp [shapeOf, kind, PProp.key, PProp.isMany] at *
          exact ih evs' he

theorem shapeOf_foldl {R : Type} (l : Event R) (acc : Event R) :
    shapeOf (l.foldl (fun a kv => dictSet a kv.1 kv.2) acc) =
      (shapeOf l).foldl (fun a kb => dsetB a kb.1 kb.2) (shapeOf acc) := by
  induction l generalizing acc with
  | nil => rfl
  | cons x xs ih =>
    simp only [List.foldl_cons]
    rw [ih, shapeOf_dictSet]
    simp [shapeOf]

theorem foldFlags_eq_map (g : PProp → Bool) (l : List PProp) (acc : Sh) :
    foldFlags g l acc = (l.map fun p => (p.key, g p)).foldl (fun a kb => dsetB a kb.1 kb.2) acc := by
  unfold foldFlags
  rw [List.foldl_map]

/-- the shape of the reference event: the dict of "is a list" flags in reversed `prop_keys()` order -/
theorem shapeOf_refEvent {R : Type} (dn : PNode → Except Err R) (hs : Handlers R) (ps : List PProp) (evs : Event R)
    (h : denoteProps dn hs ps = .ok evs) : shapeOf (refEvent evs) = foldFlags PProp.isMany ps.reverse [] := by
  unfold refEvent
  rw [shapeOf_foldl, foldFlags_eq_map]
  have := denoteProps_kinds dn hs ps evs h
  have h2 : shapeOf evs.reverse = (shapeOf evs).reverse := by simp [shapeOf]
  rw [h2, this, List.map_reverse]
  rfl

mutual
theorem denote_plain_total (dn : PNode → Except Err Sh) (n : PNode) : ∃ r, denote dn plainT n = .ok r := by
  match n with
  | .mk id cls t props under =>
    obtain ⟨evs, he⟩ := denoteProps_plain_total dn props
    exact ⟨shapeOf (refEvent evs), by simp only [denote, he]; simp [plainT, Handlers.find, shapeH, denoteProg]⟩
theorem denoteList_plain_total (dn : PNode → Except Err Sh) (cs : List PNode) : ∃ rs, denoteList dn plainT cs = .ok rs := by
  match cs with
  | [] => exact ⟨[], rfl⟩
  | c :: cs =>
    obtain ⟨r, hr⟩ := denote_plain_total dn c
    obtain ⟨rs, hrs⟩ := denoteList_plain_total dn cs
    exact ⟨r :: rs, by simp [denoteList, hr, hrs]⟩
theorem denoteProps_plain_total (dn : PNode → Except Err Sh) (ps : List PProp) : ∃ evs, denoteProps dn plainT ps = .ok evs := by
  match ps with
  | [] => exact ⟨[], rfl⟩
  | .one k a n :: ps =>
    obtain ⟨r, hr⟩ := denote_plain_total dn n
    obtain ⟨evs, he⟩ := denoteProps_plain_total dn ps
    exact ⟨(k, .one r) :: evs, by simp [denoteProps, hr, he]⟩
  | .many k a ns :: ps =>
    obtain ⟨rs, hr⟩ := denoteList_plain_total dn ns
    obtain ⟨evs, he⟩ := denoteProps_plain_total dn ps
    exact ⟨(k, .many rs) :: evs, by simp [denoteProps, hr, he]⟩
end

/-- under the revealing table the reference result of a node is the dict of its properties' "is a list" flags -/
theorem denote_plain (dn : PNode → Except Err Sh) (n : PNode) :
    denote dn plainT n = .ok (foldFlags PProp.isMany n.props.reverse []) := by
  obtain ⟨id, cls, t, props, under⟩ := n
  obtain ⟨evs, he⟩ := denoteProps_plain_total dn props
  simp only [denote, he, PNode.props]
  simp only [plainT, Handlers.find, shapeH, denoteProg]
  rw [shapeOf_refEvent dn _ props evs he]

/-! ### balanced counts and agreeing shapes give back `WFNode` -/

theorem total_eq_nodes (l : List PProp) (h4 : ∀ q ∈ l, q.annList = q.isMany) :
    total l = (l.flatMap PProp.nodes).length := by
  induction l with
  | nil => rfl
  | cons q qs ih =>
    have := ih (fun p hp => h4 p (by simp [hp]))
    have hq := h4 q (by simp)
    unfold total at this ⊢
    cases q with
    | one k a n => simp [need, PProp.nodes, this]; omega
    | many k a ns =>
      simp only [PProp.annList, PProp.isMany] at hq
      subst hq
      simp [need, PProp.nodes, this]

theorem total_reverse (l : List PProp) : total l.reverse = total l := by
  unfold total
  rw [List.map_reverse, List.sum_reverse]

theorem filter_len {β : Type} (d : List (Key × List β)) (k : Key) :
    ((d.filter (fun p => p.1 != k)).flatMap (·.2)).length ≤ (d.flatMap (·.2)).length ∧
    (((d.filter (fun p => p.1 != k)).flatMap (·.2)).length = (d.flatMap (·.2)).length → ∀ e ∈ d, e.1 = k → e.2 = []) := by
  induction d with
  | nil => simp
  | cons x xs ih =>
    obtain ⟨h1, h2⟩ := ih
    by_cases hx : x.1 = k
    · simp only [List.filter_cons, hx, bne_self_eq_false, Bool.false_eq_true, if_false, List.flatMap_cons, List.length_append]
      refine ⟨by omega, ?_⟩
      intro heq e he hk
      have hx0 : x.2.length = 0 := by omega
      rcases List.mem_cons.mp he with rfl | he
      · exact List.length_eq_zero_iff.mp hx0
      · exact h2 (by omega) e he hk
    · have hb : (x.1 != k) = true := by simpa using hx
      simp only [List.filter_cons, hb, if_true, List.flatMap_cons, List.length_append]
      refine ⟨by omega, ?_⟩
      intro heq e he hk
      rcases List.mem_cons.mp he with rfl | he
      · exact absurd hk hx
      · exact h2 (by omega) e he hk

theorem dedup_len {β : Type} (l : List (Key × List β)) :
    ((dedupKey l).flatMap (·.2)).length ≤ (l.flatMap (·.2)).length := by
  induction l with
  | nil => simp [dedupKey]
  | cons x xs ih =>
    obtain ⟨k, a⟩ := x
    have := (filter_len (dedupKey xs) k).1
    simp only [dedupKey, List.flatMap_cons, List.length_append]
    omega

theorem first_occ {α : Type} (l : List (Key × α)) (e : Key × α) (he : e ∈ l) : ∃ e' ∈ dedupKey l, e'.1 = e.1 := by
  induction l with
  | nil => simp at he
  | cons x xs ih =>
    obtain ⟨k, a⟩ := x
    by_cases hk : e.1 = k
    · exact ⟨(k, a), by simp [dedupKey], hk.symm⟩
    · rcases List.mem_cons.mp he with rfl | he
      · exact absurd rfl hk
      · obtain ⟨e', he', hk'⟩ := ih he
        refine ⟨e', ?_, hk'⟩
        simp only [dedupKey, List.mem_cons, List.mem_filter]
        exact Or.inr ⟨he', by simpa [hk'] using hk⟩

theorem dedup_len_eq {β : Type} (l : List (Key × List β))
    (hc : ∀ e ∈ l, ∀ e' ∈ l, e.1 = e'.1 → e.2 = e'.2)
    (heq : ((dedupKey l).flatMap (·.2)).length = (l.flatMap (·.2)).length) :
    ∀ e ∈ l, (l.map (·.1)).count e.1 > 1 → e.2 = [] := by
  induction l with
  | nil => simp
  | cons x xs ih =>
    obtain ⟨k, a⟩ := x
    have hcx : ∀ e ∈ xs, ∀ e' ∈ xs, e.1 = e'.1 → e.2 = e'.2 :=
      fun e he e' he' => hc e (List.mem_cons_of_mem _ he) e' (List.mem_cons_of_mem _ he')
    obtain ⟨f1, f2⟩ := filter_len (dedupKey xs) k
    have d1 := dedup_len xs
    simp only [dedupKey, List.flatMap_cons, List.length_append] at heq
    have hfe : ((List.filter (fun p => p.1 != k) (dedupKey xs)).flatMap (·.2)).length = ((dedupKey xs).flatMap (·.2)).length := by omega
    have hde : ((dedupKey xs).flatMap (·.2)).length = (xs.flatMap (·.2)).length := by omega
    have hdrop := f2 hfe
    have ihx := ih hcx hde
    -- if the head key occurs again, the head carries nothing
    have hhead : (xs.map (·.1)).count k ≥ 1 → a = [] := by
      intro hcnt
      obtain ⟨e0, he0, hk0⟩ := List.mem_map.mp (List.count_pos_iff.mp hcnt)
      obtain ⟨e', he', hk'⟩ := first_occ xs e0 he0
      have h0 := hdrop e' he' (by rw [hk', hk0])
      have := hc (k, a) (by simp) e' (List.mem_cons_of_mem _ (dedupKey_subset xs e' he')) (by simp [hk', hk0])
      simp at this
      rw [this, h0]
    intro e he hcnt
    simp only [List.map_cons, List.count_cons] at hcnt
    rcases List.mem_cons.mp he with rfl | he
    · simp only [beq_self_eq_true, if_true] at hcnt
      exact hhead (by omega)
    · by_cases hk : e.1 = k
      · have hpos : (xs.map (·.1)).count k ≥ 1 := by
          rw [← hk]; exact List.count_pos_iff.mpr (List.mem_map_of_mem he)
        have := hc e (List.mem_cons_of_mem _ he) (k, a) (by simp) hk
        simp at this
        rw [this]; exact hhead hpos
      · have hne : (k == e.1) = false := by simpa using fun h => hk h.symm
        simp only [hne, Bool.false_eq_true, if_false, Nat.add_zero] at hcnt
        exact ihx e he hcnt

/-- if flattening pushes as many results as event building pops, and annotation and shape agree, the node is well-formed -/
theorem wf_of_balanced (m : PNode) (hc : KeyConsistent m) (h4 : ∀ p ∈ m.props, p.annList = p.isMany)
    (hlen : (m.props.flatMap PProp.nodes).length = (childrenOf m).length) : WFNode m := by
  obtain ⟨id, cls, t, props, under⟩ := m
  simp only [KeyConsistent, PNode.props] at hc h4 hlen
  have hL : (props.map fun p => (p.key, p.nodes)).flatMap (·.2) = props.flatMap PProp.nodes := by
    simp [List.flatMap_map]
  have hkeys : (props.map fun p => (p.key, p.nodes)).map (·.1) = props.map PProp.key := by rw [List.map_map]; rfl
  have hcL : ∀ e ∈ (props.map fun p => (p.key, p.nodes)), ∀ e' ∈ (props.map fun p => (p.key, p.nodes)), e.1 = e'.1 → e.2 = e'.2 := by
    intro e he e' he' hk
    obtain ⟨p, hp, rfl⟩ := List.mem_map.mp he
    obtain ⟨q, hq, rfl⟩ := List.mem_map.mp he'
    simp only at hk ⊢
    rw [hc p hp q hq hk]
  refine ⟨?_, ?_, ?_, h4⟩
  · intro ht
    simp only [PNode.terminal] at ht
    subst ht
    simp only [childrenOf, PNode.terminal, if_true, List.length_nil] at hlen
    simpa [PNode.props] using List.length_eq_zero_iff.mp hlen
  · intro ht he
    simp only [PNode.terminal] at ht
    subst ht
    simp only [PNode.props] at he
    simp only [childrenOf, PNode.terminal, PNode.props, PNode.under, Bool.false_eq_true, if_false, he, if_true] at hlen
    -- every entry equals the first entry of its key, which the (empty) property expansion contains
    have hall : props.flatMap PProp.nodes = [] := by
      rw [List.flatMap_eq_nil_iff]
      intro p hp
      obtain ⟨e', he', hk'⟩ := first_occ (props.map fun p => (p.key, p.nodes)) (p.key, p.nodes) (List.mem_map_of_mem hp)
      have hsub := dedupKey_subset _ e' he'
      have := hcL e' hsub (p.key, p.nodes) (List.mem_map_of_mem hp) hk'
      have hnil : (propExpand props) = [] := by simpa using he
      unfold propExpand at hnil
      have := (List.flatMap_eq_nil_iff.mp hnil) e' he'
      simp_all
    rw [hall] at hlen
    simpa [PNode.under] using (List.length_eq_zero_iff.mp hlen.symm)
  · intro p hp hcnt
    simp only [PNode.props] at hp hcnt
    cases t with
    | true =>
      simp only [childrenOf, PNode.terminal, if_true, List.length_nil] at hlen
      have := List.length_eq_zero_iff.mp hlen
      have := (List.flatMap_eq_nil_iff.mp this) p hp
      simp [this]
    | false =>
      by_cases he : (propExpand props).isEmpty = true
      · -- as above: everything is empty
        obtain ⟨e', he', hk'⟩ := first_occ (props.map fun p => (p.key, p.nodes)) (p.key, p.nodes) (List.mem_map_of_mem hp)
        have hsub := dedupKey_subset _ e' he'
        have := hcL e' hsub (p.key, p.nodes) (List.mem_map_of_mem hp) hk'
        have hnil : (propExpand props) = [] := by simpa using he
        unfold propExpand at hnil
        have := (List.flatMap_eq_nil_iff.mp hnil) e' he'
        simp_all
      · simp only [childrenOf, PNode.terminal, PNode.props, Bool.false_eq_true, if_false, he] at hlen
        have heq : ((dedupKey (props.map fun p => (p.key, p.nodes))).flatMap (·.2)).length =
            ((props.map fun p => (p.key, p.nodes)).flatMap (·.2)).length := by
          rw [hL]; unfold propExpand at hlen; exact hlen.symm
        have := dedup_len_eq _ hcL heq (p.key, p.nodes) (List.mem_map_of_mem hp) (by rw [hkeys]; exact hcnt)
        simpa using this

/-! ### an ill-formed node above well-formed ones: the run from that node differs from the reference -/

theorem necessity_at_root (m : PNode) (hmin : ∀ x ∈ procedural m, WFNode x) (hc : KeyConsistent m)
    (hbad : ¬ WFNode m) (nested : St Sh → PNode → St Sh × Except Err Sh) (dn0 : PNode → Except Err Sh)
    (hN : NestedSim nested dn0) (st : St Sh) :
    (execWith nested plainT st m).2 ≠ .ok (foldFlags PProp.isMany m.props.reverse []) := by
  intro hres
  -- the children
  have hwfc : ∀ x ∈ proceduralList (childrenOf m), WFNode x := by rw [← procedural_eq]; exact hmin
  obtain ⟨rs, hrs⟩ := denoteList_plain_total dn0 (childrenOf m)
  have hrun := (list_sim nested dn0 plainT hN (plainT_good WF) (childrenOf m) hwfc [] st).1 rs hrs
  have hlen := denoteList_length dn0 plainT (childrenOf m) rs hrs
  simp only [List.append_nil] at hrun
  -- the node itself
  have hfind : plainT.find m.cls = some shapeH := by simp [plainT, Handlers.find]
  simp only [execWith, execImpl, visited] at hres
  rw [procedural_eq, run_append_ok _ _ _ _ _ _ hrun] at hres
  simp only [run, processNode, hfind] at hres
  cases hme : makeEvent m rs.reverse with
  | mk fr' res =>
    rw [hme] at hres
    cases res with
    | error e => simp at hres
    | ok ev =>
      simp only [shapeH, runProg] at hres
      have hself : ∀ q ∈ m.props.reverse, (lookupProp m.props q.key).getD q = q :=
        fun q hq => lookupProp_consistent m.props hc q (List.mem_reverse.mp hq)
      obtain ⟨_, htot, hdrop, hshape⟩ := makeEventLoop_ok_inv m.props m.props.reverse rs.reverse [] fr' ev hself hme
      cases fr' with
      | cons y ys => simp at hres
      | nil =>
        simp at hres
        -- shapes agree: annotation = run-time shape for every entry
        have hfl : foldFlags PProp.annList m.props.reverse [] = foldFlags PProp.isMany m.props.reverse [] := by
          rw [← hres, hshape]; rfl
        have h4r := foldFlags_inj PProp.annList PProp.isMany m.props.reverse
          (fun p hp q hq => hc p (List.mem_reverse.mp hp) q (List.mem_reverse.mp hq)) hfl
        have h4 : ∀ p ∈ m.props, p.annList = p.isMany := fun p hp => h4r p (List.mem_reverse.mpr hp)
        -- counts agree
        have hd : rs.reverse.length ≤ total m.props.reverse := by
          have := congrArg List.length hdrop
          simp only [List.length_nil, List.length_drop] at this
          omega
        rw [total_reverse] at htot hd
        rw [total_eq_nodes m.props h4] at htot hd
        simp only [List.length_reverse] at htot hd
        exact hbad (wf_of_balanced m hc h4 (by omega))

/-! ### handlers that only return: the run does not depend on `nested`, nor on handlers of nodes it does not process -/

theorem run_congr {R : Type} (n1 n2 : St R → PNode → St R × Except Err R) (h1 h2 : Handler R) (g : PNode → Event R → R)
    (l : List PNode) (hl : ∀ n ∈ l, ∀ ev, h1 n ev = .ret (g n ev) ∧ h2 n ev = .ret (g n ev)) (st : St R) :
    run n1 ⟨fun _ => none, some h1⟩ st l = run n2 ⟨fun _ => none, some h2⟩ st l := by
  induction l generalizing st with
  | nil => rfl
  | cons n ns ih =>
    have hn := hl n (by simp)
    have ih' := ih (fun x hx => hl x (by simp [hx]))
    simp only [run, processNode, Handlers.find]
    cases st with
    | nil => rfl
    | cons fr rest =>
      simp only
      cases hme : makeEvent n fr with
      | mk fr' res =>
        cases res with
        | error e => rfl
        | ok ev =>
          simp only [(hn ev).1, (hn ev).2, runProg]
          exact ih' _

mutual
theorem denote_congr {R : Type} (d1 d2 : PNode → Except Err R) (h1 h2 : Handler R) (g : PNode → Event R → R) (N : Nat)
    (hh : ∀ n, ssize n < N → ∀ ev, h1 n ev = .ret (g n ev) ∧ h2 n ev = .ret (g n ev)) (n : PNode) (hn : ssize n < N) :
    denote d1 ⟨fun _ => none, some h1⟩ n = denote d2 ⟨fun _ => none, some h2⟩ n := by
  match n with
  | .mk id cls t props under =>
    have hp : ssizeProps props < N := by simp only [ssize] at hn; omega
    simp only [denote, Handlers.find]
    rw [denoteProps_congr d1 d2 h1 h2 g N hh props hp]
    cases denoteProps d2 ⟨fun _ => none, some h2⟩ props with
    | error e => rfl
    | ok evs => simp [(hh _ hn _).1, (hh _ hn _).2, denoteProg]
theorem denoteList_congr {R : Type} (d1 d2 : PNode → Except Err R) (h1 h2 : Handler R) (g : PNode → Event R → R) (N : Nat)
    (hh : ∀ n, ssize n < N → ∀ ev, h1 n ev = .ret (g n ev) ∧ h2 n ev = .ret (g n ev)) (cs : List PNode) (hn : ssizeList cs < N) :
    denoteList d1 ⟨fun _ => none, some h1⟩ cs = denoteList d2 ⟨fun _ => none, some h2⟩ cs := by
  match cs with
  | [] => rfl
  | c :: cs =>
    simp only [ssizeList] at hn
    simp only [denoteList]
    rw [denote_congr d1 d2 h1 h2 g N hh c (by omega), denoteList_congr d1 d2 h1 h2 g N hh cs (by omega)]
theorem denoteProps_congr {R : Type} (d1 d2 : PNode → Except Err R) (h1 h2 : Handler R) (g : PNode → Event R → R) (N : Nat)
    (hh : ∀ n, ssize n < N → ∀ ev, h1 n ev = .ret (g n ev) ∧ h2 n ev = .ret (g n ev)) (ps : List PProp) (hn : ssizeProps ps < N) :
    denoteProps d1 ⟨fun _ => none, some h1⟩ ps = denoteProps d2 ⟨fun _ => none, some h2⟩ ps := by
  match ps with
  | [] => rfl
  | .one k a c :: ps =>
    simp only [ssizeProps] at hn
    simp only [denoteProps]
    rw [denote_congr d1 d2 h1 h2 g N hh c (by omega), denoteProps_congr d1 d2 h1 h2 g N hh ps (by omega)]
  | .many k a cs :: ps =>
    simp only [ssizeProps] at hn
    simp only [denoteProps]
    rw [denoteList_congr d1 d2 h1 h2 g N hh cs (by omega), denoteProps_congr d1 d2 h1 h2 g N hh ps (by omega)]
end

/-! ### an ill-formed node anywhere: the root's handler re-runs it in isolation and hands the result up -/

/-- like `shapeH`, except that a node of size `N` (only the root has it) runs a nested `exec` on `t` and returns its result -/
def probeH (N : Nat) (t : PNode) : Handler Sh := fun n ev =>
  if ssize n = N then .call t (fun r => .ret r) else shapeH n ev

def probeT (N : Nat) (t : PNode) : Handlers Sh := ⟨fun _ => none, some (probeH N t)⟩

theorem probe_agrees (N : Nat) (t : PNode) : ∀ n, ssize n < N → ∀ ev,
    probeH N t n ev = .ret (shapeOf ev) ∧ shapeH n ev = .ret (shapeOf ev) := by
  intro n hn ev
  have : ssize n ≠ N := by omega
  simp [probeH, shapeH, this]

theorem denote_probe_inner (dn : PNode → Except Err Sh) (N : Nat) (t n : PNode) (hn : ssize n < N) :
    denote dn (probeT N t) n = .ok (foldFlags PProp.isMany n.props.reverse []) := by
  have := denote_congr dn dn (probeH N t) shapeH (fun _ ev => shapeOf ev) N (probe_agrees N t) n hn
  have h2 := denote_plain dn n
  simp only [plainT] at h2
  simp only [probeT]
  rw [this, h2]

theorem denote_probe_root (dn : PNode → Except Err Sh) (t root : PNode) :
    denote dn (probeT (ssize root) t) root =
      match dn t with
      | .ok r => .ok r
      | .error e => .error e.wrap := by
  obtain ⟨id, cls, tm, props, under⟩ := root
  have hp : ssizeProps props < ssize (PNode.mk id cls tm props under) := by simp only [ssize]; omega
  obtain ⟨evs, he⟩ := denoteProps_plain_total dn props
  have hcongr := denoteProps_congr dn dn (probeH (ssize (PNode.mk id cls tm props under)) t) shapeH
    (fun _ ev => shapeOf ev) _ (probe_agrees _ t) props hp
  simp only [plainT] at he
  simp only [probeT, denote, Handlers.find]
  rw [hcongr, he]
  simp only [probeH, if_true, denoteProg]
  cases dn t <;> rfl

/-- when the root's handler is "run `t` and return its result", a returning `exec` returned the result of that nested run -/
theorem execWith_call_root {R : Type} (nested : St R → PNode → St R × Except Err R) (hs : Handlers R) (h : Handler R)
    (t root : PNode) (hf : hs.find root.cls = some h) (hh : ∀ ev, h root ev = .call t (fun r => .ret r))
    (st : St R) (v : R) (hres : (execWith nested hs st root).2 = .ok v) :
    ∃ s s', nested s t = (s', .ok v) := by
  simp only [execWith, execImpl, visited] at hres
  rw [run_append] at hres
  cases hr1 : run nested hs ([] :: st) (procedural root) with
  | mk s1 res1 =>
    rw [hr1] at hres
    cases res1 with
    | error e => simp at hres
    | ok u =>
      cases u
      simp only [run, processNode, hf] at hres
      cases s1 with
      | nil => simp at hres
      | cons fr rest =>
        simp only at hres
        cases hme : makeEvent root fr with
        | mk fr' res =>
          rw [hme] at hres
          cases res with
          | error e => simp at hres
          | ok ev =>
            simp only [hh, runProg] at hres
            cases hn : nested (fr' :: rest) t with
            | mk s2 res2 =>
              rw [hn] at hres
              cases res2 with
              | error e => simp at hres
              | ok r =>
                refine ⟨fr' :: rest, s2, ?_⟩
                rw [hn]
                simp only at hres
                cases s2 with
                | nil => simp at hres
                | cons f2 r2 =>
                  simp only at hres
                  cases f2 with
                  | nil => simp at hres; rw [hres]
                  | cons y ys => simp at hres

theorem execWith_probe_plain (n1 n2 : St Sh → PNode → St Sh × Except Err Sh) (N : Nat) (t m : PNode) (hlt : ssize m < N)
    (st : St Sh) : execWith n1 (probeT N t) st m = execWith n2 plainT st m := by
  have hvis : ∀ x ∈ visited m, ∀ ev, probeH N t x ev = .ret (shapeOf ev) ∧ shapeH x ev = .ret (shapeOf ev) := by
    intro x hx ev
    apply probe_agrees
    rcases ssize_visited (ssize m + 1) m x (by omega) hx with h | h
    · subst h; exact hlt
    · omega
  have hrc := run_congr n1 n2 (probeH N t) shapeH (fun _ ev => shapeOf ev) (visited m) hvis ([] :: st)
  simp only [execWith, execImpl, probeT, plainT]
  rw [hrc]

theorem necessity_below_root (root m : PNode) (hm : m ∈ procedural root)
    (hmin : ∀ x ∈ procedural m, WFNode x) (hc : KeyConsistent m) (hbad : ¬ WFNode m) (fuel : Nat) (st : St Sh) :
    (exec (probeT (ssize root) m) (fuel + 2) st root).2 ≠ denoteF (probeT (ssize root) m) (fuel + 2) root := by
  have hmv : m ∈ visited root := by simp [visited, hm]
  have hlt : ssize m < ssize root := by
    rcases ssize_visited (ssize root + 1) root m (by omega) hmv with h | h
    · subst h
      rw [procedural_eq, mem_proceduralList] at hm
      obtain ⟨c, hc', hmc⟩ := hm
      have h1 := ssize_child m c hc'
      rcases ssize_visited (ssize c + 1) c m (by omega) hmc with h | h
      · subst h; omega
      · omega
    · exact h
  have hag := probe_agrees (ssize root) m
  -- the reference: the root hands up the reference result of `m`
  have hden : denoteF (probeT (ssize root) m) (fuel + 2) root = .ok (foldFlags PProp.isMany m.props.reverse []) := by
    show denote (denoteF (probeT (ssize root) m) (fuel + 1)) (probeT (ssize root) m) root = _
    rw [denote_probe_root]
    have : denoteF (probeT (ssize root) m) (fuel + 1) m = .ok (foldFlags PProp.isMany m.props.reverse []) :=
      denote_probe_inner _ _ m m hlt
    rw [this]
  rw [hden]
  intro hres
  have hfind : (probeT (ssize root) m).find root.cls = some (probeH (ssize root) m) := by simp [probeT, Handlers.find]
  obtain ⟨s, s', hn⟩ := execWith_call_root (exec (probeT (ssize root) m) (fuel + 1)) (probeT (ssize root) m)
    (probeH (ssize root) m) m root hfind (fun ev => by simp [probeH]) st _ hres
  have hnp : execWith (exec plainT fuel) plainT s m = (s', .ok (foldFlags PProp.isMany m.props.reverse [])) := by
    rw [← execWith_probe_plain (exec (probeT (ssize root) m) fuel) (exec plainT fuel) (ssize root) m m hlt s]
    exact hn
  have hne := necessity_at_root m hmin hc hbad (exec plainT fuel) (denoteF plainT fuel)
    (exec_sim plainT (plainT_good WF) fuel) s
  rw [hnp] at hne
  exact hne rfl

end Tranp.Procedure
