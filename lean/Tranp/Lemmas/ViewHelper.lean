/-
  Helper lemmas for property C08: the C++ view helpers (Model/ViewHelper.lean) decide by WHOLE type / class names.
-/
import Tranp.Model.ViewHelper
import Tranp.Lemmas.Fragment

namespace Tranp.ViewHelper
open Tranp Tranp.Fragment

theorem startsWith_iff : ∀ (s p : Str), Str.startsWith s p = true ↔ ∃ t, s = p ++ t
  | s, [] => by cases s <;> simp [Str.startsWith]
  | [], x :: xs => by simp [Str.startsWith]
  | c :: cs, x :: xs => by
    simp only [Str.startsWith, Bool.and_eq_true, decide_eq_true_eq, List.cons_append, List.cons.injEq]
    rw [startsWith_iff cs xs]
    constructor
    · rintro ⟨h, t, ht⟩; exact ⟨t, h, ht⟩
    · rintro ⟨t, h, ht⟩; exact ⟨h, t, ht⟩

theorem startsWith_append_self (p r : Str) : Str.startsWith (p ++ r) p = true :=
  (startsWith_iff _ _).2 ⟨r, rfl⟩

theorem takeWhile_all {α : Type} (p : α → Bool) (a : List α) (ha : ∀ c ∈ a, p c = true) : a.takeWhile p = a := by
  induction a with
  | nil => rfl
  | cons c cs ih => simp only [List.takeWhile, ha c (by simp)]; rw [ih (fun y hy => ha y (by simp [hy]))]

/-- the run of type characters at the start of `ty ++ rest` is `ty` -/
theorem takeWhile_typeName (ty rest : Str) (hty : TypeName ty) (hrest : Stops rest) :
    (ty ++ rest).takeWhile isTypeChar = ty := by
  cases rest with
  | nil => rw [List.append_nil]; exact takeWhile_all _ _ hty.2
  | cons x xs => exact takeWhile_append_stop isTypeChar ty x xs hty.2 (hrest x rfl)

theorem const5_type : ∀ c ∈ (['c','o','n','s','t'] : Str), isTypeChar c = true := by decide

/-- a text that begins with a type name other than `const` does not begin with the qualifier `const ` -/
theorem not_constBlank (ty rest : Str) (hty : TypeName ty) (hrest : Stops rest)
    (hc : ty ≠ ['c','o','n','s','t'] ∨ rest.head? ≠ some ' ') : Str.startsWith (ty ++ rest) constBlank = false := by
  cases h : Str.startsWith (ty ++ rest) constBlank with
  | false => rfl
  | true =>
    exfalso
    obtain ⟨t, ht⟩ := (startsWith_iff _ _).1 h
    have h1 := takeWhile_typeName ty rest hty hrest
    have h2 : (['c','o','n','s','t'] ++ ' ' :: t).takeWhile isTypeChar = ['c','o','n','s','t'] :=
      takeWhile_append_stop isTypeChar _ ' ' t const5_type (by decide)
    have ht' : ty ++ rest = ['c','o','n','s','t'] ++ ' ' :: t := by rw [ht]; rfl
    rw [ht', h2] at h1
    subst h1
    have hr : rest = ' ' :: t := List.append_cancel_left ht'
    rcases hc with hc | hc
    · exact hc rfl
    · exact hc (by rw [hr]; rfl)


/-- `VarType.annotated` on `<type name><rest>`: the decision depends on the annotations and on whether the WHOLE type name is
    listed as immutable — never on how the name begins -/
theorem annotated_typeName (ty rest : Str) (annos imm : List Str) (hty : TypeName ty) (hrest : Stops rest)
    (hc : ty ≠ ['c','o','n','s','t'] ∨ rest.head? ≠ some ' ') :
    annotated (ty ++ rest) annos imm = .ok (
      if annos.contains annoMutable then ty ++ rest
      else if annos.contains annoImmutable || imm.contains ty then toImmutable (ty ++ rest)
      else ty ++ rest) := by
  have hne : ty ++ rest ≠ [] := by
    intro e; exact hty.1 (List.append_eq_nil_iff.1 e).1
  unfold annotated
  rw [if_neg hne, not_constBlank ty rest hty hrest hc, takeWhile_typeName ty rest hty hrest]
  simp only [Bool.false_eq_true, if_false, if_neg hty.1]
  by_cases h1 : annoMutable ∈ annos <;> by_cases h2 : annoImmutable ∈ annos <;> by_cases h3 : ty ∈ imm <;> simp [h1, h2, h3]

theorem typeChar_not_space (c : Char) (h : isTypeChar c = true) : Regex.isSpaceChar c = false := by
  cases hs : Regex.isSpaceChar c with
  | false => rfl
  | true =>
    exfalso
    unfold Regex.isSpaceChar at hs
    simp only [Bool.or_eq_true, decide_eq_true_eq] at hs
    rcases hs with ((((((((( e | e) | e) | e) | e) | e) | e) | e) | e) | e) <;> (subst e; revert h; decide)

/-- group 2 of the `Param.VarType` pattern on `<type name><rest>` is the type name, unless the name is the qualifier itself -/
theorem varTypeGroup2_typeName (ty rest : Str) (hty : TypeName ty) (hrest : Stops rest) (hc : ty ≠ ['c','o','n','s','t']) :
    varTypeGroup2 (ty ++ rest) = some ty := by
  unfold varTypeGroup2
  simp only [takeWhile_typeName ty rest hty hrest]
  rw [if_neg (by intro h; exact hc h.1), if_neg hty.1]

/-- … and on `const <type name><rest>` it is the type name as well -/
theorem varTypeGroup2_const (ty rest : Str) (hty : TypeName ty) (hrest : Stops rest) :
    varTypeGroup2 (constBlank ++ ty ++ rest) = some ty := by
  obtain ⟨c, cs, rfl⟩ := List.exists_cons_of_ne_nil hty.1
  have hcs : Regex.isSpaceChar c = false := typeChar_not_space c (hty.2 c (by simp))
  have hplain : (constBlank ++ (c :: cs) ++ rest).takeWhile isTypeChar = ['c','o','n','s','t'] := by
    have : constBlank ++ (c :: cs) ++ rest = ['c','o','n','s','t'] ++ ' ' :: ((c :: cs) ++ rest) := by simp [constBlank]
    rw [this]; exact takeWhile_append_stop isTypeChar _ ' ' _ const5_type (by decide)
  have hdrop : (constBlank ++ (c :: cs) ++ rest).drop 5 = ' ' :: ((c :: cs) ++ rest) := by simp [constBlank]
  have hdw : (' ' :: ((c :: cs) ++ rest)).dropWhile Regex.isSpaceChar = (c :: cs) ++ rest := by
    have h1 : Regex.isSpaceChar ' ' = true := by decide
    simp only [List.dropWhile, h1, List.cons_append, hcs]
  unfold varTypeGroup2
  simp only [hplain, hdrop, hdw, takeWhile_typeName (c :: cs) rest hty hrest]
  simp

theorem mem_typeName_ne_lt (ty : Str) (hty : TypeName ty) : ∀ c ∈ ty, (decide (c ≠ '<')) = true := by
  intro c hc
  have := hty.2 c hc
  simp only [decide_eq_true_eq]
  intro e; subst e; revert this; decide

/-- `Param.var_type_origin` of `<type name>`, `<type name><…>`, `<type name>…*`, `<type name>…&` is the type name -/
theorem varTypeOrigin_typeName (ty rest : Str) (hty : TypeName ty) (hc : ty ≠ ['c','o','n','s','t'])
    (hrest : rest = [] ∨ rest.head? = some '<' ∨ (Stops rest ∧ endsWithRefOrPtr (ty ++ rest) = true)) :
    varTypeOrigin (ty ++ rest) = .ok ty := by
  have hstops : Stops rest := by
    rcases hrest with h | h | h
    · subst h; intro c hc'; simp at hc'
    · intro c hc'; rw [h] at hc'; cases hc'; decide
    · exact h.1
  unfold varTypeOrigin
  rw [not_constBlank ty rest hty hstops (Or.inl hc)]
  cases hend : endsWithRefOrPtr (ty ++ rest) with
  | true => simp only [Bool.false_or, if_true, varTypeGroup2_typeName ty rest hty hstops hc]
  | false =>
    simp only [Bool.false_or, Bool.false_eq_true, if_false]
    rcases hrest with h | h | h
    · subst h; rw [List.append_nil, takeWhile_all _ _ (mem_typeName_ne_lt ty hty)]
    · cases rest with
      | nil => simp at h
      | cons x xs =>
        simp at h; subst h
        rw [takeWhile_append_stop (fun c => decide (c ≠ '<')) ty '<' xs (mem_typeName_ne_lt ty hty) (by decide)]
    · rw [h.2] at hend; cases hend

/-- `Param.var_type_origin` of `const <type name>…` is the type name -/
theorem varTypeOrigin_const (ty rest : Str) (hty : TypeName ty) (hrest : Stops rest) :
    varTypeOrigin (constBlank ++ ty ++ rest) = .ok ty := by
  unfold varTypeOrigin
  have : Str.startsWith (constBlank ++ ty ++ rest) constBlank = true := by
    rw [List.append_assoc]; exact startsWith_append_self _ _
  rw [this]
  simp only [Bool.true_or, if_true, varTypeGroup2_const ty rest hty hrest]

theorem mem_args_ne_semi (args : Str) (h : ';' ∉ args) : ∀ c ∈ args ++ [')'], (decide (c ≠ ';')) = true := by
  intro c hc
  simp only [decide_eq_true_eq]
  rcases List.mem_append.1 hc with h1 | h1
  · intro e; subst e; exact h h1
  · simp at h1; subst h1; decide

/-- `SuperInitializer.parse('<Base>::__init__(<args>);')` = (`Base`, `args`) for every identifier and every `;`-free argument text -/
theorem superInitParse_wf (base args : Str) (hb : Word base) (ha : ';' ∉ args) :
    superInitParse (base ++ superCallMid ++ args ++ [')', ';']) = .ok (base, args) := by
  obtain ⟨c, cs, rfl⟩ := List.exists_cons_of_ne_nil hb.1
  have hs : (c :: cs) ++ superCallMid ++ args ++ [')', ';'] = (c :: cs) ++ ':' :: ([':','_','_','i','n','i','t','_','_','('] ++ args ++ [')', ';']) := by
    simp [superCallMid]
  have hw : ((c :: cs) ++ superCallMid ++ args ++ [')', ';']).takeWhile isWord = c :: cs := by
    rw [hs]; exact takeWhile_append_stop isWord _ ':' _ hb.2 (by decide)
  have hd : ((c :: cs) ++ superCallMid ++ args ++ [')', ';']).dropWhile isWord = superCallMid ++ (args ++ [')', ';']) := by
    rw [hs, dropWhile_append_stop isWord _ ':' _ hb.2 (by decide)]; simp [superCallMid]
  have hbody : (superCallMid ++ (args ++ [')', ';'])).drop superCallMid.length = args ++ [')', ';'] := by
    simp
  have hsplit : args ++ [')', ';'] = (args ++ [')']) ++ ';' :: [] := by simp
  have hta : (args ++ [')', ';']).takeWhile (fun c => decide (c ≠ ';')) = args ++ [')'] := by
    rw [hsplit]; exact takeWhile_append_stop _ _ ';' [] (mem_args_ne_semi args ha) (by decide)
  have htd : (args ++ [')', ';']).dropWhile (fun c => decide (c ≠ ';')) = [';'] := by
    rw [hsplit]; exact dropWhile_append_stop _ _ ';' [] (mem_args_ne_semi args ha) (by decide)
  have hat : superInitAt ((c :: cs) ++ superCallMid ++ args ++ [')', ';']) = some (c :: cs, args) := by
    unfold superInitAt
    simp only [hw, hd, startsWith_append_self, hbody, hta, htd]
    have he : Str.endsWith (args ++ [')']) [')'] = true := by
      unfold Str.endsWith; simp [Str.startsWith]
    simp [he]
  unfold superInitParse
  have : superInitSearch ((c :: cs) ++ superCallMid ++ args ++ [')', ';']) = some (c :: cs, args) := by
    have hcons : (c :: cs) ++ superCallMid ++ args ++ [')', ';'] = c :: (cs ++ superCallMid ++ args ++ [')', ';']) := by simp
    rw [hcons] at hat ⊢
    simp only [superInitSearch, hat]
  rw [this]

end Tranp.ViewHelper
