/-
  The generated shapes of `ErrorRender.Quotation` / `ErrorCollector` (Generated/QuotationShape.lean) evaluate to the
  hand-written model functions of Model/Quotation.lean.
-/
import Tranp.Generated.QuotationShape
import Tranp.Lemmas.Quotation

namespace Tranp.QShape
open Tranp Tranp.Lark Tranp.Quote Tranp.Generated

theorem pymax_one (x : Int) : (if (1 : Int) ≥ x then 1 else x) = max 1 x := by
  simp only [Int.max_def]
  split <;> split <;> omega

theorem loadLine_generated (raw : Str) :
    applyReplaces raw QuotationShape.loadLineReplaces = .ok (tabToSpace (dropNl raw)) := by
  simp [applyReplaces, QuotationShape.loadLineReplaces, replace1, tabToSpace, dropNl, bind, Except.bind]

theorem causeRange_generated (s : Span) (line : Str) :
    (do let b ← QuotationShape.causeRangeBegin.eval (spanEnv s line)
        let e ← QuotationShape.causeRangeEnd.eval (spanEnv s line)
        pure (b, e) : Except Err (Int × Int)) = .ok (causeRange line s) := by
  simp only [QuotationShape.causeRangeBegin, QuotationShape.causeRangeEnd, PExpr.eval, spanEnv, lookup, causeRange,
    bind, Except.bind, pure, Except.pure]
  by_cases h : s.bl = s.el <;> simp [h]

theorem lineMark_generated (r : Int × Int) : QuotationShape.lineMark.eval r = .ok (lineMark r) := by
  simp only [MarkShape.eval, QuotationShape.lineMark, PExpr.eval, lookup, lineMark, bind, Except.bind, pure, Except.pure]
  simp [pymax_one]

theorem collectorRange_generated (s : Span) (line : Str) :
    (do let b ← QuotationShape.collectorRangeBegin.eval (spanEnv s line)
        let e ← QuotationShape.collectorRangeEnd.eval (spanEnv s line)
        pure (b, e) : Except Err (Int × Int)) = .ok (causeRange line s) := by
  simp only [QuotationShape.collectorRangeBegin, QuotationShape.collectorRangeEnd, PExpr.eval, spanEnv, lookup, causeRange,
    bind, Except.bind, pure, Except.pure]
  by_cases h : s.bl = s.el <;> simp [h]

theorem collectorMark_generated (r : Int × Int) : QuotationShape.collectorMark.eval r = .ok (lineMark r) := by
  simp only [MarkShape.eval, QuotationShape.collectorMark, PExpr.eval, lookup, lineMark, bind, Except.bind, pure, Except.pure]
  simp [pymax_one]

theorem range_split (rb re : PExpr) (env : Env) (r : Int × Int)
    (h : (do let b ← rb.eval env; let e ← re.eval env; pure (b, e) : Except Err (Int × Int)) = .ok r) :
    rb.eval env = .ok r.1 ∧ re.eval env = .ok r.2 := by
  cases hb : rb.eval env with
  | error e => simp [hb, bind, Except.bind] at h
  | ok b =>
    cases he : re.eval env with
    | error e => simp [hb, he, bind, Except.bind] at h
    | ok e =>
      simp [hb, he, bind, Except.bind, pure, Except.pure] at h
      rw [← h]; exact ⟨rfl, rfl⟩

/-- `Quotation(filepath, span).build()` evaluated from the generated shapes is the model's `quotationBuild` -/
theorem quotationBuild_generated (fp content : Str) (s : Span) :
    quotationBuildBy QuotationShape.loadLineReplaces QuotationShape.causeRangeBegin QuotationShape.causeRangeEnd
      QuotationShape.lineMark QuotationShape.lineNo QuotationShape.buildLines fp content s = quotationBuild fp content s := by
  unfold quotationBuildBy quotationBuild loadLine
  cases hr : pyIndex (readlines content) s.bl with
  | error e => rfl
  | ok raw =>
    simp only [bind, Except.bind, loadLine_generated, pure, Except.pure]
    obtain ⟨h1, h2⟩ := range_split _ _ _ _ (causeRange_generated s (tabToSpace (dropNl raw)))
    simp only [h1, h2, lineMark_generated]
    simp [QuotationShape.lineNo, QuotationShape.buildLines, PExpr.eval, spanEnv, lookup, renderLines, renderParts,
      bind, Except.bind, pure, Except.pure, sViaNode, sIndent2, sQuote, sMarkIndent]

/-- `ErrorCollector._quotation_lines` evaluated from the generated shapes is the model's `collectorLines` -/
theorem collectorLines_generated (source : Str) (tokens : List Span) (steps : Int) :
    collectorLinesBy QuotationShape.collectorRangeBegin QuotationShape.collectorRangeEnd QuotationShape.collectorMark
      QuotationShape.collectorLineNo QuotationShape.collectorLines source tokens steps = collectorLines source tokens steps := by
  unfold collectorLinesBy collectorLines
  cases ht : pyIndex tokens steps with
  | error e => rfl
  | ok sm =>
    simp only [bind, Except.bind, QuotationShape.collectorLineNo, PExpr.eval, spanEnv, lookup, pure, Except.pure]
    simp only [show ((['b', 'l'] : Str) = ['b', 'l']) = True from by simp, if_true]
    cases hl : pyIndex (Str.splitOn '\n' source) sm.bl with
    | error e => rfl
    | ok line =>
      obtain ⟨h1, h2⟩ := range_split _ _ _ _ (collectorRange_generated sm line)
      simp only [spanEnv] at h1 h2
      simp only [h1, h2, collectorMark_generated]
      simp [QuotationShape.collectorLines, lookup, renderLines, renderParts, bind, Except.bind, pure, Except.pure,
        sCollQuote, sCollIndent]

end Tranp.QShape
