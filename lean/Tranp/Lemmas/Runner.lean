/-
  Helper lemmas for property C06 (runner decision model, Tranp/Model/Runner.lean):
  string search (`find`, `rfind`, slicing), the JSON printer, the header slice, the write loop and its invariants.
-/
import Tranp.Model.Runner
import Tranp.Lemmas.AstPath.StrCodec

namespace Tranp.Runner
open Tranp

/-! ### `startswith` / `find` -/

theorem startsWith_append_self (p r : Str) : Str.startsWith (p ++ r) p = true := by
  induction p with
  | nil => cases r <;> simp [Str.startsWith]
  | cons c cs ih => simp [Str.startsWith, ih]

theorem startsWith_append_of_le (a b p : Str) (h : p.length ≤ a.length) :
    Str.startsWith (a ++ b) p = Str.startsWith a p := by
  induction p generalizing a with
  | nil => cases a <;> cases b <;> simp [Str.startsWith]
  | cons c cs ih =>
    cases a with
    | nil => simp at h
    | cons x xs =>
      simp only [List.cons_append, Str.startsWith]
      rw [ih xs (by simpa using h)]

theorem find_go_shift (p s : Str) (i : Nat) : Str.find.go p s i = (Str.find.go p s 0).map (· + i) := by
  induction s generalizing i with
  | nil => simp only [Str.find.go]; split <;> simp
  | cons c cs ih =>
    simp only [Str.find.go]
    split
    · simp
    · rw [ih (i + 1), ih (0 + 1)]
      cases Str.find.go p cs 0 with
      | none => simp
      | some k => simp; omega

/-- no occurrence of `tag` starts inside `pre` (an occurrence starting there would end inside `pre ++ tag`) -/
def NoEarly (tag pre : Str) : Prop := ∀ k, k < pre.length → Str.startsWith ((pre ++ tag).drop k) tag = false

instance (tag pre : Str) : Decidable (NoEarly tag pre) := by unfold NoEarly; infer_instance

theorem NoEarly.tail {tag : Str} {x : Char} {xs : Str} (h : NoEarly tag (x :: xs)) : NoEarly tag xs := by
  intro k hk
  have := h (k + 1) (by simpa using hk)
  simpa using this

theorem find_after_pre (tag pre rest : Str) (hne : tag ≠ []) (h : NoEarly tag pre) :
    Str.find (pre ++ tag ++ rest) tag = some pre.length := by
  unfold Str.find
  induction pre with
  | nil =>
    cases tag with
    | nil => exact absurd rfl hne
    | cons t ts =>
      simp only [List.nil_append, List.cons_append, Str.find.go]
      have := startsWith_append_self (t :: ts) rest
      simp only [List.cons_append] at this
      simp [this]
  | cons x xs ih =>
    have h0 := h 0 (by simp)
    simp only [List.drop_zero] at h0
    have hsw : Str.startsWith (x :: xs ++ tag ++ rest) tag = false := by
      rw [startsWith_append_of_le (x :: xs ++ tag) rest tag (by simp; omega), h0]
    simp only [List.cons_append] at hsw ⊢
    simp only [Str.find.go, hsw]
    rw [find_go_shift]
    have := ih h.tail
    simp only [List.append_assoc] at this ⊢
    simp [this]

theorem find_char_after (c : Char) (x y : Str) (h : c ∉ x) : Str.find (x ++ c :: y) [c] = some x.length := by
  unfold Str.find
  induction x with
  | nil => simp [Str.find.go, Str.startsWith]
  | cons a as ih =>
    simp at h
    have hne : ¬ a = c := fun e => h.1 e.symm
    simp only [List.cons_append, Str.find.go, Str.startsWith]
    cases hy : as ++ c :: y with
    | nil => simp at hy
    | cons z zs =>
      rw [← hy, find_go_shift, ih h.2]
      simp [hne]

theorem lastIdx_snoc (c : Char) (x : Str) : lastIdx c (x ++ [c]) = some x.length := by
  induction x with
  | nil => simp [lastIdx]
  | cons a as ih => simp [lastIdx, ih]

/-! ### CPython index adjustment on non-negative arguments -/

theorem adjStart_nat (len n : Nat) : adjStart len (n : Int) = n := by
  unfold adjStart
  have : ¬ ((n : Int) < 0) := by omega
  simp [this]

theorem adjEnd_nat (len n : Nat) : adjEnd len (n : Int) = min n len := by
  unfold adjEnd
  have : ¬ ((n : Int) < 0) := by omega
  simp [this]

theorem pyFind_nat (s sub : Str) (n : Nat) (h : n ≤ s.length) :
    pyFind s sub (n : Int) = match Str.find (s.drop n) sub with
      | some i => ((n + i : Nat) : Int)
      | none => -1 := by
  unfold pyFind
  simp only [adjStart_nat]
  have : ¬ s.length < n := by omega
  rw [if_neg this]
  cases Str.find (List.drop n s) sub <;> simp

/-! ### the JSON printer emits no raw line break and closes an object with `}` -/

theorem hexDigit_ne_newline : ∀ n, n < 16 → hexDigit n ≠ '\n' := by decide

theorem u4_no_newline (n : Nat) : '\n' ∉ u4 n := by
  unfold u4
  have h1 := hexDigit_ne_newline (n / 4096 % 16) (by omega)
  have h2 := hexDigit_ne_newline (n / 256 % 16) (by omega)
  have h3 := hexDigit_ne_newline (n / 16 % 16) (by omega)
  have h4 := hexDigit_ne_newline (n % 16) (by omega)
  simp only [List.mem_cons, List.not_mem_nil, or_false, not_or]
  exact ⟨by decide, by decide, fun e => h1 e.symm, fun e => h2 e.symm, fun e => h3 e.symm, fun e => h4 e.symm⟩

theorem escChar_no_newline (c : Char) : '\n' ∉ escChar c := by
  unfold escChar
  split
  · decide
  · split
    · decide
    · split
      · decide
      · split
        · decide
        · split
          · decide
          · split
            · decide
            · split
              · decide
              · split
                · rename_i h _ _ _ _ _
                  simp; exact fun e => h e.symm
                · split
                  · exact u4_no_newline _
                  · simp only [List.mem_append, not_or]
                    exact ⟨u4_no_newline _, u4_no_newline _⟩

theorem dumpStr_no_newline (s : Str) : '\n' ∉ dumpStr s := by
  unfold dumpStr
  simp only [List.mem_cons, List.mem_append, List.mem_flatMap, List.not_mem_nil, or_false, not_or, not_exists, not_and]
  exact ⟨by decide, fun c _ => escChar_no_newline c, by decide⟩

theorem intToDec_no_newline (i : Int) : '\n' ∉ Str.intToDec i := by
  have hd : ∀ n, '\n' ∉ Str.natToDec n := by
    intro n hm
    have := StrCodec.natToDec_digits n _ hm
    revert this; decide
  unfold Str.intToDec
  split
  · simp only [List.mem_cons, not_or]; exact ⟨by decide, hd _⟩
  · exact hd _

mutual
  theorem dumps_no_newline : (j : Json) → '\n' ∉ dumps j
    | .null => by simp only [dumps]; decide
    | .bool true => by simp only [dumps]; decide
    | .bool false => by simp only [dumps]; decide
    | .num i => by simp only [dumps]; exact intToDec_no_newline i
    | .str s => by simp only [dumps]; exact dumpStr_no_newline s
    | .arr [] => by simp only [dumps]; decide
    | .arr (x :: xs) => by
      simp only [dumps, List.mem_cons, List.mem_append, List.not_mem_nil, or_false, not_or]
      exact ⟨by decide, dumps_no_newline x, dumpsTail_no_newline xs, by decide⟩
    | .obj [] => by simp only [dumps]; decide
    | .obj ((k, v) :: kvs) => by
      simp only [dumps, List.mem_cons, List.mem_append, List.not_mem_nil, or_false, not_or]
      exact ⟨by decide, dumpStr_no_newline k, by decide, dumps_no_newline v, dumpsKvTail_no_newline kvs, by decide⟩
  theorem dumpsTail_no_newline : (xs : List Json) → '\n' ∉ dumpsTail xs
    | [] => by simp [dumpsTail]
    | x :: xs => by
      simp only [dumpsTail, List.mem_cons, List.mem_append, not_or]
      exact ⟨by decide, dumps_no_newline x, dumpsTail_no_newline xs⟩
  theorem dumpsKvTail_no_newline : (kvs : List (Str × Json)) → '\n' ∉ dumpsKvTail kvs
    | [] => by simp [dumpsKvTail]
    | (k, v) :: kvs => by
      simp only [dumpsKvTail, List.mem_cons, List.mem_append, not_or]
      exact ⟨by decide, dumpStr_no_newline k, by decide, dumps_no_newline v, dumpsKvTail_no_newline kvs⟩
end

theorem dumps_obj_last (kvs : List (Str × Json)) : ∃ x, dumps (.obj kvs) = x ++ ['}'] := by
  cases kvs with
  | nil => exact ⟨['{'], by simp [dumps]⟩
  | cons kv kvs =>
    obtain ⟨k, v⟩ := kv
    exact ⟨'{' :: (dumpStr k ++ ':' :: (dumps v ++ dumpsKvTail kvs)), by simp [dumps]⟩

theorem toJson_no_newline (h : Header) : '\n' ∉ h.toJson := dumps_no_newline _

theorem toJson_last (h : Header) : ∃ x, h.toJson = x ++ ['}'] := dumps_obj_last _

/-! ### the header slice -/

theorem Tag_length : Tag.length = 11 := rfl

/-- core of `try_from_content`: with the tag first occurring right after `pre`, a JSON text `j` that has no raw line break and
    ends with `}`, and a line break after it, the text handed to `from_json` is exactly `' ' ++ j`. -/
theorem headerSlice_line (pre j body : Str) (hpre : NoEarly Tag pre) (hnl : '\n' ∉ j) (hlast : ∃ x, j = x ++ ['}']) :
    headerSlice (pre ++ (Tag ++ (':' :: ' ' :: j)) ++ '\n' :: body) = some (' ' :: j) := by
  obtain ⟨x, hx⟩ := hlast
  -- the content as `a ++ (' ' :: j) ++ '\n' :: body`, `a` = everything up to and including the colon
  let a : Str := pre ++ Tag ++ [':']
  have hcontent : pre ++ (Tag ++ (':' :: ' ' :: j)) ++ '\n' :: body = a ++ ((' ' :: j) ++ '\n' :: body) := by
    simp [a]
  have hcontent' : pre ++ (Tag ++ (':' :: ' ' :: j)) ++ '\n' :: body = pre ++ Tag ++ (':' :: ' ' :: (j ++ '\n' :: body)) := by
    simp
  have ha : a.length = pre.length + 12 := by simp [a, Tag_length]
  have hfind : pyFind (pre ++ (Tag ++ (':' :: ' ' :: j)) ++ '\n' :: body) Tag 0 = (pre.length : Int) := by
    have := pyFind_nat (pre ++ (Tag ++ (':' :: ' ' :: j)) ++ '\n' :: body) Tag 0 (by omega)
    simp only [Int.natCast_zero, List.drop_zero] at this
    have hcast : ((0 : Nat) : Int) = 0 := rfl
    rw [show (0 : Int) = ((0 : Nat) : Int) from rfl, pyFind_nat _ _ 0 (by omega)]
    simp only [List.drop_zero]
    rw [hcontent', find_after_pre Tag pre _ (by decide) hpre]
    simp
  unfold headerSlice
  simp only [hfind]
  have hne : ¬ ((pre.length : Int) = -1) := by omega
  simp only [hne, if_false]
  have hjb : (pre.length : Int) + (Tag.length : Int) + 1 = ((a.length : Nat) : Int) := by
    rw [ha, Tag_length]; omega
  rw [hjb, hcontent]
  have hlen : a.length ≤ (a ++ ((' ' :: j) ++ '\n' :: body)).length := by simp
  have hnl' : '\n' ∉ (' ' :: j) := by
    simp only [List.mem_cons, not_or]; exact ⟨by decide, hnl⟩
  have hlb : pyFind (a ++ ((' ' :: j) ++ '\n' :: body)) ['\n'] ((a.length : Nat) : Int) = ((a.length + (j.length + 1) : Nat) : Int) := by
    rw [pyFind_nat _ _ _ hlen, List.drop_left, find_char_after '\n' (' ' :: j) body hnl']
    simp
  rw [hlb]
  have hseg : ((a ++ ((' ' :: j) ++ '\n' :: body)).take (a.length + (j.length + 1))).drop a.length = ' ' :: j := by
    rw [List.take_append]
    simp
  have hrf : pyRfindChar (a ++ ((' ' :: j) ++ '\n' :: body)) '}' ((a.length : Nat) : Int) ((a.length + (j.length + 1) : Nat) : Int)
      = ((a.length + j.length : Nat) : Int) := by
    unfold pyRfindChar
    simp only [adjStart_nat, adjEnd_nat]
    have hmin : min (a.length + (j.length + 1)) (a ++ ((' ' :: j) ++ '\n' :: body)).length = a.length + (j.length + 1) := by
      simp
    rw [hmin, hseg, hx]
    have : ' ' :: (x ++ ['}']) = (' ' :: x) ++ ['}'] := rfl
    rw [this, lastIdx_snoc]
    simp
  rw [hrf]
  have hje : ((a.length + j.length : Nat) : Int) + 1 = ((a.length + (j.length + 1) : Nat) : Int) := by omega
  rw [hje]
  unfold pySlice
  simp only [adjStart_nat, adjEnd_nat]
  have hmin : min (a.length + (j.length + 1)) (a ++ ((' ' :: j) ++ '\n' :: body)).length = a.length + (j.length + 1) := by
    simp
  rw [hmin, hseg]

/-! ### header round trip -/

/-- `h` is a value `MetaHeader.__init__` can hold: the version is truthy, or it is the substituted `Versions.app` -/
def Header.Normal (av : Str) (h : Header) : Prop := falsy h.version = false ∨ h.version = .str av

theorem lookup_kModule (v m t : Json) : List.lookup kModule [(kVersion, v), (kModule, m), (kTranspiler, t)] = some m := rfl
theorem lookup_kTranspiler (v m t : Json) : List.lookup kTranspiler [(kVersion, v), (kModule, m), (kTranspiler, t)] = some t := rfl
theorem lookup_kVersion (v m t : Json) : List.lookup kVersion [(kVersion, v), (kModule, m), (kTranspiler, t)] = some v := rfl

theorem make_normal (av : Str) (h : Header) (hn : h.Normal av) : Header.make av h.module h.transpiler (some h.version) = h := by
  cases h with
  | mk v m t =>
    simp only [Header.make]
    rcases hn with hf | hv
    · simp only at hf; simp [hf]
    · simp only at hv; subst hv; split <;> rfl

theorem fromJson_of_loads (loads : Str → Except Err Json) (av text : Str) (h : Header)
    (hl : loads text = .ok h.toJsonVal) (hn : h.Normal av) : fromJson loads av text = .ok h := by
  unfold fromJson
  simp only [hl, Header.toJsonVal, getItem, lookup_kModule, lookup_kTranspiler, lookup_kVersion, bind, Except.bind, pure, Except.pure]
  rw [make_normal av h hn]

theorem curHeader_normal {σ : Type} (E : Env σ) (s : σ) (m : Str) : (curHeader E s m).Normal E.appVersion := Or.inr rfl

theorem tryFromContent_line (loads : Str → Except Err Json) (av pre body : Str) (h : Header)
    (hpre : NoEarly Tag pre) (hl : loads (' ' :: h.toJson) = .ok h.toJsonVal) (hn : h.Normal av) :
    tryFromContent loads av (pre ++ h.toHeaderStr ++ '\n' :: body) = .ok (some h) := by
  unfold tryFromContent Header.toHeaderStr
  rw [headerSlice_line pre h.toJson body hpre (toJson_no_newline h) (toJson_last h)]
  simp only [fromJson_of_loads loads av _ h hl hn, Except.map]

theorem noEarly_comment : NoEarly Tag ['/', '/', ' '] := by decide

/-! ### configuration congruence -/

theorem outputFilepath_congr (c1 c2 : Cfg) (hd : c1.dirs = c2.dirs) (hl : c1.lang = c2.lang) (hc : c1.cwd = c2.cwd) (m : Str) :
    outputFilepath c1 m = outputFilepath c2 m := by
  unfold outputFilepath; rw [hd, hl, hc]

theorem noOverlapFrom_congr (c1 c2 : Cfg) (h : ∀ m, outputFilepath c1 m = outputFilepath c2 m) (ms : List Str) :
    noOverlapFrom c1 ms = noOverlapFrom c2 ms := by
  induction ms with
  | nil => rfl
  | cons m ms ih => simp only [noOverlapFrom, h, ih]

theorem isOkEq_iff (r : Except Err Str) (p : Str) : isOkEq r p = true ↔ r = .ok p := by
  cases r with
  | error e => simp [isOkEq]
  | ok q => simp [isOkEq]

/-- the decidable check says exactly: every module has a path, and modules at different list positions have different paths -/
theorem noOverlapFrom_iff (cfg : Cfg) (ms : List Str) :
    noOverlapFrom cfg ms = true ↔
      (∀ m ∈ ms, ∃ p, outputFilepath cfg m = .ok p) ∧ ms.Pairwise (fun a b => outputFilepath cfg a ≠ outputFilepath cfg b) := by
  induction ms with
  | nil => simp [noOverlapFrom]
  | cons m ms ih =>
    simp only [noOverlapFrom, Bool.and_eq_true, ih, List.mem_cons, forall_eq_or_imp, List.pairwise_cons]
    constructor
    · rintro ⟨h1, h2, h3⟩
      cases hp : outputFilepath cfg m with
      | error e => simp [hp] at h1
      | ok p =>
        simp only [hp, List.all_eq_true, Bool.not_eq_true', ] at h1
        refine ⟨⟨⟨p, rfl⟩, h2⟩, ?_, h3⟩
        intro m' hm' heq
        have := h1 m' hm'
        have h' : isOkEq (outputFilepath cfg m') p = true := (isOkEq_iff _ _).2 heq.symm
        rw [h'] at this; cases this
    · rintro ⟨⟨⟨p, hp⟩, h2⟩, h3, h4⟩
      refine ⟨?_, h2, h4⟩
      simp only [hp, List.all_eq_true, Bool.not_eq_true']
      intro m' hm'
      cases hq : isOkEq (outputFilepath cfg m') p with
      | false => rfl
      | true =>
        have := (isOkEq_iff _ _).1 hq
        exact absurd (hp.trans this.symm) (h3 m' hm')

/-! ### the write loop -/

variable {σ : Type}

theorem write_cfg (w : World σ) (p : Str) (c : Text) : (w.write p c).cfg = w.cfg := rfl
theorem write_src (w : World σ) (p : Str) (c : Text) : (w.write p c).src = w.src := rfl
theorem write_mods (w : World σ) (p : Str) (c : Text) : (w.write p c).mods = w.mods := rfl

theorem writeAll_frame (E : Env σ) (ms : List Str) (w : World σ) :
    (writeAll E w ms).world.cfg = w.cfg ∧ (writeAll E w ms).world.src = w.src ∧ (writeAll E w ms).world.mods = w.mods := by
  induction ms generalizing w with
  | nil => simp [writeAll]
  | cons m ms ih =>
    simp only [writeAll]
    cases hr : render E w.src m with
    | error e => simp
    | ok c =>
      cases hq : outputFilepath w.cfg m with
      | error e => simp
      | ok p =>
        have := ih (w.write p c)
        simpa [write_cfg, write_src, write_mods] using this

theorem writeAll_untouched (E : Env σ) (ms : List Str) (w : World σ) (p : Str) (hp : p ∉ (writeAll E w ms).written) :
    (writeAll E w ms).world.files p = w.files p := by
  induction ms generalizing w with
  | nil => simp [writeAll]
  | cons m ms ih =>
    simp only [writeAll] at hp ⊢
    cases hr : render E w.src m with
    | error e => rfl
    | ok c =>
      cases hq : outputFilepath w.cfg m with
      | error e => rfl
      | ok q =>
        simp only [hr, hq, List.mem_cons, not_or] at hp ⊢
        rw [ih (w.write q c) hp.2]
        simp [World.write, hp.1]

theorem writeAll_written (E : Env σ) (ms : List Str) (w : World σ) :
    ∀ p ∈ (writeAll E w ms).written, ∃ m ∈ ms, outputFilepath w.cfg m = .ok p := by
  induction ms generalizing w with
  | nil => simp [writeAll]
  | cons m ms ih =>
    simp only [writeAll]
    cases hr : render E w.src m with
    | error e => simp
    | ok c =>
      cases hq : outputFilepath w.cfg m with
      | error e => simp
      | ok q =>
        intro p hp
        simp only [List.mem_cons] at hp
        rcases hp with rfl | hp
        · exact ⟨m, by simp, hq⟩
        · obtain ⟨m', hm', h'⟩ := ih (w.write q c) p hp
          exact ⟨m', by simp [hm'], by simpa [write_cfg] using h'⟩

theorem selectFrom_sublist (E : Env σ) (w : World σ) (ms ts : List Str) (h : selectFrom E w ms = .ok ts) : ts.Sublist ms := by
  induction ms generalizing ts with
  | nil => simp [selectFrom] at h; subst h; exact List.Sublist.refl _
  | cons m ms ih =>
    simp only [selectFrom] at h
    cases hb : canTranspile E w m with
    | error e => simp [hb] at h
    | ok b =>
      cases hts : selectFrom E w ms with
      | error e => simp [hb, hts] at h
      | ok ts' =>
        simp only [hb, hts, Except.ok.injEq] at h
        subst h
        cases b with
        | true => simpa using (ih ts' hts)
        | false => simpa using (ih ts' hts).cons m

theorem selectFrom_mem (E : Env σ) (w : World σ) (ms ts : List Str) (h : selectFrom E w ms = .ok ts) (m : Str) :
    m ∈ ts ↔ m ∈ ms ∧ canTranspile E w m = .ok true := by
  induction ms generalizing ts with
  | nil => simp [selectFrom] at h; subst h; simp
  | cons x ms ih =>
    simp only [selectFrom] at h
    cases hb : canTranspile E w x with
    | error e => simp [hb] at h
    | ok b =>
      cases hts : selectFrom E w ms with
      | error e => simp [hb, hts] at h
      | ok ts' =>
        simp only [hb, hts, Except.ok.injEq] at h
        subst h
        have := ih ts' hts
        by_cases hxm : m = x
        · subst hxm
          cases b with
          | true => simp [hb]
          | false => simp [hb, this]
        · cases b with
          | true => simp [hxm, this]
          | false => simp [hxm, this]

theorem selectFrom_filter (E : Env σ) (w : World σ) (sel : Str → Bool) (ms : List Str)
    (h : ∀ m ∈ ms, canTranspile E w m = .ok (sel m)) : selectFrom E w ms = .ok (ms.filter sel) := by
  induction ms with
  | nil => rfl
  | cons m ms ih =>
    simp only [selectFrom, h m (by simp), ih (fun x hx => h x (by simp [hx]))]
    cases hs : sel m <;> simp [List.filter, hs]

/-! ### same contents -/

theorem sameContents_refl (a : Str → Option File) : SameContents a a := fun _ => rfl

theorem sameContents_write_both (wa wb : World σ) (p : Str) (c : Text) (h : SameContents wa.files wb.files) :
    SameContents (wa.write p c).files (wb.write p c).files := by
  intro q
  simp only [World.write]
  split
  · rfl
  · exact h q

theorem sameContents_write_right (wa wb : World σ) (p : Str) (c : Text) (h : SameContents wa.files wb.files)
    (hp : (wa.files p).map (·.content) = some c) : SameContents wa.files (wb.write p c).files := by
  intro q
  simp only [World.write]
  split
  · rename_i hq; subst hq; simpa using hp
  · exact h q

/-- the heart of the fix-point argument: writing only the selected modules gives the same contents as writing all of them,
    provided every unselected module's file already holds what would be written and no two modules share a path -/
theorem writeAll_filter_same (E : Env σ) (sel : Str → Bool) (ms : List Str) (wa wb : World σ)
    (hsrc : wa.src = wb.src) (hcfg : wa.cfg = wb.cfg)
    (hpw : ms.Pairwise (fun a b => outputFilepath wa.cfg a ≠ outputFilepath wa.cfg b))
    (hsame : SameContents wa.files wb.files)
    (hup : ∀ m ∈ ms, sel m = false → ∃ c p, render E wa.src m = .ok c ∧ outputFilepath wa.cfg m = .ok p ∧
      (wa.files p).map (·.content) = some c) :
    SameContents (writeAll E wa (ms.filter sel)).world.files (writeAll E wb ms).world.files := by
  induction ms generalizing wa wb with
  | nil => simpa [writeAll] using hsame
  | cons m ms ih =>
    rw [List.pairwise_cons] at hpw
    cases hs : sel m with
    | true =>
      simp only [List.filter, hs, writeAll, ← hsrc, ← hcfg]
      cases hr : render E wa.src m with
      | error e => simpa using hsame
      | ok c =>
        cases hq : outputFilepath wa.cfg m with
        | error e => simpa using hsame
        | ok p =>
          simp only
          apply ih (wa.write p c) (wb.write p c) (by simp [write_src, hsrc]) (by simp [write_cfg, hcfg]) (by simpa [write_cfg] using hpw.2)
            (sameContents_write_both wa wb p c hsame)
          intro m' hm' hs'
          obtain ⟨c', p', h1, h2, h3⟩ := hup m' (by simp [hm']) hs'
          refine ⟨c', p', by simpa [write_src] using h1, by simpa [write_cfg] using h2, ?_⟩
          have hne : p' ≠ p := by
            intro e; subst e
            exact hpw.1 m' hm' (hq.trans h2.symm)
          simpa [World.write, hne] using h3
    | false =>
      obtain ⟨c, p, h1, h2, h3⟩ := hup m (by simp) hs
      simp only [List.filter, hs]
      have hb : writeAll E wb (m :: ms) = ⟨(writeAll E (wb.write p c) ms).world, p :: (writeAll E (wb.write p c) ms).written, (writeAll E (wb.write p c) ms).status⟩ := by
        simp only [writeAll, ← hsrc, ← hcfg, h1, h2]
      rw [hb]
      simp only
      apply ih wa (wb.write p c) (by simp [write_src, hsrc]) (by simp [write_cfg, hcfg]) hpw.2
        (sameContents_write_right wa wb p c hsame h3)
      intro m' hm' hs'
      exact hup m' (by simp [hm']) hs'

/-! ### the provenance invariant and the fix-point under own-source-only outputs -/

/-- every output file is the rendering of some listed module with some source whose transpilation succeeded -/
def Inv (E : Env σ) (bodyOf : Str → σ → Except Err Text) (mods : List Str) (files : Str → Option File) : Prop :=
  ∀ p f, files p = some f → ∃ m ∈ mods, ∃ s b, bodyOf m s = .ok b ∧ f.content = renderText E s m b

/-- the transpiled body of a module depends on that module's own source only -/
def OwnSource (E : Env σ) (bodyOf : Str → σ → Except Err Text) : Prop := ∀ src m, E.out src m = bodyOf m (src m)

/-- `json.loads` decodes the header JSON the runner itself writes for the listed modules -/
def LoadsSound (E : Env σ) (mods : List Str) : Prop :=
  ∀ s, ∀ m ∈ mods, E.loads (' ' :: (curHeader E s m).toJson) = .ok (curHeader E s m).toJsonVal

/-- md5 does not collide on the header texts of the listed modules -/
def IdInj (E : Env σ) (mods : List Str) : Prop :=
  ∀ s s', ∀ m ∈ mods, ∀ m' ∈ mods, E.md5 (curHeader E s m).toJson = E.md5 (curHeader E s' m').toJson →
    (curHeader E s m).toJson = (curHeader E s' m').toJson

/-- md5 does not collide on the source texts -/
def HashInj (E : Env σ) : Prop := ∀ s s', E.hash s = E.hash s' → s = s'

theorem render_own (E : Env σ) (bodyOf : Str → σ → Except Err Text) (hown : OwnSource E bodyOf) (src : Str → σ) (m : Str) :
    render E src m = match bodyOf m (src m) with
      | .error e => .error e
      | .ok b => .ok (renderText E (src m) m b) := by
  unfold render; rw [hown src m]
  cases bodyOf m (src m) <;> rfl

theorem inv_write (E : Env σ) (bodyOf : Str → σ → Except Err Text) (mods : List Str) (w : World σ) (p m : Str) (b : Text)
    (hm : m ∈ mods) (hb : bodyOf m (w.src m) = .ok b) (hinv : Inv E bodyOf mods w.files) :
    Inv E bodyOf mods (w.write p (renderText E (w.src m) m b)).files := by
  intro q f hf
  simp only [World.write] at hf
  split at hf
  · injection hf with hf; subst hf
    exact ⟨m, hm, w.src m, b, hb, rfl⟩
  · exact hinv q f hf

theorem inv_writeAll (E : Env σ) (bodyOf : Str → σ → Except Err Text) (hown : OwnSource E bodyOf) (mods ms : List Str)
    (hsub : ∀ m ∈ ms, m ∈ mods) (w : World σ) (hinv : Inv E bodyOf mods w.files) :
    Inv E bodyOf mods (writeAll E w ms).world.files := by
  induction ms generalizing w with
  | nil => simpa [writeAll] using hinv
  | cons m ms ih =>
    simp only [writeAll]
    rw [render_own E bodyOf hown]
    cases hb : bodyOf m (w.src m) with
    | error e => simpa using hinv
    | ok b =>
      cases hq : outputFilepath w.cfg m with
      | error e => simpa using hinv
      | ok p =>
        simp only
        exact ih (fun x hx => hsub x (by simp [hx])) _ (inv_write E bodyOf mods w p m b (hsub m (by simp)) hb hinv)

theorem parse_rendered (E : Env σ) (mods : List Str) (hls : LoadsSound E mods) (s : σ) (m : Str) (hm : m ∈ mods) (b : Text) :
    tryFromContent E.loads E.appVersion (renderText E s m b) = .ok (some (curHeader E s m)) := by
  unfold renderText
  rw [← List.append_assoc]
  exact tryFromContent_line E.loads E.appVersion _ b _ noEarly_comment (hls s m hm) (curHeader_normal E s m)

theorem header_eq_of_toJson (E : Env σ) (mods : List Str) (hls : LoadsSound E mods) (s s' : σ) (m m' : Str)
    (hm : m ∈ mods) (hm' : m' ∈ mods) (h : (curHeader E s m).toJson = (curHeader E s' m').toJson) :
    E.hash s = E.hash s' ∧ m = m' := by
  have h1 := hls s m hm
  have h2 := hls s' m' hm'
  rw [h, h2] at h1
  simp only [curHeader, Header.make, Header.toJsonVal, moduleMeta, Except.ok.injEq, Json.obj.injEq, List.cons.injEq,
    Prod.mk.injEq, Json.str.injEq, true_and, and_true] at h1
  exact ⟨h1.1.symm, h1.2.symm⟩

theorem canTranspile_total (E : Env σ) (bodyOf : Str → σ → Except Err Text) (w : World σ) (hls : LoadsSound E w.mods)
    (hinv : Inv E bodyOf w.mods w.files) (m p : Str) (hp : outputFilepath w.cfg m = .ok p) :
    ∃ b, canTranspile E w m = .ok b := by
  cases hf : w.files p with
  | none => exact ⟨true, by simp only [canTranspile, tryLoadMetaHeader, hp, hf]⟩
  | some f =>
    obtain ⟨m', hm', s', b', _, hc⟩ := hinv p f hf
    refine ⟨Header.identity E.md5 (curHeader E (w.src m) m) != Header.identity E.md5 (curHeader E s' m'), ?_⟩
    simp only [canTranspile, tryLoadMetaHeader, hp, hf, hc, parse_rendered E w.mods hls s' m' hm' b']

theorem canTranspile_false (E : Env σ) (bodyOf : Str → σ → Except Err Text) (w : World σ)
    (hown : OwnSource E bodyOf) (hls : LoadsSound E w.mods) (hid : IdInj E w.mods) (hh : HashInj E)
    (hinv : Inv E bodyOf w.mods w.files) (m p : Str) (hm : m ∈ w.mods) (hp : outputFilepath w.cfg m = .ok p)
    (hc : canTranspile E w m = .ok false) :
    ∃ c, render E w.src m = .ok c ∧ (w.files p).map (·.content) = some c := by
  cases hf : w.files p with
  | none => simp [canTranspile, tryLoadMetaHeader, hp, hf] at hc
  | some f =>
    obtain ⟨m', hm', s', b', hb', hcont⟩ := hinv p f hf
    simp only [canTranspile, tryLoadMetaHeader, hp, hf, hcont, parse_rendered E w.mods hls s' m' hm' b', Except.ok.injEq, Header.identity] at hc
    have hmd5 : E.md5 (curHeader E (w.src m) m).toJson = E.md5 (curHeader E s' m').toJson := by
      simpa using hc
    have htj := hid (w.src m) s' m hm m' hm' hmd5
    obtain ⟨hhash, hmm⟩ := header_eq_of_toJson E w.mods hls (w.src m) s' m m' hm hm' htj
    have hs : w.src m = s' := hh _ _ hhash
    subst hmm
    subst hs
    refine ⟨renderText E (w.src m) m b', ?_, by simp [hcont]⟩
    rw [render_own E bodyOf hown, hb']

/-- a plain run produces the contents a forced run produces, in every state that satisfies the invariant -/
theorem runStep_same_as_forced (E : Env σ) (bodyOf : Str → σ → Except Err Text) (w : World σ)
    (hown : OwnSource E bodyOf) (hls : LoadsSound E w.mods) (hid : IdInj E w.mods) (hh : HashInj E)
    (hno : NoOverlap w.cfg w.mods) (hinv : Inv E bodyOf w.mods w.files) (f : Bool) :
    SameContents (runStep E w f).world.files (forcedRun E w).world.files := by
  obtain ⟨hpaths, hpw⟩ := (noOverlapFrom_iff w.cfg w.mods).1 hno
  unfold runStep targets forcedRun
  cases hforce : effForce w.cfg f with
  | true => exact sameContents_refl _
  | false =>
    simp only [Bool.false_eq_true, if_false]
    let sel : Str → Bool := fun m => match canTranspile E w m with
      | .ok b => b
      | .error _ => true
    have hsel : ∀ m ∈ w.mods, canTranspile E w m = .ok (sel m) := by
      intro m hm
      obtain ⟨p, hp⟩ := hpaths m hm
      obtain ⟨b, hb⟩ := canTranspile_total E bodyOf w hls hinv m p hp
      simp [sel, hb]
    rw [selectFrom_filter E w sel w.mods hsel]
    simp only
    apply writeAll_filter_same E sel w.mods w w rfl rfl hpw (sameContents_refl _)
    intro m hm hs
    obtain ⟨p, hp⟩ := hpaths m hm
    have hc : canTranspile E w m = .ok false := by rw [hsel m hm, hs]
    obtain ⟨c, h1, h2⟩ := canTranspile_false E bodyOf w hown hls hid hh hinv m p hm hp hc
    exact ⟨c, p, h1, hp, h2⟩

theorem runStep_frame (E : Env σ) (w : World σ) (f : Bool) :
    (runStep E w f).world.cfg = w.cfg ∧ (runStep E w f).world.src = w.src ∧ (runStep E w f).world.mods = w.mods := by
  unfold runStep
  cases targets E w f with
  | error e => simp
  | ok ts => exact writeAll_frame E ts w

theorem targets_subset (E : Env σ) (w : World σ) (f : Bool) (ts : List Str) (h : targets E w f = .ok ts) : ∀ m ∈ ts, m ∈ w.mods := by
  unfold targets at h
  split at h
  · injection h with h; subst h; exact fun _ hm => hm
  · exact fun m hm => (selectFrom_sublist E w w.mods ts h).subset hm

theorem inv_runStep (E : Env σ) (bodyOf : Str → σ → Except Err Text) (hown : OwnSource E bodyOf) (w : World σ) (f : Bool)
    (hinv : Inv E bodyOf w.mods w.files) : Inv E bodyOf w.mods (runStep E w f).world.files := by
  unfold runStep
  cases ht : targets E w f with
  | error e => simpa using hinv
  | ok ts => exact inv_writeAll E bodyOf hown w.mods ts (targets_subset E w f ts ht) w hinv

/-- what `exec` preserves: the module list, language and working directory, path injectivity and the provenance invariant -/
structure Good (E : Env σ) (bodyOf : Str → σ → Except Err Text) (w0 w : World σ) : Prop where
  mods : w.mods = w0.mods
  lang : w.cfg.lang = w0.cfg.lang
  cwd : w.cfg.cwd = w0.cfg.cwd
  noOverlap : NoOverlap w.cfg w0.mods
  inv : Inv E bodyOf w0.mods w.files

/-- every `set-dirs` of the history keeps the outputs of the listed modules pairwise distinct -/
def DirsOK (w0 : World σ) (ops : List (Op σ)) : Prop :=
  ∀ ds, Op.setDirs ds ∈ ops → NoOverlap ⟨ds, w0.cfg.lang, none, w0.cfg.cwd⟩ w0.mods

theorem good_step (E : Env σ) (bodyOf : Str → σ → Except Err Text) (hown : OwnSource E bodyOf) (w0 w : World σ) (op : Op σ)
    (hg : Good E bodyOf w0 w) (hop : ∀ ds, op = .setDirs ds → NoOverlap ⟨ds, w0.cfg.lang, none, w0.cfg.cwd⟩ w0.mods) :
    Good E bodyOf w0 (step E w op) := by
  cases op with
  | edit m s => exact ⟨hg.mods, hg.lang, hg.cwd, hg.noOverlap, hg.inv⟩
  | run f =>
    obtain ⟨h1, _, h3⟩ := runStep_frame E w f
    simp only [step]
    refine ⟨h3.trans hg.mods, by rw [h1]; exact hg.lang, by rw [h1]; exact hg.cwd, by rw [h1]; exact hg.noOverlap, ?_⟩
    have := inv_runStep E bodyOf hown w f (by rw [hg.mods]; exact hg.inv)
    rwa [hg.mods] at this
  | rmOutput m =>
    simp only [step]
    cases hq : outputFilepath w.cfg m with
    | error e => exact hg
    | ok p =>
      refine ⟨hg.mods, hg.lang, hg.cwd, hg.noOverlap, ?_⟩
      intro q f hf
      simp only at hf
      split at hf
      · cases hf
      · exact hg.inv q f hf
  | setDirs ds =>
    simp only [step]
    refine ⟨hg.mods, hg.lang, hg.cwd, ?_, hg.inv⟩
    have := hop ds rfl
    unfold NoOverlap at this ⊢
    rw [← this]
    exact noOverlapFrom_congr { w.cfg with dirs := ds } ⟨ds, w0.cfg.lang, none, w0.cfg.cwd⟩
      (fun m => outputFilepath_congr { w.cfg with dirs := ds } ⟨ds, w0.cfg.lang, none, w0.cfg.cwd⟩ rfl hg.lang hg.cwd m) _
  | setForce f =>
    simp only [step]
    refine ⟨hg.mods, hg.lang, hg.cwd, ?_, hg.inv⟩
    have := hg.noOverlap
    unfold NoOverlap at this ⊢
    rw [← this]
    exact noOverlapFrom_congr { w.cfg with forceCfg := f } w.cfg (fun m => outputFilepath_congr _ _ rfl rfl rfl m) _

theorem good_exec (E : Env σ) (bodyOf : Str → σ → Except Err Text) (hown : OwnSource E bodyOf) (w0 : World σ) (ops : List (Op σ))
    (w : World σ) (hg : Good E bodyOf w0 w) (hops : DirsOK w0 ops) : Good E bodyOf w0 (exec E w ops) := by
  unfold exec
  induction ops generalizing w with
  | nil => simpa using hg
  | cons op ops ih =>
    simp only [List.foldl_cons]
    apply ih
    · exact good_step E bodyOf hown w0 w op hg (fun ds h => hops ds (by simp [h]))
    · exact fun ds h => hops ds (by simp [h])

/-! ### the decision of `can_transpile` -/

theorem tryFromContent_eq_none (loads : Str → Except Err Json) (av c : Str) :
    tryFromContent loads av c = .ok none ↔ headerSlice c = none := by
  unfold tryFromContent
  cases headerSlice c with
  | none => simp
  | some t => cases hfj : fromJson loads av t <;> simp [Except.map, hfj]

/-- module `m` has an output path, and there is no file there, or the file carries no header, or its header differs from the current one -/
def Stale (E : Env σ) (w : World σ) (m : Str) : Prop :=
  ∃ p, outputFilepath w.cfg m = .ok p ∧
    (w.files p = none ∨ ∃ f, w.files p = some f ∧
      (headerSlice f.content = none ∨
        ∃ old, tryFromContent E.loads E.appVersion f.content = .ok (some old) ∧
          old.identity E.md5 ≠ (curHeader E (w.src m) m).identity E.md5))

theorem canTranspile_true_iff (E : Env σ) (w : World σ) (m : Str) : canTranspile E w m = .ok true ↔ Stale E w m := by
  unfold Stale
  cases hp : outputFilepath w.cfg m with
  | error e => simp [canTranspile, tryLoadMetaHeader, hp]
  | ok p =>
    cases hf : w.files p with
    | none => simp [canTranspile, tryLoadMetaHeader, hp, hf]
    | some f =>
      cases ht : tryFromContent E.loads E.appVersion f.content with
      | error e =>
        have hs : headerSlice f.content ≠ none := by
          intro h
          rw [(tryFromContent_eq_none _ _ _).2 h] at ht
          cases ht
        simp [canTranspile, tryLoadMetaHeader, hp, hf, ht, hs]
      | ok o =>
        cases o with
        | none =>
          have hs := (tryFromContent_eq_none _ _ _).1 ht
          simp [canTranspile, tryLoadMetaHeader, hp, hf, ht, hs]
        | some old =>
          have hs : headerSlice f.content ≠ none := by
            intro h
            rw [(tryFromContent_eq_none _ _ _).2 h] at ht
            cases ht
          simp only [canTranspile, tryLoadMetaHeader, hp, hf, ht, Except.ok.injEq, bne_iff_ne, ne_eq]
          constructor
          · intro h
            exact ⟨p, rfl, Or.inr ⟨f, hf, Or.inr ⟨old, ht, fun e => h e.symm⟩⟩⟩
          · rintro ⟨p', hp', h⟩
            subst hp'
            rcases h with h | ⟨f', hf', h⟩
            · rw [hf] at h; cases h
            · rw [hf] at hf'; injection hf' with hf'; subst hf'
              rcases h with h | ⟨old', ho, hne⟩
              · exact absurd h hs
              · rw [ht] at ho; injection ho with ho; injection ho with ho; subst ho
                exact fun e => hne e.symm

end Tranp.Runner
