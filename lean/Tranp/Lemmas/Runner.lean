/-
  Helper lemmas for property C06 (runner decision model, Tranp/Model/Runner.lean):
  string search (`find`, `rfind`, slicing), the JSON printer, the header slice, the write loop and its invariants.
-/
import Tranp.Model.Runner
import Tranp.Lemmas.AstPath.StrCodec

namespace Tranp.Runner
open Tranp

/-! ### `startswith` / `find` -/

theorem startsWith_append_self (p r : Str) : Str.startsWith (p ++ r) p = true := by
  induction p with
  | nil => cases r <;> simp [Str.startsWith]
  | cons c cs ih => simp [Str.startsWith, ih]

theorem startsWith_append_of_le (a b p : Str) (h : p.length ≤ a.length) :
    Str.startsWith (a ++ b) p = Str.startsWith a p := by
  induction p generalizing a with
  | nil => cases a <;> cases b <;> simp [Str.startsWith]
  | cons c cs ih =>
    cases a with
    | nil => simp at h
    | cons x xs =>
      simp only [List.cons_append, Str.startsWith]
      rw [ih xs (by simpa using h)]

theorem find_go_shift (p s : Str) (i : Nat) : Str.find.go p s i = (Str.find.go p s 0).map (· + i) := by
  induction s generalizing i with
  | nil => simp only [Str.find.go]; split <;> simp
  | cons c cs ih =>
    simp only [Str.find.go]
    split
    · simp
    · rw [ih (i + 1), ih (0 + 1)]
      cases Str.find.go p cs 0 with
      | none => simp
      | some k => simp; omega

/-- no occurrence of `tag` starts inside `pre` (an occurrence starting there would end inside `pre ++ tag`) -/
def NoEarly (tag pre : Str) : Prop := ∀ k, k < pre.length → Str.startsWith ((pre ++ tag).drop k) tag = false

instance (tag pre : Str) : Decidable (NoEarly tag pre) := by unfold NoEarly; infer_instance

theorem NoEarly.tail {tag : Str} {x : Char} {xs : Str} (h : NoEarly tag (x :: xs)) : NoEarly tag xs := by
  intro k hk
  have := h (k + 1) (by simpa using hk)
  simpa using this

theorem find_after_pre (tag pre rest : Str) (hne : tag ≠ []) (h : NoEarly tag pre) :
    Str.find (pre ++ tag ++ rest) tag = some pre.length := by
  unfold Str.find
  induction pre with
  | nil =>
    cases tag with
    | nil => exact absurd rfl hne
    | cons t ts =>
      simp only [List.nil_append, List.cons_append, Str.find.go]
      have := startsWith_append_self (t :: ts) rest
      simp only [List.cons_append] at this
      simp [this]
  | cons x xs ih =>
    have h0 := h 0 (by simp)
    simp only [List.drop_zero] at h0
    have hsw : Str.startsWith (x :: xs ++ tag ++ rest) tag = false := by
      rw [startsWith_append_of_le (x :: xs ++ tag) rest tag (by simp; omega), h0]
    simp only [List.cons_append] at hsw ⊢
    simp only [Str.find.go, hsw]
    rw [find_go_shift]
    have := ih h.tail
    simp only [List.append_assoc] at this ⊢
    simp [this]

theorem find_char_after (c : Char) (x y : Str) (h : c ∉ x) : Str.find (x ++ c :: y) [c] = some x.length := by
  unfold Str.find
  induction x with
  | nil => simp [Str.find.go, Str.startsWith]
  | cons a as ih =>
    simp at h
    have hne : ¬ a = c := fun e => h.1 e.symm
    simp only [List.cons_append, Str.find.go, Str.startsWith]
    cases hy : as ++ c :: y with
    | nil => simp at hy
    | cons z zs =>
      rw [← hy, find_go_shift, ih h.2]
      simp [hne]

theorem lastIdx_snoc (c : Char) (x : Str) : lastIdx c (x ++ [c]) = some x.length := by
  induction x with
  | nil => simp [lastIdx]
  | cons a as ih => simp [lastIdx, ih]

/-! ### CPython index adjustment on non-negative arguments -/

theorem adjStart_nat (len n : Nat) : adjStart len (n : Int) = n := by
  unfold adjStart
  have : ¬ ((n : Int) < 0) := by omega
  simp [this]

theorem adjEnd_nat (len n : Nat) : adjEnd len (n : Int) = min n len := by
  unfold adjEnd
  have : ¬ ((n : Int) < 0) := by omega
  simp [this]

theorem pyFind_nat (s sub : Str) (n : Nat) (h : n ≤ s.length) :
    pyFind s sub (n : Int) = match Str.find (s.drop n) sub with
      | some i => ((n + i : Nat) : Int)
      | none => -1 := by
  unfold pyFind
  simp only [adjStart_nat]
  have : ¬ s.length < n := by omega
  rw [if_neg this]
  cases Str.find (List.drop n s) sub <;> simp

/-! ### the JSON printer emits no raw line break and closes an object with `}` -/

theorem hexDigit_ne_newline : ∀ n, n < 16 → hexDigit n ≠ '\n' := by decide

theorem u4_no_newline (n : Nat) : '\n' ∉ u4 n := by
  unfold u4
  have h1 := hexDigit_ne_newline (n / 4096 % 16) (by omega)
  have h2 := hexDigit_ne_newline (n / 256 % 16) (by omega)
  have h3 := hexDigit_ne_newline (n / 16 % 16) (by omega)
  have h4 := hexDigit_ne_newline (n % 16) (by omega)
  simp only [List.mem_cons, List.not_mem_nil, or_false, not_or]
  exact ⟨by decide, by decide, fun e => h1 e.symm, fun e => h2 e.symm, fun e => h3 e.symm, fun e => h4 e.symm⟩

theorem escChar_no_newline (c : Char) : '\n' ∉ escChar c := by
  unfold escChar
  split
  · decide
  · split
    · decide
    · split
      · decide
      · split
        · decide
        · split
          · decide
          · split
            · decide
            · split
              · decide
              · split
                · rename_i h _ _ _ _ _
                  simp; exact fun e => h e.symm
                · split
                  · exact u4_no_newline _
                  · simp only [List.mem_append, not_or]
                    exact ⟨u4_no_newline _, u4_no_newline _⟩

theorem dumpStr_no_newline (s : Str) : '\n' ∉ dumpStr s := by
  unfold dumpStr
  simp only [List.mem_cons, List.mem_append, List.mem_flatMap, List.not_mem_nil, or_false, not_or, not_exists, not_and]
  exact ⟨by decide, fun c _ => escChar_no_newline c, by decide⟩

theorem intToDec_no_newline (i : Int) : '\n' ∉ Str.intToDec i := by
  have hd : ∀ n, '\n' ∉ Str.natToDec n := by
    intro n hm
    have := StrCodec.natToDec_digits n _ hm
    revert this; decide
  unfold Str.intToDec
  split
  · simp only [List.mem_cons, not_or]; exact ⟨by decide, hd _⟩
  · exact hd _

mutual
  theorem dumps_no_newline : (j : Json) → '\n' ∉ dumps j
    | .null => by simp only [dumps]; decide
    | .bool true => by simp only [dumps]; decide
    | .bool false => by simp only [dumps]; decide
    | .num i => by simp only [dumps]; exact intToDec_no_newline i
    | .str s => by simp only [dumps]; exact dumpStr_no_newline s
    | .arr [] => by simp only [dumps]; decide
    | .arr (x :: xs) => by
      simp only [dumps, List.mem_cons, List.mem_append, List.not_mem_nil, or_false, not_or]
      exact ⟨by decide, dumps_no_newline x, dumpsTail_no_newline xs, by decide⟩
    | .obj [] => by simp only [dumps]; decide
    | .obj ((k, v) :: kvs) => by
      simp only [dumps, List.mem_cons, List.mem_append, List.not_mem_nil, or_false, not_or]
      exact ⟨by decide, dumpStr_no_newline k, by decide, dumps_no_newline v, dumpsKvTail_no_newline kvs, by decide⟩
  theorem dumpsTail_no_newline : (xs : List Json) → '\n' ∉ dumpsTail xs
    | [] => by simp [dumpsTail]
    | x :: xs => by
      simp only [dumpsTail, List.mem_cons, List.mem_append, not_or]
      exact ⟨by decide, dumps_no_newline x, dumpsTail_no_newline xs⟩
  theorem dumpsKvTail_no_newline : (kvs : List (Str × Json)) → '\n' ∉ dumpsKvTail kvs
    | [] => by simp [dumpsKvTail]
    | (k, v) :: kvs => by
      simp only [dumpsKvTail, List.mem_cons, List.mem_append, not_or]
      exact ⟨by decide, dumpStr_no_newline k, by decide, dumps_no_newline v, dumpsKvTail_no_newline kvs⟩
end

theorem dumps_obj_last (kvs : List (Str × Json)) : ∃ x, dumps (.obj kvs) = x ++ ['}'] := by
  cases kvs with
  | nil => exact ⟨['{'], by simp [dumps]⟩
  | cons kv kvs =>
    obtain ⟨k, v⟩ := kv
    exact ⟨'{' :: (dumpStr k ++ ':' :: (dumps v ++ dumpsKvTail kvs)), by simp [dumps]⟩

theorem toJson_no_newline (h : Header) : '\n' ∉ h.toJson := dumps_no_newline _

theorem toJson_last (h : Header) : ∃ x, h.toJson = x ++ ['}'] := dumps_obj_last _

/-! ### the header slice -/

theorem Tag_length : Tag.length = 11 := rfl

/-- core of `try_from_content`: with the tag first occurring right after `pre`, a JSON text `j` that has no raw line break and
    ends with `}`, and a line break after it, the text handed to `from_json` is exactly `' ' ++ j`. -/
theorem headerSlice_line (pre j body : Str) (hpre : NoEarly Tag pre) (hnl : '\n' ∉ j) (hlast : ∃ x, j = x ++ ['}']) :
    headerSlice (pre ++ (Tag ++ (':' :: ' ' :: j)) ++ '\n' :: body) = some (' ' :: j) := by
  obtain ⟨x, hx⟩ := hlast
  -- the content as `a ++ (' ' :: j) ++ '\n' :: body`, `a` = everything up to and including the colon
  let a : Str := pre ++ Tag ++ [':']
  have hcontent : pre ++ (Tag ++ (':' :: ' ' :: j)) ++ '\n' :: body = a ++ ((' ' :: j) ++ '\n' :: body) := by
    simp [a]
  have hcontent' : pre ++ (Tag ++ (':' :: ' ' :: j)) ++ '\n' :: body = pre ++ Tag ++ (':' :: ' ' :: (j ++ '\n' :: body)) := by
    simp
  have ha : a.length = pre.length + 12 := by simp [a, Tag_length]
  have hfind : pyFind (pre ++ (Tag ++ (':' :: ' ' :: j)) ++ '\n' :: body) Tag 0 = (pre.length : Int) := by
    have := pyFind_nat (pre ++ (Tag ++ (':' :: ' ' :: j)) ++ '\n' :: body) Tag 0 (by omega)
    simp only [Int.natCast_zero, List.drop_zero] at this
    have hcast : ((0 : Nat) : Int) = 0 := rfl
    rw [show (0 : Int) = ((0 : Nat) : Int) from rfl, pyFind_nat _ _ 0 (by omega)]
    simp only [List.drop_zero]
    rw [hcontent', find_after_pre Tag pre _ (by decide) hpre]
    simp
  unfold headerSlice
  simp only [hfind]
  have hne : ¬ ((pre.length : Int) = -1) := by omega
  simp only [hne, if_false]
  have hjb : (pre.length : Int) + (Tag.length : Int) + 1 = ((a.length : Nat) : Int) := by
    rw [ha, Tag_length]; omega
  rw [hjb, hcontent]
  have hlen : a.length ≤ (a ++ ((' ' :: j) ++ '\n' :: body)).length := by simp
  have hnl' : '\n' ∉ (' ' :: j) := by
    simp only [List.mem_cons, not_or]; exact ⟨by decide, hnl⟩
  have hlb : pyFind (a ++ ((' ' :: j) ++ '\n' :: body)) ['\n'] ((a.length : Nat) : Int) = ((a.length + (j.length + 1) : Nat) : Int) := by
    rw [pyFind_nat _ _ _ hlen, List.drop_left, find_char_after '\n' (' ' :: j) body hnl']
    simp
  rw [hlb]
  have hseg : ((a ++ ((' ' :: j) ++ '\n' :: body)).take (a.length + (j.length + 1))).drop a.length = ' ' :: j := by
    rw [List.take_append]
    simp
  have hrf : pyRfindChar (a ++ ((' ' :: j) ++ '\n' :: body)) '}' ((a.length : Nat) : Int) ((a.length + (j.length + 1) : Nat) : Int)
      = ((a.length + j.length : Nat) : Int) := by
    unfold pyRfindChar
    simp only [adjStart_nat, adjEnd_nat]
    have hmin : min (a.length + (j.length + 1)) (a ++ ((' ' :: j) ++ '\n' :: body)).length = a.length + (j.length + 1) := by
      simp
    rw [hmin, hseg, hx]
    have : ' ' :: (x ++ ['}']) = (' ' :: x) ++ ['}'] := rfl
    rw [this, lastIdx_snoc]
    simp
  rw [hrf]
  have hje : ((a.length + j.length : Nat) : Int) + 1 = ((a.length + (j.length + 1) : Nat) : Int) := by omega
  rw [hje]
  unfold pySlice
  simp only [adjStart_nat, adjEnd_nat]
  have hmin : min (a.length + (j.length + 1)) (a ++ ((' ' :: j) ++ '\n' :: body)).length = a.length + (j.length + 1) := by
    simp
  rw [hmin, hseg]

/-! ### header round trip -/

/-- `h` is a value `MetaHeader.__init__` can hold: the version is truthy, or it is the substituted `Versions.app` -/
def Header.Normal (av : Str) (h : Header) : Prop := falsy h.version = false ∨ h.version = .str av

theorem lookup_kModule (v m t : Json) : List.lookup kModule [(kVersion, v), (kModule, m), (kTranspiler, t)] = some m := rfl
theorem lookup_kTranspiler (v m t : Json) : List.lookup kTranspiler [(kVersion, v), (kModule, m), (kTranspiler, t)] = some t := rfl
theorem lookup_kVersion (v m t : Json) : List.lookup kVersion [(kVersion, v), (kModule, m), (kTranspiler, t)] = some v := rfl

theorem make_normal (av : Str) (h : Header) (hn : h.Normal av) : Header.make av h.module h.transpiler (some h.version) = h := by
  cases h with
  | mk v m t =>
    simp only [Header.make]
    rcases hn with hf | hv
    · simp only at hf; simp [hf]
    · simp only at hv; subst hv; split <;> rfl

theorem fromJson_of_loads (loads : Str → Except Err Json) (av text : Str) (h : Header)
    (hl : loads text = .ok h.toJsonVal) (hn : h.Normal av) : fromJson loads av text = .ok h := by
  unfold fromJson
  simp only [hl, Header.toJsonVal, getItem, lookup_kModule, lookup_kTranspiler, lookup_kVersion, bind, Except.bind, pure, Except.pure]
  rw [make_normal av h hn]

theorem curHeader_normal {σ : Type} (E : Env σ) (v : Vers) (s : σ) (m : Str) : (curHeader E v s m).Normal v.app := Or.inr rfl

theorem tryFromContent_line (loads : Str → Except Err Json) (av pre body : Str) (h : Header)
    (hpre : NoEarly Tag pre) (hl : loads (' ' :: h.toJson) = .ok h.toJsonVal) (hn : h.Normal av) :
    tryFromContent loads av (pre ++ h.toHeaderStr ++ '\n' :: body) = .ok (some h) := by
  unfold tryFromContent Header.toHeaderStr
  rw [headerSlice_line pre h.toJson body hpre (toJson_no_newline h) (toJson_last h)]
  simp only [fromJson_of_loads loads av _ h hl hn, Except.map]

theorem noEarly_comment : NoEarly Tag ['/', '/', ' '] := by decide

/-! ### configuration congruence -/

theorem outputFilepath_congr (c1 c2 : Cfg) (hd : c1.dirs = c2.dirs) (hl : c1.lang = c2.lang) (hc : c1.cwd = c2.cwd) (m : Str) :
    outputFilepath c1 m = outputFilepath c2 m := by
  unfold outputFilepath; rw [hd, hl, hc]

theorem noOverlapFrom_congr (c1 c2 : Cfg) (h : ∀ m, outputFilepath c1 m = outputFilepath c2 m) (ms : List Str) :
    noOverlapFrom c1 ms = noOverlapFrom c2 ms := by
  induction ms with
  | nil => rfl
  | cons m ms ih => simp only [noOverlapFrom, h, ih]

theorem isOkEq_iff (r : Except Err Str) (p : Str) : isOkEq r p = true ↔ r = .ok p := by
  cases r with
  | error e => simp [isOkEq]
  | ok q => simp [isOkEq]

/-- the decidable check says exactly: every module has a path, and modules at different list positions have different paths -/
theorem noOverlapFrom_iff (cfg : Cfg) (ms : List Str) :
    noOverlapFrom cfg ms = true ↔
      (∀ m ∈ ms, ∃ p, outputFilepath cfg m = .ok p) ∧ ms.Pairwise (fun a b => outputFilepath cfg a ≠ outputFilepath cfg b) := by
  induction ms with
  | nil => simp [noOverlapFrom]
  | cons m ms ih =>
    simp only [noOverlapFrom, Bool.and_eq_true, ih, List.mem_cons, forall_eq_or_imp, List.pairwise_cons]
    constructor
    · rintro ⟨h1, h2, h3⟩
      cases hp : outputFilepath cfg m with
      | error e => simp [hp] at h1
      | ok p =>
        simp only [hp, List.all_eq_true, Bool.not_eq_true', ] at h1
        refine ⟨⟨⟨p, rfl⟩, h2⟩, ?_, h3⟩
        intro m' hm' heq
        have := h1 m' hm'
        have h' : isOkEq (outputFilepath cfg m') p = true := (isOkEq_iff _ _).2 heq.symm
        rw [h'] at this; cases this
    · rintro ⟨⟨⟨p, hp⟩, h2⟩, h3, h4⟩
      refine ⟨?_, h2, h4⟩
      simp only [hp, List.all_eq_true, Bool.not_eq_true']
      intro m' hm'
      cases hq : isOkEq (outputFilepath cfg m') p with
      | false => rfl
      | true =>
        have := (isOkEq_iff _ _).1 hq
        exact absurd (hp.trans this.symm) (h3 m' hm')

/-! ### the write loop -/

variable {σ : Type}

theorem write_cfg (w : World σ) (p : Str) (c : Text) : (w.write p c).cfg = w.cfg := rfl
theorem write_src (w : World σ) (p : Str) (c : Text) : (w.write p c).src = w.src := rfl
theorem write_mods (w : World σ) (p : Str) (c : Text) : (w.write p c).mods = w.mods := rfl
theorem write_ver (w : World σ) (p : Str) (c : Text) : (w.write p c).ver = w.ver := rfl

theorem writeAll_frame (E : Env σ) (ms : List Str) (w : World σ) :
    (writeAll E w ms).world.cfg = w.cfg ∧ (writeAll E w ms).world.src = w.src ∧ (writeAll E w ms).world.mods = w.mods ∧
      (writeAll E w ms).world.ver = w.ver := by
  induction ms generalizing w with
  | nil => simp [writeAll]
  | cons m ms ih =>
    simp only [writeAll]
    cases hr : render E w.ver w.src m with
    | error e => simp
    | ok c =>
      cases hq : outputFilepath w.cfg m with
      | error e => simp
      | ok p =>
        have := ih (w.write p c)
        simpa [write_cfg, write_src, write_mods, write_ver] using this

theorem writeAll_untouched (E : Env σ) (ms : List Str) (w : World σ) (p : Str) (hp : p ∉ (writeAll E w ms).written) :
    (writeAll E w ms).world.files p = w.files p := by
  induction ms generalizing w with
  | nil => simp [writeAll]
  | cons m ms ih =>
    simp only [writeAll] at hp ⊢
    cases hr : render E w.ver w.src m with
    | error e => rfl
    | ok c =>
      cases hq : outputFilepath w.cfg m with
      | error e => rfl
      | ok q =>
        simp only [hr, hq, List.mem_cons, not_or] at hp ⊢
        rw [ih (w.write q c) hp.2]
        simp [World.write, hp.1]

theorem writeAll_written (E : Env σ) (ms : List Str) (w : World σ) :
    ∀ p ∈ (writeAll E w ms).written, ∃ m ∈ ms, outputFilepath w.cfg m = .ok p := by
  induction ms generalizing w with
  | nil => simp [writeAll]
  | cons m ms ih =>
    simp only [writeAll]
    cases hr : render E w.ver w.src m with
    | error e => simp
    | ok c =>
      cases hq : outputFilepath w.cfg m with
      | error e => simp
      | ok q =>
        intro p hp
        simp only [List.mem_cons] at hp
        rcases hp with rfl | hp
        · exact ⟨m, by simp, hq⟩
        · obtain ⟨m', hm', h'⟩ := ih (w.write q c) p hp
          exact ⟨m', by simp [hm'], by simpa [write_cfg] using h'⟩

theorem selectFrom_sublist (E : Env σ) (w : World σ) (ms ts : List Str) (h : selectFrom E w ms = .ok ts) : ts.Sublist ms := by
  induction ms generalizing ts with
  | nil => simp [selectFrom] at h; subst h; exact List.Sublist.refl _
  | cons m ms ih =>
    simp only [selectFrom] at h
    cases hb : canTranspile E w m with
    | error e => simp [hb] at h
    | ok b =>
      cases hts : selectFrom E w ms with
      | error e => simp [hb, hts] at h
      | ok ts' =>
        simp only [hb, hts, Except.ok.injEq] at h
        subst h
        cases b with
        | true => simpa using (ih ts' hts)
        | false => simpa using (ih ts' hts).cons m

theorem selectFrom_mem (E : Env σ) (w : World σ) (ms ts : List Str) (h : selectFrom E w ms = .ok ts) (m : Str) :
    m ∈ ts ↔ m ∈ ms ∧ canTranspile E w m = .ok true := by
  induction ms generalizing ts with
  | nil => simp [selectFrom] at h; subst h; simp
  | cons x ms ih =>
    simp only [selectFrom] at h
    cases hb : canTranspile E w x with
    | error e => simp [hb] at h
    | ok b =>
      cases hts : selectFrom E w ms with
      | error e => simp [hb, hts] at h
      | ok ts' =>
        simp only [hb, hts, Except.ok.injEq] at h
        subst h
        have := ih ts' hts
        by_cases hxm : m = x
        · subst hxm
          cases b with
          | true => simp [hb]
          | false => simp [hb, this]
        · cases b with
          | true => simp [hxm, this]
          | false => simp [hxm, this]

theorem selectFrom_filter (E : Env σ) (w : World σ) (sel : Str → Bool) (ms : List Str)
    (h : ∀ m ∈ ms, canTranspile E w m = .ok (sel m)) : selectFrom E w ms = .ok (ms.filter sel) := by
  induction ms with
  | nil => rfl
  | cons m ms ih =>
    simp only [selectFrom, h m (by simp), ih (fun x hx => h x (by simp [hx]))]
    cases hs : sel m <;> simp [List.filter, hs]

/-! ### same contents -/

/-- the file trees agree (existence and bytes) on every path outside `P` -/
def SameExcept (P : Str → Prop) (a b : Str → Option File) : Prop := ∀ p, ¬ P p → (a p).map (·.content) = (b p).map (·.content)

theorem sameContents_refl (a : Str → Option File) : SameContents a a := fun _ => rfl

theorem sameExcept_refl (P : Str → Prop) (a : Str → Option File) : SameExcept P a a := fun _ _ => rfl

theorem sameExcept_false (a b : Str → Option File) (h : SameExcept (fun _ => False) a b) : SameContents a b :=
  fun p => h p (fun x => x)

theorem sameExcept_write_both (P : Str → Prop) (wa wb : World σ) (p : Str) (c : Text) (h : SameExcept P wa.files wb.files) :
    SameExcept P (wa.write p c).files (wb.write p c).files := by
  intro q hq
  simp only [World.write]
  split
  · rfl
  · exact h q hq

theorem sameExcept_write_right (P : Str → Prop) (wa wb : World σ) (p : Str) (c : Text) (h : SameExcept P wa.files wb.files)
    (hp : (wa.files p).map (·.content) = some c) : SameExcept P wa.files (wb.write p c).files := by
  intro q hq
  simp only [World.write]
  split
  · rename_i hqp; subst hqp; simpa using hp
  · exact h q hq

theorem sameExcept_write_right_excluded (P : Str → Prop) (wa wb : World σ) (p : Str) (c : Text) (h : SameExcept P wa.files wb.files)
    (hp : P p) : SameExcept P wa.files (wb.write p c).files := by
  intro q hq
  simp only [World.write]
  split
  · rename_i hqp; subst hqp; exact absurd hp hq
  · exact h q hq

/-- the heart of the fix-point argument: writing only the selected modules gives the same contents as writing all of them on
    every path outside `P`, provided no two modules share a path and every unselected module either already holds what would
    be written, or can be written and has its path in `P` -/
theorem writeAll_filter_same (E : Env σ) (sel : Str → Bool) (P : Str → Prop) (ms : List Str) (wa wb : World σ)
    (hsrc : wa.src = wb.src) (hcfg : wa.cfg = wb.cfg) (hver : wa.ver = wb.ver)
    (hpw : ms.Pairwise (fun a b => outputFilepath wa.cfg a ≠ outputFilepath wa.cfg b))
    (hsame : SameExcept P wa.files wb.files)
    (hup : ∀ m ∈ ms, sel m = false → ∃ c p, render E wa.ver wa.src m = .ok c ∧ outputFilepath wa.cfg m = .ok p ∧
      ((wa.files p).map (·.content) = some c ∨ P p)) :
    SameExcept P (writeAll E wa (ms.filter sel)).world.files (writeAll E wb ms).world.files := by
  induction ms generalizing wa wb with
  | nil => simpa [writeAll] using hsame
  | cons m ms ih =>
    rw [List.pairwise_cons] at hpw
    cases hs : sel m with
    | true =>
      simp only [List.filter, hs, writeAll, ← hsrc, ← hcfg, ← hver]
      cases hr : render E wa.ver wa.src m with
      | error e => simpa using hsame
      | ok c =>
        cases hq : outputFilepath wa.cfg m with
        | error e => simpa using hsame
        | ok p =>
          simp only
          apply ih (wa.write p c) (wb.write p c) (by simp [write_src, hsrc]) (by simp [write_cfg, hcfg]) (by simp [write_ver, hver])
            (by simpa [write_cfg] using hpw.2) (sameExcept_write_both P wa wb p c hsame)
          intro m' hm' hs'
          obtain ⟨c', p', h1, h2, h3⟩ := hup m' (by simp [hm']) hs'
          refine ⟨c', p', by simpa [write_src, write_ver] using h1, by simpa [write_cfg] using h2, ?_⟩
          have hne : p' ≠ p := by
            intro e; subst e
            exact hpw.1 m' hm' (hq.trans h2.symm)
          rcases h3 with h3 | h3
          · exact Or.inl (by simpa [World.write, hne] using h3)
          · exact Or.inr h3
    | false =>
      obtain ⟨c, p, h1, h2, h3⟩ := hup m (by simp) hs
      simp only [List.filter, hs]
      have hb : writeAll E wb (m :: ms) = ⟨(writeAll E (wb.write p c) ms).world, p :: (writeAll E (wb.write p c) ms).written, (writeAll E (wb.write p c) ms).status⟩ := by
        simp only [writeAll, ← hsrc, ← hcfg, ← hver, h1, h2]
      rw [hb]
      simp only
      apply ih wa (wb.write p c) (by simp [write_src, hsrc]) (by simp [write_cfg, hcfg]) (by simp [write_ver, hver]) hpw.2
      · rcases h3 with h3 | h3
        · exact sameExcept_write_right P wa wb p c hsame h3
        · exact sameExcept_write_right_excluded P wa wb p c hsame h3
      · intro m' hm' hs'
        exact hup m' (by simp [hm']) hs'

/-! ### the provenance invariant and the fix-point theorems -/

/-- every output file was written by a run: it is the rendering — by a program of one of the versions `vs` — of a listed module
    from the sources the ghost field remembers, and that transpilation succeeded -/
def Inv (E : Env σ) (mods : List Str) (vs : List Vers) (w : World σ) : Prop :=
  ∀ p f, w.files p = some f → ∃ m ∈ mods, ∃ snap, w.prov p = some snap ∧ ∃ v ∈ vs, ∃ b,
    E.out snap m = .ok b ∧ f.content = renderText E v (snap m) m b

/-- the transpiled body of a module depends on that module's own source only -/
def OwnSource (E : Env σ) (bodyOf : Str → σ → Except Err Text) : Prop := ∀ src m, E.out src m = bodyOf m (src m)

/-- `deps m` lists every module whose source the transpiled body of `m` can depend on (its import closure) -/
def OutDeps (E : Env σ) (deps : Str → List Str) : Prop :=
  ∀ src src' m, (∀ d ∈ deps m, src d = src' d) → E.out src m = E.out src' m

/-- `json.loads` decodes the header JSON the runner itself writes for the listed modules under the versions `vs` -/
def LoadsSound (E : Env σ) (mods : List Str) (vs : List Vers) : Prop :=
  ∀ v ∈ vs, ∀ s, ∀ m ∈ mods, E.loads (' ' :: (curHeader E v s m).toJson) = .ok (curHeader E v s m).toJsonVal

/-- md5 does not collide on the header texts of the listed modules -/
def IdInj (E : Env σ) (mods : List Str) (vs : List Vers) : Prop :=
  ∀ v ∈ vs, ∀ v' ∈ vs, ∀ s s', ∀ m ∈ mods, ∀ m' ∈ mods,
    E.md5 (curHeader E v s m).toJson = E.md5 (curHeader E v' s' m').toJson →
    (curHeader E v s m).toJson = (curHeader E v' s' m').toJson

/-- md5 does not collide on the source texts -/
def HashInj (E : Env σ) : Prop := ∀ s s', E.hash s = E.hash s' → s = s'

/-- no release carries an empty application version (`app_version or Versions.app` would replace it on reading) -/
def VersNonEmpty (vs : List Vers) : Prop := ∀ v ∈ vs, v.app ≠ []

theorem inv_mono (E : Env σ) (mods : List Str) (vs vs' : List Vers) (w : World σ) (hsub : ∀ v ∈ vs, v ∈ vs')
    (h : Inv E mods vs w) : Inv E mods vs' w := by
  intro p f hf
  obtain ⟨m, hm, snap, hs, v, hv, b, hb, hc⟩ := h p f hf
  exact ⟨m, hm, snap, hs, v, hsub v hv, b, hb, hc⟩

theorem inv_write (E : Env σ) (mods : List Str) (vs : List Vers) (w : World σ) (p m : Str) (b : Text)
    (hm : m ∈ mods) (hv : w.ver ∈ vs) (hb : E.out w.src m = .ok b) (hinv : Inv E mods vs w) :
    Inv E mods vs (w.write p (renderText E w.ver (w.src m) m b)) := by
  intro q f hf
  simp only [World.write] at hf ⊢
  split at hf
  · rename_i hq
    injection hf with hf; subst hf
    exact ⟨m, hm, w.src, by simp [hq], w.ver, hv, b, hb, rfl⟩
  · rename_i hq
    obtain ⟨m', hm', snap, hs, v, hv', b', hb', hc⟩ := hinv q f hf
    exact ⟨m', hm', snap, by simp [hq, hs], v, hv', b', hb', hc⟩

theorem inv_writeAll (E : Env σ) (mods : List Str) (vs : List Vers) (ms : List Str)
    (hsub : ∀ m ∈ ms, m ∈ mods) (w : World σ) (hv : w.ver ∈ vs) (hinv : Inv E mods vs w) :
    Inv E mods vs (writeAll E w ms).world := by
  induction ms generalizing w with
  | nil => simpa [writeAll] using hinv
  | cons m ms ih =>
    simp only [writeAll, render]
    cases hb : E.out w.src m with
    | error e => simpa using hinv
    | ok b =>
      cases hq : outputFilepath w.cfg m with
      | error e => simpa using hinv
      | ok p =>
        simp only
        exact ih (fun x hx => hsub x (by simp [hx])) _ (by simpa [write_ver] using hv)
          (inv_write E mods vs w p m b (hsub m (by simp)) hv hb hinv)

theorem curHeader_normal_any (E : Env σ) (v : Vers) (s : σ) (m : Str) (av : Str) (hne : v.app ≠ []) :
    (curHeader E v s m).Normal av := by
  refine Or.inl ?_
  simp only [curHeader, Header.make, falsy]
  cases h : v.app with
  | nil => exact absurd h hne
  | cons c cs => rfl

theorem parse_rendered (E : Env σ) (mods : List Str) (vs : List Vers) (hls : LoadsSound E mods vs) (hne : VersNonEmpty vs)
    (av : Str) (v : Vers) (hv : v ∈ vs) (s : σ) (m : Str) (hm : m ∈ mods) (b : Text) :
    tryFromContent E.loads av (renderText E v s m b) = .ok (some (curHeader E v s m)) := by
  unfold renderText
  rw [← List.append_assoc]
  exact tryFromContent_line E.loads av _ b _ noEarly_comment (hls v hv s m hm) (curHeader_normal_any E v s m av (hne v hv))

theorem header_eq_of_toJson (E : Env σ) (mods : List Str) (vs : List Vers) (hls : LoadsSound E mods vs) (v v' : Vers) (s s' : σ)
    (m m' : Str) (hv : v ∈ vs) (hv' : v' ∈ vs) (hm : m ∈ mods) (hm' : m' ∈ mods)
    (h : (curHeader E v s m).toJson = (curHeader E v' s' m').toJson) :
    E.hash s = E.hash s' ∧ m = m' ∧ v = v' := by
  have h1 := hls v hv s m hm
  have h2 := hls v' hv' s' m' hm'
  rw [h, h2] at h1
  simp only [curHeader, Header.make, Header.toJsonVal, moduleMeta, transpilerMeta, Except.ok.injEq, Json.obj.injEq, List.cons.injEq,
    Prod.mk.injEq, Json.str.injEq, true_and, and_true] at h1
  obtain ⟨ha, ⟨hh, hp⟩, ht⟩ := h1
  refine ⟨hh.symm, hp.symm, ?_⟩
  cases v; cases v'
  simp only at ha ht
  simp [ha, ht]

theorem canTranspile_total (E : Env σ) (vs : List Vers) (w : World σ) (hls : LoadsSound E w.mods vs) (hne : VersNonEmpty vs)
    (hinv : Inv E w.mods vs w) (m p : Str) (hp : outputFilepath w.cfg m = .ok p) :
    ∃ b, canTranspile E w m = .ok b := by
  cases hf : w.files p with
  | none => exact ⟨true, by simp only [canTranspile, tryLoadMetaHeader, hp, hf]⟩
  | some f =>
    obtain ⟨m', hm', snap, _, v, hv, b', _, hc⟩ := hinv p f hf
    refine ⟨Header.identity E.md5 (curHeader E w.ver (w.src m) m) != Header.identity E.md5 (curHeader E v (snap m') m'), ?_⟩
    simp only [canTranspile, tryLoadMetaHeader, hp, hf, hc, parse_rendered E w.mods vs hls hne w.ver.app v hv (snap m') m' hm' b']

/-- a module the plain run skips: its file is the rendering, by the current versions, of this very module from remembered
    sources in which the module's own source has the current hash -/
theorem canTranspile_false (E : Env σ) (vs : List Vers) (w : World σ)
    (hls : LoadsSound E w.mods vs) (hid : IdInj E w.mods vs) (hne : VersNonEmpty vs) (hver : w.ver ∈ vs)
    (hinv : Inv E w.mods vs w) (m p : Str) (hm : m ∈ w.mods) (hp : outputFilepath w.cfg m = .ok p)
    (hc : canTranspile E w m = .ok false) :
    ∃ f snap b, w.files p = some f ∧ w.prov p = some snap ∧ E.out snap m = .ok b ∧
      f.content = renderText E w.ver (snap m) m b ∧ E.hash (snap m) = E.hash (w.src m) := by
  cases hf : w.files p with
  | none => simp [canTranspile, tryLoadMetaHeader, hp, hf] at hc
  | some f =>
    obtain ⟨m', hm', snap, hs, v, hv, b', hb', hcont⟩ := hinv p f hf
    simp only [canTranspile, tryLoadMetaHeader, hp, hf, hcont, parse_rendered E w.mods vs hls hne w.ver.app v hv (snap m') m' hm' b',
      Except.ok.injEq, Header.identity] at hc
    have hmd5 : E.md5 (curHeader E w.ver (w.src m) m).toJson = E.md5 (curHeader E v (snap m') m').toJson := by
      simpa using hc
    have htj := hid w.ver hver v hv (w.src m) (snap m') m hm m' hm' hmd5
    obtain ⟨hhash, hmm, hvv⟩ := header_eq_of_toJson E w.mods vs hls w.ver v (w.src m) (snap m') m m' hver hv hm hm' htj
    subst hmm
    subst hvv
    exact ⟨f, snap, b', rfl, hs, hb', hcont, hhash.symm⟩

/-- the output path of a module the plain run skips although a module of `deps` was edited since the file was written -/
def StalePath (E : Env σ) (deps : Str → List Str) (w : World σ) (p : Str) : Prop :=
  ∃ m ∈ w.mods, outputFilepath w.cfg m = .ok p ∧ canTranspile E w m = .ok false ∧
    ∃ snap, w.prov p = some snap ∧ ∃ d ∈ deps m, snap d ≠ w.src d

/-- a plain run produces the contents a forced run produces on every path that is not stale, in every state that satisfies
    the invariant — provided the forced run can transpile the stale modules -/
theorem runStep_same_except (E : Env σ) (deps : Str → List Str) (vs : List Vers) (w : World σ)
    (hdeps : OutDeps E deps) (hself : ∀ m, m ∈ deps m)
    (hls : LoadsSound E w.mods vs) (hid : IdInj E w.mods vs) (hne : VersNonEmpty vs) (hver : w.ver ∈ vs)
    (hno : NoOverlap w.cfg w.mods) (hinv : Inv E w.mods vs w)
    (hok : ∀ m ∈ w.mods, ∀ p, outputFilepath w.cfg m = .ok p → StalePath E deps w p → ∃ c, render E w.ver w.src m = .ok c) (f : Bool) :
    SameExcept (StalePath E deps w) (runStep E w f).world.files (forcedRun E w).world.files := by
  obtain ⟨hpaths, hpw⟩ := (noOverlapFrom_iff w.cfg w.mods).1 hno
  unfold runStep targets forcedRun
  cases hforce : effForce w.cfg f with
  | true => exact sameExcept_refl _ _
  | false =>
    simp only [Bool.false_eq_true, if_false]
    let sel : Str → Bool := fun m => match canTranspile E w m with
      | .ok b => b
      | .error _ => true
    have hsel : ∀ m ∈ w.mods, canTranspile E w m = .ok (sel m) := by
      intro m hm
      obtain ⟨p, hp⟩ := hpaths m hm
      obtain ⟨b, hb⟩ := canTranspile_total E vs w hls hne hinv m p hp
      simp [sel, hb]
    rw [selectFrom_filter E w sel w.mods hsel]
    simp only
    apply writeAll_filter_same E sel (StalePath E deps w) w.mods w w rfl rfl rfl hpw (sameExcept_refl _ _)
    intro m hm hs
    obtain ⟨p, hp⟩ := hpaths m hm
    have hc : canTranspile E w m = .ok false := by rw [hsel m hm, hs]
    obtain ⟨fl, snap, b, hfl, hsnap, hb, hcont, _⟩ := canTranspile_false E vs w hls hid hne hver hinv m p hm hp hc
    by_cases hfresh : ∀ d ∈ deps m, snap d = w.src d
    · have hout : E.out w.src m = .ok b := by rw [← hdeps snap w.src m hfresh]; exact hb
      have hown : snap m = w.src m := hfresh m (hself m)
      refine ⟨renderText E w.ver (w.src m) m b, p, by simp [render, hout], hp, Or.inl ?_⟩
      simp [hfl, hcont, hown]
    · have hstale : StalePath E deps w p := by
        refine ⟨m, hm, hp, hc, snap, hsnap, ?_⟩
        apply Classical.byContradiction
        intro hn
        apply hfresh
        intro d hd
        apply Classical.byContradiction
        intro hne'
        exact hn ⟨d, hd, hne'⟩
      obtain ⟨c, hcr⟩ := hok m hm p hp hstale
      exact ⟨c, p, hcr, hp, Or.inr hstale⟩

/-- with own-source-only outputs and a collision-free source hash no path is stale -/
theorem no_stalePath_own (E : Env σ) (vs : List Vers) (w : World σ)
    (hh : HashInj E) (hls : LoadsSound E w.mods vs) (hid : IdInj E w.mods vs) (hne : VersNonEmpty vs) (hver : w.ver ∈ vs)
    (hinv : Inv E w.mods vs w) (p : Str) : ¬ StalePath E (fun m => [m]) w p := by
  rintro ⟨m, hm, hp, hc, snap, hsnap, d, hd, hne'⟩
  obtain ⟨fl, snap', b, _, hsnap', _, _, hhash⟩ := canTranspile_false E vs w hls hid hne hver hinv m p hm hp hc
  rw [hsnap] at hsnap'
  injection hsnap' with hsnap'
  subst hsnap'
  simp only [List.mem_singleton] at hd
  subst hd
  exact hne' (hh _ _ hhash)

theorem outDeps_own (E : Env σ) (bodyOf : Str → σ → Except Err Text) (hown : OwnSource E bodyOf) : OutDeps E (fun m => [m]) := by
  intro src src' m h
  rw [hown src m, hown src' m, h m (by simp)]

theorem runStep_frame (E : Env σ) (w : World σ) (f : Bool) :
    (runStep E w f).world.cfg = w.cfg ∧ (runStep E w f).world.src = w.src ∧ (runStep E w f).world.mods = w.mods ∧
      (runStep E w f).world.ver = w.ver := by
  unfold runStep
  cases targets E w f with
  | error e => simp
  | ok ts => exact writeAll_frame E ts w

theorem targets_subset (E : Env σ) (w : World σ) (f : Bool) (ts : List Str) (h : targets E w f = .ok ts) : ∀ m ∈ ts, m ∈ w.mods := by
  unfold targets at h
  split at h
  · injection h with h; subst h; exact fun _ hm => hm
  · exact fun m hm => (selectFrom_sublist E w w.mods ts h).subset hm

theorem inv_runStep (E : Env σ) (vs : List Vers) (w : World σ) (f : Bool) (hv : w.ver ∈ vs)
    (hinv : Inv E w.mods vs w) : Inv E w.mods vs (runStep E w f).world := by
  unfold runStep
  cases ht : targets E w f with
  | error e => simpa using hinv
  | ok ts => exact inv_writeAll E w.mods vs ts (targets_subset E w f ts ht) w hv hinv

/-- what `exec` preserves: the module list, language and working directory, path injectivity, the version list and the
    provenance invariant -/
structure Good (E : Env σ) (vs : List Vers) (w0 w : World σ) : Prop where
  mods : w.mods = w0.mods
  lang : w.cfg.lang = w0.cfg.lang
  cwd : w.cfg.cwd = w0.cfg.cwd
  noOverlap : NoOverlap w.cfg w0.mods
  ver : w.ver ∈ vs
  inv : Inv E w0.mods vs w

/-- every `set-dirs` of the history keeps the outputs of the listed modules pairwise distinct -/
def DirsOK (w0 : World σ) (ops : List (Op σ)) : Prop :=
  ∀ ds, Op.setDirs ds ∈ ops → NoOverlap ⟨ds, w0.cfg.lang, none, w0.cfg.cwd⟩ w0.mods

/-- every release of the history carries versions of the list `vs` -/
def VersOK (vs : List Vers) (w0 : World σ) (ops : List (Op σ)) : Prop :=
  w0.ver ∈ vs ∧ ∀ v, Op.setVer v ∈ ops → v ∈ vs

theorem inv_of_eq (E : Env σ) (mods : List Str) (vs : List Vers) (w w' : World σ) (hf : w'.files = w.files) (hp : w'.prov = w.prov)
    (h : Inv E mods vs w) : Inv E mods vs w' := by
  intro p f hfp
  rw [hf] at hfp
  rw [hp]
  exact h p f hfp

theorem good_step (E : Env σ) (vs : List Vers) (w0 w : World σ) (op : Op σ)
    (hg : Good E vs w0 w) (hop : ∀ ds, op = .setDirs ds → NoOverlap ⟨ds, w0.cfg.lang, none, w0.cfg.cwd⟩ w0.mods)
    (hov : ∀ v, op = .setVer v → v ∈ vs) :
    Good E vs w0 (step E w op) := by
  cases op with
  | edit m s => exact ⟨hg.mods, hg.lang, hg.cwd, hg.noOverlap, hg.ver, inv_of_eq E _ vs w _ rfl rfl hg.inv⟩
  | run f =>
    obtain ⟨h1, _, h3, h4⟩ := runStep_frame E w f
    simp only [step]
    refine ⟨h3.trans hg.mods, by rw [h1]; exact hg.lang, by rw [h1]; exact hg.cwd, by rw [h1]; exact hg.noOverlap, by rw [h4]; exact hg.ver, ?_⟩
    have := inv_runStep E vs w f hg.ver (by rw [hg.mods]; exact hg.inv)
    rwa [hg.mods] at this
  | rmOutput m =>
    simp only [step]
    cases hq : outputFilepath w.cfg m with
    | error e => exact hg
    | ok p =>
      refine ⟨hg.mods, hg.lang, hg.cwd, hg.noOverlap, hg.ver, ?_⟩
      intro q f hf
      simp only at hf ⊢
      split at hf
      · cases hf
      · rename_i hqp
        obtain ⟨m', hm', snap, hs, rest⟩ := hg.inv q f hf
        exact ⟨m', hm', snap, by simp [hqp, hs], rest⟩
  | setDirs ds =>
    simp only [step]
    refine ⟨hg.mods, hg.lang, hg.cwd, ?_, hg.ver, inv_of_eq E _ vs w _ rfl rfl hg.inv⟩
    have := hop ds rfl
    unfold NoOverlap at this ⊢
    rw [← this]
    exact noOverlapFrom_congr { w.cfg with dirs := ds } ⟨ds, w0.cfg.lang, none, w0.cfg.cwd⟩
      (fun m => outputFilepath_congr { w.cfg with dirs := ds } ⟨ds, w0.cfg.lang, none, w0.cfg.cwd⟩ rfl hg.lang hg.cwd m) _
  | setForce f =>
    simp only [step]
    refine ⟨hg.mods, hg.lang, hg.cwd, ?_, hg.ver, inv_of_eq E _ vs w _ rfl rfl hg.inv⟩
    have := hg.noOverlap
    unfold NoOverlap at this ⊢
    rw [← this]
    exact noOverlapFrom_congr { w.cfg with forceCfg := f } w.cfg (fun m => outputFilepath_congr _ _ rfl rfl rfl m) _
  | setVer v =>
    simp only [step]
    exact ⟨hg.mods, hg.lang, hg.cwd, hg.noOverlap, hov v rfl, inv_of_eq E _ vs w _ rfl rfl hg.inv⟩

theorem good_exec (E : Env σ) (vs : List Vers) (w0 : World σ) (ops : List (Op σ))
    (w : World σ) (hg : Good E vs w0 w) (hops : DirsOK w0 ops) (hvs : ∀ v, Op.setVer v ∈ ops → v ∈ vs) :
    Good E vs w0 (exec E w ops) := by
  unfold exec
  induction ops generalizing w with
  | nil => simpa using hg
  | cons op ops ih =>
    simp only [List.foldl_cons]
    apply ih
    · exact good_step E vs w0 w op hg (fun ds h => hops ds (by simp [h])) (fun v h => hvs v (by simp [h]))
    · exact fun ds h => hops ds (by simp [h])
    · exact fun v h => hvs v (by simp [h])

theorem good_init (E : Env σ) (vs : List Vers) (w0 : World σ) (hempty : ∀ p, w0.files p = none) (hno : NoOverlap w0.cfg w0.mods)
    (hv : w0.ver ∈ vs) : Good E vs w0 w0 :=
  ⟨rfl, rfl, rfl, hno, hv, fun p f hf => by rw [hempty p] at hf; cases hf⟩

/-- the trusted functions behave on the headers of the listed modules under the versions `vs`: md5 is collision-free there,
    `json.loads` decodes them, and no version string is empty -/
structure Sound (E : Env σ) (mods : List Str) (vs : List Vers) : Prop where
  idInj : IdInj E mods vs
  loadsSound : LoadsSound E mods vs
  nonEmpty : VersNonEmpty vs

/-- a history from an empty output tree whose configurations keep the output paths pairwise distinct and whose releases carry
    versions of `vs` -/
structure Hist (vs : List Vers) (w0 : World σ) (ops : List (Op σ)) : Prop where
  empty : ∀ p, w0.files p = none
  noOverlap : NoOverlap w0.cfg w0.mods
  dirsOK : DirsOK w0 ops
  versOK : VersOK vs w0 ops

theorem sound_mono (E : Env σ) (mods : List Str) (vs vs' : List Vers) (hsub : ∀ v ∈ vs', v ∈ vs) (h : Sound E mods vs) : Sound E mods vs' :=
  ⟨fun v hv v' hv' => h.idInj v (hsub v hv) v' (hsub v' hv'), fun v hv => h.loadsSound v (hsub v hv), fun v hv => h.nonEmpty v (hsub v hv)⟩

theorem good_of_hist (E : Env σ) (vs : List Vers) (w0 : World σ) (ops : List (Op σ)) (h : Hist vs w0 ops) : Good E vs w0 (exec E w0 ops) :=
  good_exec E vs w0 ops w0 (good_init E vs w0 h.empty h.noOverlap h.versOK.1) h.dirsOK h.versOK.2

/-- after a release whose versions no existing output records, every listed module is a target of the plain run -/
theorem targets_all_of_new_version (E : Env σ) (vs : List Vers) (w : World σ)
    (hls : LoadsSound E w.mods (w.ver :: vs)) (hid : IdInj E w.mods (w.ver :: vs)) (hne : VersNonEmpty (w.ver :: vs))
    (hnew : w.ver ∉ vs) (hno : NoOverlap w.cfg w.mods) (hinv : Inv E w.mods vs w) :
    targets E w false = .ok w.mods ∨ effForce w.cfg false = true := by
  obtain ⟨hpaths, _⟩ := (noOverlapFrom_iff w.cfg w.mods).1 hno
  cases hforce : effForce w.cfg false with
  | true => exact Or.inr rfl
  | false =>
    refine Or.inl ?_
    unfold targets
    simp only [hforce, Bool.false_eq_true, if_false]
    have hinv' : Inv E w.mods (w.ver :: vs) w := inv_mono E _ vs _ w (fun v hv => by simp [hv]) hinv
    have hall : ∀ m ∈ w.mods, canTranspile E w m = .ok ((fun _ => true) m) := by
      intro m hm
      obtain ⟨p, hp⟩ := hpaths m hm
      obtain ⟨b, hb⟩ := canTranspile_total E (w.ver :: vs) w hls hne hinv' m p hp
      cases b with
      | true => exact hb
      | false =>
        obtain ⟨f, snap, b', hf, _, _, hcont, _⟩ := canTranspile_false E (w.ver :: vs) w hls hid hne (by simp) hinv' m p hm hp hb
        -- the file records the current version, but every file was written by a version of `vs`
        obtain ⟨m', hm', snap', _, v, hv, b'', _, hcont'⟩ := hinv p f hf
        rw [hcont] at hcont'
        have hp1 := parse_rendered E w.mods (w.ver :: vs) hls hne w.ver.app w.ver (by simp) (snap m) m hm b'
        have hp2 := parse_rendered E w.mods (w.ver :: vs) hls hne w.ver.app v (by simp [hv]) (snap' m') m' hm' b''
        rw [hcont'] at hp1
        rw [hp1] at hp2
        injection hp2 with hp2
        injection hp2 with hp2
        have := congrArg Header.toJson hp2
        obtain ⟨_, _, hvv⟩ := header_eq_of_toJson E w.mods (w.ver :: vs) hls w.ver v (snap m) (snap' m') m m' (by simp) (by simp [hv]) hm hm' this
        rw [hvv] at hnew
        exact absurd hv hnew
    rw [selectFrom_filter E w (fun _ => true) w.mods hall]
    simp

/-! ### the decision of `can_transpile` -/

theorem tryFromContent_eq_none (loads : Str → Except Err Json) (av c : Str) :
    tryFromContent loads av c = .ok none ↔ headerSlice c = none := by
  unfold tryFromContent
  cases headerSlice c with
  | none => simp
  | some t => cases hfj : fromJson loads av t <;> simp [Except.map, hfj]

/-- module `m` has an output path, and there is no file there, or the file carries no header, or its header differs from the current one -/
def Stale (E : Env σ) (w : World σ) (m : Str) : Prop :=
  ∃ p, outputFilepath w.cfg m = .ok p ∧
    (w.files p = none ∨ ∃ f, w.files p = some f ∧
      (headerSlice f.content = none ∨
        ∃ old, tryFromContent E.loads w.ver.app f.content = .ok (some old) ∧
          old.identity E.md5 ≠ (curHeader E w.ver (w.src m) m).identity E.md5))

theorem canTranspile_true_iff (E : Env σ) (w : World σ) (m : Str) : canTranspile E w m = .ok true ↔ Stale E w m := by
  unfold Stale
  cases hp : outputFilepath w.cfg m with
  | error e => simp [canTranspile, tryLoadMetaHeader, hp]
  | ok p =>
    cases hf : w.files p with
    | none => simp [canTranspile, tryLoadMetaHeader, hp, hf]
    | some f =>
      cases ht : tryFromContent E.loads w.ver.app f.content with
      | error e =>
        have hs : headerSlice f.content ≠ none := by
          intro h
          rw [(tryFromContent_eq_none _ _ _).2 h] at ht
          cases ht
        simp [canTranspile, tryLoadMetaHeader, hp, hf, ht, hs]
      | ok o =>
        cases o with
        | none =>
          have hs := (tryFromContent_eq_none _ _ _).1 ht
          simp [canTranspile, tryLoadMetaHeader, hp, hf, ht, hs]
        | some old =>
          have hs : headerSlice f.content ≠ none := by
            intro h
            rw [(tryFromContent_eq_none _ _ _).2 h] at ht
            cases ht
          simp only [canTranspile, tryLoadMetaHeader, hp, hf, ht, Except.ok.injEq, bne_iff_ne, ne_eq]
          constructor
          · intro h
            exact ⟨p, rfl, Or.inr ⟨f, hf, Or.inr ⟨old, ht, fun e => h e.symm⟩⟩⟩
          · rintro ⟨p', hp', h⟩
            subst hp'
            rcases h with h | ⟨f', hf', h⟩
            · rw [hf] at h; cases h
            · rw [hf] at hf'; injection hf' with hf'; subst hf'
              rcases h with h | ⟨old', ho, hne⟩
              · exact absurd h hs
              · rw [ht] at ho; injection ho with ho; injection ho with ho; subst ho
                exact fun e => hne e.symm

/-- the decision itself, without any hypothesis: a skipped module has an output file whose header parses and whose identity
    equals the identity of the header built from the current inputs -/
theorem canTranspile_false_decision (E : Env σ) (w : World σ) (m : Str) (h : canTranspile E w m = .ok false) :
    ∃ p f old, outputFilepath w.cfg m = .ok p ∧ w.files p = some f ∧
      tryFromContent E.loads w.ver.app f.content = .ok (some old) ∧
      E.md5 (curHeader E w.ver (w.src m) m).toJson = E.md5 old.toJson := by
  cases hp : outputFilepath w.cfg m with
  | error e => simp [canTranspile, tryLoadMetaHeader, hp] at h
  | ok p =>
    cases hf : w.files p with
    | none => simp [canTranspile, tryLoadMetaHeader, hp, hf] at h
    | some f =>
      cases ht : tryFromContent E.loads w.ver.app f.content with
      | error e => simp [canTranspile, tryLoadMetaHeader, hp, hf, ht] at h
      | ok o =>
        cases o with
        | none => simp [canTranspile, tryLoadMetaHeader, hp, hf, ht] at h
        | some old =>
          simp only [canTranspile, tryLoadMetaHeader, hp, hf, ht, Except.ok.injEq, Header.identity] at h
          exact ⟨p, f, old, rfl, hf, ht, by simpa using h⟩

/-! ### `module_meta_factory`: exact lookup in the module list -/

theorem metaLookup_first (mps : List ModPath) (m : Str) (mp : ModPath) (h : metaLookup mps m = .ok mp) :
    mp.path = m ∧ ∃ pre post, mps = pre ++ mp :: post ∧ ∀ x ∈ pre, x.path ≠ m := by
  induction mps with
  | nil => simp [metaLookup] at h
  | cons x xs ih =>
    simp only [metaLookup] at h
    split at h
    · rename_i hx
      injection h with h; subst h
      exact ⟨hx, [], xs, rfl, by simp⟩
    · rename_i hx
      obtain ⟨h1, pre, post, h2, h3⟩ := ih h
      refine ⟨h1, x :: pre, post, by simp [h2], ?_⟩
      intro y hy
      simp only [List.mem_cons] at hy
      rcases hy with rfl | hy
      · exact hx
      · exact h3 y hy

theorem metaLookup_absent (mps : List ModPath) (m : Str) : (∀ x ∈ mps, x.path ≠ m) ↔ metaLookup mps m = .error .valueError := by
  induction mps with
  | nil => simp [metaLookup]
  | cons x xs ih =>
    simp only [metaLookup, List.mem_cons, forall_eq_or_imp]
    by_cases hx : x.path = m
    · simp [hx]
    · simp [hx, ih]

theorem metaLookup_exact (mps : List ModPath) (hnd : (mps.map (·.path)).Nodup) (mp : ModPath) (hm : mp ∈ mps) :
    metaLookup mps mp.path = .ok mp := by
  induction mps with
  | nil => cases hm
  | cons x xs ih =>
    simp only [List.map_cons, List.nodup_cons] at hnd
    simp only [metaLookup]
    simp only [List.mem_cons] at hm
    rcases hm with rfl | hm
    · simp
    · have hne : x.path ≠ mp.path := by
        intro e
        exact hnd.1 (e ▸ List.mem_map.2 ⟨mp, hm, rfl⟩)
      simp [hne, ih hnd.2 hm]

end Tranp.Runner
