/-
  Helper lemmas about the engine model (Tranp/Model/Engine.lean) for the C11 theorems.
-/
import Tranp.Model.Engine

namespace Tranp.Engine
open Tranp

/-! ## leaves of a tree and the ghost trace -/

mutual
/-- tokens at the `ASTToken` leaves of an entry, left to right (`ASTToken.empty()` placeholders carry no token) -/
def leaves : Ast → List Tok
  | .token _ t => [t]
  | .empty => []
  | .tree _ cs => leavesL cs
def leavesL : List Ast → List Tok
  | [] => []
  | c :: cs => leaves c ++ leavesL cs
end

theorem leavesL_append (a b : List Ast) : leavesL (a ++ b) = leavesL a ++ leavesL b := by
  induction a with
  | nil => simp [leavesL]
  | cons x xs ih => simp [leavesL, ih, List.append_assoc]

theorem leavesL_unwrapOne (R : Rules) (c : Ast) : leavesL (unwrapOne R c) = leaves c := by
  cases c with
  | token n t => simp [unwrapOne, leavesL, leaves]
  | empty => simp [unwrapOne, leavesL, leaves]
  | tree n cs =>
    simp only [unwrapOne]
    split
    · split <;> simp [leavesL, leaves]
    · simp [leaves]
    · simp [leavesL, leaves]

theorem leavesL_unwrapList (R : Rules) (cs : List Ast) : leavesL (unwrapList R cs) = leavesL cs := by
  induction cs with
  | nil => simp [unwrapList]
  | cons c cs ih => simp [unwrapList, leavesL, leavesL_append, leavesL_unwrapOne, ih]

/-- `_unwrap_children` never drops, duplicates or reorders a token -/
theorem leaves_unwrapChildren (R : Rules) (sym : Str) (cs : List Ast) : leaves (unwrapChildren R sym cs) = leavesL cs := by
  simp [unwrapChildren, leaves, leavesL_unwrapList]

/-- tokens of the trace that a named terminal rule consumed -/
def named (tr : List (Tok × Bool)) : List Tok := (tr.filter (·.2)).map (·.1)

theorem named_append (a b : List (Tok × Bool)) : named (a ++ b) = named a ++ named b := by
  simp [named]

/-- What a successful match guarantees about its ghost trace and its children, relative to the context. -/
structure Good (ctx : Ctx) (out : Out) : Prop where
  len : out.trace.length = out.steps
  span : out.trace.map (·.1) = (ctx.rest.take out.steps).reverse
  yield : leavesL out.children = named out.trace

theorem Good.steps_le {ctx : Ctx} {out : Out} (g : Good ctx out) : out.steps ≤ ctx.rest.length := by
  have h := congrArg List.length g.span
  simp [g.len] at h
  omega

theorem good_nil (ctx : Ctx) (peek : Nat) (cs : List Ast) (h : leavesL cs = []) : Good ctx ⟨true, 0, cs, peek, []⟩ :=
  ⟨rfl, by simp, by simp [h, named]⟩

theorem good_repeatFinish {ctx : Ctx} {rep : Rep} {found steps peek : Nat} {children : List Ast} {trace : List (Tok × Bool)}
    (hg : Good ctx ⟨true, steps, children, peek, trace⟩) (hok : (repeatFinish rep found steps children peek trace).ok = true) :
    Good ctx (repeatFinish rep found steps children peek trace) := by
  unfold repeatFinish at hok ⊢
  split
  · split
    · exact good_nil ctx peek [] rfl
    · exact good_nil ctx peek [] rfl
    · exact good_nil ctx peek [.empty] (by simp [leavesL, leaves])
    · rename_i h1 h2 h3; simp_all [Out.ng]
  · exact hg

/-- accumulating one more element to the LEFT of what an AND group / a repeat loop has matched so far -/
theorem good_extend {ctx : Ctx} {steps peek peek' : Nat} {children : List Ast} {trace : List (Tok × Bool)} {out : Out}
    (hacc : Good ctx ⟨true, steps, children, peek, trace⟩) (hin : Good (ctx.step steps) out) :
    Good ctx ⟨true, steps + out.steps, out.children ++ children, peek', out.trace ++ trace⟩ := by
  refine ⟨?_, ?_, ?_⟩
  · simp [hin.len, hacc.len]; omega
  · have h1 := hin.span
    have h2 := hacc.span
    simp only [Ctx.step] at h1
    simp only [List.map_append, h1, h2]
    rw [← List.reverse_append, List.take_add]
  · simp [leavesL_append, named_append, hin.yield, hacc.yield]

theorem matchTerminal_some {env : Env} {ctx : Ctx} {e : Str} {comp : Comp} {tok : Tok}
    (h : matchTerminal env ctx e comp = .ok (some tok)) : ∃ rest, ctx.rest = tok :: rest := by
  unfold matchTerminal at h
  split at h
  · cases h
  · rename_i t rest heq
    split at h <;> simp at h
    exact ⟨rest, by rw [heq, h]⟩

theorem good_terminal {ctx : Ctx} {tok : Tok} {rest : List Tok} (h : ctx.rest = tok :: rest) (peek : Nat) (cs : List Ast) (flag : Bool)
    (hl : leavesL cs = if flag then [tok] else []) : Good ctx ⟨true, 1, cs, peek, [(tok, flag)]⟩ := by
  refine ⟨rfl, by simp [h], ?_⟩
  cases flag <;> simp [hl, named]

/-- The invariant for all five mutually recursive matcher functions at once, by induction on the fuel. -/
theorem good_all (env : Env) (fuel : Nat) :
    (∀ ctx peek sym out, matchSymbol env fuel ctx peek sym = .ok out → out.ok = true → Good ctx out) ∧
    (∀ ctx peek p allow out, matchEntry env fuel ctx peek p allow = .ok out → out.ok = true → Good ctx out) ∧
    (∀ ctx peek ps out, matchOr env fuel ctx peek ps = .ok out → out.ok = true → Good ctx out) ∧
    (∀ ctx peek ps steps children trace out, Good ctx ⟨true, steps, children, peek, trace⟩ →
        matchAnd env fuel ctx peek ps steps children trace = .ok out → out.ok = true → Good ctx out) ∧
    (∀ ctx peek es op rep found steps children trace out, (∀ pk, Good ctx ⟨true, steps, children, pk, trace⟩) →
        matchRepeat env fuel ctx peek es op rep found steps children trace = .ok out → out.ok = true → Good ctx out) := by
  induction fuel with
  | zero => simp [matchSymbol, matchEntry, matchOr, matchAnd, matchRepeat]
  | succ n ih =>
    obtain ⟨ihS, ihE, ihO, ihA, ihR⟩ := ih
    refine ⟨?_, ?_, ?_, ?_, ?_⟩
    · intro ctx peek sym out h hok
      simp only [matchSymbol] at h
      split at h
      · cases h
      · split at h
        · cases h
        · rename_i tok hmt
          simp only [Except.ok.injEq] at h; subst h
          obtain ⟨rest, hr⟩ := matchTerminal_some hmt
          exact good_terminal hr peek _ true (by simp [leavesL, leaves])
        · simp at h; subst h; simp at hok
      · split at h
        · cases h
        · rename_i o ho
          simp only [Except.ok.injEq] at h; subst h
          have g := ihE _ _ _ _ _ ho hok
          exact ⟨g.len, g.span, by simp [leavesL, leaves_unwrapChildren, g.yield]⟩
    · intro ctx peek p allow out h hok
      cases p with
      | group es op rep =>
        simp only [matchEntry] at h
        split at h
        · exact ihR _ _ _ _ _ _ _ _ _ _ (fun pk => good_nil ctx pk [] rfl) h hok
        · split at h
          · exact ihO _ _ _ _ h hok
          · exact ihA _ _ _ _ _ _ _ (good_nil ctx _ [] rfl) h hok
      | pattern e role comp =>
        cases role with
        | terminal =>
          simp only [matchEntry] at h
          split at h
          · cases h
          · rename_i tok hmt
            simp only [Except.ok.injEq] at h; subst h
            obtain ⟨rest, hr⟩ := matchTerminal_some hmt
            exact good_terminal hr _ _ false (by simp [leavesL])
          · simp at h; subst h; simp [Out.ng] at hok
        | symbol =>
          simp only [matchEntry] at h
          exact ihS _ _ _ _ h hok
    · intro ctx peek ps out h hok
      cases ps with
      | nil => simp [matchOr] at h; subst h; simp [Out.ng] at hok
      | cons p ps =>
        simp only [matchOr] at h
        split at h
        · cases h
        · rename_i o ho
          split at h
          · rename_i hk
            simp only [Except.ok.injEq] at h; subst h
            exact ihE _ _ _ _ _ ho hk
          · exact ihO _ _ _ _ h hok
    · intro ctx peek ps steps children trace out hacc h hok
      cases ps with
      | nil => simp [matchAnd] at h; subst h; exact hacc
      | cons p ps =>
        simp only [matchAnd] at h
        split at h
        · cases h
        · rename_i o ho
          split at h
          · rename_i hk
            exact ihA _ _ _ _ _ _ _ (good_extend hacc (ihE _ _ _ _ _ ho hk)) h hok
          · simp at h; subst h; simp [Out.ng] at hok
    · intro ctx peek es op rep found steps children trace out hacc h hok
      simp only [matchRepeat] at h
      split at h
      · simp only [Except.ok.injEq] at h; subst h
        exact good_repeatFinish (hacc peek) hok
      · split at h
        · cases h
        · rename_i o ho
          split at h
          · rename_i hk
            have hext := fun pk => good_extend (peek' := pk) (hacc peek) (ihE _ _ _ _ _ ho hk)
            split at h
            · simp only [Except.ok.injEq] at h; subst h
              exact good_repeatFinish (hext _) hok
            · exact ihR _ _ _ _ _ _ _ _ _ _ hext h hok
          · simp only [Except.ok.injEq] at h; subst h
            exact good_repeatFinish (hacc _) hok

theorem repeatFinish_ng {rep : Rep} {found steps peek : Nat} {children : List Ast} {trace : List (Tok × Bool)}
    (h : (repeatFinish rep found steps children peek trace).ok = false) : (repeatFinish rep found steps children peek trace).steps = 0 := by
  unfold repeatFinish at h ⊢
  split
  · split <;> simp_all [Out.ng]
  · simp_all

/-- `Step.ng()` always carries 0 steps: every `ok = false` result of the five matcher functions has `steps = 0`. -/
theorem ng_all (env : Env) (fuel : Nat) :
    (∀ ctx peek sym out, matchSymbol env fuel ctx peek sym = .ok out → out.ok = false → out.steps = 0) ∧
    (∀ ctx peek p allow out, matchEntry env fuel ctx peek p allow = .ok out → out.ok = false → out.steps = 0) ∧
    (∀ ctx peek ps out, matchOr env fuel ctx peek ps = .ok out → out.ok = false → out.steps = 0) ∧
    (∀ ctx peek ps steps children trace out, matchAnd env fuel ctx peek ps steps children trace = .ok out → out.ok = false → out.steps = 0) ∧
    (∀ ctx peek es op rep found steps children trace out,
        matchRepeat env fuel ctx peek es op rep found steps children trace = .ok out → out.ok = false → out.steps = 0) := by
  induction fuel with
  | zero => simp [matchSymbol, matchEntry, matchOr, matchAnd, matchRepeat]
  | succ n ih =>
    obtain ⟨ihS, ihE, ihO, ihA, ihR⟩ := ih
    refine ⟨?_, ?_, ?_, ?_, ?_⟩
    · intro ctx peek sym out h hk
      simp only [matchSymbol] at h
      split at h
      · cases h
      · split at h
        · cases h
        · simp at h; subst h; simp at hk
        · simp at h; subst h; rfl
      · split at h
        · cases h
        · rename_i o ho
          simp only [Except.ok.injEq] at h; subst h
          exact ihE _ _ _ _ o ho hk
    · intro ctx peek p allow out h hk
      cases p with
      | group es op rep =>
        simp only [matchEntry] at h
        split at h
        · exact ihR _ _ _ _ _ _ _ _ _ _ h hk
        · split at h
          · exact ihO _ _ _ _ h hk
          · exact ihA _ _ _ _ _ _ _ h hk
      | pattern e role comp =>
        cases role with
        | terminal =>
          simp only [matchEntry] at h
          split at h
          · cases h
          · simp at h; subst h; simp at hk
          · simp at h; subst h; rfl
        | symbol =>
          simp only [matchEntry] at h
          exact ihS _ _ _ _ h hk
    · intro ctx peek ps out h hk
      cases ps with
      | nil => simp [matchOr] at h; subst h; rfl
      | cons p ps =>
        simp only [matchOr] at h
        split at h
        · cases h
        · rename_i o ho
          split at h
          · rename_i hk'
            simp only [Except.ok.injEq] at h; subst h
            simp [hk'] at hk
          · exact ihO _ _ _ _ h hk
    · intro ctx peek ps steps children trace out h hk
      cases ps with
      | nil => simp [matchAnd] at h; subst h; simp at hk
      | cons p ps =>
        simp only [matchAnd] at h
        split at h
        · cases h
        · rename_i o ho
          split at h
          · exact ihA _ _ _ _ _ _ _ h hk
          · simp at h; subst h; rfl
    · intro ctx peek es op rep found steps children trace out h hk
      simp only [matchRepeat] at h
      split at h
      · simp only [Except.ok.injEq] at h; subst h
        exact repeatFinish_ng hk
      · split at h
        · cases h
        · rename_i o ho
          split at h
          · split at h
            · simp only [Except.ok.injEq] at h; subst h
              exact repeatFinish_ng hk
            · exact ihR _ _ _ _ _ _ _ _ _ _ h hk
          · simp only [Except.ok.injEq] at h; subst h
            exact repeatFinish_ng hk

/-- a failed match reports 0 steps (`Step.ng()`) -/
theorem ng_steps (env : Env) (fuel : Nat) (ctx : Ctx) (peek : Nat) (sym : Str) (out : Out)
    (h : matchSymbol env fuel ctx peek sym = .ok out) (hk : out.ok = false) : out.steps = 0 :=
  (ng_all env fuel).1 _ _ _ _ h hk

theorem summary_err {source : Str} {toks : List Tok} {steps : Nat} {e : Err} (h : summary source toks steps = .error e) :
    e = .indexError := by
  unfold summary at h
  split at h
  · simp only [Except.error.injEq] at h; exact h.symm
  · dsimp only at h
    split at h
    · simp only [Except.error.injEq] at h; exact h.symm
    · cases h

/-! ## `Rules.keywords` -/

theorem mem_dedup {x : Str} (acc xs : List Str) : x ∈ dedup acc xs ↔ x ∈ acc ∨ x ∈ xs := by
  induction xs generalizing acc with
  | nil => simp [dedup]
  | cons y ys ih =>
    simp only [dedup]
    split
    · rename_i hc
      rw [ih]
      simp only [List.mem_cons]
      constructor
      · rintro (h | h)
        · exact Or.inl h
        · exact Or.inr (Or.inr h)
      · rintro (h | h | h)
        · exact Or.inl h
        · subst h; exact Or.inl (by simpa using hc)
        · exact Or.inr h
    · rw [ih]
      simp only [List.mem_cons]
      constructor
      · rintro ((h | h) | h)
        · exact Or.inr (Or.inl h)
        · exact Or.inl h
        · exact Or.inr (Or.inr h)
      · rintro (h | h | h)
        · exact Or.inl (Or.inr h)
        · exact Or.inl (Or.inl h)
        · exact Or.inr h

/-- the keyword list contains the expression of EVERY terminal of EVERY rule — also of a rule that is one bare terminal -/
theorem mem_keywords {R : Rules} {kv : Str × Pat} {e : Str} (hkv : kv ∈ R) (he : e ∈ collectKeyword kv.2) : e ∈ keywords R := by
  unfold keywords
  rw [mem_dedup]
  right
  simp only [List.mem_flatMap]
  exact ⟨kv, hkv, he⟩

/-- … and nothing else -/
theorem keywords_sound {R : Rules} {e : Str} (h : e ∈ keywords R) : ∃ kv ∈ R, e ∈ collectKeyword kv.2 := by
  unfold keywords at h
  rw [mem_dedup] at h
  rcases h with h | h
  · simp at h
  · simpa [List.mem_flatMap] using h

end Tranp.Engine
