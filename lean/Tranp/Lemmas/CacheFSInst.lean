/-
  Concrete instances of the abstract part of the cache model, used for the non-vacuity `example`s and for the
  counter-examples of C05: injective, dash-free "digests" (unary codes) and a decoder that accepts exactly texts whose only
  `}` is the last character.
-/
import Tranp.Lemmas.CacheFSSim

namespace Tranp.CacheFS
open Tranp

theorem replicate_sep {n m : Nat} {x y : Str} (h : List.replicate n '\x01' ++ '\x02' :: x = List.replicate m '\x01' ++ '\x02' :: y) :
    n = m ∧ x = y := by
  induction n generalizing m with
  | zero =>
    cases m with
    | zero => simpa using h
    | succ m => simp [List.replicate_succ] at h
  | succ n ih =>
    cases m with
    | zero => simp [List.replicate_succ] at h
    | succ m =>
      simp only [List.replicate_succ, List.cons_append, List.cons.injEq, true_and] at h
      obtain ⟨h1, h2⟩ := ih h
      exact ⟨by omega, h2⟩

def encChar (c : Char) : Str := List.replicate c.toNat '\x01' ++ ['\x02']
def encStr (s : Str) : Str := s.flatMap encChar
/-- digest of a list of strings: a prefix code over the characters 1, 2, 3 (small codes keep nested digests short) -/
def encList (hs : List Str) : Str := hs.flatMap (fun h => encStr h ++ ['\x03'])

theorem encStr_tail {s s' : Str} {x y : Str} (h : encStr s ++ '\x03' :: x = encStr s' ++ '\x03' :: y) : s = s' ∧ x = y := by
  induction s generalizing s' with
  | nil =>
    cases s' with
    | nil => simpa [encStr] using h
    | cons c s' =>
      simp only [encStr, List.flatMap_nil, List.nil_append, List.flatMap_cons, encChar, List.append_assoc] at h
      cases hn : c.toNat with
      | zero => rw [hn] at h; simp at h
      | succ n => rw [hn] at h; simp [List.replicate_succ] at h
  | cons c s ih =>
    cases s' with
    | nil =>
      simp only [encStr, List.flatMap_nil, List.nil_append, List.flatMap_cons, encChar, List.append_assoc] at h
      cases hn : c.toNat with
      | zero => rw [hn] at h; simp at h
      | succ n => rw [hn] at h; simp [List.replicate_succ] at h
    | cons c' s' =>
      simp only [encStr, List.flatMap_cons, encChar, List.append_assoc, List.singleton_append] at h
      obtain ⟨h1, h2⟩ := replicate_sep h
      have hc : c = c' := Char.toNat_inj.mp h1 |> fun e => e
      obtain ⟨h3, h4⟩ := ih (s' := s') (by simpa [encStr] using h2)
      exact ⟨by rw [hc, h3], h4⟩

theorem encList_inj {a b : List Str} (h : encList a = encList b) : a = b := by
  induction a generalizing b with
  | nil =>
    cases b with
    | nil => rfl
    | cons y b =>
      simp only [encList, List.flatMap_nil, List.flatMap_cons, List.append_assoc] at h
      have := congrArg List.length h
      simp at this
  | cons x a ih =>
    cases b with
    | nil =>
      simp only [encList, List.flatMap_nil, List.flatMap_cons, List.append_assoc] at h
      have := congrArg List.length h
      simp at this
    | cons y b =>
      simp only [encList, List.flatMap_cons, List.append_assoc, List.singleton_append] at h
      obtain ⟨h1, h2⟩ := encStr_tail h
      rw [h1, ih (b := b) (by simpa [encList] using h2)]

theorem encStr_nodash (s : Str) : '-' ∉ encStr s := by
  induction s with
  | nil => simp [encStr]
  | cons c s ih =>
    simp only [encStr, List.flatMap_cons, List.mem_append, encChar, not_or] at ih ⊢
    refine ⟨⟨?_, by decide⟩, ih⟩
    intro h; have := List.eq_of_mem_replicate h; revert this; decide

theorem encList_nodash (hs : List Str) : '-' ∉ encList hs := by
  induction hs with
  | nil => simp [encList]
  | cons h hs ih =>
    simp only [encList, List.flatMap_cons, List.mem_append, not_or] at ih ⊢
    exact ⟨⟨encStr_nodash h, by decide⟩, ih⟩

theorem replicate_a_nodash (n : Nat) : '-' ∉ List.replicate n '\x01' := by
  intro h; have := List.eq_of_mem_replicate h; revert this; decide

/-- the decoder of the instances: the text ends with `}` and contains no other `}` -/
def validX (d : Str) : Bool := d.getLast? == some '}' && !(d.dropLast.contains '}')

def closeX (body : Str) : Str := body.filter (· != '}') ++ ['}']

theorem validX_closeX (body : Str) : validX (closeX body) = true := by
  simp [validX, closeX, List.dropLast_concat]

theorem validX_prefix (d : Str) (hd : validX d = true) (k : Nat) (hk : k < d.length) : validX (d.take k) = false := by
  simp only [validX, Bool.and_eq_true, beq_iff_eq, Bool.not_eq_true', List.contains_eq_mem, decide_eq_false_iff_not] at hd
  obtain ⟨_, hno⟩ := hd
  have ht : d.take k = d.dropLast.take k := by
    rw [List.dropLast_eq_take, List.take_take]
    congr 1; omega
  cases hl : (d.take k).getLast? with
  | none => simp [validX, hl]
  | some c =>
    have hc : c ∈ d.take k := List.mem_of_getLast? hl
    rw [ht] at hc
    have hc' : c ∈ d.dropLast := List.mem_of_mem_take hc
    have : c ≠ '}' := fun e => hno (e ▸ hc')
    have hb : ((List.take k d).getLast? == some '}') = false := by
      rw [hl]; simpa using this
    simp [validX, hb]

/-- digest of (grammar path, start, algorithm, grammar mtime) -/
def pid (gp st al : Str) (g : Nat) : Str := encList [gp, st, al, List.replicate g '\x01']

theorem pid_inj {gp st al gp' st' al' : Str} {g g' : Nat} (h : pid gp st al g = pid gp' st' al' g') :
    gp = gp' ∧ st = st' ∧ al = al' ∧ g = g' := by
  have := encList_inj h
  simp only [List.cons.injEq, and_true] at this
  obtain ⟨h1, h2, h3, h4⟩ := this
  refine ⟨h1, h2, h3, ?_⟩
  have := congrArg List.length h4
  simpa using this

/-- digest of (grammar path, start, algorithm, grammar mtime, source mtime, content-hash component) -/
def tid (gp st al : Str) (g t : Nat) (ch : Str) : Str := encList [gp, st, al, List.replicate g '\x01', List.replicate t '\x01', ch]

theorem tid_inj {gp st al ch gp' st' al' ch' : Str} {g t g' t' : Nat} (h : tid gp st al g t ch = tid gp' st' al' g' t' ch') :
    gp = gp' ∧ st = st' ∧ al = al' ∧ g = g' ∧ t = t' ∧ ch = ch' := by
  have := encList_inj h
  simp only [List.cons.injEq, and_true] at this
  obtain ⟨h1, h2, h3, h4, h5, h6⟩ := this
  refine ⟨h1, h2, h3, ?_, ?_, h6⟩
  · have := congrArg List.length h4
    simpa using this
  · have := congrArg List.length h5
    simpa using this

theorem tid_nodash (gp st al : Str) (g t : Nat) (ch : Str) : '-' ∉ tid gp st al g t ch := encList_nodash _

/-! ### a payload codec for symbol tables: unary code of the characters, terminated by `c` -/

def decodeU : Nat → Str → Str
  | _, [] => []
  | n, c :: r => if c = '\x01' then decodeU (n + 1) r else if c = '\x02' then Char.ofNat n :: decodeU 0 r else []

theorem decodeU_run (n m : Nat) (rest : Str) : decodeU n (List.replicate m '\x01' ++ '\x02' :: rest) = Char.ofNat (n + m) :: decodeU 0 rest := by
  induction m generalizing n with
  | zero => simp [decodeU]
  | succ m ih =>
    simp only [List.replicate_succ, List.cons_append, decodeU, ↓reduceIte]
    rw [ih]; congr 2; omega

theorem decodeU_enc (t : Str) : decodeU 0 (encStr t ++ ['\x03']) = t := by
  induction t with
  | nil => simp [encStr, decodeU]
  | cons c t ih =>
    have e : encStr (c :: t) ++ ['\x03'] = List.replicate c.toNat '\x01' ++ '\x02' :: (encStr t ++ ['\x03']) := by
      simp [encStr, encChar, List.append_assoc]
    rw [e, decodeU_run]
    simp only [Nat.zero_add, Char.ofNat_toNat]
    rw [ih]

def encT (t : Str) : Str := encStr t ++ ['\x03']
def decT (d : Str) : Option Str := if d = encT (decodeU 0 d) then some (decodeU 0 d) else none

theorem decT_encT (t : Str) : decT (encT t) = some t := by
  unfold decT encT
  rw [decodeU_enc]; simp

theorem encStr_noc (s : Str) : '\x03' ∉ encStr s := by
  induction s with
  | nil => simp [encStr]
  | cons c s ih =>
    simp only [encStr, List.flatMap_cons, List.mem_append, encChar, not_or] at ih ⊢
    refine ⟨⟨?_, by decide⟩, ih⟩
    intro h; have := List.eq_of_mem_replicate h; revert this; decide

theorem decT_prefix (t : Str) (k : Nat) (hk : k < (encT t).length) : decT ((encT t).take k) = none := by
  unfold decT
  split
  · rename_i he
    -- the prefix would end with `c`, but it lies inside `encStr t`
    have hpre : (encT t).take k = (encStr t).take k := by
      unfold encT
      rw [List.take_append_of_le_length]
      unfold encT at hk
      simp at hk ⊢; omega
    have hc : '\x03' ∈ (encT t).take k := by rw [he]; unfold encT; simp
    rw [hpre] at hc
    exact absurd (List.mem_of_mem_take hc) (encStr_noc t)
  · rfl

/-- base instance: unary digests, no imports -/
def baseSem : Sem where
  treeIdent := tid
  parserIdent := pid
  hash := id
  identL := encList
  entry p h := encList [p, h]
  parserBlob _ _ _ _ := ['}']
  parse _ src := closeX src
  importsOf _ := []
  analyse _ tree vs := closeX (tree ++ vs.flatten)
  encTab := encT
  decTab := decT
  view t := t
  render k t _ := k ++ t
  valid := validX

theorem hyp_of (S : Sem) (h1 : S.treeIdent = tid) (h2 : S.parserIdent = pid) (h3 : S.hash = id)
    (h4 : S.identL = encList) (h5 : S.valid = validX) (h6 : ∀ pz src, ∃ b, S.parse pz src = closeX b)
    (h7 : ∀ gp st al g, ∃ b, S.parserBlob gp st al g = closeX b) (h8 : S.encTab = encT) (h9 : S.decTab = decT)
    (h10 : S.entry = fun p h => encList [p, h]) :
    Hyp S where
  tree_inj := by rw [h1]; exact fun _ _ _ _ _ _ _ _ _ _ _ _ h => tid_inj h
  tree_nodash := by rw [h1]; exact tid_nodash
  parser_inj := by rw [h2]; exact fun _ _ _ _ _ _ _ _ h => pid_inj h
  parser_nodash := by rw [h2]; exact fun _ _ _ _ => encList_nodash _
  hash_inj := by rw [h3]; exact fun _ _ h => h
  identL_inj := by rw [h4]; exact fun _ _ h => encList_inj h
  identL_nodash := by rw [h4]; exact encList_nodash
  entry_inj := by
    rw [h10]; intro p h p' h' e
    have := encList_inj e
    simp only [List.cons.injEq, and_true] at this
    exact this
  valid_parse := by rw [h5]; intro pz src; obtain ⟨b, hb⟩ := h6 pz src; rw [hb]; exact validX_closeX b
  valid_blob := by rw [h5]; intro gp st al g; obtain ⟨b, hb⟩ := h7 gp st al g; rw [hb]; exact validX_closeX b
  prefix_invalid := by rw [h5]; exact validX_prefix
  dec_enc := by rw [h8, h9]; exact decT_encT
  dec_prefix := by rw [h8, h9]; exact decT_prefix

theorem baseSem_hyp : Hyp baseSem :=
  hyp_of baseSem rfl rfl rfl rfl rfl (fun _ src => ⟨src, rfl⟩) (fun _ _ _ _ => ⟨[], rfl⟩) rfl rfl rfl

/-! ### witnesses used by the `example`s and the counter-examples -/

def c1 : Char := Char.ofNat 1
def c2 : Char := Char.ofNat 2
def c3 : Char := Char.ofNat 3
def c4 : Char := Char.ofNat 4

/-- chain a → b → c; a symbol table is the module's own text followed by what it sees of its imports, and a dependant sees
    the whole table of an import (types flow through: F5) -/
def cxSem : Sem := { baseSem with
  importsOf := fun tree => if tree = [c4, '}'] then [['b']] else if tree = [c3, '}'] then [['c']] else []
  analyse := fun _ tree vs => closeX (tree ++ vs.flatten)
  view := fun t => t.dropLast
  render := fun k tree db => k ++ tree ++ ((List.lookup k db).getD []) }

theorem cxSem_hyp : Hyp cxSem :=
  hyp_of cxSem rfl rfl rfl rfl rfl (fun _ src => ⟨src, rfl⟩) (fun _ _ _ _ => ⟨[], rfl⟩) rfl rfl rfl

/-- as `cxSem`, but the tree depends on the parser: the pickle of a grammar path marks every tree parsed with it -/
def gramSem : Sem := { cxSem with
  parserBlob := fun gp _ _ _ => closeX gp
  parse := fun pz src => closeX (src ++ pz.dropLast) }

theorem gramSem_hyp : Hyp gramSem :=
  hyp_of gramSem rfl rfl rfl rfl rfl (fun pz src => ⟨src ++ pz.dropLast, rfl⟩) (fun gp _ _ _ => ⟨gp, rfl⟩) rfl rfl rfl

def cxWorld : World := { order := [['a'], ['b'], ['c']] }
/-- build, change the leaf `c`, (then build again) -/
def cxHist : List Op := [.edit ['c'] [c1], .edit ['b'] [c3], .edit ['a'] [c4], .run true, .edit ['c'] [c2]]

theorem cxHist_ok : ∀ op ∈ cxHist, OpOK op := by
  intro op hop
  simp only [cxHist, List.mem_cons, List.not_mem_nil, or_false] at hop
  rcases hop with rfl | rfl | rfl | rfl | rfl <;> first | trivial | (exact ⟨by decide, by decide⟩)

theorem cxHist_plain : (∀ op ∈ cxHist, NoGrammar op) ∧ (∀ op ∈ cxHist, NoDamage op) := by
  constructor <;> (intro op hop; simp only [cxHist, List.mem_cons, List.not_mem_nil, or_false] at hop
                   rcases hop with rfl | rfl | rfl | rfl | rfl <;> trivial)

theorem cxHist_acyclic : Acyclic cxSem cxWorld cxHist := by
  refine ⟨trivial, trivial, trivial, ?_, trivial, trivial⟩
  show (run cxSem _ true).cyc = false
  decide +kernel

end Tranp.CacheFS
