/-
  Concrete instances of the abstract part of the cache model, used for the non-vacuity `example`s and for the
  counter-examples of C05: injective, dash-free "digests" (unary codes) and a decoder that accepts exactly texts whose only
  `}` is the last character.
-/
import Tranp.Lemmas.CacheFS

namespace Tranp.CacheFS
open Tranp

theorem replicate_sep {n m : Nat} {x y : Str} (h : List.replicate n 'a' ++ 'b' :: x = List.replicate m 'a' ++ 'b' :: y) :
    n = m ∧ x = y := by
  induction n generalizing m with
  | zero =>
    cases m with
    | zero => simpa using h
    | succ m => simp [List.replicate_succ] at h
  | succ n ih =>
    cases m with
    | zero => simp [List.replicate_succ] at h
    | succ m =>
      simp only [List.replicate_succ, List.cons_append, List.cons.injEq, true_and] at h
      obtain ⟨h1, h2⟩ := ih h
      exact ⟨by omega, h2⟩

/-- digest of (grammar mtime, source mtime) -/
def tid (g t : Nat) : Str := List.replicate g 'a' ++ 'b' :: List.replicate t 'a'

theorem tid_inj {g t g' t' : Nat} (h : tid g t = tid g' t') : g = g' ∧ t = t' := by
  obtain ⟨h1, h2⟩ := replicate_sep h
  refine ⟨h1, ?_⟩
  have := congrArg List.length h2
  simpa using this

def encChar (c : Char) : Str := List.replicate c.toNat 'a' ++ ['b']
def encStr (s : Str) : Str := s.flatMap encChar
/-- digest of a list of strings: a prefix code over {a, b, c} -/
def encList (hs : List Str) : Str := hs.flatMap (fun h => encStr h ++ ['c'])

theorem encStr_tail {s s' : Str} {x y : Str} (h : encStr s ++ 'c' :: x = encStr s' ++ 'c' :: y) : s = s' ∧ x = y := by
  induction s generalizing s' with
  | nil =>
    cases s' with
    | nil => simpa [encStr] using h
    | cons c s' =>
      simp only [encStr, List.flatMap_nil, List.nil_append, List.flatMap_cons, encChar, List.append_assoc] at h
      cases hn : c.toNat with
      | zero => rw [hn] at h; simp at h
      | succ n => rw [hn] at h; simp [List.replicate_succ] at h
  | cons c s ih =>
    cases s' with
    | nil =>
      simp only [encStr, List.flatMap_nil, List.nil_append, List.flatMap_cons, encChar, List.append_assoc] at h
      cases hn : c.toNat with
      | zero => rw [hn] at h; simp at h
      | succ n => rw [hn] at h; simp [List.replicate_succ] at h
    | cons c' s' =>
      simp only [encStr, List.flatMap_cons, encChar, List.append_assoc, List.singleton_append] at h
      obtain ⟨h1, h2⟩ := replicate_sep h
      have hc : c = c' := Char.toNat_inj.mp h1 |> fun e => e
      obtain ⟨h3, h4⟩ := ih (s' := s') (by simpa [encStr] using h2)
      exact ⟨by rw [hc, h3], h4⟩

theorem encList_inj {a b : List Str} (h : encList a = encList b) : a = b := by
  induction a generalizing b with
  | nil =>
    cases b with
    | nil => rfl
    | cons y b =>
      simp only [encList, List.flatMap_nil, List.flatMap_cons, List.append_assoc] at h
      have := congrArg List.length h
      simp at this
  | cons x a ih =>
    cases b with
    | nil =>
      simp only [encList, List.flatMap_nil, List.flatMap_cons, List.append_assoc] at h
      have := congrArg List.length h
      simp at this
    | cons y b =>
      simp only [encList, List.flatMap_cons, List.append_assoc, List.singleton_append] at h
      obtain ⟨h1, h2⟩ := encStr_tail h
      rw [h1, ih (b := b) (by simpa [encList] using h2)]

theorem encStr_nodash (s : Str) : '-' ∉ encStr s := by
  induction s with
  | nil => simp [encStr]
  | cons c s ih =>
    simp only [encStr, List.flatMap_cons, List.mem_append, encChar, not_or] at ih ⊢
    refine ⟨⟨?_, by decide⟩, ih⟩
    intro h; have := List.eq_of_mem_replicate h; revert this; decide

theorem encList_nodash (hs : List Str) : '-' ∉ encList hs := by
  induction hs with
  | nil => simp [encList]
  | cons h hs ih =>
    simp only [encList, List.flatMap_cons, List.mem_append, not_or] at ih ⊢
    exact ⟨⟨encStr_nodash h, by decide⟩, ih⟩

theorem replicate_a_nodash (n : Nat) : '-' ∉ List.replicate n 'a' := by
  intro h; have := List.eq_of_mem_replicate h; revert this; decide

theorem tid_nodash (g t : Nat) : '-' ∉ tid g t := by
  simp only [tid, List.mem_append, List.mem_cons, not_or]
  exact ⟨replicate_a_nodash g, by decide, replicate_a_nodash t⟩

/-- the decoder of the instances: the text ends with `}` and contains no other `}` -/
def validX (d : Str) : Bool := d.getLast? == some '}' && !(d.dropLast.contains '}')

def closeX (body : Str) : Str := body.filter (· != '}') ++ ['}']

theorem validX_closeX (body : Str) : validX (closeX body) = true := by
  simp [validX, closeX, List.dropLast_concat]

theorem validX_prefix (d : Str) (hd : validX d = true) (k : Nat) (hk : k < d.length) : validX (d.take k) = false := by
  simp only [validX, Bool.and_eq_true, beq_iff_eq, Bool.not_eq_true', List.contains_eq_mem, decide_eq_false_iff_not] at hd
  obtain ⟨_, hno⟩ := hd
  have ht : d.take k = d.dropLast.take k := by
    rw [List.dropLast_eq_take, List.take_take]
    congr 1; omega
  cases hl : (d.take k).getLast? with
  | none => simp [validX, hl]
  | some c =>
    have hc : c ∈ d.take k := List.mem_of_getLast? hl
    rw [ht] at hc
    have hc' : c ∈ d.dropLast := List.mem_of_mem_take hc
    have : c ≠ '}' := fun e => hno (e ▸ hc')
    have hb : ((List.take k d).getLast? == some '}') = false := by
      rw [hl]; simpa using this
    simp [validX, hb]

/-- base instance: unary digests, no imports -/
def baseSem : Sem where
  treeIdent := tid
  parserIdent g := List.replicate g 'a'
  hash := id
  identL := encList
  parserBlob _ := ['}']
  parse := closeX
  importsOf _ := []
  analyse _ tree vs := closeX (tree ++ vs.flatten)
  view t := t
  render k t _ := k ++ t
  valid := validX

theorem hyp_of (S : Sem) (h1 : S.treeIdent = tid) (h2 : S.parserIdent = fun g => List.replicate g 'a') (h3 : S.hash = id)
    (h4 : S.identL = encList) (h5 : S.valid = validX) (h6 : ∀ src, ∃ b, S.parse src = closeX b) (h7 : ∀ k t vs, ∃ b, S.analyse k t vs = closeX b) :
    Hyp S where
  tree_inj := by rw [h1]; exact fun _ _ _ _ h => tid_inj h
  tree_nodash := by rw [h1]; exact tid_nodash
  parser_nodash := by rw [h2]; exact replicate_a_nodash
  hash_inj := by rw [h3]; exact fun _ _ h => h
  identL_inj := by rw [h4]; exact fun _ _ h => encList_inj h
  identL_nodash := by rw [h4]; exact encList_nodash
  valid_parse := by rw [h5]; intro src; obtain ⟨b, hb⟩ := h6 src; rw [hb]; exact validX_closeX b
  valid_analyse := by rw [h5]; intro k t vs; obtain ⟨b, hb⟩ := h7 k t vs; rw [hb]; exact validX_closeX b
  prefix_invalid := by rw [h5]; exact validX_prefix

theorem baseSem_hyp : Hyp baseSem := hyp_of baseSem rfl rfl rfl rfl rfl (fun src => ⟨src, rfl⟩) (fun _ t vs => ⟨t ++ vs.flatten, rfl⟩)

/-! ### witnesses used by the `example`s and the counter-examples -/

def c1 : Char := Char.ofNat 1
def c2 : Char := Char.ofNat 2
def c3 : Char := Char.ofNat 3
def c4 : Char := Char.ofNat 4

/-- chain a → b → c; a symbol table is the module's own text followed by what it sees of its imports, and a dependant sees
    the whole table of an import (types flow through: F5) -/
def cxSem : Sem := { baseSem with
  importsOf := fun tree => if tree = [c4, '}'] then [['b']] else if tree = [c3, '}'] then [['c']] else []
  analyse := fun _ tree vs => closeX (tree ++ vs.flatten)
  view := fun t => t.dropLast
  render := fun k tree db => k ++ tree ++ ((List.lookup k db).getD []) }

theorem cxSem_hyp : Hyp cxSem :=
  hyp_of cxSem rfl rfl rfl rfl rfl (fun src => ⟨src, rfl⟩) (fun _ t vs => ⟨t ++ vs.flatten, rfl⟩)

def cxWorld : World := { order := [['a'], ['b'], ['c']] }
/-- build, change the leaf `c`, (then build again) -/
def cxHist : List Op := [.edit ['c'] [c1], .edit ['b'] [c3], .edit ['a'] [c4], .run true, .edit ['c'] [c2]]

theorem cxHist_ok : ∀ op ∈ cxHist, OpOK op := by
  intro op hop
  simp only [cxHist, List.mem_cons, List.not_mem_nil, or_false] at hop
  rcases hop with rfl | rfl | rfl | rfl | rfl <;> first | trivial | (exact ⟨by decide, by decide⟩)

theorem add_last (ds : List Str) (xs : List Str) (d : Str) :
    d ∈ (xs ++ [d]).foldl (fun ds a => if ds.contains a then ds else ds ++ [a]) ds := by
  rw [List.foldl_append]
  simp only [List.foldl_cons, List.foldl_nil]
  split
  · rename_i h; simpa using h
  · simp

theorem mkdirs_mem (w : World) (d : Str) : d ∈ (w.mkdirs d).dirs := add_last _ _ _

theorem cxHist_acyclic : Acyclic cxSem cxWorld cxHist := by
  refine ⟨trivial, trivial, trivial, ?_, trivial, trivial⟩
  show (run cxSem _ true).cyc = false
  decide +kernel

def srcInt : Str → Str := fun k => if k = ['a'] then [c4] else if k = ['b'] then [c3] else [c1]
def srcStr : Str → Str := fun k => if k = ['a'] then [c4] else if k = ['b'] then [c3] else [c2]


end Tranp.CacheFS
