/-
  Lemmas for property C18, part 6: `break_separator` with a multi-character delimiter that can not overlap itself
  (its first character does not occur again in it; no bracket or quote character in it): exact split and rejoin law.
-/
import Tranp.Lemmas.Block

namespace Tranp.Block
open Tranp Tranp.Generated.BlockPairs

/-- the guard: non-empty, no bracket/quote character, the first character does not occur again (`, `, `: `, ` =`, every
    one-character delimiter; not `::`, `aa`, ` = `, and not `->` because `>` is a bracket character) -/
def delimGuard : Str → Bool
  | [] => false
  | d0 :: ds => !ds.contains d0 && (d0 :: ds).all fun c => !has Frag.special c

/-- The pieces, before stripping: `rem` = the characters of a delimiter just cut that are still ahead (they belong to no piece) -/
def segM (d0 : Char) (ds : Str) : Frag → Str → Str → List Str
  | .nil, _, cur => [cur]
  | .atom _ r, _ :: rem, cur => segM d0 ds r rem cur
  | .atom c r, [], cur =>
    if c = d0 ∧ ds.length < r.render.length ∧ Str.startsWith r.render ds = true then cur :: segM d0 ds r ds []
    else segM d0 ds r [] (cur ++ [c])
  | .str q b r, _, cur => segM d0 ds r [] (cur ++ q.ch :: (b ++ [q.ch]))
  | .group k i r, _, cur => segM d0 ds r [] (cur ++ k.open :: (i.render ++ [k.close]))

/-- what `break_separator(render f, d0 :: ds)` returns, in accumulator form -/
def specM (d0 : Char) (ds : Str) : Frag → Str → Str → List Str
  | .nil, _, cur => if cur = [] then [] else [strip cur]
  | .atom _ r, _ :: rem, cur => specM d0 ds r rem cur
  | .atom c r, [], cur =>
    if c = d0 ∧ ds.length < r.render.length ∧ Str.startsWith r.render ds = true then strip cur :: specM d0 ds r ds []
    else specM d0 ds r [] (cur ++ [c])
  | .str q b r, _, cur => specM d0 ds r [] (cur ++ q.ch :: (b ++ [q.ch]))
  | .group k i r, _, cur => specM d0 ds r [] (cur ++ k.open :: (i.render ++ [k.close]))

theorem startsWith_cons_cons (c x : Char) (cs xs : Str) : Str.startsWith (c :: cs) (x :: xs) = (decide (c = x) && Str.startsWith cs xs) := by
  simp [Str.startsWith]

theorem startsWith_nil_left (p : Str) (h : Str.startsWith [] p = true) : p = [] := by
  cases p <;> simp_all [Str.startsWith]

theorem sepLoop_fragM (d0 : Char) (ds : Str) (hds : ∀ x ∈ ds, x ≠ d0 ∧ has Frag.special x = false) (f : Frag) :
    ∀ (pre : Str) (begin : Nat) (blocks : List Str) (fuel : Nat) (rem : Str),
      f.render.length < fuel → Frag.Simple f →
      (rem = [] → begin ≤ pre.length) → (rem ≠ [] → begin = pre.length + rem.length) →
      Str.startsWith f.render rem = true → (∀ x ∈ rem, x ≠ d0 ∧ has Frag.special x = false) →
      sepLoop (pre ++ f.render) (d0 :: ds) fuel f.render pre.length begin blocks
        = .ok (blocks ++ specM d0 ds f rem (if rem = [] then pre.drop begin else [])) := by
  induction f with
  | nil =>
    intro pre begin blocks fuel rem hf _ hb0 _ hsw _
    have hrem : rem = [] := startsWith_nil_left rem (by simpa [Frag.render] using hsw)
    subst hrem
    have hb := hb0 rfl
    obtain ⟨n, rfl⟩ : ∃ n, fuel = n + 1 := ⟨fuel - 1, by omega⟩
    simp only [Frag.render, sepLoop, List.append_nil, specM, if_true]
    have : slice pre begin pre.length = pre.drop begin := by simpa using slice_prefix pre [] begin
    rw [this]
    by_cases h : begin < pre.length
    · have : pre.drop begin ≠ [] := by simp; omega
      simp [h, this]
    · have : pre.drop begin = [] := by simp; omega
      simp [h, this]
  | atom c r ih =>
    intro pre begin blocks fuel rem hf hs hb0 hb1 hsw hrem
    obtain ⟨n, rfl⟩ : ∃ n, fuel = n + 1 := ⟨fuel - 1, by omega⟩
    rw [simple_atom] at hs
    have htext : pre ++ (Frag.atom c r).render = (pre ++ [c]) ++ r.render := by simp [Frag.render]
    simp only [Frag.render, List.length_cons] at hf
    have hno := not_open_of_plain c hs.1
    cases rem with
    | cons x rem' =>
      -- still inside the delimiter that was just cut: no cut, the character belongs to no piece
      simp only [Frag.render, startsWith_cons_cons, Bool.and_eq_true, decide_eq_true_eq] at hsw
      obtain ⟨rfl, hsw'⟩ := hsw
      have hx := hrem c (by simp)
      have hbeg := hb1 (by simp)
      simp only [List.length_cons] at hbeg
      rw [htext]
      simp only [Frag.render, sepLoop, hno, Bool.false_eq_true, if_false]
      rw [if_neg (fun h => hx.1 h.1)]
      have := ih (pre ++ [c]) begin blocks n rem' (by omega) hs.2
        (by intro h; subst h; simp at hbeg ⊢; omega) (by intro _; simp; omega) hsw' (fun y hy => hrem y (by simp [hy]))
      simp only [List.length_append, List.length_cons, List.length_nil, Nat.zero_add] at this
      rw [this]
      simp only [specM, List.cons_ne_nil, if_false]
      cases rem' with
      | nil =>
        have : (pre ++ [c]).drop begin = [] := by simp; omega
        simp [this]
      | cons y ys => simp
    | nil =>
      have hb := hb0 rfl
      simp only [if_true]
      rw [htext]
      simp only [Frag.render, sepLoop, hno, Bool.false_eq_true, if_false]
      have hlen : (pre.length + (d0 :: ds).length < (pre ++ [c] ++ r.render).length) ↔ ds.length < r.render.length := by
        simp
      have hst : Str.startsWith (c :: r.render) (d0 :: ds) = true ↔ (c = d0 ∧ Str.startsWith r.render ds = true) := by
        simp [startsWith_cons_cons]
      by_cases hcut : c = d0 ∧ ds.length < r.render.length ∧ Str.startsWith r.render ds = true
      · rw [if_pos ⟨hcut.1, hlen.mpr hcut.2.1, hst.mpr ⟨hcut.1, hcut.2.2⟩⟩]
        have hsl : slice (pre ++ [c] ++ r.render) begin pre.length = pre.drop begin := by
          rw [List.append_assoc]; exact slice_prefix pre _ begin
        rw [hsl]
        have := ih (pre ++ [c]) (pre.length + (d0 :: ds).length) (blocks ++ [strip (pre.drop begin)]) n ds (by omega) hs.2
          (by intro h; subst h; simp) (by intro _; simp; omega) hcut.2.2 hds
        simp only [List.length_append, List.length_cons, List.length_nil, Nat.zero_add] at this ⊢
        rw [this]
        simp only [specM, if_pos hcut]
        cases ds with
        | nil => simp
        | cons y ys => simp
      · have hneg : ¬ (c = d0 ∧ pre.length + (d0 :: ds).length < (pre ++ [c] ++ r.render).length ∧ Str.startsWith (c :: r.render) (d0 :: ds) = true) := by
          intro ⟨h1, h2, h3⟩
          exact hcut ⟨h1, hlen.mp h2, (hst.mp h3).2⟩
        rw [if_neg hneg]
        have := ih (pre ++ [c]) begin blocks n [] (by omega) hs.2 (by intro _; simp; omega) (by intro h; exact absurd rfl h)
          (by cases r.render <;> simp [Str.startsWith]) (by simp)
        simp only [List.length_append, List.length_cons, List.length_nil, if_true] at this
        rw [this, List.drop_append_of_le_length hb]
        simp [specM, hcut]
  | str q b r ih =>
    intro pre begin blocks fuel rem hf hs hb0 hb1 hsw hrem
    obtain ⟨n, rfl⟩ : ∃ n, fuel = n + 1 := ⟨fuel - 1, by omega⟩
    rw [simple_str] at hs
    have hrem0 : rem = [] := by
      cases rem with
      | nil => rfl
      | cons x xs =>
        simp only [Frag.render, startsWith_cons_cons, Bool.and_eq_true, decide_eq_true_eq] at hsw
        have := (hrem x (by simp)).2
        rw [← hsw.1] at this
        exact absurd this (by cases q <;> decide)
    subst hrem0
    have hb := hb0 rfl
    generalize hg : q.ch :: (b ++ [q.ch]) = g
    have hglen : g.length = b.length + 2 := by subst hg; simp
    have hrend : (Frag.str q b r).render = g ++ r.render := by subst hg; simp [Frag.render]
    have hskip : skipLen allPairs [] (g ++ r.render) = g.length := by
      rw [hglen]; subst hg; simpa using skipLen_str q b r.render hs.1
    have hopen : ∃ c cs, g ++ r.render = c :: cs ∧ has openTokens c = true := by
      subst hg; exact ⟨q.ch, _, rfl, open_qk q⟩
    rw [hrend] at hf ⊢
    obtain ⟨c, cs, hcs, hco⟩ := hopen
    rw [← List.append_assoc]
    conv => lhs; arg 4; rw [hcs]
    simp only [sepLoop, hco, if_true]
    rw [← hcs, hskip, List.drop_left]
    have := ih (pre ++ g) begin blocks n [] (by simp at hf; omega) hs.2 (by intro _; simp; omega) (by intro h; exact absurd rfl h)
      (by cases r.render <;> simp [Str.startsWith]) (by simp)
    rw [List.length_append] at this
    simp only [if_true] at this ⊢
    rw [this, List.drop_append_of_le_length hb]
    subst hg
    simp [specM]
  | group k i r _ ihr =>
    intro pre begin blocks fuel rem hf hs hb0 hb1 hsw hrem
    obtain ⟨n, rfl⟩ : ∃ n, fuel = n + 1 := ⟨fuel - 1, by omega⟩
    rw [simple_group] at hs
    have hrem0 : rem = [] := by
      cases rem with
      | nil => rfl
      | cons x xs =>
        simp only [Frag.render, startsWith_cons_cons, Bool.and_eq_true, decide_eq_true_eq] at hsw
        have := (hrem x (by simp)).2
        rw [← hsw.1] at this
        exact absurd this (by cases k <;> decide)
    subst hrem0
    have hb := hb0 rfl
    generalize hg : k.open :: (i.render ++ [k.close]) = g
    have hglen : g.length = i.render.length + 2 := by subst hg; simp
    have hrend : (Frag.group k i r).render = g ++ r.render := by subst hg; simp [Frag.render]
    have hskip : skipLen allPairs [] (g ++ r.render) = g.length := by
      rw [hglen]; subst hg; simpa using skipLen_group k i r.render hs.1
    have hopen : ∃ c cs, g ++ r.render = c :: cs ∧ has openTokens c = true := by
      subst hg; exact ⟨k.open, _, rfl, open_bk k⟩
    rw [hrend] at hf ⊢
    obtain ⟨c, cs, hcs, hco⟩ := hopen
    rw [← List.append_assoc]
    conv => lhs; arg 4; rw [hcs]
    simp only [sepLoop, hco, if_true]
    rw [← hcs, hskip, List.drop_left]
    have := ihr (pre ++ g) begin blocks n [] (by simp at hf; omega) hs.2 (by intro _; simp; omega) (by intro h; exact absurd rfl h)
      (by cases r.render <;> simp [Str.startsWith]) (by simp)
    rw [List.length_append] at this
    simp only [if_true] at this ⊢
    rw [this, List.drop_append_of_le_length hb]
    subst hg
    simp [specM]

theorem startsWith_eq (s p : Str) (h : Str.startsWith s p = true) : p ++ s.drop p.length = s := by
  induction p generalizing s with
  | nil => simp
  | cons x p ih =>
    cases s with
    | nil => simp [Str.startsWith] at h
    | cons c s =>
      simp only [startsWith_cons_cons, Bool.and_eq_true, decide_eq_true_eq] at h
      simp [h.1, ih s h.2]

theorem segM_ne_nil (d0 : Char) (ds : Str) (f : Frag) : ∀ rem cur, segM d0 ds f rem cur ≠ [] := by
  induction f with
  | nil => intro rem cur; simp [segM]
  | atom c r ih =>
    intro rem cur
    cases rem with
    | nil => simp only [segM]; split <;> simp [ih]
    | cons x xs => simp only [segM]; exact ih _ _
  | str q b r ih => intro rem cur; simp only [segM]; exact ih _ _
  | group k i r _ ih => intro rem cur; simp only [segM]; exact ih _ _

theorem join_cons_of_ne_nil (d x : Str) (xs : List Str) (h : xs ≠ []) : Str.join d (x :: xs) = x ++ d ++ Str.join d xs := by
  cases xs with
  | nil => exact absurd rfl h
  | cons y ys => simp [Str.join]

theorem rem_nil_of_special (rem : Str) (c : Char) (cs : Str) (hc : has Frag.special c = true)
    (hsw : Str.startsWith (c :: cs) rem = true) (hrem : ∀ x ∈ rem, has Frag.special x = false) : rem = [] := by
  cases rem with
  | nil => rfl
  | cons x xs =>
    simp only [startsWith_cons_cons, Bool.and_eq_true, decide_eq_true_eq] at hsw
    have := hrem x (by simp)
    rw [← hsw.1, hc] at this
    cases this

theorem special_quote (q : QK) : has Frag.special q.ch = true := by cases q <;> decide
theorem special_open (k : BK) : has Frag.special k.open = true := by cases k <;> decide

/-- the unstripped pieces rejoined with the delimiter are the text (minus the delimiter characters still ahead) -/
theorem join_segM (d0 : Char) (ds : Str) (hds : ∀ x ∈ ds, has Frag.special x = false) (f : Frag) :
    ∀ (rem cur : Str), Frag.Simple f →
    Str.startsWith f.render rem = true → (∀ x ∈ rem, has Frag.special x = false) →
    Str.join (d0 :: ds) (segM d0 ds f rem cur) = cur ++ f.render.drop rem.length := by
  induction f with
  | nil =>
    intro rem cur _ hsw _
    have : rem = [] := startsWith_nil_left rem (by simpa [Frag.render] using hsw)
    subst this; simp [segM, Str.join, Frag.render]
  | atom c r ih =>
    intro rem cur hs hsw hrem
    rw [simple_atom] at hs
    cases rem with
    | cons x rem' =>
      simp only [Frag.render, startsWith_cons_cons, Bool.and_eq_true, decide_eq_true_eq] at hsw
      simp only [segM, ih rem' cur hs.2 hsw.2 (fun y hy => hrem y (by simp [hy])), Frag.render, List.length_cons, List.drop_succ_cons]
    | nil =>
      simp only [segM, List.length_nil, List.drop_zero, Frag.render]
      by_cases hcut : c = d0 ∧ ds.length < r.render.length ∧ Str.startsWith r.render ds = true
      · rw [if_pos hcut, join_cons_of_ne_nil _ _ _ (segM_ne_nil d0 ds r ds []), ih ds [] hs.2 hcut.2.2 hds]
        have := startsWith_eq r.render ds hcut.2.2
        simp only [List.nil_append, List.append_assoc, List.cons_append, hcut.1]
        rw [this]
      · rw [if_neg hcut, ih [] (cur ++ [c]) hs.2 (by cases r.render <;> simp [Str.startsWith]) (by simp)]
        simp
  | str q b r ih =>
    intro rem cur hs hsw hrem
    rw [simple_str] at hs
    have : rem = [] := rem_nil_of_special rem q.ch _ (special_quote q) (by simpa [Frag.render] using hsw) hrem
    subst this
    simp only [segM, ih [] _ hs.2 (by cases r.render <;> simp [Str.startsWith]) (by simp), Frag.render]
    simp
  | group k i r _ ih =>
    intro rem cur hs hsw hrem
    rw [simple_group] at hs
    have : rem = [] := rem_nil_of_special rem k.open _ (special_open k) (by simpa [Frag.render] using hsw) hrem
    subst this
    simp only [segM, ih [] _ hs.2 (by cases r.render <;> simp [Str.startsWith]) (by simp), Frag.render]
    simp

/-- the result is the stripped pieces (the empty text gives no piece) -/
theorem specM_eq_segM (d0 : Char) (ds : Str) (f : Frag) : ∀ (rem cur : Str),
    (rem ≠ [] → rem.length < f.render.length) →
    specM d0 ds f rem cur = if cur = [] ∧ f = .nil then [] else (segM d0 ds f rem cur).map strip := by
  induction f with
  | nil => intro rem cur _; by_cases h : cur = [] <;> simp [specM, segM, h]
  | atom c r ih =>
    intro rem cur hlen
    cases rem with
    | cons x rem' =>
      have hl := hlen (by simp)
      simp only [Frag.render, List.length_cons] at hl
      have hr : r ≠ .nil := by
        intro h; subst h; simp [Frag.render] at hl
      rw [specM, segM, ih rem' cur (by intro _; omega)]
      simp [hr]
    | nil =>
      simp only [specM, segM]
      by_cases hcut : c = d0 ∧ ds.length < r.render.length ∧ Str.startsWith r.render ds = true
      · have hr : r ≠ .nil := by
          intro h; subst h; simp [Frag.render] at hcut
        rw [if_pos hcut, if_pos hcut, ih ds [] (fun _ => hcut.2.1)]
        simp [hr]
      · rw [if_neg hcut, if_neg hcut, ih [] (cur ++ [c]) (fun h => absurd rfl h)]
        simp
  | str q b r ih =>
    intro rem cur _
    rw [specM, segM, ih [] _ (fun h => absurd rfl h)]
    simp
  | group k i r _ ih =>
    intro rem cur _
    rw [specM, segM, ih [] _ (fun h => absurd rfl h)]
    simp

theorem delimGuard_elim (d : Str) (h : delimGuard d = true) :
    ∃ d0 ds, d = d0 :: ds ∧ (∀ x ∈ ds, x ≠ d0 ∧ has Frag.special x = false) := by
  cases d with
  | nil => simp [delimGuard] at h
  | cons d0 ds =>
    simp only [delimGuard, Bool.and_eq_true, List.all_eq_true, List.contains_eq_mem,
      decide_eq_false_iff_not, Bool.not_eq_eq_eq_not, Bool.not_true] at h
    refine ⟨d0, ds, rfl, fun x hx => ⟨fun e => h.1 (e ▸ hx), h.2 x (by simp [hx])⟩⟩

/-- `break_separator` with a delimiter that can not overlap itself: the exact pieces (`specM`), for every fragment. -/
theorem breakSeparator_multi (d0 : Char) (ds : Str) (hds : ∀ x ∈ ds, x ≠ d0 ∧ has Frag.special x = false) (f : Frag)
    (hf : Frag.Simple f) : breakSeparator f.render (d0 :: ds) = .ok (specM d0 ds f [] []) := by
  have := sepLoop_fragM d0 ds hds f [] 0 [] (f.render.length + 1) [] (by omega) hf (by simp) (by simp)
    (by cases f.render <;> simp [Str.startsWith]) (by simp)
  simpa [breakSeparator] using this

/-- … and the rejoin law: the pieces are the stripped segments of a decomposition `d.join(segments) = text`. -/
theorem breakSeparator_multi_rejoin (d : Str) (hd : delimGuard d = true) (f : Frag) (hf : Frag.Simple f) (hne : f ≠ .nil) :
    ∃ segs : List Str, Str.join d segs = f.render ∧ breakSeparator f.render d = .ok (segs.map strip) := by
  obtain ⟨d0, ds, rfl, hds⟩ := delimGuard_elim d hd
  refine ⟨segM d0 ds f [] [], ?_, ?_⟩
  · have := join_segM d0 ds (fun x hx => (hds x hx).2) f [] [] hf (by cases f.render <;> simp [Str.startsWith]) (by simp)
    simpa using this
  · rw [breakSeparator_multi d0 ds hds f hf, specM_eq_segM d0 ds f [] [] (fun h => absurd rfl h)]
    simp [hne]

end Tranp.Block
