/-
  Helper lemmas for property C08: a pattern whose character tests treat all identifier characters alike matches a text and
  the same text with its identifier characters permuted in the same way (same spans, same groups).
-/
import Tranp.Model.Regex

namespace Tranp.Regex
open Tranp

theorem CharSet.closed_invariant (k : CharSet) (h : k.identClosed = true) (c d : Char)
    (hc : isWordChar c = true) (hd : isWordChar d = true) : k.matches c = k.matches d := by
  unfold CharSet.identClosed at h
  unfold isWordChar at hc hd
  have hc' : c ∈ wordChars := by simpa using hc
  have hd' : d ∈ wordChars := by simpa using hd
  simp only [Bool.or_eq_true, List.all_eq_true] at h
  rcases h with h | h
  · rw [h c hc', h d hd']
  · have h1 := h c hc'
    have h2 := h d hd'
    simp only [Bool.not_eq_true'] at h1 h2
    rw [h1, h2]

/-- every character test of the pattern gives the same answer on `c` and on `σ c`, and `σ` does not create or remove newlines -/
def Re.respects (σ : Char → Char) : Re → Prop
  | .lit x => ∀ c, (σ c = x) ↔ (c = x)
  | .notLit x => ∀ c, (σ c = x) ↔ (c = x)
  | .any => True
  | .set k => ∀ c, k.matches (σ c) = k.matches c
  | .seq a b => a.respects σ ∧ b.respects σ
  | .alt a b => a.respects σ ∧ b.respects σ
  | .rep _ _ r => r.respects σ
  | .group _ r => r.respects σ
  | _ => True

theorem map_eq_nil_iff' {σ : Char → Char} (inp : Str) : inp.map σ = [] ↔ inp = [] := by
  cases inp <;> simp

/-- the matcher commutes with a character map the pattern respects (positions and captures are offsets, hence unchanged) -/
theorem mAux_map {R : Type} (σ : Char → Char) (hnl : ∀ c, (σ c = '\n') ↔ (c = '\n')) :
    ∀ (f : Nat) (r : Re), r.respects σ → ∀ (inp : Str) (pos : Nat) (caps : Caps) (k k' : Str → Nat → Caps → Option R),
      (∀ i p c, k' (i.map σ) p c = k i p c) →
      mAux f r (inp.map σ) pos caps k' = mAux f r inp pos caps k := by
  intro f
  induction f with
  | zero => intro r _ inp pos caps k k' _; rfl
  | succ f ih =>
    intro r hr inp pos caps k k' hk
    cases r with
    | empty => simp only [mAux]; exact hk inp pos caps
    | lit x =>
      cases inp with
      | nil => simp [mAux]
      | cons y ys =>
        simp only [List.map_cons, mAux]
        have := hr y
        by_cases hy : y = x
        · subst hy
          have h2 : σ y = y := (hr y).2 rfl
          simp [h2, hk]
        · have : ¬ σ y = x := fun e => hy (this.1 e)
          simp [hy, this]
    | notLit x =>
      cases inp with
      | nil => simp [mAux]
      | cons y ys =>
        simp only [List.map_cons, mAux]
        have := hr y
        by_cases hy : y = x
        · subst hy
          have h2 : σ y = y := (hr y).2 rfl
          simp [h2]
        · have h2 : ¬ σ y = x := fun e => hy (this.1 e)
          simp [hy, h2, hk]
    | any =>
      cases inp with
      | nil => simp [mAux]
      | cons y ys =>
        simp only [List.map_cons, mAux]
        by_cases hy : y = '\n'
        · subst hy
          have h2 : σ '\n' = '\n' := (hnl '\n').2 rfl
          simp [h2]
        · have : ¬ σ y = '\n' := fun e => hy ((hnl y).1 e)
          simp [hy, this, hk]
    | set s =>
      cases inp with
      | nil => simp [mAux]
      | cons y ys =>
        simp only [List.map_cons, mAux, hr y]
        split
        · exact hk ys (pos + 1) caps
        · rfl
    | seq a b =>
      simp only [mAux]
      exact ih a hr.1 inp pos caps _ _ (fun i p c => ih b hr.2 i p c k k' hk)
    | alt a b =>
      simp only [mAux]
      rw [ih a hr.1 inp pos caps k k' hk, ih b hr.2 inp pos caps k k' hk]
    | group idx r =>
      simp only [mAux]
      exact ih r hr inp pos caps _ _ (fun i p c => hk i p _)
    | rep mn mx r =>
      simp only [mAux]
      have hmore : ∀ i p c,
          (if p = pos then none else mAux f (.rep (mn - 1) (mx.map (· - 1)) r) (i.map σ) p c k') =
          (if p = pos then none else mAux f (.rep (mn - 1) (mx.map (· - 1)) r) i p c k) := by
        intro i p c
        split
        · rfl
        · exact ih (.rep (mn - 1) (mx.map (· - 1)) r) hr i p c k k' hk
      rw [ih r hr inp pos caps _ _ hmore, hk inp pos caps]
    | bol =>
      simp only [mAux]
      split
      · exact hk inp pos caps
      · rfl
    | eol =>
      simp only [mAux]
      have h1 : (inp.map σ = [] ∨ inp.map σ = ['\n']) ↔ (inp = [] ∨ inp = ['\n']) := by
        cases inp with
        | nil => simp
        | cons y ys =>
          cases ys with
          | nil => simp [hnl y]
          | cons z zs => simp
      by_cases h : inp = [] ∨ inp = ['\n']
      · simp only [h, h1.2 h, if_true]; exact hk inp pos caps
      · have : ¬ (inp.map σ = [] ∨ inp.map σ = ['\n']) := fun e => h (h1.1 e)
        simp only [h, this, if_false]

/-- `σ` permutes identifier characters among themselves and leaves every other character alone -/
structure IdentMap (σ : Char → Char) : Prop where
  word : ∀ c, isWordChar c = true → isWordChar (σ c) = true
  other : ∀ c, isWordChar c = false → σ c = c
  inj : Function.Injective σ

theorem IdentMap.newline {σ : Char → Char} (h : IdentMap σ) (c : Char) : (σ c = '\n') ↔ (c = '\n') := by
  have hn : isWordChar '\n' = false := by decide
  constructor
  · intro e
    by_cases hc : isWordChar c = true
    · have := h.word c hc; rw [e] at this; rw [hn] at this; cases this
    · have hc' : isWordChar c = false := by simpa using hc
      rw [h.other c hc'] at e; exact e
  · intro e; subst e; exact h.other _ hn

/-- an identifier-closed pattern respects every identifier map that fixes the identifier characters it spells out -/
theorem Re.respects_of_closed {σ : Char → Char} (h : IdentMap σ) :
    ∀ r : Re, r.identClosed = true → (∀ x ∈ r.literalWordChars, σ x = x) → r.respects σ := by
  intro r
  induction r with
  | empty => intros; trivial
  | lit x =>
    intro _ hl c
    by_cases hx : isWordChar x = true
    · have hfix : σ x = x := hl x (by simp [Re.literalWordChars, hx])
      constructor
      · intro e; rw [← hfix] at e; exact h.inj e
      · intro e; rw [e, hfix]
    · have hx' : isWordChar x = false := by simpa using hx
      constructor
      · intro e
        by_cases hc : isWordChar c = true
        · have := h.word c hc; rw [e, hx'] at this; cases this
        · have hc' : isWordChar c = false := by simpa using hc
          rw [h.other c hc'] at e; exact e
      · intro e; rw [e, h.other x hx']
  | notLit x =>
    intro hcl _ c
    have hx' : isWordChar x = false := by simpa [Re.identClosed] using hcl
    constructor
    · intro e
      by_cases hc : isWordChar c = true
      · have := h.word c hc; rw [e, hx'] at this; cases this
      · have hc' : isWordChar c = false := by simpa using hc
        rw [h.other c hc'] at e; exact e
    · intro e; rw [e, h.other x hx']
  | any => intros; trivial
  | set k =>
    intro hcl _ c
    by_cases hc : isWordChar c = true
    · exact CharSet.closed_invariant k (by simpa [Re.identClosed] using hcl) (σ c) c (h.word c hc) hc
    · have hc' : isWordChar c = false := by simpa using hc
      rw [h.other c hc']
  | seq a b iha ihb =>
    intro hcl hl
    simp only [Re.identClosed, Bool.and_eq_true] at hcl
    exact ⟨iha hcl.1 (fun x hx => hl x (by simp [Re.literalWordChars, hx])), ihb hcl.2 (fun x hx => hl x (by simp [Re.literalWordChars, hx]))⟩
  | alt a b iha ihb =>
    intro hcl hl
    simp only [Re.identClosed, Bool.and_eq_true] at hcl
    exact ⟨iha hcl.1 (fun x hx => hl x (by simp [Re.literalWordChars, hx])), ihb hcl.2 (fun x hx => hl x (by simp [Re.literalWordChars, hx]))⟩
  | rep mn mx r ih => intro hcl hl; exact ih (by simpa [Re.identClosed] using hcl) (by simpa [Re.literalWordChars] using hl)
  | group i r ih => intro hcl hl; exact ih (by simpa [Re.identClosed] using hcl) (by simpa [Re.literalWordChars] using hl)
  | bol => intros; trivial
  | eol => intros; trivial

theorem fullmatch_map (σ : Char → Char) (h : IdentMap σ) (r : Re) (hr : r.respects σ) (s : Str) :
    fullmatch r (s.map σ) = fullmatch r s := by
  unfold fullmatch fuelFor
  simp only [List.length_map]
  exact mAux_map σ h.newline _ r hr s 0 [] _ _ (fun i p c => by simp [map_eq_nil_iff'])

end Tranp.Regex
