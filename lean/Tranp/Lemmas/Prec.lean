/-
  Theorems about `Tranp.Prec` (see the API summary in `Tranp/Prec.lean`).
  Core Lean only (no Mathlib).
-/
import Tranp.Prec

namespace Tranp.Prec

/-! ## one-step unfoldings of the parser -/

theorem parsePrimary_atom (L : Ops) (f m n rest) :
    parsePrimary L (f + 1) m (.atom n :: rest) = some (.atom n, rest) := by simp only [parsePrimary]
theorem parsePrimary_lp (L : Ops) (f m rest) :
    parsePrimary L (f + 1) m (.lp :: rest) =
      match parseExpr L f 0 rest with
      | some (e, .rp :: rest') => some (.paren e, rest')
      | _ => none := by simp only [parsePrimary]; rfl
theorem parsePrimary_op (L : Ops) (f m o rest) :
    parsePrimary L (f + 1) m (.op o :: rest) =
      match L.pre o with
      | some k =>
        if m ≤ k then
          match parseExpr L f k rest with
          | some (e, rest') => some (.pre o e, rest')
          | none => none
        else none
      | none => none := by simp only [parsePrimary]; rfl
theorem parsePrimary_rp (L : Ops) (f m rest) :
    parsePrimary L (f + 1) m (.rp :: rest) = none := by simp only [parsePrimary]
theorem parsePrimary_nil (L : Ops) (f m) :
    parsePrimary L (f + 1) m [] = none := by simp only [parsePrimary]
theorem parseExpr_succ (L : Ops) (f m ts) :
    parseExpr L (f + 1) m ts =
      match parsePrimary L f m ts with
      | some (l, rest) => parseLoop L f m l rest
      | none => none := by simp only [parseExpr]; rfl
theorem parseLoop_op (L : Ops) (f m acc o rest) :
    parseLoop L (f + 1) m acc (.op o :: rest) =
      match L.bin o with
      | some k =>
        if m ≤ k then
          match parseExpr L f (k + 1) rest with
          | some (r, rest') => parseLoop L f m (.bin o acc r) rest'
          | none => none
        else some (acc, .op o :: rest)
      | none => some (acc, .op o :: rest) := by simp only [parseLoop]; rfl
theorem parseLoop_other (L : Ops) (f m acc ts) (h : ∀ o rest, ts ≠ .op o :: rest) :
    parseLoop L (f + 1) m acc ts = some (acc, ts) := by
  cases ts with
  | nil => simp only [parseLoop]
  | cons t rest =>
    cases t with
    | op o => exact absurd rfl (h o rest)
    | _ => simp only [parseLoop]

/-! ## fuel monotonicity -/

theorem fuel_mono_step (L : Ops) : ∀ f,
    (∀ m ts x, parsePrimary L f m ts = some x → parsePrimary L (f + 1) m ts = some x) ∧
    (∀ m ts x, parseExpr L f m ts = some x → parseExpr L (f + 1) m ts = some x) ∧
    (∀ m acc ts x, parseLoop L f m acc ts = some x → parseLoop L (f + 1) m acc ts = some x) := by
  intro f
  induction f with
  | zero => simp [parsePrimary, parseExpr, parseLoop]
  | succ f ih =>
    obtain ⟨ihP, ihE, ihL⟩ := ih
    refine ⟨?_, ?_, ?_⟩
    · intro m ts x h
      match ts with
      | [] => simp [parsePrimary_nil] at h
      | .rp :: rest => simp [parsePrimary_rp] at h
      | .atom n :: rest => rw [parsePrimary_atom] at h ⊢; exact h
      | .lp :: rest =>
        rw [parsePrimary_lp] at h ⊢
        split at h
        · next e rest' he => rw [ihE _ _ _ he]; exact h
        · simp at h
      | .op o :: rest =>
        rw [parsePrimary_op] at h ⊢
        split at h
        · next k hk =>
          split at h
          · next hm =>
            split at h
            · next e rest' he => simp only [hm, if_true, ihE _ _ _ he]; exact h
            · simp at h
          · simp at h
        · simp at h
    · intro m ts x h
      rw [parseExpr_succ] at h ⊢
      split at h
      · next l rest hp => rw [ihP _ _ _ hp]; exact ihL _ _ _ _ h
      · simp at h
    · intro m acc ts x h
      by_cases hts : ∃ o rest, ts = .op o :: rest
      · obtain ⟨o, rest, rfl⟩ := hts
        rw [parseLoop_op] at h ⊢
        split at h
        · next k hk =>
          split at h
          · next hm =>
            split at h
            · next r rest' he => simp only [hm, if_true, ihE _ _ _ he]; exact ihL _ _ _ _ h
            · simp at h
          · next hm => simp only [hm, if_false]; exact h
        · exact h
      · have hts' : ∀ o rest, ts ≠ .op o :: rest := fun o rest he => hts ⟨o, rest, he⟩
        rw [parseLoop_other _ _ _ _ _ hts'] at h ⊢
        exact h

theorem parsePrimary_fuel_mono (L : Ops) {f f' m ts x} (hle : f ≤ f')
    (h : parsePrimary L f m ts = some x) : parsePrimary L f' m ts = some x := by
  induction hle with
  | refl => exact h
  | step _ ih => exact (fuel_mono_step L _).1 _ _ _ ih

theorem parseExpr_fuel_mono (L : Ops) {f f' m ts x} (hle : f ≤ f')
    (h : parseExpr L f m ts = some x) : parseExpr L f' m ts = some x := by
  induction hle with
  | refl => exact h
  | step _ ih => exact (fuel_mono_step L _).2.1 _ _ _ ih

theorem parseLoop_fuel_mono (L : Ops) {f f' m acc ts x} (hle : f ≤ f')
    (h : parseLoop L f m acc ts = some x) : parseLoop L f' m acc ts = some x := by
  induction hle with
  | refl => exact h
  | step _ ih => exact (fuel_mono_step L _).2.2 _ _ _ _ ih

/-! ## stop conditions -/

/-- the head of `ts` is not an infix operator of level ≥ `b` (so a loop with minimum `b` returns here) -/
def stopsAt (L : Ops) (b : Nat) : List Tok → Prop
  | .op o :: _ => ∀ k, L.bin o = some k → k < b
  | _ => True

/-- minimum of the innermost loop that is pending right after a term with head `h` has been read -/
def rb (L : Ops) : Head → Option Nat
  | .bin o => (L.bin o).map (· + 1)
  | .pre o => L.pre o
  | .leaf => none

/-- none of the loops pending after a term with head `h` absorbs the head of `ts` -/
def stops (L : Ops) (h : Head) (ts : List Tok) : Prop := ∀ b, rb L h = some b → stopsAt L b ts

theorem stopsAt_mono (L : Ops) {b b' ts} (hb : b ≤ b') (h : stopsAt L b ts) : stopsAt L b' ts := by
  match ts with
  | [] => trivial
  | .atom _ :: _ => trivial
  | .lp :: _ => trivial
  | .rp :: _ => trivial
  | .op o :: _ => intro k hk; exact Nat.lt_of_lt_of_le (h k hk) hb

theorem parseLoop_stop (L : Ops) (f m acc ts) (h : stopsAt L m ts) :
    parseLoop L (f + 1) m acc ts = some (acc, ts) := by
  by_cases hts : ∃ o rest, ts = .op o :: rest
  · obtain ⟨o, rest, rfl⟩ := hts
    rw [parseLoop_op]
    split
    · next k hk =>
      have := h k hk
      simp [Nat.not_le.mpr this]
    · rfl
  · exact parseLoop_other _ _ _ _ _ (fun o rest he => hts ⟨o, rest, he⟩)

theorem okAt_mono (L : Ops) {m m' h} (hm : m' ≤ m) (hk : okAt L m h = true) : okAt L m' h = true := by
  cases h with
  | leaf => rfl
  | bin o =>
    simp only [okAt] at hk ⊢
    split at hk
    · simp only [decide_eq_true_eq] at hk ⊢; omega
    · exact hk
  | pre o =>
    simp only [okAt] at hk ⊢
    split at hk
    · simp only [decide_eq_true_eq] at hk ⊢; omega
    · exact hk

theorem okAt_of_okL (L : Ops) {m k h} (hm : m ≤ k) (hk : okL L k h = true) : okAt L m h = true := by
  cases h with
  | leaf => rfl
  | bin o =>
    simp only [okL, okAt] at hk ⊢
    split at hk
    · simp only [decide_eq_true_eq] at hk ⊢; omega
    · exact hk
  | pre o =>
    simp only [okL, okAt] at hk ⊢
    split at hk
    · simp only [decide_eq_true_eq] at hk ⊢; omega
    · exact hk

theorem stops_of_okL (L : Ops) {k h o ts} (hk : okL L k h = true) (ho : L.bin o = some k) :
    stops L h (.op o :: ts) := by
  intro b hb k' hk'
  rw [ho] at hk'; cases hk'
  cases h with
  | leaf => simp [rb] at hb
  | bin o1 =>
    simp only [okL] at hk
    simp only [rb] at hb
    split at hk
    · next k1 h1 => rw [h1] at hb; simp at hb hk; omega
    · simp at hk
  | pre o1 =>
    simp only [okL] at hk
    simp only [rb] at hb
    split at hk
    · next k1 h1 => rw [h1] at hb; simp at hb hk; omega
    · simp at hk

theorem stops_of_okAt (L : Ops) {b h ts} (hk : okAt L b h = true) (hs : stopsAt L b ts) :
    stops L h ts := by
  intro b' hb
  cases h with
  | leaf => simp [rb] at hb
  | bin o1 =>
    simp only [okAt] at hk
    simp only [rb] at hb
    split at hk
    · next k1 h1 => rw [h1] at hb; simp at hb hk; exact stopsAt_mono L (by omega) hs
    · simp at hk
  | pre o1 =>
    simp only [okAt] at hk
    simp only [rb] at hb
    split at hk
    · next k1 h1 => rw [h1] at hb; simp at hb hk; exact stopsAt_mono L (by omega) hs
    · simp at hk

theorem okAt_zero_of_nf (L : Ops) {e} (h : nf L e = true) : okAt L 0 (head e) = true := by
  cases e with
  | atom n => rfl
  | paren e => rfl
  | bin o l r =>
    simp only [nf, slotOk, Bool.and_eq_true] at h
    simp only [head, okAt]
    split
    · simp
    · next hn => rw [hn] at h; simp at h
  | pre o e =>
    simp only [nf, slotOk, Bool.and_eq_true] at h
    simp only [head, okAt]
    split
    · simp
    · next hn => rw [hn] at h; simp at h

/-! ## completeness: a normal-form term is read back -/

theorem parseExpr_print (L : Ops) : ∀ (e : Expr) (m f : Nat) (rest : List Tok) (x : Expr × List Tok),
    nf L e = true → okAt L m (head e) = true → stops L (head e) rest →
    parseLoop L f m e rest = some x →
    parseExpr L (f + 2 * (print e).length) m (print e ++ rest) = some x := by
  intro e
  induction e with
  | atom n =>
    intro m f rest x _ _ _ h
    have e1 : f + 2 * (print (.atom n)).length = (f + 1) + 1 := by simp [print]
    rw [e1, parseExpr_succ]
    simp only [print, List.cons_append, List.nil_append]
    cases f with
    | zero => simp [parseLoop] at h
    | succ g =>
      rw [parsePrimary_atom]
      exact parseLoop_fuel_mono L (by omega) h
  | paren e ih =>
    intro m f rest x hnf _ _ h
    simp only [nf] at hnf
    have e1 : f + 2 * (print (.paren e)).length = (((f + 2) + 2 * (print e).length) + 1) + 1 := by
      simp [print]; omega
    have e2 : print (.paren e) ++ rest = .lp :: (print e ++ .rp :: rest) := by simp [print]
    rw [e1, e2, parseExpr_succ, parsePrimary_lp]
    have hin : parseExpr L ((f + 2) + 2 * (print e).length) 0 (print e ++ .rp :: rest) = some (e, .rp :: rest) :=
      ih 0 (f + 2) (.rp :: rest) (e, .rp :: rest) hnf (okAt_zero_of_nf L hnf)
        (fun _ _ => trivial) (parseLoop_stop L (f + 1) 0 e _ trivial)
    rw [hin]
    exact parseLoop_fuel_mono L (by omega) h
  | bin o l r ihl ihr =>
    intro m f rest x hnf hok hst h
    simp only [nf, slotOk, Bool.and_eq_true] at hnf
    obtain ⟨⟨⟨hl, hr⟩, hnl⟩, hnr⟩ := hnf
    cases hk : L.bin o with
    | none => rw [hk] at hl; simp at hl
    | some k =>
      rw [hk] at hl hr
      simp only at hl hr
      have hm : m ≤ k := by simpa [head, okAt, hk] using hok
      have hsr : stopsAt L (k + 1) rest := hst (k + 1) (by simp [head, rb, hk])
      have e1 : f + 2 * (print (.bin o l r)).length = (f + 2 * (print r).length + 2) + 2 * (print l).length := by
        simp [print]; omega
      have e2 : print (.bin o l r) ++ rest = print l ++ (.op o :: (print r ++ rest)) := by simp [print]
      rw [e1, e2]
      apply ihl m _ _ x hnl (okAt_of_okL L hm hl) (stops_of_okL L hl hk)
      have e3 : f + 2 * (print r).length + 2 = (f + 1 + 2 * (print r).length) + 1 := by omega
      rw [e3, parseLoop_op, hk]
      simp only [hm, if_true]
      have hin : parseExpr L (f + 1 + 2 * (print r).length) (k + 1) (print r ++ rest) = some (r, rest) :=
        ihr (k + 1) (f + 1) rest (r, rest) hnr hr (stops_of_okAt L hr hsr) (parseLoop_stop L f (k + 1) r rest hsr)
      rw [hin]
      exact parseLoop_fuel_mono L (by omega) h
  | pre o e ih =>
    intro m f rest x hnf hok hst h
    simp only [nf, slotOk, Bool.and_eq_true] at hnf
    obtain ⟨he, hne⟩ := hnf
    cases hk : L.pre o with
    | none => rw [hk] at he; simp at he
    | some k =>
      rw [hk] at he
      simp only at he
      have hm : m ≤ k := by simpa [head, okAt, hk] using hok
      have hsr : stopsAt L k rest := hst k (by simp [head, rb, hk])
      have e1 : f + 2 * (print (.pre o e)).length = ((f + 2 * (print e).length) + 1) + 1 := by
        simp [print]; omega
      have e2 : print (.pre o e) ++ rest = .op o :: (print e ++ rest) := by simp [print]
      rw [e1, e2, parseExpr_succ, parsePrimary_op, hk]
      simp only [hm, if_true]
      cases f with
      | zero => simp [parseLoop] at h
      | succ g =>
        have hin : parseExpr L (g + 1 + 2 * (print e).length) k (print e ++ rest) = some (e, rest) :=
          ih k (g + 1) rest (e, rest) hne he (stops_of_okAt L he hsr) (parseLoop_stop L g k e rest hsr)
        rw [hin]
        exact parseLoop_fuel_mono L (by omega) h

/-- **Round trip on normal forms.** Every term that carries parentheses wherever the table needs them
    (and possibly more) is read back from its printed form; no fuel in the statement. -/
theorem parse_print_NF (L : Ops) (e : Expr) (h : nf L e = true) : parse L (print e) = some e := by
  have := parseExpr_print L e 0 1 [] (e, []) h (okAt_zero_of_nf L h) (fun _ _ => trivial)
    (parseLoop_stop L 0 0 e [] trivial)
  simp only [List.append_nil] at this
  simp only [parse]
  rw [Nat.add_comm] at this
  rw [this]

/-! ## soundness: whatever the parser returns is a normal form that prints to the consumed input -/

theorem okL_of_stops (L : Ops) {h o ts k m} (hs : stops L h (.op o :: ts)) (ho : L.bin o = some k)
    (hk : okAt L m h = true) : okL L k h = true := by
  cases h with
  | leaf => rfl
  | bin o1 =>
    simp only [okAt] at hk
    simp only [okL]
    split at hk
    · next k1 h1 =>
      have := hs (k1 + 1) (by simp [rb, h1]) k ho
      simp; omega
    · simp at hk
  | pre o1 =>
    simp only [okAt] at hk
    simp only [okL]
    split at hk
    · next k1 h1 =>
      have := hs k1 (by simp [rb, h1]) k ho
      simp; omega
    · simp at hk

theorem stopsAt_other (L : Ops) (m : Nat) (ts : List Tok) (h : ∀ o rest, ts ≠ .op o :: rest) : stopsAt L m ts := by
  match ts with
  | [] => trivial
  | .atom _ :: _ => trivial
  | .lp :: _ => trivial
  | .rp :: _ => trivial
  | .op o :: rest => exact absurd rfl (h o rest)

theorem sound_step (L : Ops) : ∀ f,
    (∀ m ts e rest, parsePrimary L f m ts = some (e, rest) →
      nf L e = true ∧ okAt L m (head e) = true ∧ ts = print e ++ rest ∧ stops L (head e) rest) ∧
    (∀ m ts e rest, parseExpr L f m ts = some (e, rest) →
      nf L e = true ∧ okAt L m (head e) = true ∧ ts = print e ++ rest ∧ stops L (head e) rest ∧ stopsAt L m rest) ∧
    (∀ m acc ts e rest, parseLoop L f m acc ts = some (e, rest) →
      nf L acc = true → okAt L m (head acc) = true → stops L (head acc) ts →
      nf L e = true ∧ okAt L m (head e) = true ∧ print acc ++ ts = print e ++ rest ∧ stops L (head e) rest ∧ stopsAt L m rest) := by
  intro f
  induction f with
  | zero => simp [parsePrimary, parseExpr, parseLoop]
  | succ f ih =>
    obtain ⟨ihP, ihE, ihL⟩ := ih
    refine ⟨?_, ?_, ?_⟩
    · intro m ts e rest h
      match ts with
      | [] => simp [parsePrimary_nil] at h
      | .rp :: rest0 => simp [parsePrimary_rp] at h
      | .atom n :: rest0 =>
        rw [parsePrimary_atom] at h
        simp only [Option.some.injEq, Prod.mk.injEq] at h
        obtain ⟨rfl, rfl⟩ := h
        exact ⟨rfl, rfl, by simp [print], fun b hb => by simp [head, rb] at hb⟩
      | .lp :: rest0 =>
        rw [parsePrimary_lp] at h
        split at h
        · next e' rest' he =>
          simp only [Option.some.injEq, Prod.mk.injEq] at h
          obtain ⟨rfl, rfl⟩ := h
          obtain ⟨hn, _, heq, _, _⟩ := ihE _ _ _ _ he
          exact ⟨by simpa [nf] using hn, rfl, by simp [print, heq], fun b hb => by simp [head, rb] at hb⟩
        · simp at h
      | .op o :: rest0 =>
        rw [parsePrimary_op] at h
        split at h
        · next k hk =>
          split at h
          · next hm =>
            split at h
            · next e' rest' he =>
              simp only [Option.some.injEq, Prod.mk.injEq] at h
              obtain ⟨rfl, rfl⟩ := h
              obtain ⟨hn, hok, heq, _, hst⟩ := ihE _ _ _ _ he
              refine ⟨?_, ?_, ?_, ?_⟩
              · simp [nf, slotOk, hk, hok, hn]
              · simp [head, okAt, hk, hm]
              · simp [print, heq]
              · intro b hb
                simp only [head, rb, hk, Option.some.injEq] at hb
                exact hb ▸ hst
            · simp at h
          · simp at h
        · simp at h
    · intro m ts e rest h
      rw [parseExpr_succ] at h
      split at h
      · next l rest1 hp =>
        obtain ⟨hn, hok, heq, hst⟩ := ihP _ _ _ _ hp
        obtain ⟨hn', hok', heq', hst', hsa⟩ := ihL _ _ _ _ _ h hn hok hst
        exact ⟨hn', hok', by rw [heq, heq'], hst', hsa⟩
      · simp at h
    · intro m acc ts e rest h hn hok hst
      by_cases hts : ∃ o rest0, ts = .op o :: rest0
      · obtain ⟨o, rest0, rfl⟩ := hts
        rw [parseLoop_op] at h
        split at h
        · next k hk =>
          split at h
          · next hm =>
            split at h
            · next r rest' he =>
              obtain ⟨hnr, hokr, heqr, _, hsar⟩ := ihE _ _ _ _ he
              have hokl : okL L k (head acc) = true := okL_of_stops L hst hk hok
              have := ihL _ _ _ _ _ h
                (by simp [nf, slotOk, hk, hokl, hokr, hn, hnr])
                (by simp [head, okAt, hk, hm])
                (by intro b hb; simp only [head, rb, hk, Option.map_some, Option.some.injEq] at hb; exact hb ▸ hsar)
              obtain ⟨h1, h2, h3, h4, h5⟩ := this
              refine ⟨h1, h2, ?_, h4, h5⟩
              rw [← h3, heqr]; simp [print]
            · simp at h
          · next hm =>
            simp only [Option.some.injEq, Prod.mk.injEq] at h
            obtain ⟨rfl, rfl⟩ := h
            refine ⟨hn, hok, rfl, hst, ?_⟩
            intro k' hk'
            rw [hk] at hk'; cases hk'; omega
        · next hk =>
          simp only [Option.some.injEq, Prod.mk.injEq] at h
          obtain ⟨rfl, rfl⟩ := h
          refine ⟨hn, hok, rfl, hst, ?_⟩
          intro k' hk'
          rw [hk] at hk'; cases hk'
      · have hts' : ∀ o rest0, ts ≠ .op o :: rest0 := fun o rest0 he => hts ⟨o, rest0, he⟩
        rw [parseLoop_other _ _ _ _ _ hts'] at h
        simp only [Option.some.injEq, Prod.mk.injEq] at h
        obtain ⟨rfl, rfl⟩ := h
        exact ⟨hn, hok, rfl, hst, stopsAt_other L m _ hts'⟩

/-- **Soundness of the parser**: a successful parse returns a normal form whose printed form is the input. -/
theorem parse_sound (L : Ops) {ts e} (h : parse L ts = some e) : ts = print e ∧ nf L e = true := by
  simp only [parse] at h
  split at h
  · next e' he =>
    cases h
    obtain ⟨hn, _, heq, _, _⟩ := (sound_step L _).2.1 _ _ _ _ he
    exact ⟨by simpa using heq, hn⟩
  · simp at h

/-- **`parse` is the inverse of `print` exactly on the normal forms.** -/
theorem parse_eq_some_iff (L : Ops) (ts : List Tok) (e : Expr) :
    parse L ts = some e ↔ ts = print e ∧ nf L e = true :=
  ⟨parse_sound L, fun ⟨h1, h2⟩ => h1 ▸ parse_print_NF L e h2⟩

theorem parse_print_iff (L : Ops) (e : Expr) : parse L (print e) = some e ↔ nf L e = true := by
  rw [parse_eq_some_iff]; simp

/-- printing is injective on whatever the parser can return: two normal forms with the same text are equal -/
theorem print_inj_nf (L : Ops) {e e'} (h : nf L e = true) (h' : nf L e' = true) (hp : print e = print e') : e = e' := by
  have := parse_print_NF L e h
  rw [hp, parse_print_NF L e' h'] at this
  exact (Option.some.inj this).symm

/-! ## normal form as a property of the parent/child slots -/

theorem nf_iff_pairs (L : Ops) (e : Expr) :
    nf L e = true ↔ ∀ x ∈ pairs e, slotOk L x.1 x.2.1 x.2.2 = true := by
  induction e with
  | atom n => simp [nf, pairs]
  | paren e ih => simpa [nf, pairs] using ih
  | bin o l r ihl ihr =>
    simp only [nf, pairs, Bool.and_eq_true, ihl, ihr, List.mem_cons, List.mem_append]
    constructor
    · rintro ⟨⟨⟨h1, h2⟩, h3⟩, h4⟩ x (rfl | rfl | hx | hx)
      · exact h1
      · exact h2
      · exact h3 x hx
      · exact h4 x hx
    · intro h
      exact ⟨⟨⟨h _ (Or.inl rfl), h _ (Or.inr (Or.inl rfl))⟩, fun x hx => h x (Or.inr (Or.inr (Or.inl hx)))⟩,
        fun x hx => h x (Or.inr (Or.inr (Or.inr hx)))⟩
  | pre o e ih =>
    simp only [nf, pairs, Bool.and_eq_true, ih, List.mem_cons]
    constructor
    · rintro ⟨h1, h2⟩ x (rfl | hx)
      · exact h1
      · exact h2 x hx
    · intro h
      exact ⟨h _ (Or.inl rfl), fun x hx => h x (Or.inr hx)⟩

theorem pairs_heads (e : Expr) : ∀ x ∈ pairs e, x.1 ∈ heads e ∧ (x.2.2 = .leaf ∨ x.2.2 ∈ heads e) := by
  have hh : ∀ e : Expr, head e = .leaf ∨ head e ∈ heads e := by
    intro e; cases e <;> simp [head, heads]
  induction e with
  | atom n => simp [pairs]
  | paren e ih => simpa [pairs, heads] using ih
  | bin o l r ihl ihr =>
    intro x hx
    simp only [pairs, List.mem_cons, List.mem_append] at hx
    simp only [heads, List.mem_cons, List.mem_append]
    rcases hx with rfl | rfl | hx | hx
    · exact ⟨Or.inl rfl, (hh l).imp id (fun h => Or.inr (Or.inl h))⟩
    · exact ⟨Or.inl rfl, (hh r).imp id (fun h => Or.inr (Or.inr h))⟩
    · exact ⟨Or.inr (Or.inl (ihl x hx).1), (ihl x hx).2.imp id (fun h => Or.inr (Or.inl h))⟩
    · exact ⟨Or.inr (Or.inr (ihr x hx).1), (ihr x hx).2.imp id (fun h => Or.inr (Or.inr h))⟩
  | pre o e ih =>
    intro x hx
    simp only [pairs, List.mem_cons] at hx
    simp only [heads, List.mem_cons]
    rcases hx with rfl | hx
    · exact ⟨Or.inl rfl, (hh e).imp id Or.inr⟩
    · exact ⟨Or.inr (ih x hx).1, (ih x hx).2.imp id Or.inr⟩

/-! ## minimal parenthesisation -/

theorem head_wrapIf_true (e : Expr) : head (wrapIf true e) = head e := rfl
theorem nf_wrapIf (L : Ops) (b : Bool) (e : Expr) : nf L (wrapIf b e) = nf L e := by
  cases b <;> simp [wrapIf, nf]
theorem strip_wrapIf (b : Bool) (e : Expr) : strip (wrapIf b e) = strip e := by
  cases b <;> simp [wrapIf, strip]

theorem head_normalize (L : Ops) (e : Expr) : head (normalize L e) = head e := by
  cases e <;> simp [normalize, head]

theorem slotOk_leaf_left (L : Ops) {o k} (h : L.bin o = some k) : slotOk L (.bin o) .left .leaf = true := by
  simp [slotOk, h, okL]
theorem slotOk_leaf_right (L : Ops) {o k} (h : L.bin o = some k) : slotOk L (.bin o) .right .leaf = true := by
  simp [slotOk, h, okAt]
theorem slotOk_leaf_operand (L : Ops) {o k} (h : L.pre o = some k) : slotOk L (.pre o) .operand .leaf = true := by
  simp [slotOk, h, okAt]

/-- the slot test after wrapping: either the bare child was fine, or it now sits behind parentheses -/
theorem slotOk_wrapIf (L : Ops) (p : Head) (s : Side) (e e' : Expr) (hh : head e' = head e)
    (hleaf : slotOk L p s .leaf = true) :
    slotOk L p s (head (wrapIf (slotOk L p s (head e)) e')) = true := by
  cases hc : slotOk L p s (head e) with
  | true => simpa [wrapIf, hh] using hc
  | false => simpa [wrapIf, head] using hleaf

/-- the minimally parenthesised form of a term over the table's operators is a normal form -/
theorem nf_normalize (L : Ops) (e : Expr) (hk : known L e = true) : nf L (normalize L e) = true := by
  induction e with
  | atom n => rfl
  | paren e ih => simpa [normalize, nf] using ih (by simpa [known] using hk)
  | bin o l r ihl ihr =>
    simp only [known, Bool.and_eq_true, Option.isSome_iff_exists] at hk
    obtain ⟨⟨⟨k, ho⟩, hl⟩, hr⟩ := hk
    simp only [normalize, nf, nf_wrapIf, Bool.and_eq_true]
    exact ⟨⟨⟨slotOk_wrapIf L _ _ l _ (head_normalize L l) (slotOk_leaf_left L ho),
      slotOk_wrapIf L _ _ r _ (head_normalize L r) (slotOk_leaf_right L ho)⟩, ihl hl⟩, ihr hr⟩
  | pre o e ih =>
    simp only [known, Bool.and_eq_true, Option.isSome_iff_exists] at hk
    obtain ⟨⟨k, ho⟩, he⟩ := hk
    simp only [normalize, nf, nf_wrapIf, Bool.and_eq_true]
    exact ⟨slotOk_wrapIf L _ _ e _ (head_normalize L e) (slotOk_leaf_operand L ho), ih he⟩

theorem strip_normalize (L : Ops) (e : Expr) : strip (normalize L e) = strip e := by
  induction e with
  | atom n => rfl
  | paren e ih => simpa [normalize, strip] using ih
  | bin o l r ihl ihr => simp [normalize, strip, strip_wrapIf, ihl, ihr]
  | pre o e ih => simp [normalize, strip, strip_wrapIf, ih]

/-- minimality: `normalize` adds nothing to a term that already is a normal form -/
theorem normalize_of_nf (L : Ops) (e : Expr) (h : nf L e = true) : normalize L e = e := by
  induction e with
  | atom n => rfl
  | paren e ih => simp [normalize, ih (by simpa [nf] using h)]
  | bin o l r ihl ihr =>
    simp only [nf, Bool.and_eq_true] at h
    obtain ⟨⟨⟨h1, h2⟩, h3⟩, h4⟩ := h
    simp [normalize, h1, h2, wrapIf, ihl h3, ihr h4]
  | pre o e ih =>
    simp only [nf, Bool.and_eq_true] at h
    simp [normalize, h.1, wrapIf, ih h.2]

theorem nf_known (L : Ops) (e : Expr) (h : nf L e = true) : known L e = true := by
  induction e with
  | atom n => rfl
  | paren e ih => exact ih (by simpa [nf] using h)
  | bin o l r ihl ihr =>
    simp only [nf, Bool.and_eq_true] at h
    obtain ⟨⟨⟨h1, _⟩, h3⟩, h4⟩ := h
    simp only [known, Bool.and_eq_true, ihl h3, ihr h4, and_true]
    cases ho : L.bin o with
    | none => simp [slotOk, ho] at h1
    | some k => rfl
  | pre o e ih =>
    simp only [nf, Bool.and_eq_true] at h
    simp only [known, Bool.and_eq_true, ih h.2, and_true]
    cases ho : L.pre o with
    | none => simp [slotOk, ho] at h
    | some k => rfl

/-- **Round trip for arbitrary terms**: text printed with minimal parentheses is read back as the
    minimally parenthesised term … -/
theorem parse_printMin (L : Ops) (e : Expr) (hk : known L e = true) :
    parse L (printMin L e) = some (normalize L e) :=
  parse_print_NF L _ (nf_normalize L e hk)

/-- … i.e. as the original term up to parentheses (exactly `e` when `e` has none). -/
theorem parse_printMin_strip (L : Ops) (e : Expr) (hk : known L e = true) :
    (parse L (printMin L e)).map strip = some (strip e) := by
  rw [parse_printMin L e hk]; simp [strip_normalize]

/-! ## two tables -/

/-- **Cross-table round trip**: text printed with `L'`-minimal parentheses is regrouped by `L` into the same term
    exactly when that term is an `L`-normal form (decidable). -/
theorem parse_printMin_cross (L L' : Ops) (e : Expr) :
    parse L (printMin L' e) = some (normalize L' e) ↔ nf L (normalize L' e) = true :=
  parse_print_iff L _

/-- table-level sufficient condition: over a vocabulary on which `L` lets every slot stay bare that `L'` does,
    every `L'`-normal form is an `L`-normal form (hence is reparsed unchanged by `L`). -/
theorem nf_of_tablesCompat (L' L : Ops) (hs : List Head) (hc : tablesCompat L' L hs = true)
    (e : Expr) (hv : ∀ h ∈ heads e, h ∈ hs) (hn : nf L' e = true) : nf L e = true := by
  rw [nf_iff_pairs] at hn ⊢
  intro x hx
  obtain ⟨hp, hcld⟩ := pairs_heads e x hx
  simp only [tablesCompat, List.all_eq_true, Bool.or_eq_true, Bool.not_eq_true'] at hc
  have hside : x.2.1 ∈ allSides := by cases x.2.1 <;> simp [allSides]
  have hcm : x.2.2 ∈ Head.leaf :: hs := by
    rcases hcld with h | h
    · simp [h]
    · exact List.mem_cons_of_mem _ (hv _ h)
  rcases hc x.1 (hv _ hp) x.2.1 hside x.2.2 hcm with h | h
  · rw [hn x hx] at h; cases h
  · exact h

theorem parse_print_of_tablesCompat (L' L : Ops) (hs : List Head) (hc : tablesCompat L' L hs = true)
    (e : Expr) (hv : ∀ h ∈ heads e, h ∈ hs) (hn : nf L' e = true) : parse L (print e) = some e :=
  parse_print_NF L e (nf_of_tablesCompat L' L hs hc e hv hn)

theorem mem_badSlots (L' L : Ops) (hs : List Head) (x : Head × Side × Head) :
    x ∈ badSlots L' L hs ↔
      x.1 ∈ hs ∧ x.2.2 ∈ Head.leaf :: hs ∧ slotOk L' x.1 x.2.1 x.2.2 = true ∧ slotOk L x.1 x.2.1 x.2.2 = false := by
  obtain ⟨p, s, c⟩ := x
  simp only [badSlots, List.mem_flatMap, List.mem_filterMap]
  constructor
  · rintro ⟨p', hp', s', _, c', hc', hx⟩
    split at hx
    · next hb =>
      simp only [Option.some.injEq, Prod.mk.injEq] at hx
      obtain ⟨rfl, rfl, rfl⟩ := hx
      simp only [Bool.and_eq_true, Bool.not_eq_true'] at hb
      exact ⟨hp', hc', hb.1, hb.2⟩
    · simp at hx
  · rintro ⟨hp, hc, h1, h2⟩
    refine ⟨p, hp, s, by cases s <;> simp [allSides], c, hc, ?_⟩
    simp [h1, h2]

/-- the two tables are compatible over `hs` iff no slot is bad — `badSlots` is the computed list of disagreements -/
theorem tablesCompat_iff_badSlots (L' L : Ops) (hs : List Head) :
    tablesCompat L' L hs = true ↔ badSlots L' L hs = [] := by
  rw [List.eq_nil_iff_forall_not_mem]
  simp only [mem_badSlots, tablesCompat, List.all_eq_true, Bool.or_eq_true, Bool.not_eq_true']
  constructor
  · rintro h ⟨p, s, c⟩ ⟨hp, hc, h1, h2⟩
    rcases h p hp s (by cases s <;> simp [allSides]) c hc with h' | h'
    · rw [h1] at h'; cases h'
    · rw [h2] at h'; cases h'
  · intro h p hp s _ c hc
    cases h1 : slotOk L' p s c with
    | false => exact Or.inl rfl
    | true =>
      cases h2 : slotOk L p s c with
      | true => exact Or.inr rfl
      | false => exact absurd ⟨hp, hc, h1, h2⟩ (h (p, s, c))

/-! ## witnesses of a table disagreement -/

theorem head_atom (n : Nat) : head (.atom n) = .leaf := rfl

theorem head_mkChild (c : Head) (a b : Nat) : head (mkChild c a b) = c := by
  cases c <;> rfl

theorem okL_known (L : Ops) {k c} (h : okL L k c = true) : knownHead L c = true := by
  cases c with
  | leaf => rfl
  | bin o => simp only [okL] at h; split at h <;> simp_all [knownHead]
  | pre o => simp only [okL] at h; split at h <;> simp_all [knownHead]

theorem okAt_known (L : Ops) {k c} (h : okAt L k c = true) : knownHead L c = true := by
  cases c with
  | leaf => rfl
  | bin o => simp only [okAt] at h; split at h <;> simp_all [knownHead]
  | pre o => simp only [okAt] at h; split at h <;> simp_all [knownHead]

theorem nf_mkChild (L : Ops) (c : Head) (a b : Nat) (h : knownHead L c = true) : nf L (mkChild c a b) = true := by
  cases c with
  | leaf => rfl
  | bin o =>
    simp only [knownHead, Option.isSome_iff_exists] at h
    obtain ⟨k, hk⟩ := h
    simp [mkChild, nf, head, slotOk_leaf_left L hk, slotOk_leaf_right L hk]
  | pre o =>
    simp only [knownHead, Option.isSome_iff_exists] at h
    obtain ⟨k, hk⟩ := h
    simp [mkChild, nf, head, slotOk_leaf_operand L hk]

/-- the two-operator witness of a slot is a normal form for a table that lets the slot stay bare … -/
theorem witness_nf (L : Ops) (p : Head) (s : Side) (c : Head) (a b d : Nat)
    (h : slotOk L p s c = true) : nf L (witness p s c a b d) = true := by
  cases p with
  | leaf => simp [slotOk] at h
  | bin o =>
    cases s with
    | operand => simp [slotOk] at h
    | left =>
      simp only [slotOk] at h
      split at h
      · next k hk =>
        simp [witness, nf, head_mkChild, head_atom, slotOk, hk, h, okAt, nf_mkChild L c a b (okL_known L h)]
      · simp at h
    | right =>
      simp only [slotOk] at h
      split at h
      · next k hk =>
        simp [witness, nf, head_mkChild, head_atom, slotOk, hk, h, okL, nf_mkChild L c b d (okAt_known L h)]
      · simp at h
  | pre o =>
    cases s with
    | left => simp [slotOk] at h
    | right => simp [slotOk] at h
    | operand =>
      simp only [slotOk] at h
      split at h
      · next k hk =>
        simp [witness, nf, head_mkChild, slotOk, hk, h, nf_mkChild L c a b (okAt_known L h)]
      · simp at h

/-- … and is not one for a table that needs parentheses there. -/
theorem witness_not_nf (L : Ops) (p : Head) (s : Side) (c : Head) (a b d : Nat)
    (hp : p ≠ .leaf) (hs : slotOk L p s c = false) (hside : ∀ o, (p = .bin o → s ≠ .operand) ∧ (p = .pre o → s = .operand)) :
    nf L (witness p s c a b d) = false := by
  cases p with
  | leaf => exact absurd rfl hp
  | bin o =>
    cases s with
    | operand => exact absurd rfl ((hside o).1 rfl)
    | left => simp [witness, nf, head_mkChild, hs]
    | right => simp [witness, nf, head_mkChild, hs]
  | pre o =>
    cases s with
    | left => exact absurd ((hside o).2 rfl) (by simp)
    | right => exact absurd ((hside o).2 rfl) (by simp)
    | operand => simp [witness, nf, head_mkChild, hs]

/-- **Converse of the cross-table theorem on minimal terms**: for every slot that `L'` leaves bare and `L` does not,
    the two-operator witness is printed by `L'` without parentheses and is NOT read back by `L`. -/
theorem witness_not_reparsed (L' L : Ops) (p : Head) (s : Side) (c : Head) (a b d : Nat)
    (h' : slotOk L' p s c = true) (h : slotOk L p s c = false) :
    let w := witness p s c a b d
    nf L' w = true ∧ printMin L' w = print w ∧ parse L (printMin L' w) ≠ some w := by
  intro w
  have hn := witness_nf L' p s c a b d h'
  have hpm : printMin L' w = print w := by simp only [printMin, w, normalize_of_nf L' _ hn]
  refine ⟨hn, hpm, ?_⟩
  rw [hpm, Ne, parse_print_iff]
  have : nf L w = false := by
    apply witness_not_nf L p s c a b d
    · rintro rfl; simp [slotOk] at h'
    · exact h
    · intro o
      constructor
      · rintro rfl rfl; simp [slotOk] at h'
      · rintro rfl; cases s <;> simp_all [slotOk]
  simp [this]

/-! ## the concrete regrouped reading of each witness shape -/

/-- `a c b p d` with `c` looser than `p`: read as `a c (b p d)`, not `(a c b) p d` -/
theorem regroup_left (L : Ops) {p c kp kc : Nat} (hp : L.bin p = some kp) (hc : L.bin c = some kc) (h : kc < kp)
    (a b d : Nat) :
    parse L (print (.bin p (.bin c (.atom a) (.atom b)) (.atom d)))
      = some (.bin c (.atom a) (.bin p (.atom b) (.atom d))) := by
  have : print (.bin p (.bin c (.atom a) (.atom b)) (.atom d)) = print (.bin c (.atom a) (.bin p (.atom b) (.atom d))) := by
    simp [print]
  rw [this]
  apply parse_print_NF
  simp [nf, slotOk, head, hp, hc, okL, okAt]; omega

/-- `a p b c d` with `c` not tighter than `p`: read as `(a p b) c d`, not `a p (b c d)` -/
theorem regroup_right (L : Ops) {p c kp kc : Nat} (hp : L.bin p = some kp) (hc : L.bin c = some kc) (h : kc ≤ kp)
    (a b d : Nat) :
    parse L (print (.bin p (.atom a) (.bin c (.atom b) (.atom d))))
      = some (.bin c (.bin p (.atom a) (.atom b)) (.atom d)) := by
  have : print (.bin p (.atom a) (.bin c (.atom b) (.atom d))) = print (.bin c (.bin p (.atom a) (.atom b)) (.atom d)) := by
    simp [print]
  rw [this]
  apply parse_print_NF
  simp [nf, slotOk, head, hp, hc, okL, okAt]; omega

/-- `q a c b` with infix `c` looser than prefix `q`: read as `(q a) c b`, not `q (a c b)` -/
theorem regroup_pre_bin (L : Ops) {q c kq kc : Nat} (hq : L.pre q = some kq) (hc : L.bin c = some kc) (h : kc < kq)
    (a b : Nat) :
    parse L (print (.pre q (.bin c (.atom a) (.atom b)))) = some (.bin c (.pre q (.atom a)) (.atom b)) := by
  have : print (.pre q (.bin c (.atom a) (.atom b))) = print (.bin c (.pre q (.atom a)) (.atom b)) := by
    simp [print]
  rw [this]
  apply parse_print_NF
  simp [nf, slotOk, head, hq, hc, okL, okAt]; omega

/-- `q a p b` with prefix `q` not tighter than infix `p`: read as `q (a p b)`, not `(q a) p b` -/
theorem regroup_bin_pre (L : Ops) {q p kq kp : Nat} (hq : L.pre q = some kq) (hp : L.bin p = some kp) (h : kq ≤ kp)
    (a b : Nat) :
    parse L (print (.bin p (.pre q (.atom a)) (.atom b))) = some (.pre q (.bin p (.atom a) (.atom b))) := by
  have : print (.bin p (.pre q (.atom a)) (.atom b)) = print (.pre q (.bin p (.atom a) (.atom b))) := by
    simp [print]
  rw [this]
  apply parse_print_NF
  simp [nf, slotOk, head, hq, hp, okL, okAt]; omega

/-- `a p q b` with prefix `q` not tighter than infix `p` is rejected (Python: `a == not b`) -/
theorem reject_bin_pre_right (L : Ops) {q p kq kp : Nat} (hq : L.pre q = some kq) (hp : L.bin p = some kp) (h : kq ≤ kp)
    (a b : Nat) :
    parse L (print (.bin p (.atom a) (.pre q (.atom b)))) = none := by
  have hlt : ¬ kp + 1 ≤ kq := by omega
  simp [parse, print, parseExpr_succ, parsePrimary_atom, parseLoop_op, parsePrimary_op, hp, hq, hlt]

/-- `q q2 a` with prefix `q2` looser than prefix `q` is rejected (Python: `- not a`) -/
theorem reject_pre_pre (L : Ops) {q q2 kq kq2 : Nat} (hq : L.pre q = some kq) (hq2 : L.pre q2 = some kq2) (h : kq2 < kq)
    (a : Nat) :
    parse L (print (.pre q (.pre q2 (.atom a)))) = none := by
  have hlt : ¬ kq ≤ kq2 := by omega
  simp [parse, print, parseExpr_succ, parsePrimary_op, hq, hq2, hlt]

/-! ## non-vacuity: a small table with infix, chain and prefix levels, one code (41) both infix and prefix -/

/-- 0: `or`=10 · 1: prefix `not`=20 · 2: chain `==`=30 `<`=31 · 3: `+`=40 `-`=41 · 4: `*`=50 · 5: prefix `-`=41 `~`=60 -/
def demoTable : Table :=
  [⟨.infixl, [10]⟩, ⟨.prefix, [20]⟩, ⟨.chain, [30, 31]⟩, ⟨.infixl, [40, 41]⟩, ⟨.infixl, [50]⟩, ⟨.prefix, [41, 60]⟩]

example : demoTable.ops.bin 41 = some 3 ∧ demoTable.ops.pre 41 = some 5 ∧ demoTable.ops.pre 10 = none := by decide

/-- `(1 + 2) * (not 3)`: both parentheses are needed and are produced; the text is read back -/
example : parse demoTable.ops (printMin demoTable.ops (.bin 50 (.bin 40 (.atom 1) (.atom 2)) (.pre 20 (.atom 3))))
    = some (.bin 50 (.paren (.bin 40 (.atom 1) (.atom 2))) (.paren (.pre 20 (.atom 3)))) := by decide

/-- `not 1 == -2 * 3` groups as `not (1 == ((-2) * 3))`; `1 == not 2` is rejected -/
example : parse demoTable.ops [.op 20, .atom 1, .op 30, .op 41, .atom 2, .op 50, .atom 3]
    = some (.pre 20 (.bin 30 (.atom 1) (.bin 50 (.pre 41 (.atom 2)) (.atom 3)))) := by decide
example : parse demoTable.ops [.atom 1, .op 30, .op 20, .atom 2] = none := by decide

/-- a table that swaps `==` and `+` disagrees with `demoTable`, and `badSlots` computes where -/
def demoTable' : Table :=
  [⟨.infixl, [10]⟩, ⟨.prefix, [20]⟩, ⟨.infixl, [40, 41]⟩, ⟨.chain, [30, 31]⟩, ⟨.infixl, [50]⟩, ⟨.prefix, [41, 60]⟩]
example : tablesCompat demoTable.ops demoTable.ops demoTable.heads = true := by decide
example : tablesCompat demoTable'.ops demoTable.ops demoTable.heads = false := by decide
example : (Head.bin 40, Side.left, Head.bin 30) ∈ badSlots demoTable'.ops demoTable.ops demoTable.heads := by decide

end Tranp.Prec
