/-
  Helper lemmas for property C08: the regex post-processing of rendered fragments (Model/Fragment.lean) returns the parts of a
  well-formed fragment verbatim, whatever the identifiers are spelled like.
-/
import Tranp.Model.Fragment

namespace Tranp.Fragment
open Tranp

theorem takeWhile_append_stop {α : Type} (p : α → Bool) (a : List α) (x : α) (b : List α)
    (ha : ∀ c ∈ a, p c = true) (hx : p x = false) : (a ++ x :: b).takeWhile p = a := by
  induction a with
  | nil => simp [List.takeWhile, hx]
  | cons c cs ih =>
    simp only [List.cons_append, List.takeWhile, ha c (by simp)]
    rw [ih (fun y hy => ha y (by simp [hy]))]

theorem dropWhile_append_stop {α : Type} (p : α → Bool) (a : List α) (x : α) (b : List α)
    (ha : ∀ c ∈ a, p c = true) (hx : p x = false) : (a ++ x :: b).dropWhile p = x :: b := by
  induction a with
  | nil => simp [List.dropWhile, hx]
  | cons c cs ih =>
    simp only [List.cons_append, List.dropWhile, ha c (by simp)]
    exact ih (fun y hy => ha y (by simp [hy]))

theorem Word.rev {w : Str} (h : Word w) : ∀ c ∈ w.reverse, isWord c = true :=
  fun c hc => h.2 c (List.mem_reverse.1 hc)

theorem Word.rev_ne_nil {w : Str} (h : Word w) : w.reverse ≠ [] := by
  intro e; exact h.1 (List.reverse_eq_nil_iff.1 e)

/-- the reversed text of an operator starts with a non-word character -/
theorem Op.rev_head (op : Op) : ∃ x t, op.text.reverse = x :: t ∧ isWord x = false := by
  cases op
  · exact ⟨'>', ['-'], rfl, by decide⟩
  · exact ⟨':', [':'], rfl, by decide⟩
  · exact ⟨'.', [], rfl, by decide⟩

theorem stripOpRev_true (op : Op) (p : Str) : stripOpRev true (op.text.reverse ++ p) = some (op, p) := by
  cases op <;> rfl

theorem stripOpRev_false (op : Op) (hop : op ≠ .scope) (p : Str) : stripOpRev false (op.text.reverse ++ p) = some (op, p) := by
  cases op
  · rfl
  · exact absurd rfl hop
  · rfl

/-- the word run at the end of `recv ++ op ++ ident`, seen from the back -/
theorem rev_split (recv ident : Str) (op : Op) (hi : Word ident) :
    ((recv ++ op.text ++ ident).reverse.takeWhile isWord = ident.reverse) ∧
    ((recv ++ op.text ++ ident).reverse.dropWhile isWord = op.text.reverse ++ recv.reverse) := by
  obtain ⟨x, t, hxt, hx⟩ := op.rev_head
  have hrev : (recv ++ op.text ++ ident).reverse = ident.reverse ++ x :: (t ++ recv.reverse) := by
    simp [List.reverse_append, hxt, List.append_assoc]
  rw [hrev]
  refine ⟨takeWhile_append_stop isWord _ x _ hi.rev hx, ?_⟩
  rw [dropWhile_append_stop isWord _ x _ hi.rev hx, hxt]
  rfl

theorem breakRelay_wf (recv ident : Str) (op : Op) (hr : recv ≠ []) (hn : '\n' ∉ recv) (hi : Word ident) :
    breakRelay (recv ++ op.text ++ ident) = some (recv, op.text) := by
  unfold breakRelay
  obtain ⟨h1, h2⟩ := rev_split recv ident op hi
  simp only [h1, h2, stripOpRev_true]
  have hw : ident.reverse.isEmpty = false := by
    cases h : ident.reverse with
    | nil => exact absurd h hi.rev_ne_nil
    | cons _ _ => rfl
  have hp : recv.reverse.isEmpty = false := by
    cases h : recv.reverse with
    | nil => exact absurd (List.reverse_eq_nil_iff.1 h) hr
    | cons _ _ => rfl
  have hc : recv.reverse.contains '\n' = false := by
    rw [List.contains_eq_mem]; simp [hn]
  simp [hw, hp, hn]

theorem breakDictIterator_wf (recv m : Str) (op : Op) (hop : op ≠ .scope) (hr : recv ≠ []) (hn : '\n' ∉ recv) (hm : Word m) :
    breakDictIterator (recv ++ op.text ++ m ++ ['(', ')']) = some (recv, op.text, m) := by
  unfold breakDictIterator
  have hrev : (recv ++ op.text ++ m ++ ['(', ')']).reverse = ')' :: '(' :: (recv ++ op.text ++ m).reverse := by
    simp [List.reverse_append]
  rw [hrev]
  obtain ⟨h1, h2⟩ := rev_split recv m op hm
  simp only [h1, h2, stripOpRev_false op hop]
  have hw : m.reverse.isEmpty = false := by
    cases h : m.reverse with
    | nil => exact absurd h hm.rev_ne_nil
    | cons _ _ => rfl
  have hp : recv.reverse.isEmpty = false := by
    cases h : recv.reverse with
    | nil => exact absurd (List.reverse_eq_nil_iff.1 h) hr
    | cons _ _ => rfl
  have hc : recv.reverse.contains '\n' = false := by
    rw [List.contains_eq_mem]; simp [hn]
  simp [hw, hp, hn]

theorem subCallSuffixAt_call (words : List Str) (recv ident : Str) (op : Op) (hi : Word ident) :
    subCallSuffixAt words (recv ++ op.text ++ ident ++ ['(', ')']).reverse =
      if words.contains ident then some recv.reverse else none := by
  have hrev : (recv ++ op.text ++ ident ++ ['(', ')']).reverse = ')' :: '(' :: (recv ++ op.text ++ ident).reverse := by
    simp [List.reverse_append]
  rw [hrev]
  unfold subCallSuffixAt
  obtain ⟨h1, h2⟩ := rev_split recv ident op hi
  simp only [h1, h2, List.reverse_reverse, stripOpRev_true]
  split <;> simp

/-- a call `recv<op>ident()` at the end of a fragment: stripped iff `ident` IS one of the words (not: ends with one) -/
theorem subCallSuffix_call (words : List Str) (recv ident : Str) (op : Op) (hi : Word ident) :
    subCallSuffix words (recv ++ op.text ++ ident ++ ['(', ')']) =
      if words.contains ident then recv else recv ++ op.text ++ ident ++ ['(', ')'] := by
  unfold subCallSuffix
  have hat := subCallSuffixAt_call words recv ident op hi
  have hrev : (recv ++ op.text ++ ident ++ ['(', ')']).reverse = ')' :: '(' :: (recv ++ op.text ++ ident).reverse := by
    simp [List.reverse_append]
  rw [hrev] at hat
  simp only [hrev, hat]
  by_cases hw : ident ∈ words
  · simp [hw]
  · simp [hw]

theorem dropWhile_all {α : Type} (p : α → Bool) (a : List α) (ha : ∀ c ∈ a, p c = false) (h : a ≠ []) :
    a.dropWhile p = a := by
  cases a with
  | nil => exact absurd rfl h
  | cons c cs => simp [List.dropWhile, ha c (by simp)]

/-- `<type> <name> = …` with a type free of white space: the declared name is returned verbatim -/
theorem pluckClassVarName_simple (ty name rest : Str) (hty : ∀ c ∈ ty, isSpace c = false) (hn : Word name) :
    pluckClassVarName (ty ++ ' ' :: name ++ ' ' :: '=' :: rest) = name := by
  induction ty with
  | nil =>
    show pluckClassVarName (' ' :: (name ++ ' ' :: '=' :: rest)) = name
    have hs : isSpace ' ' = true := by decide
    rw [pluckClassVarName]
    simp only [hs, if_true]
    have hat : classVarAt (' ' :: (name ++ ' ' :: '=' :: rest)) = some name := by
      unfold classVarAt
      obtain ⟨x, xs, hname⟩ : ∃ x xs, name = x :: xs := by
        cases name with
        | nil => exact absurd rfl hn.1
        | cons x xs => exact ⟨x, xs, rfl⟩
      have hx : isSpace x = false := by
        have := hn.2 x (by simp [hname])
        revert this; unfold isWord isSpace
        intro h
        cases hsp : (x = ' ' || x = '\t' || x = '\n' || x = '\r' || x = '\x0b' || x = '\x0c') with
        | false => simpa using hsp
        | true =>
          simp only [Bool.or_eq_true, decide_eq_true_eq] at hsp
          rcases hsp with ((((h1 | h1) | h1) | h1) | h1) | h1 <;> (subst h1; revert h; decide)
      have ha : (' ' :: (name ++ ' ' :: '=' :: rest)).dropWhile isSpace = name ++ ' ' :: '=' :: rest := by
        simp only [List.dropWhile, hs]
        rw [hname]; simp [List.dropWhile, hx]
      have hsw : isWord ' ' = false := by decide
      simp only [ha, takeWhile_append_stop isWord name ' ' _ hn.2 hsw, dropWhile_append_stop isWord name ' ' _ hn.2 hsw]
      have hne : name.isEmpty = false := by rw [hname]; rfl
      have heq : isSpace '=' = false := by decide
      simp [hne, List.dropWhile, hs, heq]
    rw [hat]
  | cons c cs ih =>
    have hc : isSpace c = false := hty c (by simp)
    show pluckClassVarName (c :: (cs ++ ' ' :: name ++ ' ' :: '=' :: rest)) = name
    rw [pluckClassVarName]
    simp only [hc]
    exact ih (fun y hy => hty y (by simp [hy]))

end Tranp.Fragment
