/-
  Helper lemmas for `C01.sem_full` (Tranp.Model.EmitSemW).
-/
import Tranp.Model.EmitSemW
import Tranp.Lemmas.EmitSem
import Tranp.Lemmas.EmitWNode

namespace Tranp.Emit
open Tranp Tranp.Prec

variable {F : Type}

mutual
/-- nodes whose operators all have a C++ infix symbol (no `in`, no `<>`); ternary allowed -/
def coreS : Node → Bool
  | .atom _ _ => true
  | .group e => coreS e
  | .factor _ e => coreS e
  | .notCompare e => coreS e
  | .chain _ _ first rest => coreS first && coreSRest rest
  | .ternary p c s => coreS p && coreS c && coreS s
def coreSRest : Rest → Bool
  | .nil => true
  | .cons op _ _ e rest => op.cpp.isSome && coreS e && coreSRest rest
end

mutual
theorem coreW_of_coreS : ∀ n : Node, coreS n = true → coreW n = true
  | .atom _ _, _ => rfl
  | .group e, h => by simpa [coreW] using coreW_of_coreS e (by simpa [coreS] using h)
  | .factor _ e, h => by simpa [coreW] using coreW_of_coreS e (by simpa [coreS] using h)
  | .notCompare e, h => by simpa [coreW] using coreW_of_coreS e (by simpa [coreS] using h)
  | .chain _ _ f r, h => by
    simp only [coreS, Bool.and_eq_true] at h
    simp only [coreW, Bool.and_eq_true]; exact ⟨coreW_of_coreS f h.1, coreWRest_of_coreSRest r h.2⟩
  | .ternary p c s, h => by
    simp only [coreS, Bool.and_eq_true] at h
    simp only [coreW, Bool.and_eq_true]; exact ⟨⟨coreW_of_coreS p h.1.1, coreW_of_coreS c h.1.2⟩, coreW_of_coreS s h.2⟩
theorem coreWRest_of_coreSRest : ∀ r : Rest, coreSRest r = true → coreWRest r = true
  | .nil, _ => rfl
  | .cons op _ _ e r, h => by
    simp only [coreSRest, Bool.and_eq_true] at h
    simp only [coreWRest, Bool.and_eq_true, Bool.or_eq_true]
    exact ⟨⟨Or.inl h.1.1, coreW_of_coreS e h.1.2⟩, coreWRest_of_coreSRest r h.2⟩
end

theorem liftV_ok {r : Except Err Val} {v : PVal F} (h : liftV r = .ok v) : ∃ w, r = .ok w ∧ v.toVal = some w ∧ v.repr = .i w.repr := by
  cases r with
  | error e => cases h
  | ok w => cases w <;> (cases h; exact ⟨_, rfl, rfl, rfl⟩)

theorem toVal_repr {a : PVal F} {x : Val} (h : a.toVal = some x) : a.repr = .i x.repr := by
  cases a <;> simp only [PVal.toVal, Option.some.injEq, reduceCtorEq] at h <;> subst h <;> rfl

theorem toF_repr (ops : FOps F) {a : PVal F} {x : F} (h : a.toF ops = some x) : (a.repr).toF ops = x := by
  cases a <;> simp only [PVal.toF, Option.some.injEq, reduceCtorEq] at h <;> subst h <;> rfl

theorem cBin_float (ops : FOps F) (o : Nat) (a b : PVal F) (h : a.isF = true ∨ b.isF = true) :
    cBin ops o a.repr b.repr = cBinF ops o (a.repr.toF ops) (b.repr.toF ops) := by
  cases a <;> cases b <;> simp_all [PVal.isF, PVal.repr, cBin]

theorem isF_of_toVal_none {a : PVal F} (h : a.toVal = none) : a.isF = true := by
  cases a <;> simp_all [PVal.toVal, PVal.isF]

theorem toVal_of_not_isF {a : PVal F} (h : a.isF = false) : ∃ x, a.toVal = some x := by
  cases a <;> simp_all [PVal.toVal, PVal.isF]

/-! closed computations: the branch of `cBinF` each operator code selects -/
theorem cBinF_add (ops : FOps F) (x y : F) : cBinF ops (BOp.code .add) x y = .ok (.f (ops.add x y)) := rfl
theorem cBinF_sub (ops : FOps F) (x y : F) : cBinF ops (BOp.code .sub) x y = .ok (.f (ops.sub x y)) := rfl
theorem cBinF_mul (ops : FOps F) (x y : F) : cBinF ops (BOp.code .mul) x y = .ok (.f (ops.mul x y)) := rfl
theorem cBinF_div (ops : FOps F) (x y : F) : cBinF ops (BOp.code .div) x y = .ok (.f (ops.div x y)) := rfl
theorem cBinF_lt (ops : FOps F) (x y : F) : cBinF ops (BOp.code .lt) x y = .ok (.i (b2i (ops.lt x y))) := rfl
theorem cBinF_gt (ops : FOps F) (x y : F) : cBinF ops (BOp.code .gt) x y = .ok (.i (b2i (ops.lt y x))) := rfl
theorem cBinF_le (ops : FOps F) (x y : F) : cBinF ops (BOp.code .le) x y = .ok (.i (b2i (ops.le x y))) := rfl
theorem cBinF_ge (ops : FOps F) (x y : F) : cBinF ops (BOp.code .ge) x y = .ok (.i (b2i (ops.le y x))) := rfl
theorem cBinF_eq (ops : FOps F) (x y : F) : cBinF ops (BOp.code .eq) x y = .ok (.i (b2i (ops.eq x y))) := rfl
theorem cBinF_ne (ops : FOps F) (x y : F) : cBinF ops (BOp.code .ne) x y = .ok (.i (b2i (!ops.eq x y))) := rfl

theorem pyBinF_c (ops : FOps F) {op : BOp} {x y : F} {v : PVal F} (h : pyBinF ops op x y = .ok v) (hm : op ≠ .mod) :
    cBinF ops op.code x y = .ok v.repr := by
  cases op
  case mod => exact absurd rfl hm
  case add => cases h; exact cBinF_add ops x y
  case sub => cases h; exact cBinF_sub ops x y
  case mul => cases h; exact cBinF_mul ops x y
  case div =>
    simp only [pyBinF] at h
    split at h
    · cases h
    · cases h; exact cBinF_div ops x y
  case lt => cases h; exact cBinF_lt ops x y
  case gt => cases h; exact cBinF_gt ops x y
  case le => cases h; exact cBinF_le ops x y
  case ge => cases h; exact cBinF_ge ops x y
  case eq => cases h; exact cBinF_eq ops x y
  case ne => cases h; exact cBinF_ne ops x y
  all_goals (simp only [pyBinF, fCmp] at h; cases h)

/-- operators without short-circuit and without the `fmod` form -/
theorem pyBin2_c (ops : FOps F) {op : BOp} {a b v : PVal F} (h : pyBin2 ops op a b = .ok v) (ho : op ≠ .or) (ha : op ≠ .and)
    (hm : ¬(op = .mod ∧ (a.isF || b.isF) = true)) : cBin ops op.code a.repr b.repr = .ok v.repr := by
  unfold pyBin2 at h
  have key : (a.isF = true ∨ b.isF = true) → (match a.toF ops, b.toF ops with
      | some x, some y => pyBinF ops op x y
      | _, _ => .error .outOfSubset) = .ok v → cBin ops op.code a.repr b.repr = .ok v.repr := by
    intro hf h
    rw [cBin_float ops _ a b hf]
    have hm' : op ≠ .mod := fun e => hm ⟨e, by rcases hf with h1 | h1 <;> simp [h1]⟩
    cases hx : a.toF ops with
    | none => rw [hx] at h; cases h
    | some x =>
      cases hy : b.toF ops with
      | none => rw [hx, hy] at h; cases h
      | some y =>
        rw [hx, hy] at h
        rw [toF_repr ops hx, toF_repr ops hy]
        exact pyBinF_c ops h hm'
  cases hav : a.toVal with
  | some x =>
    cases hbv : b.toVal with
    | some y =>
      rw [hav, hbv] at h
      obtain ⟨w, hw, _, hr⟩ := liftV_ok h
      have := pyBin_cpp hw ho ha
      rw [toVal_repr hav, toVal_repr hbv, hr]
      simp only [cBin, this, liftC]
    | none =>
      rw [hav, hbv] at h
      exact key (Or.inr (isF_of_toVal_none hbv)) h
  | none =>
    rw [hav] at h
    exact key (Or.inl (isF_of_toVal_none hav)) h

/-- the `fmod` form: a float `%` inside the subset is `fmod` of the promoted operands -/
theorem pyBin2_fmod (ops : FOps F) (hlaw : ModLaw ops) {a b v : PVal F} (h : pyBin2 ops .mod a b = .ok v) (hf : (a.isF || b.isF) = true) :
    v.repr = .f (ops.fmod (a.repr.toF ops) (b.repr.toF ops)) := by
  unfold pyBin2 at h
  have key : ∀ x y, a.toF ops = some x → b.toF ops = some y → pyBinF ops .mod x y = .ok v →
      v.repr = .f (ops.fmod (a.repr.toF ops) (b.repr.toF ops)) := by
    intro x y hx hy hb
    simp only [pyBinF] at hb
    split at hb
    · next hg =>
      cases hb
      simp only [Bool.and_eq_true] at hg
      rw [toF_repr ops hx, toF_repr ops hy, PVal.repr, hlaw x y hg.1 hg.2]
    · cases hb
  cases hav : a.toVal with
  | some x =>
    cases hbv : b.toVal with
    | some y =>
      have : a.isF = false := by cases a <;> simp_all [PVal.toVal, PVal.isF]
      have : b.isF = false := by cases b <;> simp_all [PVal.toVal, PVal.isF]
      simp_all
    | none =>
      rw [hav, hbv] at h
      simp only at h
      cases hx : a.toF ops with
      | none => rw [hx] at h; cases h
      | some x' =>
        cases hy : b.toF ops with
        | none => rw [hx, hy] at h; cases h
        | some y' => rw [hx, hy] at h; exact key x' y' hx hy h
  | none =>
    rw [hav] at h
    simp only at h
    cases hx : a.toF ops with
    | none => rw [hx] at h; cases h
    | some x' =>
      cases hy : b.toF ops with
      | none => rw [hx, hy] at h; cases h
      | some y' => rw [hx, hy] at h; exact key x' y' hx hy h

theorem cUn_neg_f (ops : FOps F) (x : F) : cUn ops (UOp.code .neg) (.f x) = .ok (.f (ops.neg x)) := rfl
theorem cUn_pos_f (ops : FOps F) (x : F) : cUn ops (UOp.code .pos) (.f x) = .ok (.f x) := rfl

theorem pyUn2_c (ops : FOps F) {op : UOp} {v w : PVal F} (h : pyUn2 ops op v = .ok w) : cUn ops op.code v.repr = .ok w.repr := by
  cases v with
  | flt x =>
    cases op <;> simp only [pyUn2, PVal.toVal] at h <;> first | (cases h; first | exact cUn_neg_f ops x | exact cUn_pos_f ops x) | cases h
  | int i =>
    have h' : liftV (pyUn op (.int i)) = .ok w := by cases op <;> simpa [pyUn2, PVal.toVal] using h
    obtain ⟨u, hu, _, hr⟩ := liftV_ok h'
    have := pyUn_cpp hu
    show liftC (cppUn op.code i) = _
    rw [show cppUn op.code i = .ok u.repr from this, hr]; rfl
  | bool b =>
    have h' : liftV (pyUn op (.bool b)) = .ok w := by cases op <;> simpa [pyUn2, PVal.toVal] using h
    obtain ⟨u, hu, _, _⟩ := liftV_ok h'
    cases op <;> simp [pyUn] at hu

theorem truthy_bool (ops : FOps F) (b : Bool) : (PVal.bool b : PVal F).repr.truthy ops = b := by cases b <;> rfl

theorem code_ne_oror' {op : BOp} {s : Str} (h : op.cpp = some s) (ho : op ≠ .or) : op.code ≠ symCode ['|', '|'] := code_ne_oror h ho
theorem code_ne_andand' {op : BOp} {s : Str} (h : op.cpp = some s) (ha : op ≠ .and) : op.code ≠ symCode ['&', '&'] := code_ne_andand h ha

theorem cEvalO_bin_plain (ops : FOps F) (ρ : PEnv F) {o : Nat} {l r : O} {a b : CVal F} (h1 : o ≠ symCode ['|', '|']) (h2 : o ≠ symCode ['&', '&'])
    (hl : cEvalO ops ρ l = .ok a) (hr : cEvalO ops ρ r = .ok b) : cEvalO ops ρ (.bin o l r) = cBin ops o a b := by
  simp only [cEvalO, hl, hr, if_neg h1, if_neg h2]

theorem isIn_false_of_cpp' {op : BOp} (h : op.cpp.isSome = true) : isIn op = false := by
  obtain ⟨s, hs⟩ := Option.isSome_iff_exists.mp h
  exact isIn_false_of_cpp hs

/-- one non-short-circuit step of a chain, both template branches -/
theorem step_c (ops : FOps F) (hlaw : ModLaw ops) (ρ : PEnv F) {op : BOp} {d : Bool} {pty ty : Ty} {acc r v : PVal F} {accO rO : O}
    (hcpp : op.cpp.isSome = true) (ho : op ≠ .or) (ha : op ≠ .and)
    (hacc : cEvalO ops ρ accO = .ok acc.repr) (hr : cEvalO ops ρ rO = .ok r.repr)
    (htag : ¬(op = .mod ∧ (pty.isFloat || ty.isFloat) ≠ (acc.isF || r.isF)))
    (hb : pyBin2 ops op acc r = .ok v) : cEvalO ops ρ (stepO op d pty ty accO rO) = .ok v.repr := by
  obtain ⟨s, hs⟩ := Option.isSome_iff_exists.mp hcpp
  simp only [stepO, isIn_false_of_cpp hs, Bool.false_eq_true, ↓reduceIte]
  by_cases hf : (op == .mod && (pty.isFloat || ty.isFloat)) = true
  · simp only [Bool.and_eq_true, beq_iff_eq] at hf
    obtain ⟨rfl, hfl⟩ := hf
    have hvals : (acc.isF || r.isF) = true := by
      by_cases hne : (pty.isFloat || ty.isFloat) = (acc.isF || r.isF)
      · rw [← hne]; exact hfl
      · exact absurd ⟨rfl, hne⟩ htag
    have := pyBin2_fmod ops hlaw hb hvals
    simp only [beq_self_eq_true, hfl, Bool.and_self, ↓reduceIte, cEvalO, cEvalX, hacc, hr, this]
  · have hf' : (op == .mod && (pty.isFloat || ty.isFloat)) = false := by simpa using hf
    simp only [hf', Bool.false_eq_true, ↓reduceIte]
    rw [cEvalO_bin_plain ops ρ (code_ne_oror hs ho) (code_ne_andand hs ha) hacc hr]
    apply pyBin2_c ops hb ho ha
    rintro ⟨rfl, hvals⟩
    simp only [beq_self_eq_true, Bool.true_and] at hf'
    exact htag ⟨rfl, by rw [hf', hvals]; decide⟩

theorem stepO_or (d : Bool) (pty ty : Ty) (l r : O) : stepO .or d pty ty l r = .bin (BOp.code .or) l r := rfl
theorem stepO_and (d : Bool) (pty ty : Ty) (l r : O) : stepO .and d pty ty l r = .bin (BOp.code .and) l r := rfl

theorem cEvalO_or_true (ops : FOps F) (ρ : PEnv F) {l r : O} (hl : cEvalO ops ρ l = .ok (PVal.bool true).repr) :
    cEvalO ops ρ (.bin (BOp.code .or) l r) = .ok (PVal.bool true : PVal F).repr := by
  simp only [cEvalO, hl]; rfl
theorem cEvalO_or_false (ops : FOps F) (ρ : PEnv F) {l r : O} {b : Bool} (hl : cEvalO ops ρ l = .ok (PVal.bool false).repr)
    (hr : cEvalO ops ρ r = .ok (PVal.bool b).repr) : cEvalO ops ρ (.bin (BOp.code .or) l r) = .ok (PVal.bool b : PVal F).repr := by
  simp only [cEvalO, hl, hr]; cases b <;> rfl
theorem cEvalO_and_false (ops : FOps F) (ρ : PEnv F) {l r : O} (hl : cEvalO ops ρ l = .ok (PVal.bool false).repr) :
    cEvalO ops ρ (.bin (BOp.code .and) l r) = .ok (PVal.bool false : PVal F).repr := by
  simp only [cEvalO, hl]; rfl
theorem cEvalO_and_true (ops : FOps F) (ρ : PEnv F) {l r : O} {b : Bool} (hl : cEvalO ops ρ l = .ok (PVal.bool true).repr)
    (hr : cEvalO ops ρ r = .ok (PVal.bool b).repr) : cEvalO ops ρ (.bin (BOp.code .and) l r) = .ok (PVal.bool b : PVal F).repr := by
  simp only [cEvalO, hl, hr]; cases b <;> rfl

mutual
theorem semX : ∀ (ops : FOps F) (hlaw : ModLaw ops) (ρ : PEnv F) (n : Node) (v : PVal F), coreS n = true → wf n = true →
    pyEval ops ρ n = .ok v → cEvalX ops ρ (xOfG false n) = .ok v.repr
  | ops, hlaw, ρ, .atom id _, v, _, _, h => by
    simp only [pyEval] at h
    simp only [xOfG, leafO, cEvalX, cEvalO]
    cases hρ : ρ id with
    | int i =>
      rw [hρ] at h
      simp only [pchk] at h
      split at h
      · cases h; rfl
      · cases h
    | bool b => rw [hρ] at h; cases h; rfl
    | flt x => rw [hρ] at h; cases h; rfl
  | ops, hlaw, ρ, .group e, v, hc, hw, h => by
    simp only [pyEval] at h
    have ih := semX ops hlaw ρ e v (by simpa [coreS] using hc) (by simpa [wf] using hw) h
    simpa [xOfG, parenO, cEvalX, cEvalO] using ih
  | ops, hlaw, ρ, .factor op e, v, hc, hw, h => by
    simp only [wf, Bool.and_eq_true, decide_eq_true_eq] at hw
    simp only [pyEval] at h
    cases he : pyEval ops ρ e with
    | error er => rw [he] at h; cases h
    | ok w =>
      rw [he] at h
      have ih := semX ops hlaw ρ e w (by simpa [coreS] using hc) hw.2 he
      rw [xOfG_plain false e (notTern_of_level (k := 9) (by simp only [factorLevel] at hw; omega))] at ih
      simp only [cEvalX] at ih
      simp only [xOfG, cEvalX, cEvalO, Bool.false_and, guardO, Bool.false_eq_true, ↓reduceIte, ih]
      exact pyUn2_c ops h
  | ops, hlaw, ρ, .notCompare e, v, hc, hw, h => by
    simp only [wf, Bool.and_eq_true, decide_eq_true_eq, Bool.not_eq_true', matches_tern] at hw
    simp only [pyEval] at h
    cases he : pyEval ops ρ e with
    | error er => rw [he] at h; cases h
    | ok w =>
      rw [he] at h
      have ih := semX ops hlaw ρ e w (by simpa [coreS] using hc) hw.2 he
      rw [xOfG_plain false e hw.1.2] at ih
      simp only [cEvalX] at ih
      cases w with
      | int i => cases h
      | flt x => cases h
      | bool b =>
        cases h
        simp only [xOfG, cEvalX, cEvalO, Bool.false_and, guardO, Bool.false_eq_true, ↓reduceIte, ih]
        cases b <;> rfl
  | ops, hlaw, ρ, .chain lv fty first rest, v, hc, hw, h => by
    simp only [coreS, Bool.and_eq_true] at hc
    simp only [wf, Bool.and_eq_true, decide_eq_true_eq, Bool.not_eq_true', matches_tern] at hw
    obtain ⟨⟨⟨⟨_, hnt⟩, hwf⟩, _⟩, hwr⟩ := hw
    simp only [pyEval] at h
    cases hf : pyEval ops ρ first with
    | error er => rw [hf] at h; cases h
    | ok w =>
      rw [hf] at h
      have ih := semX ops hlaw ρ first w hc.1 hwf hf
      rw [xOfG_plain false first hnt] at ih
      simp only [cEvalX] at ih
      simp only [xOfG, cEvalX, Bool.false_and, guardO, Bool.false_eq_true, ↓reduceIte]
      exact semRest ops hlaw ρ rest lv fty _ w v hc.2 hwr ih h
  | ops, hlaw, ρ, .ternary p c s, v, hc, hw, h => by
    simp only [coreS, Bool.and_eq_true] at hc
    simp only [wf, Bool.and_eq_true, Bool.not_eq_true', matches_tern] at hw
    obtain ⟨⟨⟨⟨hnp, hnc⟩, hwp⟩, hwc⟩, hws⟩ := hw
    simp only [pyEval] at h
    cases hcv : pyEval ops ρ c with
    | error er => rw [hcv] at h; cases h
    | ok w =>
      rw [hcv] at h
      have ihc := semX ops hlaw ρ c w hc.1.2 hwc hcv
      rw [xOfG_plain false c hnc] at ihc
      simp only [cEvalX] at ihc
      cases w with
      | int i => cases h
      | flt x => cases h
      | bool b =>
        cases b with
        | true =>
          simp only at h
          have := semX ops hlaw ρ p v hc.1.1 hwp h
          simp only [xOfG, cEvalX, ihc, truthy_bool, ↓reduceIte, this]
        | false =>
          simp only at h
          have := semX ops hlaw ρ s v hc.2 hws h
          simp only [xOfG, cEvalX, ihc, truthy_bool, Bool.false_eq_true, ↓reduceIte, this]
theorem semRest : ∀ (ops : FOps F) (hlaw : ModLaw ops) (ρ : PEnv F) (rest : Rest) (lv : Nat) (pty : Ty) (accO : O) (acc v : PVal F),
    coreSRest rest = true → wfRest lv rest = true → cEvalO ops ρ accO = .ok acc.repr → pyEvalRest ops ρ acc pty rest = .ok v →
    cEvalO ops ρ (oRestG false accO pty rest) = .ok v.repr
  | ops, hlaw, ρ, .nil, _, _, _, _, _, _, _, hacc, h => by
    simp only [pyEvalRest] at h; cases h
    simpa [oRestG] using hacc
  | ops, hlaw, ρ, .cons op d ty e rest, lv, pty, accO, acc, v, hc, hw, hacc, h => by
    simp only [coreSRest, Bool.and_eq_true] at hc
    obtain ⟨⟨hcpp, hce⟩, hcr⟩ := hc
    simp only [wfRest, Bool.and_eq_true, decide_eq_true_eq, Bool.not_eq_true', matches_tern] at hw
    obtain ⟨⟨⟨_, hnt⟩, hwe⟩, hwr⟩ := hw
    obtain ⟨s, hs⟩ := Option.isSome_iff_exists.mp hcpp
    have hnin := isIn_false_of_cpp hs
    have hE : ∀ r, pyEval ops ρ e = .ok r → cEvalO ops ρ (oOfG false e) = .ok r.repr := by
      intro r he
      have ih := semX ops hlaw ρ e r hce hwe he
      rw [xOfG_plain false e hnt] at ih
      simpa [cEvalX] using ih
    simp only [oRestG, hnin, Bool.or_self, Bool.false_and, guardO, Bool.false_eq_true, ↓reduceIte]
    by_cases ho : op = .or
    · subst ho
      simp only [pyEvalRest] at h
      cases acc with
      | int i => cases h
      | flt x => cases h
      | bool b =>
        cases b with
        | true =>
          simp only at h
          exact semRest ops hlaw ρ rest lv _ _ (.bool true) v hcr hwr (by rw [stepO_or]; exact cEvalO_or_true ops ρ hacc) h
        | false =>
          simp only at h
          cases he : pyEval ops ρ e with
          | error er => rw [he] at h; cases h
          | ok w =>
            rw [he] at h
            cases w with
            | int i => cases h
            | flt x => cases h
            | bool b' =>
              simp only at h
              exact semRest ops hlaw ρ rest lv _ _ (.bool b') v hcr hwr (by rw [stepO_or]; exact cEvalO_or_false ops ρ hacc (hE _ he)) h
    · by_cases ha : op = .and
      · subst ha
        simp only [pyEvalRest] at h
        cases acc with
        | int i => cases h
        | flt x => cases h
        | bool b =>
          cases b with
          | false =>
            simp only at h
            exact semRest ops hlaw ρ rest lv _ _ (.bool false) v hcr hwr (by rw [stepO_and]; exact cEvalO_and_false ops ρ hacc) h
          | true =>
            simp only at h
            cases he : pyEval ops ρ e with
            | error er => rw [he] at h; cases h
            | ok w =>
              rw [he] at h
              cases w with
              | int i => cases h
              | flt x => cases h
              | bool b' =>
                simp only at h
                exact semRest ops hlaw ρ rest lv _ _ (.bool b') v hcr hwr (by rw [stepO_and]; exact cEvalO_and_true ops ρ hacc (hE _ he)) h
      · have hgen : ∀ r v', pyEval ops ρ e = .ok r → ¬(op = .mod ∧ (pty.isFloat || ty.isFloat) ≠ (acc.isF || r.isF)) →
            pyBin2 ops op acc r = .ok v' → pyEvalRest ops ρ v' (pty.acc ty) rest = .ok v →
            cEvalO ops ρ (oRestG false (stepO op d pty ty accO (oOfG false e)) (pty.acc ty) rest) = .ok v.repr := by
          intro r v' he htag hb hrest
          exact semRest ops hlaw ρ rest lv _ _ v' v hcr hwr (step_c ops hlaw ρ hcpp ho ha hacc (hE r he) htag hb) hrest
        cases op <;> first
          | exact absurd rfl ho
          | exact absurd rfl ha
          | (simp only [pyEvalRest] at h
             split at h
             · cases h
             · cases he : pyEval ops ρ e with
               | error er => rw [he] at h; cases h
               | ok r =>
                 rw [he] at h
                 simp only at h
                 split at h
                 · cases h
                 · next htag =>
                   split at h
                   · next v' hb => exact hgen r v' he (by simpa using htag) hb h
                   · cases h)
end

/-! ## parentheses do not change the C++ value -/

mutual
theorem cEvalX_strip : ∀ (ops : FOps F) (ρ : PEnv F) (x : X), cEvalX ops ρ (stripX x) = cEvalX ops ρ x
  | ops, ρ, .plain o => by simp only [stripX, cEvalX, cEvalO_strip ops ρ o]
  | ops, ρ, .tern c a b => by simp only [stripX, cEvalX, cEvalO_strip ops ρ c, cEvalX_strip ops ρ a, cEvalX_strip ops ρ b]
theorem cEvalO_strip : ∀ (ops : FOps F) (ρ : PEnv F) (o : O), cEvalO ops ρ (stripO o) = cEvalO ops ρ o
  | ops, ρ, .bin op l r => by simp only [stripO, cEvalO, cEvalO_strip ops ρ l, cEvalO_strip ops ρ r]
  | ops, ρ, .pre op e => by simp only [stripO, cEvalO, cEvalO_strip ops ρ e]
  | ops, ρ, .leaf (.atom id) s => by cases s <;> rfl
  | ops, ρ, .leaf (.name n) .nil => rfl
  | ops, ρ, .leaf (.name n) (.member _ _) => rfl
  | ops, ρ, .leaf (.name n) (.call .nil rest) => by cases rest <;> rfl
  | ops, ρ, .leaf (.name n) (.call (.cons x .nil) rest) => by cases rest <;> rfl
  | ops, ρ, .leaf (.name n) (.call (.cons x (.cons y .nil)) .nil) => by
    simp only [stripO, stripB, stripSufs, stripArgs, cEvalO, cEvalX_strip ops ρ x, cEvalX_strip ops ρ y]
  | ops, ρ, .leaf (.name n) (.call (.cons x (.cons y .nil)) (.member _ _)) => rfl
  | ops, ρ, .leaf (.name n) (.call (.cons x (.cons y .nil)) (.call _ _)) => rfl
  | ops, ρ, .leaf (.name n) (.call (.cons x (.cons y (.cons z w))) rest) => by cases rest <;> rfl
  | ops, ρ, .leaf (.paren (.plain o)) .nil => by simp only [stripO, cEvalO, cEvalX, cEvalO_strip ops ρ o]
  | ops, ρ, .leaf (.paren (.tern c a b)) .nil => by
    simp only [stripO, stripB, stripSufs, cEvalO, cEvalX_strip ops ρ (.tern c a b)]
  | ops, ρ, .leaf (.paren x) (.member _ _) => by cases x <;> rfl
  | ops, ρ, .leaf (.paren x) (.call _ _) => by cases x <;> rfl
end

end Tranp.Emit
