/-
  Soundness of the engine against the DECLARATIVE reading of a rule set (C11.T6).

  `DSym / DPat / DSeq / DIter` say what a rule set derives with no cursor, no fuel, no direction and no order of
  evaluation: a sequence derives the concatenation of what its entries derive, an alternative derives what one of its
  entries derives, `( … )*+?` / `[ … ]` derive a number of repetitions of the body allowed by the marker, a symbol derives
  what its rule derives (wrapped and unwrapped as `_unwrap_children` does), a terminal derives one matching token.
  `sound_all`: whatever the right-to-left matcher of syntax.py returns as a success is such a derivation of exactly the
  tokens it consumed, with exactly the children it returns.
-/
import Tranp.Lemmas.Engine

namespace Tranp.Engine
open Tranp

/-- how many repetitions of the body a repeat marker allows -/
def repCount (rep : Rep) (n : Nat) : Prop :=
  match rep with
  | .overZero => True
  | .overOne => 1 ≤ n
  | .oneOrZero => n ≤ 1
  | .oneOrEmpty => n ≤ 1
  | .noRepeat => False

/-- children of a repeat group after `n` repetitions with children `cs`: `[ … ]` leaves the `__empty__` placeholder when
    it matched nothing (syntax.py:263-268) -/
def repChildren (rep : Rep) (n : Nat) (cs : List Ast) : List Ast :=
  if n = 0 ∧ rep = .oneOrEmpty then [.empty] else cs

mutual
/-- `DSym env sym toks c`: the symbol `sym` derives the tokens `toks` (source order) as the entry `c`. -/
inductive DSym (env : Env) : Str → List Tok → Ast → Prop
  | terminal (sym e : Str) (comp : Comp) (tok : Tok) :
      getRule env.rules sym = .ok (.pattern e .terminal comp) → compareToken env tok e comp = .ok true →
      DSym env sym [tok] (.token sym tok)
  | rule (sym : Str) (p : Pat) (toks : List Tok) (cs : List Ast) :
      getRule env.rules sym = .ok p → (∀ e comp, p ≠ .pattern e .terminal comp) → DPat env p true toks cs →
      DSym env sym toks (unwrapChildren env.rules sym cs)
/-- `DPat env p allow toks cs`: the pattern `p` derives `toks` with the children `cs`; `allow = false` reads a repeat group
    as ONE repetition of its body (how `_match_repeat` calls `_match_entry`). -/
inductive DPat (env : Env) : Pat → Bool → List Tok → List Ast → Prop
  | term (e : Str) (comp : Comp) (a : Bool) (tok : Tok) :
      compareToken env tok e comp = .ok true → DPat env (.pattern e .terminal comp) a [tok] []
  | sym (e : Str) (comp : Comp) (a : Bool) (toks : List Tok) (c : Ast) :
      DSym env e toks c → DPat env (.pattern e .symbol comp) a toks [c]
  | rep (es : List Pat) (op : Op) (rep : Rep) (n : Nat) (toks : List Tok) (cs : List Ast) :
      repCount rep n → DIter env es op rep n toks cs → DPat env (.group es op rep) true toks (repChildren rep n cs)
  | or (es : List Pat) (rep : Rep) (a : Bool) (p : Pat) (toks : List Tok) (cs : List Ast) :
      (rep = .noRepeat ∨ a = false) → p ∈ es → DPat env p true toks cs → DPat env (.group es .or rep) a toks cs
  | and (es : List Pat) (rep : Rep) (a : Bool) (toks : List Tok) (cs : List Ast) :
      (rep = .noRepeat ∨ a = false) → DSeq env es toks cs → DPat env (.group es .and rep) a toks cs
/-- a sequence of entries, in source order -/
inductive DSeq (env : Env) : List Pat → List Tok → List Ast → Prop
  | nil : DSeq env [] [] []
  | cons (p : Pat) (ps : List Pat) (t1 : List Tok) (c1 : List Ast) (t2 : List Tok) (c2 : List Ast) :
      DPat env p true t1 c1 → DSeq env ps t2 c2 → DSeq env (p :: ps) (t1 ++ t2) (c1 ++ c2)
/-- `n` repetitions of the body of the group `(es op)rep`, in source order -/
inductive DIter (env : Env) : List Pat → Op → Rep → Nat → List Tok → List Ast → Prop
  | zero (es : List Pat) (op : Op) (rep : Rep) : DIter env es op rep 0 [] []
  | succ (es : List Pat) (op : Op) (rep : Rep) (n : Nat) (t1 : List Tok) (c1 : List Ast) (t2 : List Tok) (c2 : List Ast) :
      DPat env (.group es op rep) false t1 c1 → DIter env es op rep n t2 c2 →
      DIter env es op rep (n + 1) (t1 ++ t2) (c1 ++ c2)
end

/-- the `n` tokens right of the cursor's left edge that a match consumed, in source order -/
def consumed (ctx : Ctx) (n : Nat) : List Tok := (ctx.rest.take n).reverse

theorem consumed_zero (ctx : Ctx) : consumed ctx 0 = [] := by simp [consumed]

theorem consumed_add (ctx : Ctx) (s k : Nat) : consumed ctx (s + k) = consumed (ctx.step s) k ++ consumed ctx s := by
  simp only [consumed, Ctx.step, List.take_add, List.reverse_append]

theorem consumed_one {ctx : Ctx} {tok : Tok} {rest : List Tok} (h : ctx.rest = tok :: rest) : consumed ctx 1 = [tok] := by
  simp [consumed, h]

theorem matchTerminal_cmp {env : Env} {ctx : Ctx} {e : Str} {comp : Comp} {tok : Tok}
    (h : matchTerminal env ctx e comp = .ok (some tok)) : compareToken env tok e comp = .ok true := by
  unfold matchTerminal at h
  split at h
  · cases h
  · rename_i t rest heq
    split at h
    · cases h
    · rename_i hc
      simp only [Except.ok.injEq, Option.some.injEq] at h
      subst h
      exact hc
    · cases h

/-- result of the `while` of `_match_repeat`, declaratively -/
theorem sound_finish {env : Env} {ctx : Ctx} {es : List Pat} {op : Op} {rep : Rep} {found steps peek : Nat}
    {children : List Ast} {trace : List (Tok × Bool)}
    (hne : rep ≠ .noRepeat)
    (hd : DIter env es op rep found (consumed ctx steps) children)
    (h0 : found = 0 → steps = 0 ∧ children = [])
    (h1 : rep = .oneOrZero ∨ rep = .oneOrEmpty → found ≤ 1)
    (hok : (repeatFinish rep found steps children peek trace).ok = true) :
    DPat env (.group es op rep) true (consumed ctx (repeatFinish rep found steps children peek trace).steps)
      (repeatFinish rep found steps children peek trace).children := by
  unfold repeatFinish at hok ⊢
  split
  · rename_i hf
    have hf0 : found = 0 := by simpa using hf
    subst hf0
    cases rep with
    | overZero =>
      simp only [consumed_zero]
      exact DPat.rep es op .overZero 0 [] [] trivial (DIter.zero es op _)
    | oneOrZero =>
      simp only [consumed_zero]
      exact DPat.rep es op .oneOrZero 0 [] [] (by simp [repCount]) (DIter.zero es op _)
    | oneOrEmpty =>
      simp only [consumed_zero]
      have := DPat.rep (env := env) es op .oneOrEmpty 0 [] [] (by simp [repCount]) (DIter.zero es op _)
      simpa [repChildren] using this
    | overOne => simp [Out.ng] at hok
    | noRepeat => exact absurd rfl hne
  · rename_i hf
    have hf0 : found ≠ 0 := by simpa using hf
    have hc : repCount rep found := by
      cases rep with
      | overZero => trivial
      | overOne => simp only [repCount]; omega
      | oneOrZero => exact h1 (Or.inl rfl)
      | oneOrEmpty => exact h1 (Or.inr rfl)
      | noRepeat => exact absurd rfl hne
    have := DPat.rep es op rep found _ _ hc hd
    have hrc : repChildren rep found children = children := by simp [repChildren, hf0]
    rw [hrc] at this
    exact this

/-- Soundness for all five mutually recursive matcher functions at once, by induction on the fuel. -/
theorem sound_all (env : Env) (fuel : Nat) :
    (∀ ctx peek sym out, matchSymbol env fuel ctx peek sym = .ok out → out.ok = true →
        ∃ c, out.children = [c] ∧ DSym env sym (consumed ctx out.steps) c) ∧
    (∀ ctx peek p allow out, matchEntry env fuel ctx peek p allow = .ok out → out.ok = true →
        DPat env p allow (consumed ctx out.steps) out.children) ∧
    (∀ ctx peek ps out, matchOr env fuel ctx peek ps = .ok out → out.ok = true →
        ∃ p ∈ ps, DPat env p true (consumed ctx out.steps) out.children) ∧
    (∀ ctx peek ps steps children trace out done, DSeq env done (consumed ctx steps) children →
        matchAnd env fuel ctx peek ps steps children trace = .ok out → out.ok = true →
        DSeq env (ps.reverse ++ done) (consumed ctx out.steps) out.children) ∧
    (∀ ctx peek es op rep found steps children trace out, rep ≠ .noRepeat →
        DIter env es op rep found (consumed ctx steps) children → (found = 0 → steps = 0 ∧ children = []) →
        (rep = .oneOrZero ∨ rep = .oneOrEmpty → found = 0) →
        matchRepeat env fuel ctx peek es op rep found steps children trace = .ok out → out.ok = true →
        DPat env (.group es op rep) true (consumed ctx out.steps) out.children) := by
  induction fuel with
  | zero => simp [matchSymbol, matchEntry, matchOr, matchAnd, matchRepeat]
  | succ n ih =>
    obtain ⟨ihS, ihE, ihO, ihA, ihR⟩ := ih
    refine ⟨?_, ?_, ?_, ?_, ?_⟩
    · intro ctx peek sym out h hok
      simp only [matchSymbol] at h
      split at h
      · cases h
      · rename_i e comp hrule
        split at h
        · cases h
        · rename_i tok hmt
          simp only [Except.ok.injEq] at h; subst h
          obtain ⟨rest, hr⟩ := matchTerminal_some hmt
          refine ⟨_, rfl, ?_⟩
          simp only [consumed_one hr]
          exact DSym.terminal sym e comp tok hrule (matchTerminal_cmp hmt)
        · simp at h; subst h; simp at hok
      · rename_i p hnt hrule
        split at h
        · cases h
        · rename_i o ho
          simp only [Except.ok.injEq] at h; subst h
          refine ⟨_, rfl, ?_⟩
          exact DSym.rule sym p _ _ hrule (fun e comp hp => hnt e comp (by rw [hp])) (ihE _ _ _ _ _ ho hok)
    · intro ctx peek p allow out h hok
      cases p with
      | group es op rep =>
        simp only [matchEntry] at h
        split at h
        · rename_i hc
          have := ihR _ _ _ _ _ _ _ _ _ _ hc.1 (by simpa [consumed_zero] using DIter.zero es op rep) (fun _ => ⟨rfl, rfl⟩) (fun _ => rfl) h hok
          rw [hc.2]
          exact this
        · rename_i hc
          have hc' : rep = .noRepeat ∨ allow = false := by
            by_cases hr : rep = .noRepeat
            · exact Or.inl hr
            · right
              cases allow with
              | false => rfl
              | true => exact absurd ⟨hr, rfl⟩ hc
          split at h
          · rename_i hop
            subst hop
            obtain ⟨p, hp, hd⟩ := ihO _ _ _ _ h hok
            exact DPat.or es rep allow p _ _ hc' hp hd
          · rename_i hop
            have hop' : op = .and := by cases op <;> simp_all
            subst hop'
            have := ihA _ _ _ _ _ _ _ [] (by simpa [consumed_zero] using DSeq.nil) h hok
            simp only [List.reverse_reverse, List.append_nil] at this
            exact DPat.and es rep allow _ _ hc' this
      | pattern e role comp =>
        cases role with
        | terminal =>
          simp only [matchEntry] at h
          split at h
          · cases h
          · rename_i tok hmt
            simp only [Except.ok.injEq] at h; subst h
            obtain ⟨rest, hr⟩ := matchTerminal_some hmt
            simp only [consumed_one hr]
            exact DPat.term e comp allow tok (matchTerminal_cmp hmt)
          · simp at h; subst h; simp [Out.ng] at hok
        | symbol =>
          simp only [matchEntry] at h
          obtain ⟨c, hc, hd⟩ := ihS _ _ _ _ h hok
          rw [hc]
          exact DPat.sym e comp allow _ c hd
    · intro ctx peek ps out h hok
      cases ps with
      | nil => simp [matchOr] at h; subst h; simp [Out.ng] at hok
      | cons p ps =>
        simp only [matchOr] at h
        split at h
        · cases h
        · rename_i o ho
          split at h
          · rename_i hk
            simp only [Except.ok.injEq] at h; subst h
            exact ⟨p, List.mem_cons_self, ihE _ _ _ _ _ ho hk⟩
          · obtain ⟨q, hq, hd⟩ := ihO _ _ _ _ h hok
            exact ⟨q, List.mem_cons_of_mem _ hq, hd⟩
    · intro ctx peek ps steps children trace out done hacc h hok
      cases ps with
      | nil => simp [matchAnd] at h; subst h; simpa using hacc
      | cons p ps =>
        simp only [matchAnd] at h
        split at h
        · cases h
        · rename_i o ho
          split at h
          · rename_i hk
            have hp := ihE _ _ _ _ _ ho hk
            have hacc' : DSeq env (p :: done) (consumed ctx (steps + o.steps)) (o.children ++ children) := by
              rw [consumed_add]
              exact DSeq.cons p done _ _ _ _ hp hacc
            have := ihA _ _ _ _ _ _ _ _ hacc' h hok
            simpa [List.reverse_cons, List.append_assoc] using this
          · simp at h; subst h; simp [Out.ng] at hok
    · intro ctx peek es op rep found steps children trace out hne hacc h0 h1 h hok
      simp only [matchRepeat] at h
      split at h
      · simp only [Except.ok.injEq] at h; subst h
        exact sound_finish hne hacc h0 (fun hr => by have := h1 hr; omega) hok
      · split at h
        · cases h
        · rename_i o ho
          split at h
          · rename_i hk
            have hb := ihE _ _ _ _ _ ho hk
            have hacc' : DIter env es op rep (found + 1) (consumed ctx (steps + o.steps)) (o.children ++ children) := by
              rw [consumed_add]
              exact DIter.succ es op rep found _ _ _ _ hb hacc
            split at h
            · rename_i hr
              simp only [Except.ok.injEq] at h; subst h
              exact sound_finish hne hacc' (by omega) (fun hr' => by have := h1 hr'; omega) hok
            · rename_i hr
              exact ihR _ _ _ _ _ _ _ _ _ _ hne hacc' (by omega) (fun hr' => absurd hr' hr) h hok
          · simp only [Except.ok.injEq] at h; subst h
            exact sound_finish hne hacc h0 (fun hr => by have := h1 hr; omega) hok

/-! ## inversion of the declarative reading (what a derivation of a given shape must look like) -/

theorem DPat.sym_inv {env : Env} {e : Str} {comp : Comp} {a : Bool} {toks : List Tok} {cs : List Ast}
    (h : DPat env (.pattern e .symbol comp) a toks cs) : ∃ x, DSym env e toks x ∧ cs = [x] := by
  cases h with
  | sym _ _ _ _ c hd => exact ⟨c, hd, rfl⟩

theorem DPat.term_inv {env : Env} {e : Str} {comp : Comp} {a : Bool} {toks : List Tok} {cs : List Ast}
    (h : DPat env (.pattern e .terminal comp) a toks cs) : ∃ tok, toks = [tok] ∧ cs = [] ∧ compareToken env tok e comp = .ok true := by
  cases h with
  | term _ _ _ tok hc => exact ⟨tok, rfl, rfl, hc⟩

theorem DSeq.nil_inv {env : Env} {toks : List Tok} {cs : List Ast} (h : DSeq env [] toks cs) : toks = [] ∧ cs = [] := by
  cases h; exact ⟨rfl, rfl⟩

theorem DSeq.cons_inv {env : Env} {p : Pat} {ps : List Pat} {toks : List Tok} {cs : List Ast} (h : DSeq env (p :: ps) toks cs) :
    ∃ t1 c1 t2 c2, DPat env p true t1 c1 ∧ DSeq env ps t2 c2 ∧ toks = t1 ++ t2 ∧ cs = c1 ++ c2 := by
  cases h with
  | cons _ _ t1 c1 t2 c2 hp hs => exact ⟨t1, c1, t2, c2, hp, hs, rfl, rfl⟩

/-- a sequence group read as ONE repetition / without marker is the sequence of its entries -/
theorem DPat.and_inv {env : Env} {es : List Pat} {rep : Rep} {a : Bool} {toks : List Tok} {cs : List Ast}
    (h : DPat env (.group es .and rep) a toks cs) (hc : rep = .noRepeat ∨ a = false) : DSeq env es toks cs := by
  cases h with
  | and _ _ _ _ _ _ hs => exact hs
  | rep _ _ _ n _ cs' hcnt hit =>
    rcases hc with hc | hc
    · subst hc; exact absurd hcnt (by simp [repCount])
    · cases hc

/-- `( … )?` derives nothing (no tokens, no children) or one repetition of its body -/
theorem DPat.opt_inv {env : Env} {es : List Pat} {op : Op} {toks : List Tok} {cs : List Ast}
    (h : DPat env (.group es op .oneOrZero) true toks cs) :
    (toks = [] ∧ cs = []) ∨ DPat env (.group es op .oneOrZero) false toks cs := by
  cases h with
  | rep _ _ _ n _ cs' hcnt hit =>
    have hn : n ≤ 1 := hcnt
    cases hit with
    | zero => left; exact ⟨rfl, by simp [repChildren]⟩
    | succ _ _ _ m t1 c1 t2 c2 hb hrest =>
      have hm : m = 0 := by omega
      subst hm
      cases hrest with
      | zero =>
        right
        simpa [repChildren] using hb
  | or _ _ _ p _ _ hc _ _ => rcases hc with hc | hc <;> cases hc
  | and _ _ _ _ _ hc _ => rcases hc with hc | hc <;> cases hc

/-- the pattern of a rule `( G )? N`: an optional prefix group before the symbol `N` -/
def optPrefix (G : List Pat) (N : Str) : Pat :=
  .group [.group G .and .oneOrZero, .pattern N .symbol .noComp] .and .noRepeat

/-- A derivation of `( G )? N` is a derivation of `N` alone, or the sequence `G` followed by a derivation of `N`. -/
theorem optPrefix_inv {env : Env} {G : List Pat} {N : Str} {a : Bool} {toks : List Tok} {cs : List Ast}
    (h : DPat env (optPrefix G N) a toks cs) :
    (∃ x, DSym env N toks x ∧ cs = [x]) ∨
    (∃ t1 c1 t2 x, DSeq env G t1 c1 ∧ DSym env N t2 x ∧ toks = t1 ++ t2 ∧ cs = c1 ++ [x]) := by
  have hs := DPat.and_inv h (Or.inl rfl)
  obtain ⟨t1, c1, t2, c2, hp, hrest, ht, hc⟩ := DSeq.cons_inv hs
  obtain ⟨t3, c3, t4, c4, hn, hnil, ht2, hc2⟩ := DSeq.cons_inv hrest
  obtain ⟨h4, h4'⟩ := DSeq.nil_inv hnil
  obtain ⟨x, hx, hcx⟩ := DPat.sym_inv hn
  subst h4 h4' hcx
  simp only [List.append_nil] at ht2 hc2
  subst ht2 hc2
  rcases DPat.opt_inv hp with ⟨h1, h2⟩ | hb
  · left
    subst h1 h2
    exact ⟨x, by simpa using ht ▸ hx, by simpa using hc⟩
  · right
    exact ⟨t1, c1, _, x, DPat.and_inv hb (Or.inr rfl), hx, ht, hc⟩

/-- a symbol whose rule is a (non-terminal) pattern `p` derives what `p` derives, wrapped by `_unwrap_children` -/
theorem DSym.rule_inv {env : Env} {sym : Str} {p : Pat} {toks : List Tok} {c : Ast}
    (h : DSym env sym toks c) (hr : getRule env.rules sym = .ok p) (hnt : ∀ e comp, p ≠ .pattern e .terminal comp) :
    ∃ cs, DPat env p true toks cs ∧ c = unwrapChildren env.rules sym cs := by
  cases h with
  | terminal _ e comp tok hr' _ =>
    rw [hr] at hr'
    simp only [Except.ok.injEq] at hr'
    exact absurd hr' (hnt e comp)
  | rule _ p' _ cs hr' _ hd =>
    rw [hr] at hr'
    simp only [Except.ok.injEq] at hr'
    subst hr'
    exact ⟨cs, hd, rfl⟩

/-- a symbol whose rule is one bare terminal derives exactly one matching token, as the leaf `(sym, token)` -/
theorem DSym.terminal_inv {env : Env} {sym e : Str} {comp : Comp} {toks : List Tok} {c : Ast}
    (h : DSym env sym toks c) (hr : getRule env.rules sym = .ok (.pattern e .terminal comp)) :
    ∃ tok, toks = [tok] ∧ c = .token sym tok ∧ compareToken env tok e comp = .ok true := by
  cases h with
  | terminal _ e' comp' tok hr' hc =>
    rw [hr] at hr'
    simp only [Except.ok.injEq, Pat.pattern.injEq, true_and] at hr'
    obtain ⟨he, hcomp⟩ := hr'
    subst he hcomp
    exact ⟨tok, rfl, rfl, hc⟩
  | rule _ p' _ cs hr' hnt _ =>
    rw [hr] at hr'
    simp only [Except.ok.injEq] at hr'
    exact absurd hr'.symm (hnt e comp)

theorem compareToken_equals {env : Env} {tok : Tok} {e : Str} (h : compareToken env tok e .equals = .ok true) : tok.str = e := by
  simp only [compareToken, Except.ok.injEq, beq_iff_eq] at h
  exact h.symm

end Tranp.Engine
