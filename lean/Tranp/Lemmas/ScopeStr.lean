/-
  Helper lemmas for property C08, string layer: the codec `encKey` / `encName` between element lists and the joined
  strings, and the refinement of each function of Model/ScopeStr.lean to Model/Scope.lean for well-formed names
  (`Ident`: non-empty, no `.`, no `#`; module paths: non-empty, no `#`).
-/
import Tranp.Lemmas.Scope
import Tranp.Model.ScopeStr

namespace Tranp.ScopeStr
open Tranp Tranp.Scope Tranp.Str

set_option linter.unusedSectionVars false

instance instResSDec : DecidableEq (Except Err (Option HitS)) := inferInstance

/-! ### join / split (one-character delimiter) -/

theorem splitOn_not_mem (d : Char) (s : Str) (h : d ∉ s) : splitOn d s = [s] := by
  induction s with
  | nil => rfl
  | cons c cs ih =>
    simp at h
    have hc : ¬ c = d := fun e => h.1 e.symm
    simp [splitOn, hc, ih h.2]

theorem splitOn_append_cons (d : Char) (a b : Str) (h : d ∉ a) :
    splitOn d (a ++ d :: b) = a :: splitOn d b := by
  induction a with
  | nil => simp [splitOn]
  | cons c cs ih =>
    simp at h
    have hc : ¬ c = d := fun e => h.1 e.symm
    simp [splitOn, hc, ih h.2]

theorem join_cons_cons (d x y : Str) (xs : List Str) : Str.join d (x :: y :: xs) = x ++ d ++ Str.join d (y :: xs) := rfl

/-- `d.join(xs).split(d) == xs` for a one-character `d` that occurs in no piece (`xs` non-empty) -/
theorem splitOn_join (d : Char) (xs : List Str) (hne : xs ≠ []) (h : ∀ x ∈ xs, d ∉ x) :
    splitOn d (Str.join [d] xs) = xs := by
  induction xs with
  | nil => exact absurd rfl hne
  | cons x rest ih =>
    cases rest with
    | nil => simp [Str.join, splitOn_not_mem d x (h x (by simp))]
    | cons y ys =>
      rw [join_cons_cons, List.append_assoc]
      simp only [List.singleton_append]
      rw [splitOn_append_cons d x _ (h x (by simp)), ih (by simp) (fun z hz => h z (by simp [hz]))]

theorem join_ne_nil (d : Str) (xs : List Str) (hne : xs ≠ []) (h : ∀ x ∈ xs, x ≠ []) : Str.join d xs ≠ [] := by
  cases xs with
  | nil => exact absurd rfl hne
  | cons x rest =>
    have hx := h x (by simp)
    cases rest with
    | nil => simpa [Str.join] using hx
    | cons y ys => rw [join_cons_cons]; simp [hx]

theorem join_cons_of_ne_nil (d a : Str) (xs : List Str) (h : xs ≠ []) : Str.join d (a :: xs) = a ++ d ++ Str.join d xs := by
  cases xs with
  | nil => exact absurd rfl h
  | cons y ys => rfl

theorem join_append (d : Str) (xs ys : List Str) (hx : xs ≠ []) (hy : ys ≠ []) :
    Str.join d (xs ++ ys) = Str.join d xs ++ d ++ Str.join d ys := by
  induction xs with
  | nil => exact absurd rfl hx
  | cons x rest ih =>
    cases rest with
    | nil => simp [join_cons_of_ne_nil d x ys hy, Str.join]
    | cons z zs =>
      have h1 : (x :: z :: zs) ++ ys = x :: ((z :: zs) ++ ys) := rfl
      rw [h1, join_cons_of_ne_nil d x _ (by simp), ih (by simp), join_cons_of_ne_nil d x (z :: zs) (by simp)]
      simp [List.append_assoc]

theorem not_mem_join (c : Char) (d : Str) (xs : List Str) (hd : c ∉ d) (h : ∀ x ∈ xs, c ∉ x) : c ∉ Str.join d xs := by
  induction xs with
  | nil => simp [Str.join]
  | cons x rest ih =>
    cases rest with
    | nil => simpa [Str.join] using h x (by simp)
    | cons y ys =>
      rw [join_cons_cons]
      simp only [List.mem_append, not_or]
      exact ⟨⟨h x (by simp), hd⟩, ih (fun z hz => h z (by simp [hz]))⟩

theorem filter_nonempty_self (xs : List Str) (h : ∀ x ∈ xs, x ≠ []) : xs.filter (fun p => !p.isEmpty) = xs := by
  rw [List.filter_eq_self]
  intro a ha
  have := h a ha
  cases a with
  | nil => exact absurd rfl this
  | cons _ _ => rfl

/-! ### names -/

theorem Ident.ne_nil {n : Str} (h : Ident n) : n ≠ [] := h.1
theorem Ident.no_dot {n : Str} (h : Ident n) : '.' ∉ n := h.2.1
theorem Ident.no_hash {n : Str} (h : Ident n) : '#' ∉ n := h.2.2

def Idents (es : List Str) : Prop := ∀ n ∈ es, Ident n

theorem Idents.append {a b : List Str} (ha : Idents a) (hb : Idents b) : Idents (a ++ b) := by
  intro n hn
  rcases List.mem_append.1 hn with h | h
  · exact ha n h
  · exact hb n h

theorem Idents.take {a : List Str} (ha : Idents a) (i : Nat) : Idents (a.take i) :=
  fun n hn => ha n (List.mem_of_mem_take hn)

theorem Idents.dropLast {a : List Str} (ha : Idents a) : Idents a.dropLast :=
  fun n hn => ha n ((List.dropLast_sublist a).subset hn)

theorem Idents.tail {x : Str} {a : List Str} (ha : Idents (x :: a)) : Idents a :=
  fun n hn => ha n (by simp [hn])

theorem encName_nil : encName [] = [] := rfl
theorem encName_singleton (n : Str) : encName [n] = n := rfl

theorem encName_ne_nil {es : List Str} (h : Idents es) (hne : es ≠ []) : encName es ≠ [] :=
  join_ne_nil dot es hne (fun x hx => (h x hx).ne_nil)

theorem encName_eq_nil_iff {es : List Str} (h : Idents es) : encName es = [] ↔ es = [] := by
  constructor
  · intro he
    cases es with
    | nil => rfl
    | cons x xs => exact absurd he (encName_ne_nil h (by simp))
  · intro he; subst he; rfl

theorem encName_no_hash {es : List Str} (h : Idents es) : '#' ∉ encName es :=
  not_mem_join '#' dot es (by simp [dot]) (fun x hx => (h x hx).no_hash)

theorem encName_append {a b : List Str} (ha : a ≠ []) (hb : b ≠ []) : encName (a ++ b) = encName a ++ '.' :: encName b := by
  unfold encName
  rw [join_append dot a b ha hb]
  simp [dot]

/-- `DSN.elements` inverts `encName` -/
theorem dsnElements_encName {es : List Str} (h : Idents es) : dsnElements (encName es) = es := by
  unfold dsnElements
  cases es with
  | nil => simp [encName, Str.join, splitOn]
  | cons x xs =>
    unfold encName dot
    rw [splitOn_join '.' (x :: xs) (by simp) (fun y hy => (h y hy).no_dot)]
    exact filter_nonempty_self _ (fun y hy => (h y hy).ne_nil)

/-! ### DSN.join on encoded parts -/

/-- `DSN.join(*parts)` of parts that are themselves dotted names = the dotted name of the concatenation -/
theorem dsnJoin_map_encName (ps : List (List Str)) (h : ∀ p ∈ ps, Idents p) :
    dsnJoin (ps.map encName) = encName ps.flatten := by
  induction ps with
  | nil => rfl
  | cons p rest ih =>
    have ihr := ih (fun q hq => h q (by simp [hq]))
    have hp := h p (by simp)
    have hflat : Idents rest.flatten := by
      intro n hn
      obtain ⟨q, hq, hnq⟩ := List.mem_flatten.1 hn
      exact h q (by simp [hq]) n hnq
    unfold dsnJoin dsnJoinWith at ihr ⊢
    simp only [List.map_cons, List.filter_cons, List.flatten_cons]
    cases p with
    | nil => simpa [encName, Str.join] using ihr
    | cons x xs =>
      have hne : encName (x :: xs) ≠ [] := encName_ne_nil hp (by simp)
      have hemp : (encName (x :: xs)).isEmpty = false := by
        cases hh : encName (x :: xs) with
        | nil => exact absurd hh hne
        | cons _ _ => rfl
      simp only [hemp, Bool.not_false, if_true]
      by_cases hr : rest.flatten = []
      · rw [hr, List.append_nil]
        rw [hr] at ihr
        have : (rest.map encName).filter (fun p => !p.isEmpty) = [] := by
          cases hf : (rest.map encName).filter (fun p => !p.isEmpty) with
          | nil => rfl
          | cons y ys =>
            rw [hf] at ihr
            have hy : y ≠ [] := by
              have hmem : y ∈ (rest.map encName).filter (fun p => !p.isEmpty) := by rw [hf]; simp
              have := (List.mem_filter.1 hmem).2
              intro e; subst e; simp at this
            exfalso
            cases ys with
            | nil => simp [Str.join, encName] at ihr; exact hy ihr
            | cons z zs => rw [join_cons_cons] at ihr; simp [encName, Str.join] at ihr; first | exact hy ihr | exact hy ihr.1 | exact hy ihr.1.1
        rw [this]; rfl
      · have hfne : (rest.map encName).filter (fun p => !p.isEmpty) ≠ [] := by
          intro e
          rw [e] at ihr
          have : encName rest.flatten = [] := by simpa [Str.join] using ihr.symm
          exact hr ((encName_eq_nil_iff hflat).1 this)
        rw [join_cons_of_ne_nil dot _ _ hfne, ihr, encName_append (by simp) hr]
        simp [dot]

/-- `DSN.join(x, *parts, delimiter=d)` for a non-empty head -/
theorem dsnJoinWith_cons (d x : Str) (parts : List Str) (hx : x ≠ []) :
    dsnJoinWith d (x :: parts) =
      if dsnJoinWith d parts = [] then x else x ++ d ++ dsnJoinWith d parts := by
  unfold dsnJoinWith
  have hemp : x.isEmpty = false := by cases x with
    | nil => exact absurd rfl hx
    | cons _ _ => rfl
  simp only [List.filter_cons, hemp, Bool.not_false, if_true]
  cases hf : parts.filter (fun p => !p.isEmpty) with
  | nil => simp [Str.join]
  | cons y ys =>
    have hy : y ≠ [] := by
      have hmem : y ∈ parts.filter (fun p => !p.isEmpty) := by rw [hf]; simp
      have := (List.mem_filter.1 hmem).2
      intro e; subst e; simp at this
    have hj : Str.join d (y :: ys) ≠ [] := by
      cases ys with
      | nil => simpa [Str.join] using hy
      | cons z zs => rw [join_cons_cons]; simp [hy]
    rw [join_cons_of_ne_nil d x _ (by simp)]
    simp [hj]

/-! ### keys -/

theorem KeyOk.join {k : Key Str Str} (hk : KeyOk k) {es : List Str} (he : Idents es) : KeyOk (k.join es) :=
  ⟨hk.1, Idents.append hk.2 he⟩

theorem encKey_nil_path (m : Str) : encKey ⟨m, []⟩ = m := rfl

theorem encKey_ne_nil {k : Key Str Str} (hk : KeyOk k) : encKey k ≠ [] := by
  unfold encKey
  split
  · exact hk.1.1
  · have := hk.1.1
    cases hm : k.mod with
    | nil => exact absurd hm this
    | cons _ _ => simp

theorem hasHash_encKey {k : Key Str Str} (hk : KeyOk k) : hasHash (encKey k) = !k.path.isEmpty := by
  unfold hasHash encKey
  cases hp : k.path with
  | nil =>
    simp only [List.isEmpty_nil, if_true, Bool.not_true]
    rw [List.contains_eq_mem]; simp [hk.1.2]
  | cons x xs => simp

/-- appending elements to a key appends `#`/`.` and the dotted name -/
theorem encKey_join {k : Key Str Str} (es : List Str) (hne : es ≠ []) :
    encKey (k.join es) = encKey k ++ (if k.path.isEmpty then '#' else '.') :: encName es := by
  unfold encKey Key.join
  cases hp : k.path with
  | nil =>
    have : ([] ++ es).isEmpty = false := by cases es with
      | nil => exact absurd rfl hne
      | cons _ _ => rfl
    simp [encName, hne]
  | cons x xs =>
    simp only [List.cons_append, List.isEmpty_cons, Bool.false_eq_true, if_false]
    have h1 : x :: (xs ++ es) = (x :: xs) ++ es := rfl
    rw [h1, join_append dot (x :: xs) es (by simp) hne]
    simp [encName, dot]

/-- `ModuleDSN.full_joined(key, *parts)` where every part is a dotted name: the key extended by all their elements -/
theorem fullJoined_encKey {k : Key Str Str} (hk : KeyOk k) (ps : List (List Str)) (h : ∀ p ∈ ps, Idents p) :
    fullJoined (encKey k) (ps.map encName) = encKey (k.join ps.flatten) := by
  have hflat : Idents ps.flatten := by
    intro n hn
    obtain ⟨q, hq, hnq⟩ := List.mem_flatten.1 hn
    exact h q hq n hnq
  unfold fullJoined
  rw [hasHash_encKey hk]
  have hA := dsnJoin_map_encName ps h
  by_cases hF : ps.flatten = []
  · have hk' : k.join ps.flatten = k := by cases k; simp [Key.join, hF]
    rw [hk']
    have hz : dsnJoin (ps.map encName) = [] := by rw [hA, hF]; rfl
    cases hp : k.path.isEmpty with
    | true =>
      simp only [Bool.not_true, Bool.false_eq_true, if_false]
      unfold localJoined
      rw [dsnJoinWith_cons hash _ _ (encKey_ne_nil hk)]
      have : dsnJoinWith hash [dsnJoin (ps.map encName)] = [] := by rw [hz]; rfl
      simp [this]
    | false =>
      simp only [Bool.not_false, if_true]
      unfold dsnJoin
      rw [dsnJoinWith_cons dot _ _ (encKey_ne_nil hk)]
      unfold dsnJoin at hz
      simp [hz]
  · have hne : encName ps.flatten ≠ [] := encName_ne_nil hflat hF
    rw [encKey_join _ hF]
    cases hp : k.path.isEmpty with
    | true =>
      simp only [Bool.not_true, Bool.false_eq_true, if_false, if_true]
      unfold localJoined
      rw [dsnJoinWith_cons hash _ _ (encKey_ne_nil hk), hA]
      have : dsnJoinWith hash [encName ps.flatten] = encName ps.flatten := by
        unfold dsnJoinWith
        rw [filter_nonempty_self _ (by intro x hx; simp at hx; subst hx; exact hne)]
        rfl
      rw [this]
      simp [hne, hash]
    | false =>
      simp only [Bool.not_false, if_true, Bool.false_eq_true, if_false]
      unfold dsnJoin
      rw [dsnJoinWith_cons dot _ _ (encKey_ne_nil hk)]
      unfold dsnJoin at hA
      rw [hA]
      simp [hne, dot]

theorem map_singleton_encName (es : List Str) : (es.map (fun e => [e])).map encName = es := by
  induction es with
  | nil => rfl
  | cons x xs ih => simp only [List.map_cons, ih, encName_singleton]

theorem flatten_map_singleton (es : List Str) : (es.map (fun e => [e])).flatten = es := by
  induction es with
  | nil => rfl
  | cons x xs ih => simp only [List.map_cons, List.flatten_cons, ih]; rfl

/-- `ModuleDSN.full_joined(key, *names)` for plain names -/
theorem fullJoined_encKey_names {k : Key Str Str} (hk : KeyOk k) (es : List Str) (h : Idents es) :
    fullJoined (encKey k) es = encKey (k.join es) := by
  have := fullJoined_encKey hk (es.map (fun e => [e])) (by
    intro p hp
    obtain ⟨e, he, hpe⟩ := List.mem_map.1 hp
    subst hpe
    intro n hn
    simp at hn; rw [hn]; exact h e he)
  rw [flatten_map_singleton, map_singleton_encName] at this
  exact this

/-- `ModuleDSN.full_joined(key, dotted_name)` -/
theorem fullJoined_encKey_name {k : Key Str Str} (hk : KeyOk k) (es : List Str) (h : Idents es) :
    fullJoined (encKey k) [encName es] = encKey (k.join es) := by
  have := fullJoined_encKey hk [es] (by intro p hp; simp at hp; subst hp; exact h)
  simpa using this

/-- `ModuleDSN.parsed` -/
theorem parsed_encKey {k : Key Str Str} (hk : KeyOk k) : parsed (encKey k) = (k.mod, encName k.path) := by
  unfold parsed encKey
  cases hp : k.path with
  | nil =>
    simp only [List.isEmpty_nil, if_true]
    rw [splitOn_not_mem '#' k.mod hk.1.2]
    rfl
  | cons x xs =>
    simp only [List.isEmpty_cons, Bool.false_eq_true, if_false]
    rw [splitOn_append_cons '#' k.mod _ hk.1.2]
    have : '#' ∉ Str.join dot (x :: xs) := encName_no_hash (es := x :: xs) (by rw [← hp]; exact hk.2)
    rw [splitOn_not_mem '#' _ this]
    rfl

theorem expanded_encKey {k : Key Str Str} (hk : KeyOk k) : expanded (encKey k) = (k.mod, k.path) := by
  unfold expanded
  rw [parsed_encKey hk]
  simp [dsnElements_encName hk.2]

theorem modulePath_encKey {k : Key Str Str} (hk : KeyOk k) : modulePath (encKey k) = k.mod := by
  unfold modulePath; rw [parsed_encKey hk]

theorem hasHash_encName {es : List Str} (h : Idents es) : hasHash (encName es) = false := by
  unfold hasHash
  rw [List.contains_eq_mem]
  simp [encName_no_hash h]

theorem expandElements_encName {es : List Str} (h : Idents es) : expandElements (encName es) = es := by
  unfold expandElements
  rw [hasHash_encName h]
  simp [dsnElements_encName h]

theorem elementsOf_encKey {k : Key Str Str} (hk : KeyOk k) : elementsOf (encKey k) = k.path := by
  unfold elementsOf localPath
  rw [parsed_encKey hk]
  exact expandElements_encName hk.2

/-- the codec is injective on well-formed keys -/
theorem encKey_inj (a b : Key Str Str) (ha : KeyOk a) (hb : KeyOk b) (h : encKey a = encKey b) : a = b := by
  have h1 := expanded_encKey ha
  have h2 := expanded_encKey hb
  rw [h] at h1
  rw [h1] at h2
  cases a; cases b
  simp only [Prod.mk.injEq] at h2
  simp [h2.1, h2.2]

/-! ### tables -/

def SymOk (s : Sym Str Str) : Prop :=
  ModOk s.typesMod ∧ (∀ d, s.importName = some d → Ident d) ∧ ∀ inh ∈ s.inherits, Idents inh

def TblOk (db : Tbl Str Str) : Prop := ∀ kv ∈ db, KeyOk kv.1 ∧ SymOk kv.2

instance (k : Key Str Str) : Decidable (KeyOk k) := by unfold KeyOk; infer_instance
instance (es : List Str) : Decidable (Idents es) := by unfold Idents; infer_instance
instance (db : Tbl Str Str) : Decidable (TblOk db) := by
  unfold TblOk SymOk; infer_instance

theorem lookup_mem {K V : Type} [DecidableEq K] (db : List (K × V)) (k : K) (v : V) (h : lookup db k = some v) :
    (k, v) ∈ db := by
  induction db with
  | nil => simp [lookup] at h
  | cons kv rest ih =>
    simp only [lookup] at h
    split at h
    · rename_i hk
      simp only [Option.some.injEq] at h
      cases kv; simp_all
    · exact List.mem_cons_of_mem _ (ih h)

theorem get?_symOk {db : Tbl Str Str} (hdb : TblOk db) {k : Key Str Str} {s : Sym Str Str} (h : db.get? k = some s) : SymOk s :=
  (hdb _ (lookup_mem db k s h)).2

theorem get?_enc {db : Tbl Str Str} (hdb : TblOk db) {k : Key Str Str} (hk : KeyOk k) :
    (encTbl db).get? (encKey k) = (db.get? k).map encSym := by
  unfold TblS.get? Tbl.get? encTbl
  exact lookup_map_on encKey encSym KeyOk encKey_inj db k (fun kv h => (hdb kv h).1) hk

theorem has_enc {db : Tbl Str Str} (hdb : TblOk db) {k : Key Str Str} (hk : KeyOk k) :
    (encTbl db).has (encKey k) = db.has k := by
  unfold TblS.has Tbl.has
  rw [get?_enc hdb hk]
  cases db.get? k <;> rfl

/-! ### scopes -/

theorem key_eta_join (m : Str) (es : List Str) : ((⟨m, []⟩ : Key Str Str).join es) = ⟨m, es⟩ := by
  simp [Key.join]

theorem prefixes_enc {k : Key Str Str} (hk : KeyOk k) : prefixes (encKey k) = (Scope.prefixes k).map encKey := by
  unfold prefixes Scope.prefixes
  rw [expanded_encKey hk]
  simp only [List.map_reverse, List.map_map]
  congr 1
  apply List.map_congr_left
  intro i _
  simp only [Function.comp]
  have hk0 : KeyOk (⟨k.mod, []⟩ : Key Str Str) := ⟨hk.1, by intro n hn; simp at hn⟩
  have := fullJoined_encKey_names hk0 (k.path.take i) (Idents.take hk.2 i)
  rw [key_eta_join] at this
  exact this

theorem encKey_take_length {k : Key Str Str} (i : Nat) (hi : i < k.path.length) :
    (encKey (⟨k.mod, k.path.take i⟩ : Key Str Str)).length < (encKey k).length := by
  have hd : k.path.drop i ≠ [] := by
    intro e
    have := congrArg List.length e
    simp at this; omega
  have hk' : k = (⟨k.mod, k.path.take i⟩ : Key Str Str).join (k.path.drop i) := by
    cases k; simp [Key.join]
  have := encKey_join (k := (⟨k.mod, k.path.take i⟩ : Key Str Str)) (k.path.drop i) hd
  rw [← hk'] at this
  rw [this]
  simp

theorem allowScope_enc {db : Tbl Str Str} (hdb : TblOk db) (node : NodeInfo Str Str) (hn : KeyOk node.scope) (i : Nat) :
    allowScope (encTbl db) (encNode node) (encKey ⟨node.scope.mod, node.scope.path.take i⟩) =
      Scope.allowScope db node ⟨node.scope.mod, node.scope.path.take i⟩ := by
  have hs : KeyOk (⟨node.scope.mod, node.scope.path.take i⟩ : Key Str Str) := ⟨hn.1, Idents.take hn.2 i⟩
  unfold allowScope Scope.allowScope
  rw [get?_enc hdb hs]
  simp only [encNode]
  by_cases hi : i < node.scope.path.length
  · have h1 := encKey_take_length (k := node.scope) i hi
    have h2 : ¬ (encKey node.scope).length ≤ (encKey (⟨node.scope.mod, node.scope.path.take i⟩ : Key Str Str)).length := by omega
    have h3 : ¬ node.scope.path.length ≤ (node.scope.path.take i).length := by simp; omega
    simp only [h2, h3, if_false]
    cases db.get? ⟨node.scope.mod, node.scope.path.take i⟩ <;> simp [encSym]
  · have ht : node.scope.path.take i = node.scope.path := List.take_of_length_le (by omega)
    have hk : (⟨node.scope.mod, node.scope.path.take i⟩ : Key Str Str) = node.scope := by
      cases hns : node.scope; simp [hns] at ht ⊢; exact ht
    have h2 : (encKey node.scope).length ≤ (encKey (⟨node.scope.mod, node.scope.path.take i⟩ : Key Str Str)).length := by
      rw [hk]; exact Nat.le_refl _
    have h3 : node.scope.path.length ≤ (node.scope.path.take i).length := by rw [ht]; exact Nat.le_refl _
    simp only [h2, h3, if_true]

theorem makeScopes_enc {db : Tbl Str Str} (hdb : TblOk db) (node : NodeInfo Str Str) (hn : KeyOk node.scope) :
    makeScopes (encTbl db) (encNode node) = (Scope.makeScopes db node).map encKey := by
  unfold makeScopes Scope.makeScopes
  have : (encNode node).scope = encKey node.scope := rfl
  rw [this, prefixes_enc hn, List.filter_map]
  congr 1
  apply List.filter_congr
  intro s hs
  unfold Scope.prefixes at hs
  simp only [List.mem_reverse, List.mem_map, List.mem_range] at hs
  obtain ⟨i, _, rfl⟩ := hs
  simp only [Function.comp]
  exact allowScope_enc hdb node hn i

theorem makeScopes_keyOk {db : Tbl Str Str} (node : NodeInfo Str Str) (hn : KeyOk node.scope) :
    ∀ s ∈ Scope.makeScopes db node, KeyOk s := by
  intro s hs
  unfold Scope.makeScopes at hs
  have := (List.mem_filter.1 hs).1
  unfold Scope.prefixes at this
  simp only [List.mem_reverse, List.mem_map, List.mem_range] at this
  obtain ⟨i, _, rfl⟩ := this
  exact ⟨hn.1, Idents.take hn.2 i⟩

/-! ### lookups -/

theorem find?_congr' {α : Type} (l : List α) (p q : α → Bool) (h : ∀ x ∈ l, p x = q x) : l.find? p = l.find? q := by
  induction l with
  | nil => rfl
  | cons x xs ih =>
    simp only [List.find?_cons, h x (by simp)]
    rw [ih (fun y hy => h y (by simp [hy]))]

theorem cand_enc {scope : Key Str Str} (hs : KeyOk scope) (inh : List Str) (hi : Idents inh) (e : Str) (he : Ident e) :
    fullJoined (modulePath (encKey scope)) ((elementsOf (encKey scope)).dropLast ++ [encName inh, e]) =
      encKey ⟨scope.mod, scope.path.dropLast ++ inh ++ [e]⟩ := by
  rw [modulePath_encKey hs, elementsOf_encKey hs]
  have hk0 : KeyOk (⟨scope.mod, []⟩ : Key Str Str) := ⟨hs.1, by intro n hn; simp at hn⟩
  have := fullJoined_encKey hk0 (scope.path.dropLast.map (fun x => [x]) ++ [inh, [e]]) (by
    intro p hp
    rcases List.mem_append.1 hp with h | h
    · obtain ⟨x, hx, hpx⟩ := List.mem_map.1 h
      subst hpx
      intro n hn
      simp at hn; rw [hn]; exact Idents.dropLast hs.2 x hx
    · simp at h
      rcases h with h | h
      · subst h; exact hi
      · subst h; intro n hn; simp at hn; rw [hn]; exact he)
  rw [List.map_append, map_singleton_encName, List.flatten_append, flatten_map_singleton, key_eta_join] at this
  simp only [List.map_cons, List.map_nil, encName_singleton, List.flatten_cons, List.flatten_nil, List.append_nil,
    encKey_nil_path] at this
  rw [← List.append_assoc] at this
  exact this

theorem findRawRecursive_enc {db : Tbl Str Str} (hdb : TblOk db) (elems : List Str) (he : Idents elems)
    (scope : Key Str Str) (hs : KeyOk scope) :
    findRawRecursive (encTbl db) elems (encKey scope) = (Scope.findRawRecursive db elems scope).map encHit := by
  induction elems generalizing scope with
  | nil =>
    simp only [findRawRecursive, Scope.findRawRecursive, get?_enc hdb hs]
    cases db.get? scope <;> simp [encHit]
  | cons e rest ih =>
    have hE : Ident e := he e (by simp)
    have hrest : Idents rest := Idents.tail he
    have hE1 : Idents [e] := by intro n hn; simp at hn; rw [hn]; exact hE
    simp only [findRawRecursive, Scope.findRawRecursive, get?_enc hdb hs]
    cases hg : db.get? scope with
    | none => simp
    | some raw =>
      have hraw := get?_symOk hdb hg
      simp only [Option.map_some]
      rw [fullJoined_encKey_names hs [e] hE1, has_enc hdb (KeyOk.join hs hE1)]
      by_cases h1 : db.has (scope.join [e])
      · simp only [h1, if_true]
        exact ih hrest _ (KeyOk.join hs hE1)
      · simp only [h1]
        have hc : (encSym raw).isClass = raw.isClass := rfl
        rw [hc]
        by_cases h2 : raw.isClass
        · simp only [h2, Bool.not_true]
          have hinh : (encSym raw).inherits = raw.inherits.map encName := rfl
          rw [hinh, List.find?_map]
          have hpred : ∀ inh ∈ raw.inherits,
              ((fun inh => (encTbl db).has (fullJoined (modulePath (encKey scope)) ((elementsOf (encKey scope)).dropLast ++ [inh, e]))) ∘ encName) inh
                = (fun inh => db.has ⟨scope.mod, scope.path.dropLast ++ inh ++ [e]⟩) inh := by
            intro inh hin
            simp only [Function.comp]
            rw [cand_enc hs inh (hraw.2.2 inh hin) e hE]
            exact has_enc hdb ⟨hs.1, Idents.append (Idents.append (Idents.dropLast hs.2) (hraw.2.2 inh hin)) hE1⟩
          rw [find?_congr' _ _ _ hpred]
          cases hf : raw.inherits.find? (fun inh => db.has ⟨scope.mod, scope.path.dropLast ++ inh ++ [e]⟩) with
          | none => simp
          | some inh =>
            have hin : inh ∈ raw.inherits := List.mem_of_find?_eq_some hf
            simp only [Option.map_some]
            rw [cand_enc hs inh (hraw.2.2 inh hin) e hE]
            exact ih hrest _ ⟨hs.1, Idents.append (Idents.append (Idents.dropLast hs.2) (hraw.2.2 inh hin)) hE1⟩
        · simp [h2]

def encRes : Except Err (Option (Hit Str Str)) → Except Err (Option HitS)
  | .error e => .error e
  | .ok o => .ok (o.map encHit)

theorem fullJoined_mod {m : Str} (hm : ModOk m) (es : List Str) (he : Idents es) :
    fullJoined m es = encKey ⟨m, es⟩ := by
  have hk0 : KeyOk (⟨m, []⟩ : Key Str Str) := ⟨hm, by intro n hn; simp at hn⟩
  have := fullJoined_encKey_names hk0 es he
  rw [key_eta_join, encKey_nil_path] at this
  exact this

theorem findImportedRaw_enc {db : Tbl Str Str} (hdb : TblOk db) (onMod : Str) (hm : ModOk onMod) (name : List Str) (hn : Idents name) :
    findImportedRaw (encTbl db) onMod (encName name) = encRes (Scope.findImportedRaw db onMod name) := by
  unfold findImportedRaw
  rw [expandElements_encName hn]
  cases name with
  | nil => rfl
  | cons e0 rest =>
    have hE : Ident e0 := hn e0 (by simp)
    have hE1 : Idents [e0] := by intro n h; simp at h; rw [h]; exact hE
    simp only [Scope.findImportedRaw]
    rw [fullJoined_mod hm [e0] hE1, get?_enc hdb (show KeyOk (⟨onMod, [e0]⟩ : Key Str Str) from ⟨hm, hE1⟩)]
    cases hg : db.get? ⟨onMod, [e0]⟩ with
    | none => rfl
    | some imp =>
      have himp := get?_symOk hdb hg
      simp only [Option.map_some]
      have h1 : (encSym imp).importName = imp.importName := rfl
      have h2 : (encSym imp).typesMod = imp.typesMod := rfl
      rw [h1, h2]
      cases hd : imp.importName with
      | none => rfl
      | some d =>
        have hD : Ident d := himp.2.1 d hd
        have hD1 : Idents [d] := by intro n h; simp at h; rw [h]; exact hD
        simp only []
        rw [fullJoined_mod himp.1 [d] hD1, findRawRecursive_enc hdb rest (Idents.tail hn) _ (show KeyOk (⟨imp.typesMod, [d]⟩ : Key Str Str) from ⟨himp.1, hD1⟩)]
        rfl

theorem findLibraryRaw_enc {db : Tbl Str Str} (hdb : TblOk db) (libs : List Str) (hl : ∀ m ∈ libs, ModOk m)
    (name : List Str) (hn : Idents name) :
    findLibraryRaw (encTbl db) libs (encName name) = encRes (Scope.findLibraryRaw db libs name) := by
  unfold findLibraryRaw
  rw [expandElements_encName hn]
  cases name with
  | nil => simp only [Scope.findLibraryRaw]; split <;> rfl
  | cons e0 rest =>
    have hE : Ident e0 := hn e0 (by simp)
    have hE1 : Idents [e0] := by intro n h; simp at h; rw [h]; exact hE
    simp only [Scope.findLibraryRaw, encRes]
    congr 1
    induction libs with
    | nil => rfl
    | cons m ms ih =>
      simp only [List.findSome?_cons]
      rw [fullJoined_mod (hl m (by simp)) [e0] hE1,
        findRawRecursive_enc hdb rest (Idents.tail hn) _ (show KeyOk (⟨m, [e0]⟩ : Key Str Str) from ⟨hl m (by simp), hE1⟩)]
      cases Scope.findRawRecursive db rest ⟨m, [e0]⟩ with
      | none => simpa using ih (fun x hx => hl x (by simp [hx]))
      | some h => simp

theorem scopeHits_enc {db : Tbl Str Str} (hdb : TblOk db) (scopes : List (Key Str Str)) (hs : ∀ s ∈ scopes, KeyOk s)
    (name : List Str) (hn : Idents name) :
    scopeHits (encTbl db) (scopes.map encKey) (encName name) = (Scope.scopeHits db scopes name).map encHit := by
  unfold scopeHits Scope.scopeHits
  induction scopes with
  | nil => rfl
  | cons s rest ih =>
    have hsk := hs s (by simp)
    simp only [List.map_cons, List.filterMap_cons]
    rw [fullJoined_encKey_name hsk name hn, get?_enc hdb (KeyOk.join hsk hn)]
    have ihr := ih (fun x hx => hs x (by simp [hx]))
    cases db.get? (s.join name) with
    | none => simpa using ihr
    | some raw => simp [encHit, ihr]

theorem findFirst_enc {db : Tbl Str Str} (hdb : TblOk db) (libs : List Str) (hl : ∀ m ∈ libs, ModOk m)
    (p : Hit Str Str → Bool) (p' : HitS → Bool) (hp : ∀ h, p' (encHit h) = p h)
    (scopes : List (Key Str Str)) (hs : ∀ s ∈ scopes, KeyOk s) (name : List Str) (hn : Idents name) :
    findFirst (encTbl db) libs p' (scopes.map encKey) (encName name) = encRes (Scope.findFirst db libs p scopes name) := by
  unfold findFirst Scope.findFirst
  rw [scopeHits_enc hdb scopes hs name hn, List.find?_map]
  have hcomp : (p' ∘ encHit) = p := by funext h; exact hp h
  rw [hcomp]
  cases (Scope.scopeHits db scopes name).find? p with
  | some x => rfl
  | none =>
    simp only [Option.map_none]
    cases scopes with
    | nil => rfl
    | cons s0 rest =>
      have hs0 := hs s0 (by simp)
      simp only [List.map_cons]
      rw [modulePath_encKey hs0, findImportedRaw_enc hdb s0.mod hs0.1 name hn]
      cases Scope.findImportedRaw db s0.mod name with
      | error e => rfl
      | ok imp =>
        simp only [encRes]
        rw [option_filter_map encHit p p' hp]
        cases imp.filter p with
        | some x => rfl
        | none =>
          simp only [Option.map_none]
          rw [findLibraryRaw_enc hdb libs hl name hn]
          cases Scope.findLibraryRaw db libs name with
          | error e => rfl
          | ok lib =>
            simp only [encRes]
            rw [option_filter_map encHit p p' hp]

theorem localJoined_two {a b : List Str} (ha : Idents a) (hb : Idents b) :
    localJoined [encName a, encName b] = encName (a ++ b) := by
  have := dsnJoin_map_encName [a, b] (by intro p hp; simp at hp; rcases hp with h | h <;> subst h <;> assumption)
  simpa [localJoined] using this

theorem findBySymbolic_enc {db : Tbl Str Str} (hdb : TblOk db) (libs : List Str) (hl : ∀ m ∈ libs, ModOk m)
    (node : NodeInfo Str Str) (hnode : KeyOk node.scope) (dn pn : List Str) (hd : Idents dn) (hpn : Idents pn) :
    findBySymbolic (encTbl db) libs (encNode node) (encName dn) (encName pn) =
      encRes (Scope.findBySymbolic db libs node (dn ++ pn)) := by
  unfold findBySymbolic Scope.findBySymbolic findRaw findRawForType Scope.findRaw Scope.findRawForType
  rw [localJoined_two hd hpn, makeScopes_enc hdb node hnode]
  have : (encNode node).isType = node.isType := rfl
  rw [this]
  split
  · exact findFirst_enc hdb libs hl _ _ (fun _ => rfl) _ (makeScopes_keyOk node hnode) _ (Idents.append hd hpn)
  · exact findFirst_enc hdb libs hl _ _ (fun _ => rfl) _ (makeScopes_keyOk node hnode) _ (Idents.append hd hpn)

theorem findStandard_enc {db : Tbl Str Str} (hdb : TblOk db) (libs : List Str) (hl : ∀ m ∈ libs, ModOk m) (word : Str) (hw : Ident word) :
    findStandard (encTbl db) libs word = encRes (Scope.findStandard db libs word) := by
  unfold findStandard Scope.findStandard findRaw Scope.findRaw
  have h1 : libs = (libs.map (fun m => (⟨m, []⟩ : Key Str Str))).map encKey := by
    induction libs with
    | nil => rfl
    | cons m ms ih =>
      simp only [List.map_cons, encKey_nil_path]
      rw [← ih (fun x hx => hl x (by simp [hx]))]
  have h2 : word = encName [word] := rfl
  have hW : Idents [word] := by intro n h; simp at h; rw [h]; exact hw
  have key := findFirst_enc hdb libs hl (fun _ => true) (fun _ => true) (fun _ => rfl)
    (libs.map (fun m => (⟨m, []⟩ : Key Str Str))) (by
      intro s hs
      obtain ⟨m, hm, rfl⟩ := List.mem_map.1 hs
      exact (show KeyOk (⟨m, []⟩ : Key Str Str) from ⟨hl m hm, by intro n hn; simp at hn⟩)) [word] hW
  rw [← h1, ← h2] at key
  exact key

/-! ### Node.scope / namespace / fullyname -/

def AncOk (a : Anc Str) : Prop := Idents a.domainName ∧ Ident a.classification

theorem isEmpty_encName {es : List Str} (h : Idents es) : (encName es).isEmpty = es.isEmpty := by
  cases es with
  | nil => rfl
  | cons x xs =>
    have := encName_ne_nil h (by simp : x :: xs ≠ [])
    cases hh : encName (x :: xs) with
    | nil => exact absurd hh this
    | cons _ _ => rfl

theorem scopeName_enc {a : Anc Str} (ha : AncOk a) : (encAnc a).scopeName = encName a.scopeName := by
  unfold AncS.scopeName Anc.scopeName encAnc
  simp only [isEmpty_encName ha.1]
  split <;> rfl

theorem scopeName_idents {a : Anc Str} (ha : AncOk a) : Idents a.scopeName := by
  unfold Anc.scopeName
  split
  · intro n hn; simp at hn; rw [hn]; exact ha.2
  · exact ha.1

theorem scopeOf_keyOk {mod : Str} (hm : ModOk mod) (chain : List (Anc Str)) (hc : ∀ a ∈ chain, AncOk a) :
    KeyOk (Scope.scopeOf mod chain) := by
  induction chain with
  | nil => exact ⟨hm, by intro n hn; simp [Scope.scopeOf] at hn⟩
  | cons p up ih =>
    have ihu := ih (fun a ha => hc a (by simp [ha]))
    simp only [Scope.scopeOf]
    split
    · exact KeyOk.join ihu (scopeName_idents (hc p (by simp)))
    · exact ihu

theorem scopeOf_enc {mod : Str} (hm : ModOk mod) (chain : List (Anc Str)) (hc : ∀ a ∈ chain, AncOk a) :
    scopeOf mod (chain.map encAnc) = encKey (Scope.scopeOf mod chain) := by
  induction chain with
  | nil => rfl
  | cons p up ih =>
    have hup : ∀ a ∈ up, AncOk a := fun a ha => hc a (by simp [ha])
    have hp := hc p (by simp)
    simp only [List.map_cons, scopeOf, Scope.scopeOf]
    have h1 : (encAnc p).isScope = p.isScope := rfl
    rw [h1, ih hup, scopeName_enc hp]
    split
    · exact fullJoined_encKey_name (scopeOf_keyOk hm up hup) _ (scopeName_idents hp)
    · rfl

theorem namespaceOf_keyOk {mod : Str} (hm : ModOk mod) (chain : List (Anc Str)) (hc : ∀ a ∈ chain, AncOk a) :
    KeyOk (Scope.namespaceOf mod chain) := by
  induction chain with
  | nil => exact ⟨hm, by intro n hn; simp [Scope.namespaceOf] at hn⟩
  | cons p up ih =>
    have ihu := ih (fun a ha => hc a (by simp [ha]))
    simp only [Scope.namespaceOf]
    split
    · exact KeyOk.join ihu (hc p (by simp)).1
    · exact ihu

theorem namespaceOf_enc {mod : Str} (hm : ModOk mod) (chain : List (Anc Str)) (hc : ∀ a ∈ chain, AncOk a) :
    namespaceOf mod (chain.map encAnc) = encKey (Scope.namespaceOf mod chain) := by
  induction chain with
  | nil => rfl
  | cons p up ih =>
    have hup : ∀ a ∈ up, AncOk a := fun a ha => hc a (by simp [ha])
    have hp := hc p (by simp)
    simp only [List.map_cons, namespaceOf, Scope.namespaceOf]
    have h1 : (encAnc p).isNamespace = p.isNamespace := rfl
    have h2 : (encAnc p).domainName = encName p.domainName := rfl
    rw [h1, ih hup, h2]
    split
    · exact fullJoined_encKey_name (namespaceOf_keyOk hm up hup) _ hp.1
    · rfl

/-- the string a `fullynameOf` result stands for -/
def encFullyname (f : Key Str Str × Option Int) : Str :=
  match f.2 with
  | none => encKey f.1
  | some i => identify (encKey f.1) i

theorem fullynameOf_enc {mod : Str} (hm : ModOk mod) (chain : List (Anc Str)) (hc : ∀ a ∈ chain, AncOk a)
    (isDomain : Bool) (dn : List Str) (hd : Idents dn) (cls : Str) (hcls : Ident cls) (id : Int) :
    fullynameOf mod (chain.map encAnc) isDomain (encName dn) cls id =
      encFullyname (Scope.fullynameOf mod chain isDomain dn cls id) := by
  unfold fullynameOf Scope.fullynameOf encFullyname
  rw [scopeOf_enc hm chain hc]
  have hk := scopeOf_keyOk hm chain hc
  cases isDomain with
  | true => simp only [if_true]; exact fullJoined_encKey_name hk dn hd
  | false =>
    simp only [Bool.false_eq_true, if_false]
    have hC : Idents [cls] := by intro n hn; simp at hn; rw [hn]; exact hcls
    rw [fullJoined_encKey_names hk [cls] hC]

theorem fullynameThisVar_enc {cf : Key Str Str} (hk : KeyOk cf) (dn : List Str) (hd : Idents dn) :
    fullynameThisVar (encKey cf) (encName dn) = encKey (Scope.fullynameThisVar cf dn) := by
  unfold fullynameThisVar Scope.fullynameThisVar
  exact fullJoined_encKey_name hk dn hd

/-! ### declaration merging -/

theorem startsWith_append_self (a b : Str) : Str.startsWith (a ++ b) a = true := by
  induction a with
  | nil => cases b <;> rfl
  | cons c cs ih => simp [Str.startsWith, ih]

theorem encName_inj {a b : List Str} (ha : Idents a) (hb : Idents b) (h : encName a = encName b) : a = b := by
  have h1 := dsnElements_encName ha
  have h2 := dsnElements_encName hb
  rw [h] at h1
  rw [h1] at h2
  exact h2

def DVarOk (v : DVar Str Str) : Prop := KeyOk v.fullyname ∧ Idents v.domainName ∧ KeyOk v.scope

instance (v : DVar Str Str) : Decidable (DVarOk v) := by unfold DVarOk; infer_instance

theorem take_eq_iff_pathPrefix (p l : List Str) : decide (l.take p.length = p) = pathPrefix p l := by
  rw [Bool.eq_iff_iff]
  simp only [decide_eq_true_eq, pathPrefix_iff]
  constructor
  · intro h
    refine ⟨l.drop p.length, ?_⟩
    have := (List.take_append_drop p.length l).symm
    rw [h] at this
    exact this
  · rintro ⟨t, rfl⟩; simp

/-- the (repaired) test of `_merged` on strings is the element-wise test, for every pair of well-formed declarations -/
theorem related_enc (d a : DVar Str Str) (hd : DVarOk d) (ha : DVarOk a) :
    related (encDVar d) (encDVar a) = Scope.related d a := by
  unfold related Scope.related encDVar
  simp only
  rw [expanded_encKey hd.2.2, expanded_encKey ha.2.2, take_eq_iff_pathPrefix]
  have h1 : decide (encName d.domainName = encName a.domainName) = decide (d.domainName = a.domainName) := by
    apply decide_eq_decide.2
    exact ⟨fun h => encName_inj hd.2.1 ha.2.1 h, fun h => by rw [h]⟩
  rw [h1]

theorem encDVar_key_iff (a b : DVar Str Str) (ha : DVarOk a) (hb : DVarOk b) :
    (encDVar a).fullyname = (encDVar b).fullyname ↔ a.fullyname = b.fullyname :=
  ⟨fun e => encKey_inj _ _ ha.1 hb.1 e, fun e => by simp only [encDVar, e]⟩

end Tranp.ScopeStr
