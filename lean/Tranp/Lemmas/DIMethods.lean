/-
  Tranp.Lemmas.DIMethods — the GENERATED method bodies (Generated/DIMethods.lean, translated from di.py statement by
  statement) compute exactly what the hand-written model functions of Model/DI.lean compute (property C19).
-/
import Tranp.Lemmas.DI
import Tranp.Lemmas.DIState
import Tranp.Generated.DIMethods

namespace Tranp.DI
open Tranp.Generated.DIMethods

namespace PyM

@[simp] theorem pure_apply {α : Type} (a : α) (s : PySt) : (pure a : PyM α) s = (s, .ok a) := rfl

@[simp] theorem bind_apply {α β : Type} (m : PyM α) (f : α → PyM β) (s : PySt) :
    (m >>= f) s = match m s with
      | (s', .ok a) => f a s'
      | (s', .error e) => (s', .error e) := rfl

@[simp] theorem raise_apply {α : Type} (e : Err) (s : PySt) : (raise e : PyM α) s = (s, .error e) := rfl
@[simp] theorem self_apply (s : PySt) : self s = (s, .ok s.1) := rfl
@[simp] theorem modify_apply (f : Cont → Cont) (s : PySt) : modify f s = ((f s.1, s.2), .ok ()) := rfl

end PyM

@[simp] theorem key_originRef (r : SymRef) : PyKey.key r.originRef = r.accept := rfl
@[simp] theorem key_mk (o : Nat) : PyKey.key ({ origin := o } : SymRef) = o := rfl
@[simp] theorem key_nat (p : Nat) : PyKey.key p = p := rfl
@[simp] theorem path_originRef (r : SymRef) : r.originRef.path = symbolize r := rfl
@[simp] theorem accept_originRef (r : SymRef) : r.originRef.accept = r.accept := rfl

theorem gen_acceptable (l : Bool) (r : SymRef) (s : PySt) : gen_DI__acceptable_symbol l r s = (s, .ok r.originRef) := rfl

theorem gen_find (l : Bool) (r : SymRef) (s : PySt) :
    gen_DI___find_symbol l r s = (s, .ok (if s.1.injectors.contains r.accept then some r.originRef else none)) := by
  cases h : s.1.injectors.get? r.accept <;> simp [gen_DI___find_symbol, gen_acceptable, Dict.contains, h]

theorem gen_inner (l : Bool) (r : SymRef) (s : PySt) : gen_DI___inner_binded l r s = (s, .ok (s.1.innerBinded r)) := by
  cases h : s.1.injectors.get? r.accept <;> simp [gen_DI___inner_binded, gen_find, Cont.innerBinded, Dict.contains, h]

theorem gen_can_di (l : Bool) (r : SymRef) (s : PySt) : gen_DI_can_resolve l r s = (s, .ok (s.1.innerBinded r)) := by
  simp [gen_DI_can_resolve, gen_inner]

theorem gen_binded_di (l : Bool) (r : SymRef) (s : PySt) : gen_DI__binded l r s = (s, .ok (s.1.innerBinded r)) := by
  simp [gen_DI__binded, gen_inner]

theorem gen_bind_di (l : Bool) (r : SymRef) (f : Factory) (c : Cont) (nx : Nat) :
    gen_DI_bind l r f (c, nx) = (((c.diBind r f).1, nx), (c.diBind r f).2) := by
  cases h : c.injectors.get? r.origin <;>
    simp [gen_DI_bind, gen_acceptable, gen_inner, Cont.diBind, Cont.innerBinded, Dict.contains, SymRef.accept, SymRef.originRef, h]

theorem del_absent {α : Type} (m : Dict α) (k : Nat) (h : m.get? k = none) : m.del k = m := by
  cases m with
  | mk items =>
    simp only [Dict.del, Dict.get?] at *
    congr 1
    induction items with
    | nil => rfl
    | cons kv rest ih =>
      simp only [Dict.getL] at h
      split at h
      · cases h
      · next hne =>
        simp only [List.filter_cons, ne_eq, hne, not_false_eq_true, decide_true, if_true]
        rw [ih h]

theorem gen_unbind_di (l : Bool) (r : SymRef) (c : Cont) (nx : Nat) :
    gen_DI_unbind l r (c, nx) = ((c.diUnbind r, nx), .ok ()) := by
  cases h : c.injectors.get? r.origin with
  | none =>
    simp [gen_DI_unbind, gen_find, Cont.diUnbind, Cont.innerBinded, Dict.contains, SymRef.accept, h]
  | some f =>
    cases hi : c.instances.get? r.origin with
    | none =>
      simp [gen_DI_unbind, gen_find, Cont.diUnbind, Cont.innerBinded, Dict.contains, SymRef.accept, SymRef.originRef, PyM.checkDel, h, hi,
        del_absent c.instances r.origin hi]
    | some o =>
      simp [gen_DI_unbind, gen_find, Cont.diUnbind, Cont.innerBinded, Dict.contains, SymRef.accept, SymRef.originRef, PyM.checkDel, h, hi]

/-! ### LazyDI -/

theorem gen_symbolize (l : Bool) (r : SymRef) (s : PySt) : gen_LazyDI___symbolize l r s = (s, .ok (symbolize r)) := by
  simp [gen_LazyDI___symbolize, gen_acceptable]

theorem gen_can_path (l : Bool) (p : Nat) (s : PySt) : gen_LazyDI___can_resolve l p s = (s, .ok (s.1.defined p)) := by
  simp [gen_LazyDI___can_resolve, Cont.defined]

theorem gen_can_lazy (l : Bool) (r : SymRef) (s : PySt) :
    gen_LazyDI_can_resolve l r s = (s, .ok (s.1.defined (symbolize r))) := by
  simp [gen_LazyDI_can_resolve, gen_symbolize, gen_can_path]

theorem gen_binded_lazy (l : Bool) (r : SymRef) (s : PySt) :
    gen_LazyDI__binded l r s = (s, .ok (s.1.defined (symbolize r))) := by
  simp [gen_LazyDI__binded, gen_can_lazy]

theorem gen_register (l : Bool) (p : Nat) (inj : Injector) (c : Cont) (nx : Nat) :
    gen_LazyDI___register l p inj (c, nx) = (((c.register p inj).1, nx), (c.register p inj).2) := by
  cases h : c.definitions.get? p <;> simp [gen_LazyDI___register, Cont.register, Cont.defined, Dict.contains, h]

theorem gen_unregister (l : Bool) (p : Nat) (c : Cont) (nx : Nat) :
    gen_LazyDI___unregister l p (c, nx) = ((c.unregister p, nx), .ok ()) := by
  cases h : c.definitions.get? p <;>
    simp [gen_LazyDI___unregister, gen_can_path, Cont.unregister, Cont.defined, Dict.contains, PyM.checkDel, h]

theorem gen_bind_lazy (l : Bool) (r : SymRef) (f : Factory) (c : Cont) (nx : Nat) :
    gen_LazyDI_bind l r f (c, nx) = (((c.lazyBind r f).1, nx), (c.lazyBind r f).2) := by
  cases h : c.definitions.get? (symbolize r) <;>
    simp [gen_LazyDI_bind, gen_symbolize, gen_can_path, gen_register, gen_bind_di, Cont.lazyBind, Cont.register, Cont.defined,
      Dict.contains, h]

theorem gen_unbind_lazy (l : Bool) (r : SymRef) (c : Cont) (nx : Nat) (hl : c.lazy = true) :
    gen_LazyDI_unbind l r (c, nx) = ((c.lazyUnbind r, nx), .ok ()) := by
  cases h : c.definitions.get? (symbolize r) <;>
    simp [gen_LazyDI_unbind, gen_symbolize, gen_can_lazy, gen_unregister, gen_unbind_di, Cont.lazyUnbind, Cont.canResolve,
      Cont.defined, Dict.contains, hl, h]

/-- `DI.rebind` with its virtual `self.unbind` / `self.bind` -/
theorem gen_rebind (r : SymRef) (f : Factory) (c : Cont) (nx : Nat) :
    gen_DI_rebind c.lazy r f (c, nx) = (((c.rebind r f).1, nx), (c.rebind r f).2) := by
  have hk := (Cont.unbind_keeps c r).1
  cases hl : c.lazy
  · rw [hl] at hk
    cases hb : c.innerBinded r
    · simp [gen_DI_rebind, gen_inner, gen_bind_di, Cont.rebind, Cont.bind, hl, hb]
      generalize c.diBind r f = x
      rcases x with ⟨c', (e | ⟨⟩)⟩ <;> rfl
    · simp [gen_DI_rebind, gen_inner, gen_unbind_di, gen_bind_di, Cont.rebind, Cont.bind, hl, hb, hk]
      have hu : c.unbind r = c.diUnbind r := by simp [Cont.unbind, hl]
      rw [hu]
      generalize (c.diUnbind r).diBind r f = x
      rcases x with ⟨c', (e | ⟨⟩)⟩ <;> rfl
  · rw [hl] at hk
    cases hb : c.innerBinded r
    · simp [gen_DI_rebind, gen_inner, gen_bind_lazy, Cont.rebind, Cont.bind, hl, hb]
      generalize c.lazyBind r f = x
      rcases x with ⟨c', (e | ⟨⟩)⟩ <;> rfl
    · have hu : c.unbind r = c.lazyUnbind r := by simp [Cont.unbind, hl]
      have hk' : (c.lazyUnbind r).lazy = true := hu ▸ hk
      simp [gen_DI_rebind, gen_inner, gen_unbind_lazy, gen_bind_lazy, Cont.rebind, Cont.bind, hl, hb, hk, hu, hk']
      generalize (c.lazyUnbind r).lazyBind r f = x
      rcases x with ⟨c', (e | ⟨⟩)⟩ <;> rfl

/-! ### resolve -/

/-- `self.invoke(injector)` as the model has it: `invokeWith` with `rec` for the nested `self.resolve` -/
def invOf (rec : Cont → Nat → SymRef → Res Obj) (f : Factory) : PyM Obj :=
  PyM.ofRes (fun c nx => invokeWith rec c nx f [])

theorem gen_resolve_di (l : Bool) (rec : Cont → Nat → SymRef → Res Obj) (r : SymRef) (c : Cont) (nx : Nat) :
    PyM.run (gen_DI_resolve l (invOf rec) r) c nx = diResolveWith rec c nx r := by
  cases hi : c.injectors.get? r.origin with
  | none =>
    simp [PyM.run, gen_DI_resolve, gen_find, diResolveWith, Dict.contains, SymRef.accept, hi]
  | some f =>
    cases ho : c.instances.get? r.origin with
    | some o =>
      simp [PyM.run, gen_DI_resolve, gen_find, diResolveWith, Dict.contains, SymRef.accept, SymRef.originRef, PyM.getItem, hi, ho]
    | none =>
      rcases hinv : invokeWith rec c nx f [] with ⟨c', nx', (e | o)⟩
      · simp [PyM.run, gen_DI_resolve, gen_find, diResolveWith, Dict.contains, SymRef.accept, SymRef.originRef, PyM.getItem, invOf,
          PyM.ofRes, hi, ho, hinv]
      · simp [PyM.run, gen_DI_resolve, gen_find, diResolveWith, Dict.contains, SymRef.accept, SymRef.originRef, PyM.getItem, invOf,
          PyM.ofRes, hi, ho, hinv, Dict.get?_set]

theorem gen_bind_proxy (l : Bool) (p : Nat) (c : Cont) (nx : Nat) (hl : c.lazy = true) :
    gen_LazyDI___bind_proxy l p (c, nx) = (((c.bindProxy p).1, nx), (c.bindProxy p).2) := by
  cases hd : c.definitions.get? p with
  | none => simp [gen_LazyDI___bind_proxy, Cont.bindProxy, PyM.getItem, hd]
  | some inj =>
    cases hs : loadSymbol p with
    | error e => simp [gen_LazyDI___bind_proxy, Cont.bindProxy, PyM.getItem, PyM.liftE, hd, hs]
    | ok sym =>
      cases hf : inj.load with
      | error e => simp [gen_LazyDI___bind_proxy, Cont.bindProxy, PyM.getItem, PyM.liftE, hd, hs, hf]
      | ok f =>
        simp [gen_LazyDI___bind_proxy, Cont.bindProxy, PyM.getItem, PyM.liftE, gen_bind_lazy, Cont.bind, hd, hs, hf, hl]
        generalize c.lazyBind sym f = x
        rcases x with ⟨c', (e | ⟨⟩)⟩ <;> rfl

theorem gen_resolve_lazy (l : Bool) (rec : Cont → Nat → SymRef → Res Obj) (r : SymRef) (c : Cont) (nx : Nat) (hl : c.lazy = true) :
    PyM.run (gen_LazyDI_resolve l (invOf rec) r) c nx = lazyResolveWith rec c nx r := by
  have hdi := fun c' nx' => gen_resolve_di l rec r c' nx'
  simp only [PyM.run] at hdi
  cases hb : c.innerBinded r with
  | true =>
    have := hdi c nx
    simp [PyM.run, gen_LazyDI_resolve, gen_symbolize, gen_can_di, gen_can_path, lazyResolveWith, hb] at this ⊢
    exact this
  | false =>
    cases hd : c.defined (symbolize r) with
    | false =>
      have := hdi c nx
      simp [PyM.run, gen_LazyDI_resolve, gen_symbolize, gen_can_di, gen_can_path, lazyResolveWith, hb, hd] at this ⊢
      exact this
    | true =>
      rcases hp : c.bindProxy (symbolize r) with ⟨c1, (e | ⟨⟩)⟩
      · simp [PyM.run, gen_LazyDI_resolve, gen_symbolize, gen_can_di, gen_can_path, gen_bind_proxy, lazyResolveWith, hb, hd, hl, hp]
      · have := hdi c1 nx
        simp [PyM.run, gen_LazyDI_resolve, gen_symbolize, gen_can_di, gen_can_path, gen_bind_proxy, lazyResolveWith, hb, hd, hl, hp] at this ⊢
        exact this

end Tranp.DI
