/-
  Lemmas about the lambda-parameter model (Model/InferLambda.lean): what a declared `Callable` gives, and the conformance of the
  environment a lambda body runs in.
-/
import Tranp.Model.InferLambda
import Tranp.Lemmas.Infer

namespace Tranp.Infer
open Tranp

variable {ct : ClassTable}

theorem Tys.get?_ofList (l : List Ty) (i : Nat) : (Tys.ofList l).get? i = l[i]? := by
  induction l generalizing i with
  | nil => cases i <;> rfl
  | cons a l ih =>
    cases i with
    | zero => rfl
    | succ i => simp [Tys.ofList, Tys.get?, ih]

/-- the `i`-th attribute of `Callable<A…, R>` is `A i` -/
theorem attrAt_callable (As : List Ty) (R : Ty) {i : Nat} (hi : i < As.length) :
    attrAt (callableTy As R) i = .ok As[i] := by
  simp only [attrAt, callableTy, Ty.attrs, Tys.get?_ofList, List.getElem?_append_left hi, List.getElem?_eq_getElem hi]

theorem callable_not_None (As : List Ty) (R : Ty) : (callableTy As R).className ≠ s_None := by
  simp only [callableTy, Ty.className]
  decide

/-- the values a lambda is applied to, against the types of its parameters -/
inductive ArgsConf (ct : ClassTable) : List Val → Env → Prop
  | nil : ArgsConf ct [] []
  | cons {v : Val} {vs : List Val} {x : Str} {T : Ty} {Γ' : Env} : Conf ct v T → ArgsConf ct vs Γ' → ArgsConf ct (v :: vs) ((x, T) :: Γ')

/-- CPython binds the parameters to the argument values, in order -/
def bindArgs : Env → List Val → VEnv
  | (x, _) :: Γ', v :: vs => (x, v) :: bindArgs Γ' vs
  | _, _ => []

theorem ArgsConf.envConf {vs : List Val} {Γ' Γ : Env} {ρ : VEnv} (h : ArgsConf ct vs Γ') (henv : EnvConf ct ρ Γ) :
    EnvConf ct (bindArgs Γ' vs ++ ρ) (Γ' ++ Γ) := by
  induction h with
  | nil => exact henv
  | cons hc _ ih => exact EnvConf.cons ih hc

/-- the arguments of an immediate call: each in Core, inferred as `T`, evaluated to `v` -/
inductive ArgsEval (ct : ClassTable) (W : World) (Γ : Env) (ρ : VEnv) : List Expr → List Ty → List Val → Prop
  | nil : ArgsEval ct W Γ ρ [] [] []
  | cons {e : Expr} {es : List Expr} {T : Ty} {Ts : List Ty} {v : Val} {vs : List Val} :
      Core ct Γ e → inferT ct Γ e = .ok T → eval W ρ e = .ok v → ArgsEval ct W Γ ρ es Ts vs → ArgsEval ct W Γ ρ (e :: es) (T :: Ts) (v :: vs)

theorem lamEnvFrom_immediate (Ts : List Ty) (vars : List Str) (i : Nat) (hlen : i + vars.length ≤ Ts.length) :
    ∃ Γ', lamEnvFrom (.immediate Ts) vars i = .ok Γ' ∧ Γ'.map (·.2) = (Ts.drop i).take vars.length ∧ Γ'.map (·.1) = vars := by
  induction vars generalizing i with
  | nil => exact ⟨[], rfl, by simp, rfl⟩
  | cons x rest ih =>
    simp only [List.length_cons] at hlen
    have hi : i < Ts.length := by omega
    obtain ⟨Γ', h1, h2, h3⟩ := ih (i + 1) (by omega)
    refine ⟨(x, Ts[i]) :: Γ', ?_, ?_, ?_⟩
    · simp only [lamEnvFrom, lambdaParam, List.getElem?_eq_getElem hi, h1]
    · simp only [List.map_cons, h2, List.length_cons]
      rw [List.drop_eq_getElem_cons hi, List.take_succ_cons]
    · simp only [List.map_cons, h3]

/-- values against types, pairwise -/
inductive ConfEach (ct : ClassTable) : List Val → List Ty → Prop
  | nil : ConfEach ct [] []
  | cons {v : Val} {vs : List Val} {T : Ty} {Ts : List Ty} : Conf ct v T → ConfEach ct vs Ts → ConfEach ct (v :: vs) (T :: Ts)

theorem argsConf_of_each {vs : List Val} {Γ' : Env} (h : ConfEach ct vs (Γ'.map (·.2))) : ArgsConf ct vs Γ' := by
  induction Γ' generalizing vs with
  | nil => cases h; exact .nil
  | cons b Γ' ih =>
    obtain ⟨x, T⟩ := b
    cases h with
    | cons hc hr => exact .cons hc (ih hr)

theorem ArgsEval.length {W : World} {Γ : Env} {ρ : VEnv} {es : List Expr} {Ts : List Ty} {vs : List Val}
    (h : ArgsEval ct W Γ ρ es Ts vs) : Ts.length = es.length ∧ vs.length = es.length := by
  induction h with
  | nil => exact ⟨rfl, rfl⟩
  | cons _ _ _ _ ih => simp [ih.1, ih.2]

theorem ArgsEval.conf {W : World} {Γ : Env} {ρ : VEnv} {es : List Expr} {Ts : List Ty} {vs : List Val}
    (hW : WorldConf ct W) (henv : EnvConf ct ρ Γ) (h : ArgsEval ct W Γ ρ es Ts vs) : ConfEach ct vs Ts := by
  induction h with
  | nil => exact .nil
  | @cons e _ T _ v _ hcore hT hev _ ih =>
    obtain ⟨T', hT'⟩ := infer_ok e Γ hcore
    have h1 : inferT ct Γ e = .ok T' := by unfold inferT; rw [hT' false]
    have hTT : T' = T := by rw [h1] at hT; cases hT; rfl
    subst hTT
    exact .cons (sound_expr hW e Γ ρ T' v hcore henv hT' hev) ih

end Tranp.Infer
