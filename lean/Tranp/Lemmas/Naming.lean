/-
  Helper lemmas for property C08: class naming (Model/Naming.lean) — equivariance of the abstract layer and refinement of
  the string layer.
-/
import Tranp.Lemmas.ScopeStr
import Tranp.Model.Naming

set_option linter.unusedSectionVars false

namespace Tranp.Naming
open Tranp Tranp.Scope

section
variable {M N N' : Type} [DecidableEq M] [DecidableEq N] [DecidableEq N']
variable (r : N → N') (hr : Function.Injective r)

theorem aliasOrDomainName_map (t : Bool) (c : Cls M N) :
    aliasOrDomainName t (c.map r) = (aliasOrDomainName t c).map r := by
  unfold aliasOrDomainName Cls.map
  cases t with
  | false => rfl
  | true =>
    simp only [Bool.not_true, Bool.false_eq_true, if_false]
    cases c.embed with
    | none => rfl
    | some e => cases e with
      | mk tx ip => cases ip <;> rfl

include hr in
theorem lookup_aliases_map (tbl : Aliases M N) (k : Key M N) :
    lookup (Aliases.map r tbl) (k.map r) = lookup tbl k := by
  have := lookup_map (Key.map r) (fun (t : Str) => t) (Key.map_injective r hr) tbl k
  unfold Aliases.map
  rw [this]
  cases lookup tbl k <;> rfl

include hr in
theorem domainName_map (aliases : Option (Aliases M N)) (t : Bool) (c : Cls M N) :
    domainName (aliases.map (Aliases.map r)) t (c.map r) = (domainName aliases t c).map r := by
  cases aliases with
  | none => exact aliasOrDomainName_map r t c
  | some tbl =>
    simp only [Option.map_some, domainName]
    have : (c.map r).fullyname = c.fullyname.map r := rfl
    rw [this, lookup_aliases_map r hr]
    cases lookup tbl c.fullyname with
    | some x => rfl
    | none => exact aliasOrDomainName_map r t c

theorem isEmptyText_map (o : DomOut N) : (o.map r).isEmptyText = o.isEmptyText := by
  cases o <;> rfl

include hr in
theorem namespacePieces_map (tbl : Aliases M N) (t : Bool) (ancestors : List (Cls M N)) :
    namespacePieces (Aliases.map r tbl) t (ancestors.map (Cls.map r)) = (namespacePieces tbl t ancestors).map (DomOut.map r) := by
  unfold namespacePieces
  induction ancestors with
  | nil => rfl
  | cons a rest ih =>
    simp only [List.map_cons, List.filter_cons]
    have h := domainName_map r hr (some tbl) t a
    simp only [Option.map_some] at h
    rw [h, isEmptyText_map, ih]
    split <;> rfl

include hr in
theorem accessibleName_map (tbl : Aliases M N) (t : Bool) (ancestors : List (Cls M N)) (c : Cls M N) :
    accessibleName (Aliases.map r tbl) t (ancestors.map (Cls.map r)) (c.map r) =
      (accessibleName tbl t ancestors c).map (DomOut.map r) := by
  unfold accessibleName
  rw [namespacePieces_map r hr]
  have h := domainName_map r hr (some tbl) t c
  simp only [Option.map_some] at h
  rw [h, List.map_append]
  congr 1
  simp only [List.filter_cons, List.filter_nil, isEmptyText_map]
  split <;> rfl

include hr in
theorem varValue_map {V : Type} (vars : List (N × V)) (name : N) :
    varValue (vars.map (fun nv => (r nv.1, nv.2))) (r name) = varValue vars name := by
  unfold varValue
  induction vars with
  | nil => rfl
  | cons nv rest ih =>
    simp only [List.map_cons, List.find?_cons]
    by_cases h : nv.1 = name
    · simp [h]
    · have : r nv.1 ≠ r name := fun e => h (hr e)
      simp only [h, this, decide_false]
      exact ih

end
end Tranp.Naming

namespace Tranp.NamingStr
open Tranp Tranp.Scope Tranp.ScopeStr Tranp.Naming

/-- user names are non-empty (so `DSN.join` never drops them) -/
def ClsOk (c : Cls Str Str) : Prop := KeyOk c.fullyname ∧ c.name ≠ []

theorem aliasDsn_eq (f : Str) (hf : f ≠ []) : aliasDsn f = ['a','l','i','a','s','e','s','.'] ++ f := by
  unfold aliasDsn dsnJoin
  rw [dsnJoinWith_cons dot _ _ (by simp)]
  have : dsnJoinWith dot [f] = f := by
    unfold dsnJoinWith
    rw [filter_nonempty_self _ (by intro x hx; simp at hx; subst hx; exact hf)]
    rfl
  rw [this]
  simp [hf, dot]

theorem aliasKey_inj (a b : Key Str Str) (ha : KeyOk a) (hb : KeyOk b) (h : aliasDsn (encKey a) = aliasDsn (encKey b)) : a = b := by
  rw [aliasDsn_eq _ (encKey_ne_nil ha), aliasDsn_eq _ (encKey_ne_nil hb)] at h
  exact encKey_inj a b ha hb (List.append_cancel_left h)

theorem lookup_encAliases (tbl : Aliases Str Str) (htbl : ∀ kv ∈ tbl, KeyOk kv.1) (k : Key Str Str) (hk : KeyOk k) :
    lookup (encAliases tbl) (aliasDsn (encKey k)) = lookup tbl k := by
  have := lookup_map_on (fun k => aliasDsn (encKey k)) (fun (t : Str) => t) KeyOk aliasKey_inj tbl k htbl hk
  unfold encAliases
  rw [this]
  cases lookup tbl k <;> rfl

theorem aliasOrDomainName_enc (t : Bool) (c : Cls Str Str) :
    aliasOrDomainName t (encCls c) = encOut (Naming.aliasOrDomainName t c) := by
  unfold aliasOrDomainName Naming.aliasOrDomainName encCls
  cases t with
  | false => rfl
  | true =>
    simp only [Bool.not_true, Bool.false_eq_true, if_false]
    cases c.embed with
    | none => rfl
    | some e => cases e with
      | mk tx ip => cases ip <;> rfl

theorem domainName_enc (tbl : Aliases Str Str) (htbl : ∀ kv ∈ tbl, KeyOk kv.1) (t : Bool) (c : Cls Str Str) (hc : ClsOk c) :
    domainName (some (encAliases tbl)) t (encCls c) = encOut (Naming.domainName (some tbl) t c) := by
  unfold domainName Naming.domainName
  have : (encCls c).fullyname = encKey c.fullyname := rfl
  simp only [this, lookup_encAliases tbl htbl c.fullyname hc.1]
  cases lookup tbl c.fullyname with
  | some x => rfl
  | none => exact aliasOrDomainName_enc t c

theorem domainName_noHandler_enc (t : Bool) (c : Cls Str Str) :
    domainName none t (encCls c) = encOut (Naming.domainName none t c) := aliasOrDomainName_enc t c

/-- what `Naming.domainName` can return for a class with a non-empty name: an alias text, or something non-empty -/
def OutOk (o : DomOut Str) : Prop :=
  match o with
  | .text _ => True
  | .name n => n ≠ []
  | .pre _ n => n ≠ []

theorem domainName_outOk (aliases : Option (Aliases Str Str)) (t : Bool) (c : Cls Str Str) (hc : c.name ≠ []) :
    OutOk (Naming.domainName aliases t c) := by
  have h1 : OutOk (Naming.aliasOrDomainName t c) := by
    unfold Naming.aliasOrDomainName
    cases t with
    | false => exact hc
    | true =>
      simp only [Bool.not_true, Bool.false_eq_true, if_false]
      cases c.embed with
      | none => exact hc
      | some e => cases e with
        | mk tx ip => cases ip <;> simp [OutOk, hc]
  unfold Naming.domainName
  cases aliases with
  | none => exact h1
  | some tbl =>
    simp only
    cases lookup tbl c.fullyname with
    | some x => trivial
    | none => exact h1

theorem isEmpty_encOut (o : DomOut Str) (ho : OutOk o) : (encOut o).isEmpty = o.isEmptyText := by
  cases o with
  | text t => rfl
  | name n =>
    simp only [encOut, DomOut.isEmptyText]
    cases n with
    | nil => exact absurd rfl ho
    | cons _ _ => rfl
  | pre t n =>
    simp only [encOut, DomOut.isEmptyText]
    cases n with
    | nil => exact absurd rfl ho
    | cons x xs => cases t <;> rfl

theorem filter_map_encOut (os : List (DomOut Str)) (h : ∀ o ∈ os, OutOk o) :
    (os.map encOut).filter (fun p => !p.isEmpty) = (os.filter (fun o => !o.isEmptyText)).map encOut := by
  induction os with
  | nil => rfl
  | cons o rest ih =>
    simp only [List.map_cons, List.filter_cons, isEmpty_encOut o (h o (by simp)), ih (fun x hx => h x (by simp [hx]))]
    split <;> rfl

theorem namespaceH_enc (tbl : Aliases Str Str) (htbl : ∀ kv ∈ tbl, KeyOk kv.1) (t : Bool) (ancestors : List (Cls Str Str))
    (ha : ∀ a ∈ ancestors, ClsOk a) :
    namespaceH (encAliases tbl) t (ancestors.map encCls) = encPieces (Naming.namespacePieces tbl t ancestors) := by
  unfold namespaceH Naming.namespacePieces encPieces dsnJoin dsnJoinWith
  have h1 : (ancestors.map encCls).map (domainName (some (encAliases tbl)) t) =
      (ancestors.map (Naming.domainName (some tbl) t)).map encOut := by
    simp only [List.map_map]
    apply List.map_congr_left
    intro a hA
    exact domainName_enc tbl htbl t a (ha a hA)
  rw [h1, filter_map_encOut]
  intro o ho
  obtain ⟨a, hA, rfl⟩ := List.mem_map.1 ho
  exact domainName_outOk _ t a (ha a hA).2

theorem pieces_nonempty (os : List (DomOut Str)) (h : ∀ o ∈ os, OutOk o) :
    ∀ x ∈ (os.filter (fun o => !o.isEmptyText)).map encOut, x ≠ [] := by
  intro x hx
  obtain ⟨o, ho, rfl⟩ := List.mem_map.1 hx
  have hf := List.mem_filter.1 ho
  have := isEmpty_encOut o (h o hf.1)
  intro e
  rw [e] at this
  simp at this
  have h2 := hf.2
  simp [← this] at h2

/-- `DSN.join(x, y)` where `x` is itself a dotted join of non-empty pieces -/
theorem dsnJoin_join_snoc (xs : List Str) (hx : ∀ x ∈ xs, x ≠ []) (y : Str) :
    dsnJoin [Str.join dot xs, y] = Str.join dot (xs ++ [y].filter (fun p => !p.isEmpty)) := by
  unfold dsnJoin
  by_cases hxs : xs = []
  · subst hxs
    simp [dsnJoinWith, Str.join]
  · have hj := join_ne_nil dot xs hxs hx
    rw [dsnJoinWith_cons dot _ _ hj]
    cases y with
    | nil => simp [dsnJoinWith, Str.join]
    | cons c cs =>
      have : dsnJoinWith dot [c :: cs] = c :: cs := by simp [dsnJoinWith, Str.join]
      rw [this]
      simp only [List.filter_cons, List.isEmpty_cons, Bool.not_false, if_true, List.filter_nil]
      rw [join_append dot xs [c :: cs] hxs (by simp)]
      simp [Str.join]

theorem accessibleName_enc (tbl : Aliases Str Str) (htbl : ∀ kv ∈ tbl, KeyOk kv.1) (t : Bool) (ancestors : List (Cls Str Str))
    (ha : ∀ a ∈ ancestors, ClsOk a) (c : Cls Str Str) (hc : ClsOk c) :
    accessibleName (encAliases tbl) t (ancestors.map encCls) (encCls c) = encPieces (Naming.accessibleName tbl t ancestors c) := by
  unfold accessibleName Naming.accessibleName
  rw [namespaceH_enc tbl htbl t ancestors ha, domainName_enc tbl htbl t c hc]
  unfold encPieces Naming.namespacePieces
  rw [dsnJoin_join_snoc _ (pieces_nonempty _ (by
    intro o ho
    obtain ⟨a, hA, rfl⟩ := List.mem_map.1 ho
    exact domainName_outOk _ t a (ha a hA).2))]
  congr 1
  rw [List.map_append]
  congr 1
  have hok := domainName_outOk (some tbl) t c hc.2
  simp only [List.filter_cons, List.filter_nil, isEmpty_encOut _ hok]
  split <;> rfl

theorem dsnJoin_singleton (z : Str) : dsnJoin [z] = z := by
  cases z <;> simp [dsnJoin, dsnJoinWith, Str.join]

theorem dsnJoin_cons_assoc (a : Str) (ha : a ≠ []) (rest : List Str) : dsnJoin (a :: rest) = dsnJoin [a, dsnJoin rest] := by
  unfold dsnJoin
  rw [dsnJoinWith_cons dot a rest ha, dsnJoinWith_cons dot a [dsnJoinWith dot rest] ha]
  have := dsnJoin_singleton (dsnJoinWith dot rest)
  unfold dsnJoin at this
  rw [this]

theorem fullyname_enc (tbl : Aliases Str Str) (htbl : ∀ kv ∈ tbl, KeyOk kv.1) (ancestors : List (Cls Str Str))
    (ha : ∀ a ∈ ancestors, ClsOk a) (c : Cls Str Str) (hc : ClsOk c) (mod : Str) (hm : mod ≠ []) :
    fullyname (encAliases tbl) (ancestors.map encCls) (encCls c) mod =
      dsnJoin [mod, encPieces (Naming.fullyname tbl ancestors c mod).2] := by
  unfold fullyname Naming.fullyname
  rw [dsnJoin_cons_assoc mod hm]
  have := accessibleName_enc tbl htbl false ancestors ha c hc
  unfold accessibleName at this
  rw [this]

end Tranp.NamingStr
