/-
  Helper lemmas for property C16: the region a recorded span delimits (Model/Hull.lean, last section).
  Positions computed from the text are STRICTLY monotone on the offsets of the text, hence order-reflecting; so the
  characters / tokens that lie inside a span by (line, column) are those that lie inside it by offset.
-/
import Tranp.Lemmas.Quotation

namespace Tranp.Hull
open Tranp

theorem P.lt_iff_not_le (a b : P) : a < b ↔ ¬ b ≤ a := by
  show (a.line < b.line ∨ (a.line = b.line ∧ a.col < b.col)) ↔ ¬ (b.line < a.line ∨ (b.line = a.line ∧ b.col ≤ a.col))
  omega

theorem P.lt_of_lt_of_le {a b c : P} (h1 : a < b) (h2 : b ≤ c) : a < c := by
  have h1' : a.line < b.line ∨ (a.line = b.line ∧ a.col < b.col) := h1
  have h2' : b.line < c.line ∨ (b.line = c.line ∧ b.col ≤ c.col) := h2
  show a.line < c.line ∨ (a.line = c.line ∧ a.col < c.col); omega

theorem P.le_of_lt {a b : P} (h : a < b) : a ≤ b := by
  have h' : a.line < b.line ∨ (a.line = b.line ∧ a.col < b.col) := h
  show a.line < b.line ∨ (a.line = b.line ∧ a.col ≤ b.col); omega

theorem lt_advance (p : P) (c : Char) : p < advance p c := by
  unfold advance
  split
  · show p.line < p.line + 1 ∨ _; omega
  · show p.line < p.line ∨ (p.line = p.line ∧ p.col < p.col + 1); omega

/-- inside the text a later offset has a strictly later position -/
theorem posFrom_strict (p : P) (s : Str) (a b : Nat) (h : a < b) (hb : b ≤ s.length) :
    posFrom p s a < posFrom p s b := by
  induction s generalizing p a b with
  | nil => simp at hb; omega
  | cons c cs ih =>
    cases b with
    | zero => omega
    | succ b =>
      cases a with
      | zero => exact P.lt_of_lt_of_le (lt_advance p c) (le_posFrom (advance p c) cs b)
      | succ a => exact ih (advance p c) a b (by omega) (by simpa using hb)

theorem posOf_strict (src : Str) (a b : Nat) (h : a < b) (hb : b ≤ src.length) : posOf src a < posOf src b :=
  posFrom_strict _ src a b h hb

/-- positions reflect the order of offsets of the text -/
theorem posOf_le_iff (src : Str) (a b : Nat) (ha : a ≤ src.length) :
    posOf src a ≤ posOf src b ↔ a ≤ b := by
  constructor
  · intro h
    by_cases hab : a ≤ b
    · exact hab
    · exact absurd h ((P.lt_iff_not_le _ _).mp (posOf_strict src b a (by omega) ha))
  · exact posOf_mono src a b

theorem posOf_lt_iff (src : Str) (a b : Nat) (hb : b ≤ src.length) :
    posOf src a < posOf src b ↔ a < b := by
  rw [P.lt_iff_not_le, posOf_le_iff src b a hb]; omega

/-- the pairwise content of `OffChain` -/
def OBefore (x y : OTok) : Prop := x.s ≤ x.e ∧ x.e ≤ y.s ∧ y.s ≤ y.e

theorem offChain_pairwise (ts : List OTok) (h : OffChain ts) : ts.Pairwise OBefore := by
  induction ts with
  | nil => exact List.Pairwise.nil
  | cons a rest ih =>
    cases rest with
    | nil => exact List.pairwise_singleton _ _
    | cons b rest' =>
      obtain ⟨h1, h2, h3⟩ := h
      have ihp := ih h3
      refine List.Pairwise.cons ?_ ihp
      intro y hy
      have hb : b.s ≤ b.e := by
        cases rest' with
        | nil => exact h3
        | cons _ _ => exact h3.1
      cases hy with
      | head => exact ⟨h1, h2, hb⟩
      | tail _ hy' =>
        have hby : OBefore b y := (List.pairwise_cons.mp ihp).1 y hy'
        exact ⟨h1, by have := hby.2.1; omega, hby.2.2⟩

theorem offChain_get_lt (ts : List OTok) (h : OffChain ts) (i j : Nat) (hi : i < ts.length) (hj : j < ts.length) (hij : i < j) :
    ts[i].e ≤ ts[j].s :=
  ((List.pairwise_iff_getElem.mp (offChain_pairwise ts h)) i j hi hj hij).2.1

theorem tokensInText_get (src : Str) (ts : List OTok) (h : tokensInText src ts = true) (i : Nat) (hi : i < ts.length) :
    ts[i].s < ts[i].e ∧ ts[i].e ≤ src.length := by
  simp only [tokensInText, List.all_eq_true, Bool.and_eq_true, decide_eq_true_eq] at h
  exact h ts[i] (List.getElem_mem hi)

/-- start offsets and end offsets of non-empty, ordered tokens are ordered like the indices -/
theorem offChain_s_le (ts : List OTok) (h : OffChain ts) (hin : ∀ i (hi : i < ts.length), ts[i].s < ts[i].e)
    (i j : Nat) (hi : i < ts.length) (hj : j < ts.length) (hij : i ≤ j) : ts[i].s ≤ ts[j].s := by
  rcases Nat.lt_or_eq_of_le hij with hlt | heq
  · have := offChain_get_lt ts h i j hi hj hlt
    have := hin i hi
    omega
  · subst heq; omega

theorem offChain_e_le (ts : List OTok) (h : OffChain ts) (hin : ∀ i (hi : i < ts.length), ts[i].s < ts[i].e)
    (i j : Nat) (hi : i < ts.length) (hj : j < ts.length) (hij : i ≤ j) : ts[i].e ≤ ts[j].e := by
  rcases Nat.lt_or_eq_of_le hij with hlt | heq
  · have := offChain_get_lt ts h i j hi hj hlt
    have := hin j hj
    omega
  · subst heq; omega

/-- by offsets: the tokens inside `[start of token lo, end of token hi−1)` are exactly the tokens `lo … hi−1` -/
theorem tokens_in_interval (ts : List OTok) (h : OffChain ts) (hin : ∀ i (hi : i < ts.length), ts[i].s < ts[i].e)
    (lo hi : Nat) (hlt : lo < hi) (hhi : hi ≤ ts.length) (k : Nat) (hk : k < ts.length) :
    (ts[lo].s ≤ ts[k].s ∧ ts[k].e ≤ ts[hi - 1].e) ↔ (lo ≤ k ∧ k < hi) := by
  constructor
  · intro ⟨h1, h2⟩
    constructor
    · by_cases hc : lo ≤ k
      · exact hc
      · have a := offChain_get_lt ts h k lo hk (by omega) (by omega)
        have b := hin k hk
        omega
    · by_cases hc : k < hi
      · exact hc
      · have a := offChain_get_lt ts h (hi - 1) k (by omega) hk (by omega)
        have b := hin k hk
        omega
  · intro ⟨h1, h2⟩
    exact ⟨offChain_s_le ts h hin lo k (by omega) hk h1, offChain_e_le ts h hin k (hi - 1) hk (by omega) (by omega)⟩

theorem getElem_map_tokSpan (src : Str) (ts : List OTok) (k : Nat) (hk : k < ts.length) :
    (ts.map (tokSpan src))[k]'(by simpa using hk) = ⟨posOf src ts[k].s, posOf src ts[k].e⟩ := by
  simp [tokSpan]

/-- the recorded span of a tree over tokens `[lo, hi)`, spelled out -/
theorem spanOf_tokSpan (src : Str) (ts : List OTok) (lo hi : Nat) (hlt : lo < hi) (hhi : hi ≤ ts.length) :
    spanOf (ts.map (tokSpan src)) lo hi = some ⟨posOf src (ts[lo]'(by omega)).s, posOf src (ts[hi - 1]'(by omega)).e⟩ := by
  rw [spanOf_some _ lo hi hlt (by simpa using hhi)]
  simp [tokSpan]

/-- membership in the driver's offset list = the defining property of the region -/
theorem mem_zipIdx_filterMap {α : Type} (xs : List α) (q : α → Prop) [DecidablePred q] (k : Nat) :
    k ∈ (xs.zipIdx.filterMap fun (x, i) => if q x then some i else none) ↔ ∃ h : k < xs.length, q xs[k] := by
  simp only [List.mem_filterMap, Prod.exists]
  constructor
  · rintro ⟨x, i, hm, hq⟩
    split at hq
    · rename_i hqx
      simp only [Option.some.injEq] at hq
      subst hq
      obtain ⟨_, hi, hx⟩ := List.mem_zipIdx hm
      simp at hi hx
      exact ⟨hi, hx ▸ hqx⟩
    · cases hq
  · rintro ⟨hk, hq⟩
    refine ⟨xs[k], k, ?_, by simp [hq]⟩
    rw [List.mem_zipIdx_iff_getElem?]
    simp [hk]

theorem length_posScan (p : P) (s : Str) : (posScan p s).length = s.length + 1 := by
  induction s generalizing p with
  | nil => rfl
  | cons c cs ih => simp [posScan, ih]

theorem mem_regionList (src : Str) (sp : TSpan) (k : Nat) :
    k ∈ ((posScan ⟨1, 1⟩ src).dropLast.zipIdx.filterMap fun (p, i) => if sp.b ≤ p ∧ p < sp.e then some i else none)
      ↔ (k < src.length ∧ inRegion src sp k) := by
  rw [mem_zipIdx_filterMap (posScan ⟨1, 1⟩ src).dropLast (fun p => sp.b ≤ p ∧ p < sp.e) k]
  have hl : (posScan ⟨1, 1⟩ src).dropLast.length = src.length := by simp [length_posScan]
  constructor
  · rintro ⟨hk, hq⟩
    have hk' : k < src.length := by omega
    refine ⟨hk', ?_⟩
    have hg : (posScan ⟨1, 1⟩ src).dropLast[k] = posOf src k := by
      rw [List.getElem_dropLast]
      have := posScan_get ⟨1, 1⟩ src k (by omega)
      rw [List.getElem?_eq_getElem (by simp [length_posScan]; omega)] at this
      simpa [posOf] using this
    rw [hg] at hq
    exact hq
  · rintro ⟨hk, hq⟩
    refine ⟨by omega, ?_⟩
    have hg : (posScan ⟨1, 1⟩ src).dropLast[k]'(by omega) = posOf src k := by
      rw [List.getElem_dropLast]
      have := posScan_get ⟨1, 1⟩ src k (by omega)
      rw [List.getElem?_eq_getElem (by simp [length_posScan]; omega)] at this
      simpa [posOf] using this
    rw [hg]
    exact hq

/-! ### a position names a character of a line of `readlines` (ties the position arithmetic to the renderer's line loading) -/

open Tranp.Quote in
theorem readlines_head (c : Char) (cs : Str) : ∃ t rest, readlines (c :: cs) = (c :: t) :: rest := by
  simp only [readlines]
  split
  · exact ⟨[], _, rfl⟩
  · split
    · exact ⟨[], [], rfl⟩
    · exact ⟨_, _, rfl⟩

open Tranp.Quote in
/-- The position `q` computed for offset `k` (counting from position `p` at the head of `s`) names the piece of `readlines s`
    and the index inside that piece where the character `s[k]` stands. -/
theorem posFrom_char (p : P) (s : Str) (k : Nat) (hk : k < s.length) (q : P) (hq : posFrom p s k = q) :
    p.line ≤ q.line
    ∧ (q.line = p.line → p.col ≤ q.col)
    ∧ (q.line ≠ p.line → 1 ≤ q.col)
    ∧ ∃ l, (readlines s)[(q.line - p.line).toNat]? = some l
        ∧ l[(q.col - (if q.line = p.line then p.col else 1)).toNat]? = s[k]? := by
  induction s generalizing p k with
  | nil => simp at hk
  | cons c cs ih =>
    cases k with
    | zero =>
      obtain ⟨t, rest, hr⟩ := readlines_head c cs
      simp only [posFrom] at hq
      subst hq
      refine ⟨by omega, by intro _; omega, by intro h; exact absurd rfl h, c :: t, ?_, ?_⟩
      · simp [hr]
      · simp
    | succ k =>
      have hk' : k < cs.length := by simpa using hk
      simp only [posFrom] at hq
      obtain ⟨h1, h2, h3, l, hl, hc⟩ := ih (advance p c) k hk' hq
      simp only [List.getElem?_cons_succ]
      by_cases hn : c = '\n'
      · have hp : advance p c = ⟨p.line + 1, 1⟩ := by simp [advance, hn]
        rw [hp] at h1 h2 h3 hl hc
        simp only at h1 h2 h3 hl hc
        have hne : q.line ≠ p.line := by omega
        refine ⟨by omega, by omega, ?_, l, ?_, ?_⟩
        · intro _
          by_cases he : q.line = p.line + 1
          · have := h2 he; omega
          · exact h3 he
        · have hidx : (q.line - p.line).toNat = (q.line - (p.line + 1)).toNat + 1 := by omega
          simp only [readlines, hn, if_true, hidx, List.getElem?_cons_succ]
          exact hl
        · simp only [hne, if_false]
          have : (if q.line = p.line + 1 then (1 : Int) else 1) = 1 := by split <;> rfl
          rw [this] at hc
          exact hc
      · have hp : advance p c = ⟨p.line, p.col + 1⟩ := by simp [advance, hn]
        rw [hp] at h1 h2 h3 hl hc
        simp only at h1 h2 h3 hl hc
        obtain ⟨c2, cs2, hcs⟩ : ∃ c2 cs2, cs = c2 :: cs2 := by
          cases cs with
          | nil => simp at hk'
          | cons a b => exact ⟨a, b, rfl⟩
        obtain ⟨t, rest, hr⟩ := readlines_head c2 cs2
        rw [← hcs] at hr
        have hrl : readlines (c :: cs) = (c :: c2 :: t) :: rest := by
          simp only [readlines, hn, if_false, hr]
        by_cases he : q.line = p.line
        · have hcol := h2 he
          refine ⟨by omega, by intro _; omega, by intro h; exact absurd he h, c :: c2 :: t, ?_, ?_⟩
          · simp [hrl, he]
          · simp only [he, if_true] at hc ⊢
            have hz : (p.line - p.line).toNat = 0 := by omega
            rw [he, hz, hr] at hl
            simp only [List.getElem?_cons_zero, Option.some.injEq] at hl
            subst hl
            have hidx : (q.col - p.col).toNat = (q.col - (p.col + 1)).toNat + 1 := by omega
            rw [hidx, List.getElem?_cons_succ]
            exact hc
        · refine ⟨by omega, by intro h; exact absurd h he, by intro _; exact h3 he, l, ?_, ?_⟩
          · obtain ⟨m, hm⟩ : ∃ m, (q.line - p.line).toNat = m + 1 := ⟨(q.line - p.line).toNat - 1, by omega⟩
            rw [hm, hr] at hl
            rw [hm, hrl]
            simpa using hl
          · simp only [he, if_false] at hc ⊢
            exact hc

open Tranp.Quote in
/-- every piece of `readlines` is a run of non-line-feed characters, possibly closed by one line feed -/
theorem readlines_pieces (c : Str) : ∀ raw ∈ readlines c, ∃ body : Str, '\n' ∉ body ∧ (raw = body ∨ raw = body ++ ['\n']) := by
  induction c with
  | nil => intro raw h; simp [readlines] at h
  | cons x xs ih =>
    intro raw h
    by_cases hx : x = '\n'
    · simp only [readlines, hx, if_true, List.mem_cons] at h
      rcases h with h | h
      · exact ⟨[], by simp, Or.inr (by simp [h])⟩
      · exact ih raw h
    · simp only [readlines, hx, if_false] at h
      cases hr : readlines xs with
      | nil =>
        rw [hr] at h
        simp only [List.mem_singleton] at h
        exact ⟨[x], by simp; exact fun e => hx e.symm, Or.inl h⟩
      | cons l ls =>
        rw [hr] at h ih
        simp only [List.mem_cons] at h
        rcases h with h | h
        · obtain ⟨body, hb, hraw⟩ := ih l (by simp)
          refine ⟨x :: body, ?_, ?_⟩
          · simp only [List.mem_cons, not_or]; exact ⟨fun e => hx e.symm, hb⟩
          · rcases hraw with e | e
            · exact Or.inl (by rw [h, e])
            · exact Or.inr (by rw [h, e]; rfl)
        · exact ih raw (by simp [h])

open Tranp.Quote in
theorem dropNl_of_body (body : Str) (hb : '\n' ∉ body) : dropNl body = body ∧ dropNl (body ++ ['\n']) = body := by
  have h1 : dropNl body = body := by
    unfold dropNl
    apply List.filter_eq_self.mpr
    intro a ha
    simp only [bne_iff_ne, ne_eq]
    intro e; subst e; exact hb ha
  refine ⟨h1, ?_⟩
  unfold dropNl at h1 ⊢
  rw [List.filter_append, h1]
  simp

open Tranp.Quote in
/-- a character other than the line feed keeps its index when the line is loaded (`replace('\n', '')`, tab → blank) -/
theorem loaded_char (c raw : Str) (hraw : raw ∈ readlines c) (i : Nat) (ch : Char) (hch : raw[i]? = some ch) (hnl : ch ≠ '\n') :
    (tabToSpace (dropNl raw))[i]? = some (if ch = '\t' then ' ' else ch) := by
  obtain ⟨body, hb, hr⟩ := readlines_pieces c raw hraw
  obtain ⟨d1, d2⟩ := dropNl_of_body body hb
  have hbody : body[i]? = some ch := by
    rcases hr with e | e
    · rw [← e]; exact hch
    · rw [e] at hch
      by_cases hi : i < body.length
      · rwa [List.getElem?_append_left hi] at hch
      · rw [List.getElem?_append_right (by omega)] at hch
        cases hj : i - body.length with
        | zero => rw [hj] at hch; simp at hch; exact absurd hch.symm hnl
        | succ j => rw [hj] at hch; simp at hch
  have hd : dropNl raw = body := by
    rcases hr with e | e
    · rw [e]; exact d1
    · rw [e]; exact d2
  rw [hd, getElem?_tabToSpace, hbody]
  rfl

open Tranp.Quote in
/-- the position of a character of the text: line and column are at least 1, the line is a piece of `readlines`, and the
    character stands at index `col − 1` of that piece -/
theorem posOf_char (src : Str) (k : Nat) (hk : k < src.length) :
    1 ≤ (posOf src k).line ∧ 1 ≤ (posOf src k).col
    ∧ ∃ raw, (readlines src)[((posOf src k).line - 1).toNat]? = some raw ∧ raw[((posOf src k).col - 1).toNat]? = src[k]? := by
  obtain ⟨h1, h2, h3, raw, hraw, hc⟩ := posFrom_char ⟨1, 1⟩ src k hk (posOf src k) rfl
  simp only at h1 h2 h3 hraw hc
  have hcol : 1 ≤ (posOf src k).col := by
    by_cases he : (posOf src k).line = 1
    · exact h2 he
    · exact h3 he
  have hbase : (if (posOf src k).line = 1 then (1 : Int) else 1) = 1 := by split <;> rfl
  rw [hbase] at hc
  exact ⟨h1, hcol, raw, hraw, hc⟩

end Tranp.Hull
