/-
  Helper lemmas for property C18 (fragment splitting helpers), part 1: skip, break_separator, break_last_block, decorator, parameter. Property theorems: Tranp/Props/C18.lean.
-/
import Tranp.Model.Block

namespace Tranp.Block
open Tranp Tranp.Generated.BlockPairs

/-! ### the pair table -/

/-- The generated table is the four bracket kinds followed by the two quote kinds. -/
theorem allPairs_eq :
    allPairs = [(BK.sq.open, BK.sq.close), (BK.par.open, BK.par.close), (BK.cur.open, BK.cur.close),
      (BK.ang.open, BK.ang.close), (QK.dq.ch, QK.dq.ch), (QK.sq.ch, QK.sq.ch)] := by decide

theorem special_eq : Frag.special = ['[', ']', '(', ')', '{', '}', '<', '>', '"', '"', '\'', '\''] := by decide

theorem classify_none_of_not_mem (ps : List (Char × Char)) (c : Char) (h : has (tokChars ps) c = false) :
    classify ps c = .none := by
  induction ps with
  | nil => rfl
  | cons p ps ih =>
    obtain ⟨o, cl⟩ := p
    simp only [has, tokChars, List.flatMap_cons, List.contains_eq_mem, List.mem_append, List.mem_cons,
      List.not_mem_nil, or_false, decide_eq_false_iff_not, not_or] at h ih
    simp only [classify]
    rw [if_neg h.1.1, if_neg h.1.2]
    exact ih h.2

theorem classify_special (c : Char) (h : has Frag.special c = false) : classify allPairs c = .none :=
  classify_none_of_not_mem allPairs c h

theorem classify_open (k : BK) : classify allPairs k.open = .opener k.close := by cases k <;> decide
theorem classify_close (k : BK) : classify allPairs k.close = .closer := by cases k <;> decide
theorem classify_quote (q : QK) : classify allPairs q.ch = .opener q.ch := by cases q <;> decide

/-! ### `skipStep` on the characters of a fragment -/

/-- a stack that holds closers of bracket groups only -/
abbrev closers (ks : List BK) : List Char := ks.map BK.close

theorem close_ne_open (k k' : BK) : k.close ≠ k'.open := by cases k <;> cases k' <;> decide
theorem close_ne_quote (k : BK) (q : QK) : k.close ≠ q.ch := by cases k <;> cases q <;> decide

theorem head_closers_ne_open (ks : List BK) (k : BK) : (closers ks).head? ≠ some k.open := by
  cases ks with
  | nil => simp
  | cons k' ks => simp [close_ne_open]

theorem head_closers_ne_quote (ks : List BK) (q : QK) : (closers ks).head? ≠ some q.ch := by
  cases ks with
  | nil => simp
  | cons k' ks => simp [close_ne_quote]

theorem head_closers_not_quote (ks : List BK) : ((closers ks).head?.map isQuoteChar).getD false = false := by
  cases ks with
  | nil => rfl
  | cons k ks => cases k <;> rfl

theorem quote_isQuoteChar (q : QK) : isQuoteChar q.ch = true := by cases q <;> rfl

theorem skipStep_plain (st : List Char) (c : Char) (h : has Frag.special c = false) :
    skipStep allPairs st c = st := by
  simp [skipStep, classify_special c h]

theorem skipStep_open (ks : List BK) (k : BK) :
    skipStep allPairs (closers ks) k.open = closers (k :: ks) := by
  simp only [skipStep, classify_open, if_neg (head_closers_ne_open ks k), head_closers_not_quote]
  rfl

theorem skipStep_close (st : List Char) (k : BK) : skipStep allPairs (k.close :: st) k.close = st := by
  simp [skipStep, classify_close]

theorem skipStep_quote_push (ks : List BK) (q : QK) :
    skipStep allPairs (closers ks) q.ch = q.ch :: closers ks := by
  simp only [skipStep, classify_quote, if_neg (head_closers_ne_quote ks q), head_closers_not_quote]
  rfl

theorem skipStep_quote_pop (st : List Char) (q : QK) : skipStep allPairs (q.ch :: st) q.ch = st := by
  simp [skipStep, classify_quote]

/-- inside a string (its quote on top of the stack) every character except that quote leaves the stack alone -/
theorem skipStep_in_string (toks : List (Char × Char)) (st : List Char) (q : QK) (c : Char) (hc : c ≠ q.ch) :
    skipStep toks (q.ch :: st) c = q.ch :: st := by
  unfold skipStep
  split
  · rfl
  · have : ¬ (some q.ch = some c) := fun h => hc (Option.some.inj h).symm
    simp [this, quote_isQuoteChar]

/-! ### destructuring `Simple` -/

@[simp] theorem simple_nil : Frag.Simple .nil := by simp [Frag.Simple, Frag.wf]

@[simp] theorem simple_atom (c : Char) (r : Frag) :
    Frag.Simple (.atom c r) ↔ has Frag.special c = false ∧ Frag.Simple r := by
  simp [Frag.Simple, Frag.wf]

@[simp] theorem simple_str (q : QK) (b : Str) (r : Frag) :
    Frag.Simple (.str q b r) ↔ (∀ c ∈ b, c ≠ q.ch) ∧ Frag.Simple r := by
  simp [Frag.Simple, Frag.wf]

@[simp] theorem simple_group (k : BK) (i r : Frag) :
    Frag.Simple (.group k i r) ↔ Frag.Simple i ∧ Frag.Simple r := by
  simp [Frag.Simple, Frag.wf]

/-! ### `skipLen` across fragments -/

theorem skipLen_cons (toks : List (Char × Char)) (st : List Char) (c : Char) (cs : Str) :
    skipLen toks st (c :: cs) =
      if (skipStep toks st c).isEmpty then 1 else 1 + skipLen toks (skipStep toks st c) cs := rfl

theorem skipLen_body (q : QK) (st : List Char) (b rest : Str) (hb : ∀ c ∈ b, c ≠ q.ch) :
    skipLen allPairs (q.ch :: st) (b ++ rest) = b.length + skipLen allPairs (q.ch :: st) rest := by
  induction b with
  | nil => simp
  | cons c b ih =>
    have hc := hb c (by simp)
    have hb' : ∀ c ∈ b, c ≠ q.ch := fun c hc => hb c (by simp [hc])
    simp only [List.cons_append, skipLen_cons, skipStep_in_string allPairs st q c hc, List.isEmpty_cons,
      Bool.false_eq_true, if_false, ih hb', List.length_cons]
    omega

theorem closers_ne_nil {ks : List BK} (h : ks ≠ []) : closers ks ≠ [] := by
  cases ks with
  | nil => exact absurd rfl h
  | cons k ks => simp

/-- Inside a skip (non-empty stack of group closers) a fragment (simple strings with any content) is consumed completely and leaves the stack as it was. -/
theorem skipLen_frag (f : Frag) : ∀ (ks : List BK) (rest : Str), ks ≠ [] → Frag.Simple f →
    skipLen allPairs (closers ks) (f.render ++ rest) = f.render.length + skipLen allPairs (closers ks) rest := by
  induction f with
  | nil => intro ks rest _ _; simp [Frag.render]
  | atom c r ih =>
    intro ks rest hks hc
    rw [simple_atom] at hc
    simp only [Frag.render, List.cons_append, skipLen_cons, skipStep_plain _ c hc.1, List.isEmpty_iff,
      closers_ne_nil hks, if_false, ih ks rest hks hc.2, List.length_cons]
    omega
  | str q b r ih =>
    intro ks rest hks hc
    rw [simple_str] at hc
    simp only [Frag.render, List.cons_append, List.append_assoc, skipLen_cons, skipStep_quote_push,
      List.isEmpty_cons, Bool.false_eq_true, if_false, skipLen_body q _ b _ hc.1, skipStep_quote_pop,
      List.isEmpty_iff, closers_ne_nil hks, ih ks rest hks hc.2, List.length_cons, List.length_append]
    omega
  | group k i r ihi ihr =>
    intro ks rest hks hc
    rw [simple_group] at hc
    have h1 : k :: ks ≠ [] := by simp
    have h2 : closers (k :: ks) = k.close :: closers ks := rfl
    simp only [Frag.render, List.cons_append, List.append_assoc, skipLen_cons, skipStep_open,
      List.isEmpty_iff, closers_ne_nil h1, if_false, ihi (k :: ks) _ h1 hc.1]
    rw [h2, skipStep_close]
    simp only [closers_ne_nil hks, if_false, ihr ks rest hks hc.2, List.length_cons,
      List.length_append]
    omega

/-- `_skip_other_block` started on the opening bracket of a group stops right behind its closing bracket. -/
theorem skipLen_group (k : BK) (i : Frag) (rest : Str) (hi : Frag.Simple i) :
    skipLen allPairs [] (k.open :: (i.render ++ k.close :: rest)) = i.render.length + 2 := by
  have h0 : ([] : List Char) = closers [] := rfl
  have h1 : [k] ≠ [] := by simp
  have h2 : closers [k] = [k.close] := rfl
  rw [skipLen_cons, h0, skipStep_open]
  simp only [List.isEmpty_iff, closers_ne_nil h1, if_false, skipLen_frag i [k] _ h1 hi]
  rw [h2, skipLen_cons, skipStep_close]
  simp
  omega

/-- … and on the opening quote of a simple string right behind the closing quote. -/
theorem skipLen_str (q : QK) (b rest : Str) (hb : ∀ c ∈ b, c ≠ q.ch) :
    skipLen allPairs [] (q.ch :: (b ++ q.ch :: rest)) = b.length + 2 := by
  have h0 : ([] : List Char) = closers [] := rfl
  have h1 : [q.ch] ≠ [] := by simp
  rw [skipLen_cons, h0, skipStep_quote_push]
  simp only [List.isEmpty_cons, Bool.false_eq_true, if_false]
  have : closers [] = [] := rfl
  rw [this, skipLen_body q _ b _ hb, skipLen_cons, skipStep_quote_pop]
  simp
  omega

/-! ### `break_separator` on a fragment -/

/-- accumulator form of `sepSpec`: `cur` is the text of the current piece so far (`text[begin:index]`). -/
def specGo (d : Char) : Frag → Str → List Str
  | .nil, cur => if cur = [] then [] else [strip cur]
  | .atom c r, cur => if c = d ∧ r ≠ .nil then strip cur :: specGo d r [] else specGo d r (cur ++ [c])
  | .str q b r, cur => specGo d r (cur ++ q.ch :: (b ++ [q.ch]))
  | .group k i r, cur => specGo d r (cur ++ k.open :: (i.render ++ [k.close]))

theorem openTokens_eq : openTokens = ['[', '(', '{', '<', '"', '\''] := by decide

theorem not_open_of_plain (c : Char) (h : has Frag.special c = false) : has openTokens c = false := by
  simp only [has, special_eq, openTokens_eq, List.contains_eq_mem, List.mem_cons, List.not_mem_nil,
    or_false, decide_eq_false_iff_not, not_or] at h ⊢
  grind

theorem open_bk (k : BK) : has openTokens k.open = true := by cases k <;> decide
theorem open_qk (q : QK) : has openTokens q.ch = true := by cases q <;> decide

theorem render_eq_nil (f : Frag) : f.render = [] ↔ f = .nil := by
  cases f <;> simp [Frag.render]

theorem slice_prefix (pre post : Str) (b : Nat) : slice (pre ++ post) b pre.length = pre.drop b := by
  simp [slice]

theorem sepLoop_frag (d : Char) (f : Frag) :
    ∀ (pre : Str) (begin : Nat) (blocks : List Str) (fuel : Nat),
      begin ≤ pre.length → f.render.length < fuel → Frag.Simple f →
      sepLoop (pre ++ f.render) [d] fuel f.render pre.length begin blocks
        = .ok (blocks ++ specGo d f (pre.drop begin)) := by
  induction f with
  | nil =>
    intro pre begin blocks fuel hb hf _
    obtain ⟨n, rfl⟩ : ∃ n, fuel = n + 1 := ⟨fuel - 1, by omega⟩
    simp only [Frag.render, sepLoop, List.append_nil, specGo]
    have : slice pre begin pre.length = pre.drop begin := by simpa using slice_prefix pre [] begin
    rw [this]
    by_cases h : begin < pre.length
    · have : pre.drop begin ≠ [] := by simp; omega
      simp [h, this]
    · have : pre.drop begin = [] := by simp; omega
      simp [h, this]
  | atom c r ih =>
    intro pre begin blocks fuel hb hf hc
    obtain ⟨n, rfl⟩ : ∃ n, fuel = n + 1 := ⟨fuel - 1, by omega⟩
    rw [simple_atom] at hc
    have htext : pre ++ (Frag.atom c r).render = (pre ++ [c]) ++ r.render := by simp [Frag.render]
    have hlen : pre.length + 1 = (pre ++ [c]).length := by simp
    simp only [Frag.render, List.length_cons] at hf
    rw [htext]
    simp only [Frag.render, sepLoop, not_open_of_plain c hc.1, Bool.false_eq_true, if_false]
    by_cases hcut : c = d ∧ r ≠ .nil
    · have hr : 0 < r.render.length := by
        have := mt (render_eq_nil r).mp hcut.2
        exact List.length_pos_iff.mpr this
      have hcond : c = d ∧ pre.length + [d].length < (pre ++ [c] ++ r.render).length ∧ Str.startsWith (c :: r.render) [d] = true := by
        refine ⟨hcut.1, ?_, ?_⟩
        · simp; omega
        · simp [Str.startsWith, hcut.1]
      rw [if_pos hcond]
      have hs : slice (pre ++ [c] ++ r.render) begin pre.length = pre.drop begin := by
        rw [List.append_assoc]; exact slice_prefix pre _ begin
      rw [hs]
      have := ih (pre ++ [c]) (pre ++ [c]).length (blocks ++ [strip (pre.drop begin)]) n (Nat.le_refl _) (by omega) hc.2
      simp only [List.length_append, List.length_cons, List.length_nil] at this ⊢
      rw [this]
      simp [specGo, hcut]
    · have hcond : ¬ (c = d ∧ pre.length + [d].length < (pre ++ [c] ++ r.render).length ∧ Str.startsWith (c :: r.render) [d] = true) := by
        intro ⟨h1, h2, _⟩
        apply hcut
        refine ⟨h1, ?_⟩
        intro hr
        subst hr
        simp [Frag.render] at h2
      rw [if_neg hcond]
      have := ih (pre ++ [c]) begin blocks n (by simp; omega) (by omega) hc.2
      simp only [List.length_append, List.length_singleton] at this
      rw [this]
      have hdrop : (pre ++ [c]).drop begin = pre.drop begin ++ [c] := List.drop_append_of_le_length hb
      simp [specGo, hcut, hdrop]
  | str q b r ih =>
    intro pre begin blocks fuel hb hf hc
    obtain ⟨n, rfl⟩ : ∃ n, fuel = n + 1 := ⟨fuel - 1, by omega⟩
    rw [simple_str] at hc
    have hbody : ∀ c ∈ b, c ≠ q.ch := hc.1
    generalize hg : q.ch :: (b ++ [q.ch]) = g
    have hglen : g.length = b.length + 2 := by subst hg; simp
    have hrend : (Frag.str q b r).render = g ++ r.render := by subst hg; simp [Frag.render]
    have hskip : skipLen allPairs [] (g ++ r.render) = g.length := by
      rw [hglen]; subst hg; simpa using skipLen_str q b r.render hbody
    have hopen : ∃ c cs, g ++ r.render = c :: cs ∧ has openTokens c = true := by
      subst hg; exact ⟨q.ch, _, rfl, open_qk q⟩
    rw [hrend] at hf ⊢
    obtain ⟨c, cs, hcs, hco⟩ := hopen
    rw [← List.append_assoc]
    conv => lhs; arg 4; rw [hcs]
    simp only [sepLoop, hco, if_true]
    rw [← hcs, hskip, List.drop_left]
    have := ih (pre ++ g) begin blocks n (by simp; omega) (by simp at hf; omega) hc.2
    rw [List.length_append] at this
    rw [this, List.drop_append_of_le_length hb]
    subst hg
    simp [specGo]
  | group k i r ihi ihr =>
    intro pre begin blocks fuel hb hf hc
    obtain ⟨n, rfl⟩ : ∃ n, fuel = n + 1 := ⟨fuel - 1, by omega⟩
    rw [simple_group] at hc
    generalize hg : k.open :: (i.render ++ [k.close]) = g
    have hglen : g.length = i.render.length + 2 := by subst hg; simp
    have hrend : (Frag.group k i r).render = g ++ r.render := by subst hg; simp [Frag.render]
    have hskip : skipLen allPairs [] (g ++ r.render) = g.length := by
      rw [hglen]; subst hg; simpa using skipLen_group k i r.render hc.1
    have hopen : ∃ c cs, g ++ r.render = c :: cs ∧ has openTokens c = true := by
      subst hg; exact ⟨k.open, _, rfl, open_bk k⟩
    rw [hrend] at hf ⊢
    obtain ⟨c, cs, hcs, hco⟩ := hopen
    rw [← List.append_assoc]
    conv => lhs; arg 4; rw [hcs]
    simp only [sepLoop, hco, if_true]
    rw [← hcs, hskip, List.drop_left]
    have := ihr (pre ++ g) begin blocks n (by simp; omega) (by simp at hf; omega) hc.2
    rw [List.length_append] at this
    rw [this, List.drop_append_of_le_length hb]
    subst hg
    simp [specGo]

theorem breakSeparator_clean (d : Char) (f : Frag) (hf : Frag.Simple f) :
    breakSeparator f.render [d] = .ok (specGo d f []) := by
  have := sepLoop_frag d f [] 0 [] (f.render.length + 1) (by simp) (by omega) hf
  simpa [breakSeparator] using this

/-! ### from the accumulator form to `topSplit` -/

theorem topSplit_ne_nil (d : Char) (f : Frag) : f.topSplit d ≠ [] := by
  induction f with
  | nil => simp [Frag.topSplit]
  | atom c r ih =>
    simp only [Frag.topSplit]
    split
    · simp
    · split <;> simp
  | str q b r ih => simp only [Frag.topSplit]; split <;> simp
  | group k i r _ ih => simp only [Frag.topSplit]; split <;> simp

/-- pieces of a split whose first fragment continues the text `cur` -/
def headMap (cur : Str) : List Frag → List Str
  | [] => []
  | p :: ps => strip (cur ++ p.render) :: ps.map fun p => strip p.render

theorem headMap_nil (fs : List Frag) : headMap [] fs = fs.map fun p => strip p.render := by
  cases fs <;> simp [headMap]

theorem specGo_eq (d : Char) (f : Frag) : ∀ cur : Str,
    specGo d f cur = if cur = [] ∧ f = .nil then [] else headMap cur (f.topSplit d) := by
  induction f with
  | nil => intro cur; by_cases h : cur = [] <;> simp [specGo, Frag.topSplit, headMap, Frag.render, h]
  | atom c r ih =>
    intro cur
    simp only [specGo, Frag.topSplit]
    by_cases hcut : c = d ∧ r ≠ .nil
    · rw [if_pos hcut, if_pos hcut, ih []]
      rw [headMap_nil]
      simp [hcut.2, headMap, Frag.render]
    · rw [if_neg hcut, if_neg hcut, ih (cur ++ [c])]
      obtain ⟨p, ps, hps⟩ := List.exists_cons_of_ne_nil (topSplit_ne_nil d r)
      simp [hps, headMap, Frag.render]
  | str q b r ih =>
    intro cur
    simp only [specGo, Frag.topSplit]
    rw [ih]
    obtain ⟨p, ps, hps⟩ := List.exists_cons_of_ne_nil (topSplit_ne_nil d r)
    simp [hps, headMap, Frag.render]
  | group k i r _ ih =>
    intro cur
    simp only [specGo, Frag.topSplit]
    rw [ih]
    obtain ⟨p, ps, hps⟩ := List.exists_cons_of_ne_nil (topSplit_ne_nil d r)
    simp [hps, headMap, Frag.render]

theorem specGo_nil_eq_sepSpec (d : Char) (f : Frag) : specGo d f [] = sepSpec d f := by
  rw [specGo_eq, sepSpec, headMap_nil]; simp

/-! ### top-level structure: `append`, `join`, `topSplit` -/

@[simp] theorem nil_append (g : Frag) : (Frag.nil ++ g : Frag) = g := rfl
@[simp] theorem atom_append (c : Char) (r g : Frag) : (Frag.atom c r ++ g : Frag) = .atom c (r ++ g) := rfl
@[simp] theorem str_append (q : QK) (b : Str) (r g : Frag) : (Frag.str q b r ++ g : Frag) = .str q b (r ++ g) := rfl
@[simp] theorem group_append (k : BK) (i r g : Frag) : (Frag.group k i r ++ g : Frag) = .group k i (r ++ g) := rfl

theorem render_append (f g : Frag) : (f ++ g).render = f.render ++ g.render := by
  induction f with
  | nil => simp [Frag.render]
  | atom c r ih => simp [Frag.render, ih]
  | str q b r ih => simp [Frag.render, ih]
  | group k i r _ ih => simp [Frag.render, ih]

theorem render_join (d : Char) (fs : List Frag) : (Frag.join d fs).render = Str.join [d] (fs.map Frag.render) := by
  induction fs with
  | nil => simp [Frag.join, Str.join, Frag.render]
  | cons f fs ih =>
    cases fs with
    | nil => simp [Frag.join, Str.join]
    | cons g gs => simp [Frag.join, Str.join, render_append, Frag.render, ih]

theorem join_cons_atom (d c : Char) (p : Frag) (ps : List Frag) :
    Frag.join d (.atom c p :: ps) = .atom c (Frag.join d (p :: ps)) := by
  cases ps <;> simp [Frag.join]

theorem join_cons_str (d : Char) (q : QK) (b : Str) (p : Frag) (ps : List Frag) :
    Frag.join d (.str q b p :: ps) = .str q b (Frag.join d (p :: ps)) := by
  cases ps <;> simp [Frag.join]

theorem join_cons_group (d : Char) (k : BK) (i p : Frag) (ps : List Frag) :
    Frag.join d (.group k i p :: ps) = .group k i (Frag.join d (p :: ps)) := by
  cases ps <;> simp [Frag.join]

/-- The split is a decomposition of the fragment *at top level*: putting the delimiter back as a top-level atom between the
    pieces gives the fragment itself. -/
theorem join_topSplit (d : Char) (f : Frag) : Frag.join d (f.topSplit d) = f := by
  induction f with
  | nil => simp [Frag.topSplit, Frag.join]
  | atom c r ih =>
    obtain ⟨p, ps, hps⟩ := List.exists_cons_of_ne_nil (topSplit_ne_nil d r)
    simp only [Frag.topSplit]
    by_cases hcut : c = d ∧ r ≠ .nil
    · rw [if_pos hcut, hps, Frag.join, ← hps, ih]; simp [hcut.1]
    · rw [if_neg hcut, hps]; simp only []; rw [join_cons_atom, ← hps, ih]
  | str q b r ih =>
    obtain ⟨p, ps, hps⟩ := List.exists_cons_of_ne_nil (topSplit_ne_nil d r)
    simp only [Frag.topSplit, hps]; rw [join_cons_str, ← hps, ih]
  | group k i r _ ih =>
    obtain ⟨p, ps, hps⟩ := List.exists_cons_of_ne_nil (topSplit_ne_nil d r)
    simp only [Frag.topSplit, hps]; rw [join_cons_group, ← hps, ih]

theorem simple_topSplit (d : Char) (f : Frag) (hf : Frag.Simple f) : ∀ p ∈ f.topSplit d, Frag.Simple p := by
  induction f with
  | nil => simp [Frag.topSplit]
  | atom c r ih =>
    rw [simple_atom] at hf
    obtain ⟨p, ps, hps⟩ := List.exists_cons_of_ne_nil (topSplit_ne_nil d r)
    have ih := ih hf.2
    rw [hps] at ih
    simp only [Frag.topSplit, hps]
    split
    · intro x hx
      simp only [List.mem_cons] at hx ih
      rcases hx with rfl | hx
      · simp
      · exact ih x hx
    · intro x hx
      simp only [List.mem_cons] at hx ih
      rcases hx with rfl | hx
      · rw [simple_atom]; exact ⟨hf.1, ih p (Or.inl rfl)⟩
      · exact ih x (Or.inr hx)
  | str q b r ih =>
    rw [simple_str] at hf
    obtain ⟨p, ps, hps⟩ := List.exists_cons_of_ne_nil (topSplit_ne_nil d r)
    have ih := ih hf.2
    rw [hps] at ih
    simp only [Frag.topSplit, hps]
    intro x hx
    simp only [List.mem_cons] at hx ih
    rcases hx with rfl | hx
    · rw [simple_str]; exact ⟨hf.1, ih p (Or.inl rfl)⟩
    · exact ih x (Or.inr hx)
  | group k i r _ ih =>
    rw [simple_group] at hf
    obtain ⟨p, ps, hps⟩ := List.exists_cons_of_ne_nil (topSplit_ne_nil d r)
    have ih := ih hf.2
    rw [hps] at ih
    simp only [Frag.topSplit, hps]
    intro x hx
    simp only [List.mem_cons] at hx ih
    rcases hx with rfl | hx
    · rw [simple_group]; exact ⟨hf.1, ih p (Or.inl rfl)⟩
    · exact ih x (Or.inr hx)

/-! ### `strip(' ')` of a rendered fragment is a rendered fragment -/

theorem lstripBy_append_single (p : Char → Bool) (a : Str) (c : Char) :
    Str.lstripBy p (a ++ [c]) =
      if Str.lstripBy p a = [] then (if p c then [] else [c]) else Str.lstripBy p a ++ [c] := by
  induction a with
  | nil => simp [Str.lstripBy]
  | cons x a ih =>
    simp only [List.cons_append, Str.lstripBy]
    by_cases hx : p x
    · simp [hx, ih]
    · simp [hx]

theorem rstripBy_cons (p : Char → Bool) (c : Char) (s : Str) :
    Str.rstripBy p (c :: s) = if Str.rstripBy p s = [] ∧ p c then [] else c :: Str.rstripBy p s := by
  simp only [Str.rstripBy, List.reverse_cons, lstripBy_append_single, List.reverse_eq_nil_iff]
  by_cases h : Str.lstripBy p s.reverse = []
  · by_cases hc : p c <;> simp [h, hc]
  · simp [h]

theorem rstripBy_nil (p : Char → Bool) : Str.rstripBy p [] = [] := by simp [Str.rstripBy, Str.lstripBy]

theorem rstripBy_append_keep (p : Char → Bool) (a : Str) (c : Char) (s : Str) (hc : p c = false) :
    Str.rstripBy p (a ++ c :: s) = a ++ c :: Str.rstripBy p s := by
  induction a with
  | nil => simp [rstripBy_cons, hc]
  | cons x a ih => simp [rstripBy_cons, ih]

namespace Frag

/-- drop leading top-level blanks -/
def lstrip : Frag → Frag
  | atom c r => if c = ' ' then lstrip r else atom c r
  | f => f

/-- drop trailing top-level blanks -/
def rstrip : Frag → Frag
  | nil => nil
  | atom c r => if rstrip r = nil ∧ c = ' ' then nil else atom c (rstrip r)
  | str q b r => str q b (rstrip r)
  | group k i r => group k i (rstrip r)

end Frag

theorem quote_ne_blank (q : QK) : q.ch ≠ ' ' := by cases q <;> decide
theorem open_ne_blank (k : BK) : k.open ≠ ' ' := by cases k <;> decide
theorem close_ne_blank (k : BK) : k.close ≠ ' ' := by cases k <;> decide

theorem render_lstrip (f : Frag) : f.lstrip.render = Str.lstripBy (fun c => c = ' ') f.render := by
  induction f with
  | nil => simp [Frag.lstrip, Frag.render, Str.lstripBy]
  | atom c r ih =>
    by_cases h : c = ' ' <;> simp [Frag.lstrip, Frag.render, Str.lstripBy, h, ih]
  | str q b r _ => simp [Frag.lstrip, Frag.render, Str.lstripBy, quote_ne_blank]
  | group k i r _ _ => simp [Frag.lstrip, Frag.render, Str.lstripBy, open_ne_blank]

theorem render_rstrip (f : Frag) : f.rstrip.render = Str.rstripBy (fun c => c = ' ') f.render := by
  induction f with
  | nil => simp [Frag.rstrip, Frag.render, rstripBy_nil]
  | atom c r ih =>
    simp only [Frag.rstrip, Frag.render, rstripBy_cons, ← ih, render_eq_nil, decide_eq_true_eq]
    split <;> simp [Frag.render]
  | str q b r ih =>
    have h1 : (fun c => decide (c = ' ')) q.ch = false := by simp [quote_ne_blank]
    have := rstripBy_append_keep (fun c => decide (c = ' ')) (q.ch :: b) q.ch r.render h1
    simp only [List.cons_append] at this
    simp [Frag.rstrip, Frag.render, this, ih]
  | group k i r _ ih =>
    have h1 : (fun c => decide (c = ' ')) k.close = false := by simp [close_ne_blank]
    have := rstripBy_append_keep (fun c => decide (c = ' ')) (k.open :: i.render) k.close r.render h1
    simp only [List.cons_append] at this
    simp [Frag.rstrip, Frag.render, this, ih]

theorem simple_lstrip (f : Frag) (hf : Frag.Simple f) : Frag.Simple f.lstrip := by
  induction f with
  | nil => simp [Frag.lstrip]
  | atom c r ih =>
    rw [simple_atom] at hf
    by_cases h : c = ' '
    · simpa [Frag.lstrip, h] using ih hf.2
    · simp [Frag.lstrip, h, hf.1, hf.2]
  | str q b r _ => simpa [Frag.lstrip] using hf
  | group k i r _ _ => simpa [Frag.lstrip] using hf

theorem simple_rstrip (f : Frag) (hf : Frag.Simple f) : Frag.Simple f.rstrip := by
  induction f with
  | nil => simp [Frag.rstrip]
  | atom c r ih =>
    rw [simple_atom] at hf
    simp only [Frag.rstrip]
    split
    · simp
    · rw [simple_atom]; exact ⟨hf.1, ih hf.2⟩
  | str q b r ih => rw [simple_str] at hf; simp only [Frag.rstrip]; rw [simple_str]; exact ⟨hf.1, ih hf.2⟩
  | group k i r _ ih => rw [simple_group] at hf; simp only [Frag.rstrip]; rw [simple_group]; exact ⟨hf.1, ih hf.2⟩

/-- A stripped piece of a fragment is again (the text of) a fragment. -/
theorem strip_render (f : Frag) : strip f.render = f.lstrip.rstrip.render := by
  simp [strip, Str.stripBy, render_rstrip, render_lstrip]

/-! ### `break_last_block` -/

@[simp] theorem cleanFor_nil (k : BK) : Frag.CleanFor k .nil := by simp [Frag.CleanFor, Frag.wf]

@[simp] theorem cleanFor_atom (k : BK) (c : Char) (r : Frag) :
    Frag.CleanFor k (.atom c r) ↔ has Frag.special c = false ∧ Frag.CleanFor k r := by
  simp [Frag.CleanFor, Frag.wf]

@[simp] theorem cleanFor_str (k : BK) (q : QK) (b : Str) (r : Frag) :
    Frag.CleanFor k (.str q b r) ↔ (∀ c ∈ b, c ≠ q.ch ∧ c ≠ k.open ∧ c ≠ k.close) ∧ Frag.CleanFor k r := by
  simp [Frag.CleanFor, Frag.wf]

@[simp] theorem cleanFor_group (k k' : BK) (i r : Frag) :
    Frag.CleanFor k (.group k' i r) ↔ Frag.CleanFor k i ∧ Frag.CleanFor k r := by
  simp [Frag.CleanFor, Frag.wf]

theorem lastLoop_other (o cl c : Char) (cs : Str) (i b s : Nat) (R : List (Nat × Nat)) (h1 : c ≠ o) (h2 : c ≠ cl) :
    lastLoop o cl (c :: cs) i b s R = lastLoop o cl cs (i + 1) b s R := by
  simp [lastLoop, h1, h2]

theorem lastLoop_run (o cl : Char) (body rest : Str) (hb : ∀ c ∈ body, c ≠ o ∧ c ≠ cl) :
    ∀ (i b s : Nat) (R : List (Nat × Nat)),
      lastLoop o cl (body ++ rest) i b s R = lastLoop o cl rest (i + body.length) b s R := by
  induction body with
  | nil => intro i b s R; simp
  | cons c body ih =>
    intro i b s R
    have hc := hb c (by simp)
    rw [List.cons_append, lastLoop_other o cl c _ i b s R hc.1 hc.2, ih (fun c h => hb c (by simp [h]))]
    simp only [List.length_cons]
    congr 1; omega

theorem plain_ne_bk (c : Char) (k : BK) (h : has Frag.special c = false) : c ≠ k.open ∧ c ≠ k.close := by
  simp only [has, special_eq, List.contains_eq_mem, List.mem_cons, List.not_mem_nil, or_false,
    decide_eq_false_iff_not, not_or] at h
  cases k <;> simp [BK.open, BK.close] <;> grind

theorem quote_ne_bk (q : QK) (k : BK) : q.ch ≠ k.open ∧ q.ch ≠ k.close := by cases q <;> cases k <;> decide

theorem bk_ne_of_ne (k k' : BK) (h : k' ≠ k) :
    k'.open ≠ k.open ∧ k'.open ≠ k.close ∧ k'.close ≠ k.open ∧ k'.close ≠ k.close := by
  cases k <;> cases k' <;> first | exact absurd rfl h | decide

theorem open_ne_close (k : BK) : k.open ≠ k.close := by cases k <;> decide

/-- Scanning a fragment whose strings are free of the brackets of kind `k` returns to the depth it started from;
    started inside a group (`stack > 0`) it records nothing. -/
theorem lastLoop_frag (k : BK) (f : Frag) : ∀ (rest : Str) (i b s : Nat) (R : List (Nat × Nat)), Frag.CleanFor k f →
    ∃ b' R', lastLoop k.open k.close (f.render ++ rest) i b s R
        = lastLoop k.open k.close rest (i + f.render.length) b' s (R ++ R') ∧ (0 < s → b' = b ∧ R' = []) := by
  induction f with
  | nil => intro rest i b s R _; exact ⟨b, [], by simp [Frag.render], fun _ => ⟨rfl, rfl⟩⟩
  | atom c r ih =>
    intro rest i b s R hf
    rw [cleanFor_atom] at hf
    obtain ⟨b', R', h1, h2⟩ := ih rest (i + 1) b s R hf.2
    refine ⟨b', R', ?_, h2⟩
    have hc := plain_ne_bk c k hf.1
    simp only [Frag.render, List.cons_append, lastLoop_other _ _ c _ i b s R hc.1 hc.2, h1, List.length_cons]
    congr 1; omega
  | str q body r ih =>
    intro rest i b s R hf
    rw [cleanFor_str] at hf
    have hq := quote_ne_bk q k
    have hbody : ∀ c ∈ body, c ≠ k.open ∧ c ≠ k.close := fun c h => (hf.1 c h).2
    obtain ⟨b', R', h1, h2⟩ := ih rest (i + 1 + body.length + 1) b s R hf.2
    refine ⟨b', R', ?_, h2⟩
    simp only [Frag.render, List.cons_append, List.append_assoc, lastLoop_other _ _ q.ch _ _ b s R hq.1 hq.2,
      lastLoop_run _ _ body _ hbody, h1, List.length_cons, List.length_append]
    congr 1; omega
  | group k' inner r ihi ihr =>
    intro rest i b s R hf
    rw [cleanFor_group] at hf
    by_cases hk : k' = k
    · subst hk
      have hoc := open_ne_close k'
      by_cases hs : s = 0
      · subst hs
        -- opening bracket at depth 0: begin := i + 1, depth 1
        obtain ⟨b1, R1, h1, h1'⟩ := ihi (k'.close :: (r.render ++ rest)) (i + 1) (i + 1) 1 R hf.1
        obtain ⟨rfl, rfl⟩ := h1' (by omega)
        obtain ⟨b2, R2, h2, _⟩ := ihr rest (i + 1 + inner.render.length + 1) (i + 1) 0
          (R ++ [(i + 1, i + 1 + inner.render.length)]) hf.2
        refine ⟨b2, [(i + 1, i + 1 + inner.render.length)] ++ R2, ?_, fun h => absurd h (by omega)⟩
        simp only [Frag.render, List.cons_append, List.append_assoc]
        rw [lastLoop]
        simp only [true_and, if_true, Nat.zero_add]
        rw [h1, List.append_nil, lastLoop]
        simp only [hoc.symm, false_and, if_false, true_and, if_true, Nat.sub_self]
        rw [h2, List.length_cons, List.length_append, List.length_cons]
        congr 1 <;> first | omega | simp
      · -- deeper: depth s + 1 and back, nothing recorded
        obtain ⟨b1, R1, h1, h1'⟩ := ihi (k'.close :: (r.render ++ rest)) (i + 1) b (s + 1) R hf.1
        obtain ⟨rfl, rfl⟩ := h1' (by omega)
        obtain ⟨b2, R2, h2, h2'⟩ := ihr rest (i + 1 + inner.render.length + 1) b1 s R hf.2
        refine ⟨b2, R2, ?_, h2'⟩
        simp only [Frag.render, List.cons_append, List.append_assoc]
        rw [lastLoop]
        simp only [hs, and_false, if_false, true_and, Nat.pos_of_ne_zero hs, if_true]
        rw [h1, List.append_nil, lastLoop]
        have hs1 : ¬ (s + 1 = 1) := by omega
        have hs2 : s + 1 > 1 := by omega
        simp only [hoc.symm, false_and, if_false, true_and, hs1, hs2, if_true, Nat.add_sub_cancel]
        rw [h2, List.length_cons, List.length_append, List.length_cons]
        congr 1; omega
    · have hne := bk_ne_of_ne k k' hk
      obtain ⟨b1, R1, h1, h1'⟩ := ihi (k'.close :: (r.render ++ rest)) (i + 1) b s R hf.1
      obtain ⟨b2, R2, h2, h2'⟩ := ihr rest (i + 1 + inner.render.length + 1) b1 s (R ++ R1) hf.2
      refine ⟨b2, R1 ++ R2, ?_, ?_⟩
      · simp only [Frag.render, List.cons_append, List.append_assoc,
          lastLoop_other _ _ k'.open _ _ b s R hne.1 hne.2.1, h1,
          lastLoop_other _ _ k'.close _ _ b1 s _ hne.2.2.1 hne.2.2.2, h2, List.length_cons, List.length_append]
        congr 1; omega
      · intro hs
        obtain ⟨rfl, rfl⟩ := h1' hs
        obtain ⟨rfl, rfl⟩ := h2' hs
        exact ⟨rfl, rfl⟩

theorem lastLoop_nil (o cl : Char) (i b s : Nat) (R : List (Nat × Nat)) : lastLoop o cl [] i b s R = R := rfl

theorem slice_middle (a m z : Str) (c : Char) :
    slice (a ++ c :: (m ++ z)) (a.length + 1) (a.length + 1 + m.length) = m := by
  have e : a ++ c :: (m ++ z) = ((a ++ [c]) ++ m) ++ z := by simp
  have l : a.length + 1 + m.length = ((a ++ [c]) ++ m).length := by simp; omega
  have l2 : a.length + 1 = (a ++ [c]).length := by simp
  rw [slice, e, l, List.take_left, l2, List.drop_left]

theorem slice_front (a z : Str) : slice (a ++ z) 0 a.length = a := by
  simp [slice]

theorem breakLastBlock_prefix_group (k : BK) (pre inner : Frag) (more : Str)
    (hp : Frag.CleanFor k pre) (hi : Frag.CleanFor k inner) :
    breakLastBlock (pre.render ++ k.open :: (inner.render ++ [k.close])) (k.open :: k.close :: more)
      = .ok (pre.render, inner.render) := by
  obtain ⟨b1, R1, h1, _⟩ := lastLoop_frag k pre (k.open :: (inner.render ++ [k.close])) 0 0 0 [] hp
  obtain ⟨b2, R2, h2, h2'⟩ := lastLoop_frag k inner [k.close] (0 + pre.render.length + 1) (0 + pre.render.length + 1) 1 ([] ++ R1) hi
  obtain ⟨rfl, rfl⟩ := h2' (by omega)
  have hoc := open_ne_close k
  have hloop : lastLoop k.open k.close (pre.render ++ k.open :: (inner.render ++ [k.close])) 0 0 0 []
      = R1 ++ [(pre.render.length + 1, pre.render.length + 1 + inner.render.length)] := by
    rw [h1, lastLoop]
    simp only [true_and, if_true]
    rw [h2, lastLoop]
    simp [hoc.symm, lastLoop_nil]
  simp only [breakLastBlock, hloop, List.getLast?_append, List.getLast?_singleton, Option.some_or]
  simp only [Nat.add_sub_cancel, slice_front, slice_middle]

theorem lastLoop_no_close (o cl : Char) (text : Str) (h : ∀ c ∈ text, c ≠ cl) :
    ∀ (i b s : Nat) (R : List (Nat × Nat)), lastLoop o cl text i b s R = R := by
  induction text with
  | nil => intro i b s R; rfl
  | cons c cs ih =>
    intro i b s R
    have hc := h c (by simp)
    have ih := ih (fun c h' => h c (by simp [h']))
    rw [lastLoop]
    simp only [hc, false_and, if_false]
    split <;> (try split) <;> exact ih _ _ _ _

theorem lastLoop_no_open (o cl : Char) (text : Str) (h : ∀ c ∈ text, c ≠ o) :
    ∀ (i b : Nat) (R : List (Nat × Nat)), lastLoop o cl text i b 0 R = R := by
  induction text with
  | nil => intro i b R; rfl
  | cons c cs ih =>
    intro i b R
    have hc := h c (by simp)
    have ih := ih (fun c h' => h c (by simp [h']))
    rw [lastLoop]
    simp [hc, ih]

theorem breakLastBlock_error (o cl : Char) (more text : Str) (h : (∀ c ∈ text, c ≠ o) ∨ (∀ c ∈ text, c ≠ cl)) :
    breakLastBlock text (o :: cl :: more) = .error .IndexError := by
  have : lastLoop o cl text 0 0 0 [] = [] := by
    rcases h with h | h
    · exact lastLoop_no_open o cl text h 0 0 []
    · exact lastLoop_no_close o cl text h 0 0 0 []
  simp [breakLastBlock, this]

/-! ### `DecoratorHelper._parse` -/

theorem find_go_char (c : Char) (pre rest : Str) (h : ∀ x ∈ pre, x ≠ c) (i : Nat) :
    Str.find.go [c] (pre ++ c :: rest) i = some (i + pre.length) := by
  induction pre generalizing i with
  | nil => simp [Str.find.go, Str.startsWith]
  | cons x pre ih =>
    have hx := h x (by simp)
    have := ih (fun y hy => h y (by simp [hy])) (i + 1)
    simp only [List.cons_append, Str.find.go, Str.startsWith, hx, decide_false, Bool.false_and,
      Bool.false_eq_true, if_false, this, List.length_cons]
    congr 1; omega

theorem find_char (c : Char) (pre rest : Str) (h : ∀ x ∈ pre, x ≠ c) :
    Str.find (pre ++ c :: rest) [c] = some pre.length := by
  simpa [Str.find] using find_go_char c pre rest h 0

/-! ### `Param.parse`: splitting a joined fragment gives the parts back -/

theorem append_assoc (f g h : Frag) : ((f ++ g) ++ h : Frag) = f ++ (g ++ h) := by
  induction f with
  | nil => rfl
  | atom c r ih => simp [ih]
  | str q b r ih => simp [ih]
  | group k i r _ ih => simp [ih]

theorem append_ne_nil_right (f g : Frag) (hg : g ≠ .nil) : (f ++ g : Frag) ≠ .nil := by
  cases f <;> simp [hg]

theorem noTop_append (d : Char) (f g : Frag) : Frag.noTop d (f ++ g) = (Frag.noTop d f && Frag.noTop d g) := by
  induction f with
  | nil => simp [Frag.noTop]
  | atom c r ih => simp [Frag.noTop, ih, Bool.and_assoc]
  | str q b r ih => simp [Frag.noTop, ih]
  | group k i r _ ih => simp [Frag.noTop, ih]

theorem noTop_join (d d' : Char) (hd : d' ≠ d) (fs : List Frag) (h : ∀ f ∈ fs, Frag.noTop d f = true) :
    Frag.noTop d (Frag.join d' fs) = true := by
  induction fs with
  | nil => simp [Frag.join, Frag.noTop]
  | cons f fs ih =>
    cases fs with
    | nil => simpa [Frag.join] using h f (by simp)
    | cons g gs =>
      have := ih (fun x hx => h x (by simp [hx]))
      simp [Frag.join, noTop_append, Frag.noTop, h f (by simp), hd, this]

theorem simple_append (f g : Frag) (hf : Frag.Simple f) (hg : Frag.Simple g) : Frag.Simple (f ++ g) := by
  induction f with
  | nil => simpa using hg
  | atom c r ih => rw [simple_atom] at hf; simp [hf.1, ih hf.2]
  | str q b r ih => rw [simple_str] at hf; simp only [str_append, simple_str]; exact ⟨hf.1, ih hf.2⟩
  | group k i r _ ih => rw [simple_group] at hf; simp only [group_append, simple_group]; exact ⟨hf.1, ih hf.2⟩

theorem simple_join (d : Char) (hd : has Frag.special d = false) (fs : List Frag) (h : ∀ f ∈ fs, Frag.Simple f) :
    Frag.Simple (Frag.join d fs) := by
  induction fs with
  | nil => simp [Frag.join]
  | cons f fs ih =>
    cases fs with
    | nil => simpa [Frag.join] using h f (by simp)
    | cons g gs =>
      have := ih (fun x hx => h x (by simp [hx]))
      simp only [Frag.join]
      exact simple_append _ _ (h f (by simp)) (by rw [simple_atom]; exact ⟨hd, this⟩)

theorem topSplit_noTop (d : Char) (f : Frag) (h : Frag.noTop d f = true) : f.topSplit d = [f] := by
  induction f with
  | nil => rfl
  | atom c r ih =>
    simp only [Frag.noTop, Bool.and_eq_true, bne_iff_ne, ne_eq] at h
    simp [Frag.topSplit, h.1, ih h.2]
  | str q b r ih => simp only [Frag.noTop] at h; simp [Frag.topSplit, ih h]
  | group k i r _ ih => simp only [Frag.noTop] at h; simp [Frag.topSplit, ih h]

theorem topSplit_append_atom (d : Char) (f g : Frag) (h : Frag.noTop d f = true) (hg : g ≠ .nil) :
    (f ++ Frag.atom d g).topSplit d = f :: g.topSplit d := by
  induction f with
  | nil => simp [Frag.topSplit, hg]
  | atom c r ih =>
    simp only [Frag.noTop, Bool.and_eq_true, bne_iff_ne, ne_eq] at h
    simp [Frag.topSplit, h.1, ih h.2]
  | str q b r ih => simp only [Frag.noTop] at h; simp [Frag.topSplit, ih h]
  | group k i r _ ih => simp only [Frag.noTop] at h; simp [Frag.topSplit, ih h]

theorem join_ne_nil (d : Char) (fs : List Frag) (hne : fs ≠ []) (hl : ∀ l, fs.getLast? = some l → l ≠ .nil) :
    Frag.join d fs ≠ .nil := by
  match fs, hne with
  | [f], _ => simpa [Frag.join] using hl f (by simp)
  | f :: g :: gs, _ => simp only [Frag.join]; exact append_ne_nil_right _ _ (by simp)

/-- Splitting a fragment that was joined from delimiter-free parts gives the parts back (the last part must not be empty:
    a delimiter in the last position is not a cut). -/
theorem topSplit_join (d : Char) (fs : List Frag) (hne : fs ≠ []) (h : ∀ f ∈ fs, Frag.noTop d f = true)
    (hl : ∀ l, fs.getLast? = some l → l ≠ .nil) : (Frag.join d fs).topSplit d = fs := by
  induction fs with
  | nil => exact absurd rfl hne
  | cons f fs ih =>
    cases fs with
    | nil => simpa [Frag.join] using topSplit_noTop d f (h f (by simp))
    | cons g gs =>
      have hl' : ∀ l, (g :: gs).getLast? = some l → l ≠ .nil := fun l hx => hl l (by simpa using hx)
      have := ih (by simp) (fun x hx => h x (by simp [hx])) hl'
      simp only [Frag.join]
      rw [topSplit_append_atom d f _ (h f (by simp)) (join_ne_nil d _ (by simp) hl'), this]

theorem lstrip_noTop (f : Frag) (h : Frag.noTop ' ' f = true) : f.lstrip = f := by
  cases f with
  | atom c r =>
    simp only [Frag.noTop, Bool.and_eq_true, bne_iff_ne, ne_eq] at h
    simp [Frag.lstrip, h.1]
  | _ => rfl

theorem rstrip_noTop (f : Frag) (h : Frag.noTop ' ' f = true) : f.rstrip = f := by
  induction f with
  | nil => rfl
  | atom c r ih =>
    simp only [Frag.noTop, Bool.and_eq_true, bne_iff_ne, ne_eq] at h
    simp [Frag.rstrip, h.1, ih h.2]
  | str q b r ih => simp only [Frag.noTop] at h; simp [Frag.rstrip, ih h]
  | group k i r _ ih => simp only [Frag.noTop] at h; simp [Frag.rstrip, ih h]

theorem strip_noTop (f : Frag) (h : Frag.noTop ' ' f = true) : strip f.render = f.render := by
  rw [strip_render, lstrip_noTop f h, rstrip_noTop f h]

theorem rstrip_append (f g : Frag) (hg : g.rstrip ≠ .nil) : (f ++ g : Frag).rstrip = f ++ g.rstrip := by
  induction f with
  | nil => rfl
  | atom c r ih =>
    have : (r ++ g.rstrip : Frag) ≠ .nil := append_ne_nil_right _ _ hg
    simp [Frag.rstrip, ih, this]
  | str q b r ih => simp [Frag.rstrip, ih]
  | group k i r _ ih => simp [Frag.rstrip, ih]

theorem lstrip_append (f g : Frag) (hf : f ≠ .nil) (h : Frag.noTop ' ' f = true) : (f ++ g : Frag).lstrip = f ++ g := by
  cases f with
  | nil => exact absurd rfl hf
  | atom c r =>
    simp only [Frag.noTop, Bool.and_eq_true, bne_iff_ne, ne_eq] at h
    simp [Frag.lstrip, h.1]
  | str q b r => rfl
  | group k i r => rfl

/-- A blank-joined sequence of non-empty blank-free parts has no blank at either end. -/
theorem strip_join (fs : List Frag) (hne : fs ≠ []) (h : ∀ f ∈ fs, Frag.noTop ' ' f = true ∧ f ≠ .nil) :
    (Frag.join ' ' fs).lstrip = Frag.join ' ' fs ∧ (Frag.join ' ' fs).rstrip = Frag.join ' ' fs := by
  induction fs with
  | nil => exact absurd rfl hne
  | cons f fs ih =>
    cases fs with
    | nil =>
      have := h f (by simp)
      exact ⟨by simpa [Frag.join] using lstrip_noTop f this.1, by simpa [Frag.join] using rstrip_noTop f this.1⟩
    | cons g gs =>
      have hf := h f (by simp)
      have ih := ih (by simp) (fun x hx => h x (by simp [hx]))
      have hj : Frag.join ' ' (g :: gs) ≠ .nil :=
        join_ne_nil ' ' _ (by simp) (fun l hl => (h l (by
          have := List.mem_of_getLast? hl
          simp at this ⊢; exact Or.inr this)).2)
      simp only [Frag.join]
      refine ⟨lstrip_append _ _ hf.2 hf.1, ?_⟩
      have h1 : (Frag.atom ' ' (Frag.join ' ' (g :: gs))).rstrip = Frag.atom ' ' (Frag.join ' ' (g :: gs)) := by
        simp [Frag.rstrip, ih.2, hj]
      rw [rstrip_append _ _ (by rw [h1]; simp), h1]

theorem strip_blank_cons (s : Str) : strip (' ' :: s) = strip s := by
  simp [strip, Str.stripBy, Str.lstripBy]

theorem strip_snoc_blank (s : Str) : strip (s ++ [' ']) = strip s := by
  simp only [strip, Str.stripBy, lstripBy_append_single]
  by_cases h : Str.lstripBy (fun c => decide (c = ' ')) s = []
  · simp [h, Str.rstripBy, Str.lstripBy]
  · simp [h, Str.rstripBy, Str.lstripBy]

/-- the conditions on a type token / the parameter name: a non-empty fragment without top-level blank or `=` -/
def ParamToken (t : Frag) : Prop := Frag.Simple t ∧ Frag.noTop ' ' t = true ∧ Frag.noTop '=' t = true ∧ t ≠ .nil

instance (t : Frag) : Decidable (ParamToken t) := by unfold ParamToken; infer_instance

theorem blank_plain : has Frag.special ' ' = false := by decide
theorem eq_plain : has Frag.special '=' = false := by decide

theorem sepSpec_tokens (toks : List Frag) (hne : toks ≠ []) (h : ∀ t ∈ toks, ParamToken t) :
    breakSeparator (Frag.join ' ' toks).render [' '] = .ok (toks.map Frag.render) := by
  have hclean : Frag.Simple (Frag.join ' ' toks) := simple_join ' ' blank_plain toks (fun t ht => (h t ht).1)
  have hnil : Frag.join ' ' toks ≠ .nil :=
    join_ne_nil ' ' toks hne (fun l hl => (h l (List.mem_of_getLast? hl)).2.2.2)
  rw [breakSeparator_clean ' ' _ hclean, specGo_nil_eq_sepSpec, sepSpec, if_neg hnil,
    topSplit_join ' ' toks hne (fun t ht => (h t ht).2.1) (fun l hl => (h l (List.mem_of_getLast? hl)).2.2.2)]
  congr 1
  apply List.map_congr_left
  intro t ht
  exact strip_noTop t (h t ht).2.1


/-! ### `str.index` on the texts that occur -/

theorem startsWith_append (p r : Str) : Str.startsWith (p ++ r) p = true := by
  induction p with
  | nil => cases r <;> simp [Str.startsWith]
  | cons c p ih => simp [Str.startsWith, ih]

theorem find_prefix (p r : Str) : Str.find (p ++ r) p = some 0 := by
  unfold Str.find
  cases h : p ++ r with
  | nil =>
    have : p = [] := by cases p <;> simp_all
    simp [Str.find.go, this]
  | cons c cs =>
    rw [Str.find.go, ← h, startsWith_append]; simp

theorem indexFrom_prefix (p r : Str) : indexFrom (p ++ r) p 0 = .ok 0 := by
  simp [indexFrom, find_prefix]

theorem indexFrom_char (c : Char) (a gap rest : Str) (h : ∀ x ∈ gap, x ≠ c) :
    indexFrom (a ++ (gap ++ c :: rest)) [c] a.length = .ok (a.length + gap.length) := by
  simp only [indexFrom, List.drop_left, find_char c gap rest h]
  congr 1; omega

theorem rstrip_decomp (s : Str) :
    ∃ n, s = Str.rstripBy (fun c => decide (c = ' ')) s ++ List.replicate n ' ' := by
  induction s with
  | nil => exact ⟨0, by simp [rstripBy_nil]⟩
  | cons c s ih =>
    obtain ⟨n, hn⟩ := ih
    rw [rstripBy_cons]
    by_cases h : Str.rstripBy (fun c => decide (c = ' ')) s = [] ∧ (fun c => decide (c = ' ')) c = true
    · rw [if_pos h]
      refine ⟨n + 1, ?_⟩
      have hc : c = ' ' := by simpa using h.2
      rw [h.1] at hn
      simp only [List.nil_append] at hn ⊢
      rw [hn, hc, List.replicate_succ]
    · rw [if_neg h]
      exact ⟨n, by simp only [List.cons_append]; rw [← hn]⟩

theorem natToDec_zero : Str.natToDec 0 = ['0'] := by
  rw [Str.natToDec]; simp [Str.digitChar]

/-! ### `DecoratorHelper._parse` -/

theorem breakSeparator_simple (d : Char) (f : Frag) (hf : Frag.Simple f) :
    breakSeparator f.render [d] = .ok (sepSpec d f) := by
  rw [breakSeparator_clean d f hf, specGo_nil_eq_sepSpec]

theorem decoParse_simple (path : Str) (args : Frag) (hp : ∀ x ∈ path, x ≠ '(') (ha : Frag.Simple args) :
    decoParse (path ++ '(' :: (args.render ++ [')']))
      = (decoArgs (sepSpec ',' args)).bind fun a => .ok (path, a, args.render) := by
  have h1 : slice (path ++ '(' :: (args.render ++ [')'])) 0 path.length = path := slice_front _ _
  have h2 : slice (path ++ '(' :: (args.render ++ [')'])) (path.length + 1) ((path ++ '(' :: (args.render ++ [')'])).length - 1)
      = args.render := by
    have : (path ++ '(' :: (args.render ++ [')'])).length - 1 = path.length + 1 + args.render.length := by
      simp; omega
    rw [this]; exact slice_middle _ _ _ _
  simp only [decoParse, find_char '(' path _ hp, h1, h2, breakSeparator_simple ',' args ha]
  rfl

/-- An argument piece without a top-level `=` is stored verbatim under its position — whatever `=` occur nested inside. -/
theorem decoKV_positional (i : Nat) (g : Frag) (hg : Frag.Simple g) (hno : Frag.noTop '=' g = true) :
    decoKV i g.render = .ok (Str.natToDec i, g.render) := by
  rw [decoKV, breakSeparator_simple '=' g hg, sepSpec, topSplit_noTop '=' g hno]
  by_cases h : g = .nil <;> simp [h, Except.bind]

/-- An argument piece `label = value` (first top-level `=`; the label part without leading blank): key and value are the
    texts on both sides of that `=`, exactly. -/
theorem decoKV_labelled (i : Nat) (l v : Frag) (hl : Frag.Simple l) (hv : Frag.Simple v)
    (hno : Frag.noTop '=' l = true) (hlead : l.lstrip = l) (hvn : v ≠ .nil) :
    decoKV i (l ++ Frag.atom '=' v : Frag).render = .ok (l.render, v.render) := by
  have hs : Frag.Simple (l ++ Frag.atom '=' v : Frag) := simple_append _ _ hl (by simp [eq_plain, hv])
  obtain ⟨p, ps, hps⟩ := List.exists_cons_of_ne_nil (topSplit_ne_nil '=' v)
  have hfirst : strip l.render = Str.rstripBy (fun c => decide (c = ' ')) l.render := by
    have := render_lstrip l
    rw [hlead] at this
    simp only [strip, Str.stripBy]
    rw [← this]
  obtain ⟨n, hn⟩ := rstrip_decomp l.render
  generalize hfst : Str.rstripBy (fun c => decide (c = ' ')) l.render = first at hn hfirst
  have hrender : (l ++ Frag.atom '=' v : Frag).render = first ++ (List.replicate n ' ' ++ '=' :: v.render) := by
    rw [render_append, hn]; simp [Frag.render]
  have hgap : ∀ x ∈ List.replicate n ' ', x ≠ '=' := by
    intro x hx; rw [List.mem_replicate] at hx; rw [hx.2]; decide
  rw [decoKV, breakSeparator_simple '=' _ hs, sepSpec, if_neg (append_ne_nil_right _ _ (by simp)),
    topSplit_append_atom '=' l v hno hvn, hps]
  simp only [List.map_cons, hfirst, Except.bind]
  rw [hrender, indexFrom_prefix]
  simp only [Nat.zero_add]
  rw [indexFrom_char '=' first (List.replicate n ' ') v.render hgap]
  simp only [hn]
  congr 2
  · have : first.length + (List.replicate n ' ').length = (first ++ List.replicate n ' ').length := by simp
    rw [this, ← List.append_assoc, slice_front]
  · have : first.length + (List.replicate n ' ').length + 1 = (first ++ List.replicate n ' ' ++ ['=']).length := by simp; omega
    rw [this]
    have e : first ++ (List.replicate n ' ' ++ '=' :: v.render) = (first ++ List.replicate n ' ' ++ ['=']) ++ v.render := by simp
    rw [e, List.drop_left]


theorem noTop_lstrip (d : Char) (f : Frag) (h : Frag.noTop d f = true) : Frag.noTop d f.lstrip = true := by
  induction f with
  | atom c r ih =>
    simp only [Frag.noTop, Bool.and_eq_true] at h
    by_cases hc : c = ' ' <;> simp [Frag.lstrip, hc, Frag.noTop, ih h.2, h.2] <;> simpa [hc] using h.1
  | _ => simpa [Frag.lstrip] using h

theorem noTop_rstrip (d : Char) (f : Frag) (h : Frag.noTop d f = true) : Frag.noTop d f.rstrip = true := by
  induction f with
  | nil => rfl
  | atom c r ih =>
    simp only [Frag.noTop, Bool.and_eq_true] at h
    simp only [Frag.rstrip]
    split
    · rfl
    · simp [Frag.noTop, h.1, ih h.2]
  | str q b r ih => simp only [Frag.noTop] at h; simp [Frag.rstrip, Frag.noTop, ih h]
  | group k i r _ ih => simp only [Frag.noTop] at h; simp [Frag.rstrip, Frag.noTop, ih h]

/-- A single positional argument (no top-level `,` or `=`) is stored verbatim under position 0. -/
theorem decoParse_positional (path : Str) (v : Frag) (hp : ∀ x ∈ path, x ≠ '(') (hv : Frag.Simple v)
    (hc : Frag.noTop ',' v = true) (he : Frag.noTop '=' v = true) (hne : v ≠ .nil) :
    decoParse (path ++ '(' :: (v.render ++ [')'])) = .ok (path, [(['0'], strip v.render)], v.render) := by
  rw [decoParse_simple path v hp hv, sepSpec, if_neg hne, topSplit_noTop ',' v hc]
  simp only [List.map_cons, List.map_nil, decoArgs, decoArgsFrom, strip_render]
  rw [decoKV_positional 0 _ (simple_rstrip _ (simple_lstrip _ hv)) (noTop_rstrip _ _ (noTop_lstrip _ _ he))]
  simp [Except.bind, dictSet, natToDec_zero]

/-! ### `Param.parse` -/

theorem bind_ok {ε α β : Type} (a : α) (f : α → Except ε β) : (Except.ok a : Except ε α).bind f = f a := rfl

theorem paramFinish_tokens (toks : List Frag) (nm : Frag) (dv : Str) :
    paramFinish ((toks ++ [nm]).map Frag.render) dv = .ok (Str.join [' '] (toks.map Frag.render), nm.render, dv) := by
  simp [paramFinish]

theorem paramParse_plain (ts : List Frag) (nm : Frag) (h : ∀ t ∈ ts ++ [nm], ParamToken t) :
    paramParse (Frag.join ' ' (ts ++ [nm])).render
      = .ok (Str.join [' '] (ts.map Frag.render), nm.render, []) := by
  have hne : ts ++ [nm] ≠ [] := by simp
  have hP : Frag.Simple (Frag.join ' ' (ts ++ [nm])) := simple_join ' ' blank_plain _ (fun t ht => (h t ht).1)
  have hnil : Frag.join ' ' (ts ++ [nm]) ≠ .nil :=
    join_ne_nil ' ' _ hne (fun l hl => (h l (List.mem_of_getLast? hl)).2.2.2)
  have hno : Frag.noTop '=' (Frag.join ' ' (ts ++ [nm])) = true :=
    noTop_join '=' ' ' (by decide) _ (fun t ht => (h t ht).2.2.1)
  have hstrip := strip_join (ts ++ [nm]) hne (fun t ht => ⟨(h t ht).2.1, (h t ht).2.2.2⟩)
  have h1 : breakSeparator (Frag.join ' ' (ts ++ [nm])).render ['='] = .ok [(Frag.join ' ' (ts ++ [nm])).render] := by
    rw [breakSeparator_simple '=' _ hP, sepSpec, if_neg hnil, topSplit_noTop '=' _ hno]
    simp only [List.map_cons, List.map_nil]
    rw [strip_render, hstrip.1, hstrip.2]
  rw [paramParse, h1, bind_ok, paramSplit, bind_ok, sepSpec_tokens (ts ++ [nm]) hne h, bind_ok]
  exact paramFinish_tokens ts nm []

/-- `type… name = default` for *every* default that is a fragment with simple strings — also one with top-level `=`. -/
theorem paramParse_default (ts : List Frag) (nm df : Frag) (h : ∀ t ∈ ts ++ [nm], ParamToken t)
    (hd : Frag.Simple df) :
    paramParse ((Frag.join ' ' (ts ++ [nm])).render ++ ' ' :: '=' :: ' ' :: df.render)
      = .ok (Str.join [' '] (ts.map Frag.render), nm.render, strip df.render) := by
  have hne : ts ++ [nm] ≠ [] := by simp
  have htok := sepSpec_tokens (ts ++ [nm]) hne h
  generalize hPdef : Frag.join ' ' (ts ++ [nm]) = P at htok
  have hP : Frag.Simple P := by subst hPdef; exact simple_join ' ' blank_plain _ (fun t ht => (h t ht).1)
  have hno : Frag.noTop '=' P = true := by
    subst hPdef; exact noTop_join '=' ' ' (by decide) _ (fun t ht => (h t ht).2.2.1)
  have hstrip : P.lstrip = P ∧ P.rstrip = P := by
    subst hPdef; exact strip_join (ts ++ [nm]) hne (fun t ht => ⟨(h t ht).2.1, (h t ht).2.2.2⟩)
  have hF : P.render ++ ' ' :: '=' :: ' ' :: df.render
      = ((P ++ Frag.atom ' ' .nil) ++ Frag.atom '=' (Frag.atom ' ' df) : Frag).render := by
    simp [render_append, Frag.render]
  have hFs : Frag.Simple ((P ++ Frag.atom ' ' .nil) ++ Frag.atom '=' (Frag.atom ' ' df) : Frag) := by
    apply simple_append
    · exact simple_append _ _ hP (by simp [blank_plain])
    · simp [eq_plain, blank_plain, hd]
  obtain ⟨x, xs, hx⟩ := List.exists_cons_of_ne_nil (topSplit_ne_nil '=' (Frag.atom ' ' df))
  have h1 : ∃ y ys, breakSeparator (P.render ++ ' ' :: '=' :: ' ' :: df.render) ['='] = .ok (P.render :: y :: ys) := by
    refine ⟨strip x.render, xs.map fun p => strip p.render, ?_⟩
    rw [hF, breakSeparator_simple '=' _ hFs, sepSpec, if_neg (append_ne_nil_right _ _ (by simp)),
      topSplit_append_atom '=' _ _ (by simp [noTop_append, hno, Frag.noTop]) (by simp), hx]
    simp only [List.map_cons, render_append, Frag.render, strip_snoc_blank]
    rw [strip_render P, hstrip.1, hstrip.2]
  obtain ⟨y, ys, h1⟩ := h1
  have hgap : ∀ c ∈ [' '], c ≠ '=' := by decide
  have hidx := indexFrom_char '=' P.render [' '] (' ' :: df.render) hgap
  simp only [List.cons_append, List.nil_append, List.length_cons, List.length_nil] at hidx
  have hdrop : (P.render ++ ' ' :: '=' :: ' ' :: df.render).drop (P.render.length + (0 + 1) + 1) = ' ' :: df.render := by
    have e : P.render ++ ' ' :: '=' :: ' ' :: df.render = (P.render ++ [' ', '=']) ++ (' ' :: df.render) := by simp
    have l : P.render.length + (0 + 1) + 1 = (P.render ++ [' ', '=']).length := by simp
    rw [e, l, List.drop_left]
  have hsplit : paramSplit (P.render ++ ' ' :: '=' :: ' ' :: df.render) (P.render :: y :: ys)
      = .ok (P.render, strip df.render) := by
    have hb : ∀ {β : Type} (a : Nat) (f : Nat → Except Err β), (Except.ok a : Except Err Nat) >>= f = f a := fun _ _ => rfl
    simp only [paramSplit, indexFrom_prefix, hb, Nat.zero_add]
    have hidx' : indexFrom (P.render ++ ' ' :: '=' :: ' ' :: df.render) ['='] P.render.length = .ok (P.render.length + (0 + 1)) := hidx
    rw [hidx', hb, hdrop, strip_blank_cons]
  rw [paramParse, h1, bind_ok, hsplit, bind_ok, htok, bind_ok]
  exact paramFinish_tokens ts nm _

/-! ### the fuel of `break_separator` is never exhausted -/

theorem skipLen_pos (toks : List (Char × Char)) (st : List Char) (c : Char) (cs : Str) :
    1 ≤ skipLen toks st (c :: cs) := by
  rw [skipLen_cons]; split <;> omega

theorem sepLoop_no_fuel (text d : Str) : ∀ (fuel : Nat) (s : Str) (index begin : Nat) (blocks : List Str),
    s.length < fuel → sepLoop text d fuel s index begin blocks ≠ .error .Fuel := by
  intro fuel
  induction fuel with
  | zero => intro s _ _ _ h; omega
  | succ n ih =>
    intro s index begin blocks h
    cases s with
    | nil => simp [sepLoop]
    | cons c cs =>
      simp only [sepLoop]
      split
      · apply ih
        have := skipLen_pos allPairs [] c cs
        simp only [List.length_drop, List.length_cons] at h ⊢
        omega
      · cases d with
        | nil => simp
        | cons d0 ds =>
          simp only []
          split
          · apply ih; simp only [List.length_cons] at h; omega
          · apply ih; simp only [List.length_cons] at h; omega

end Tranp.Block
