/-
  Lemmas about Model/InferOps.lean: the witness world `opWorld` satisfies `WorldConf` for the class table `opWitness` (the hypothesis
  of every soundness theorem over user classes is satisfiable by a non-empty table with an override and a two-level descendant).
-/
import Tranp.Model.InferOps
import Tranp.Lemmas.Infer

namespace Tranp.Infer
open Tranp

/-- a member found by `memberOf` is a member of some class of the table -/
theorem memberOf_mem_table {ct : ClassTable} {c a : Str} {m : Member} (h : memberOf ct c a = some m) : ∃ d ∈ ct, m ∈ d.members := by
  unfold memberOf at h
  obtain ⟨e, _, he⟩ := List.exists_of_findSome?_eq_some h
  cases hf : findClass ct e with
  | none => rw [hf] at he; simp at he
  | some d =>
    rw [hf] at he
    simp only [Option.bind_some] at he
    refine ⟨d, ?_, List.mem_of_find?_eq_some he⟩
    unfold findClass at hf
    exact List.mem_of_find?_eq_some hf

/-- the classes of `opWitness` declare methods only -/
theorem opWitness_methods {c a : Str} {m : Member} (h : memberOf opWitness.1 c a = some m) : m.kind = .method := by
  obtain ⟨d, hd, hm⟩ := memberOf_mem_table h
  have hall : ∀ d ∈ opWitness.1, ∀ m ∈ d.members, m.kind = .method := by decide +kernel
  exact hall d hd m hm

theorem opWitness_obj {c d : Str} (h : d ∈ chainOf opWitness.1 c) : Conf opWitness.1 (.obj c [] []) (.cls d .nil) := by
  refine .obj h ?_
  intro e a T _ hm
  have := opWitness_methods hm
  simp at this

theorem opWorld_conf : WorldConf opWitness.1 opWorld where
  no_None := by decide +kernel
  new_ok := by
    intro c args v _ hnew
    simp only [opWorld] at hnew
    split at hnew
    · rename_i hc
      cases hnew
      rcases hc with rfl | rfl | rfl <;> exact opWitness_obj (by decide +kernel)
    · cases hnew
  call_ok := by
    intro v c m args mem x hv hm _ hcall
    cases hv with
    | obj hmem _ =>
      rename_i c0 ns vs
      simp only [opWorld] at hcall
      split at hcall
      · rename_i hadd
        subst hadd
        split at hcall
        · rename_i hc0
          subst hc0
          cases hcall
          have hch : chainOf opWitness.1 ['N', 'u', 'm'] = [['N', 'u', 'm']] := by decide +kernel
          rw [hch] at hmem
          simp only [List.mem_singleton] at hmem
          subst hmem
          have h2 : memberOf opWitness.1 ['N', 'u', 'm'] ['_', '_', 'a', 'd', 'd', '_', '_'] =
              some ⟨['_', '_', 'a', 'd', 'd', '_', '_'], .method, .cls ['N', 'u', 'm'] .nil⟩ := by decide +kernel
          rw [h2] at hm
          cases hm
          exact opWitness_obj (by decide +kernel)
        · split at hcall
          · rename_i hc0
            cases hcall
            have hsub : c = ['B', 'i', 'g', '2'] ∨ c = ['B', 'i', 'g'] ∨ c = ['N', 'u', 'm'] := by
              rcases hc0 with rfl | rfl
              · have hch : chainOf opWitness.1 ['B', 'i', 'g'] = [['B', 'i', 'g'], ['N', 'u', 'm']] := by decide +kernel
                rw [hch] at hmem
                simp only [List.mem_cons, List.mem_nil_iff, or_false] at hmem
                rcases hmem with h | h
                · exact Or.inr (Or.inl h)
                · exact Or.inr (Or.inr h)
              · have hch : chainOf opWitness.1 ['B', 'i', 'g', '2'] = [['B', 'i', 'g', '2'], ['B', 'i', 'g'], ['N', 'u', 'm']] := by decide +kernel
                rw [hch] at hmem
                simp only [List.mem_cons, List.mem_nil_iff, or_false] at hmem
                exact hmem
            have hB2 : memberOf opWitness.1 ['B', 'i', 'g', '2'] ['_', '_', 'a', 'd', 'd', '_', '_'] =
                some ⟨['_', '_', 'a', 'd', 'd', '_', '_'], .method, .cls ['B', 'i', 'g'] .nil⟩ := by decide +kernel
            have hB : memberOf opWitness.1 ['B', 'i', 'g'] ['_', '_', 'a', 'd', 'd', '_', '_'] =
                some ⟨['_', '_', 'a', 'd', 'd', '_', '_'], .method, .cls ['B', 'i', 'g'] .nil⟩ := by decide +kernel
            have hN : memberOf opWitness.1 ['N', 'u', 'm'] ['_', '_', 'a', 'd', 'd', '_', '_'] =
                some ⟨['_', '_', 'a', 'd', 'd', '_', '_'], .method, .cls ['N', 'u', 'm'] .nil⟩ := by decide +kernel
            rcases hsub with rfl | rfl | rfl
            · rw [hB2] at hm; cases hm; exact opWitness_obj (by decide +kernel)
            · rw [hB] at hm; cases hm; exact opWitness_obj (by decide +kernel)
            · rw [hN] at hm; cases hm; exact opWitness_obj (by decide +kernel)
          · cases hcall
      · cases hcall
  classAttr_ok := by
    intro v c a mem x _ _ _ h
    simp [opWorld] at h
  shadow_ok := by
    intro c0 ns vs c a mem x _ hm hk _
    have := opWitness_methods hm
    rcases hk with hk | hk <;> rw [this] at hk <;> cases hk
  nexts_ok := by
    intro it c mem l _ _ _ h
    simp [opWorld] at h

end Tranp.Infer
