/-
  Helper lemmas for the `prop_keys` cache (property C09).
-/
import Tranp.Model.PropKeys

namespace Tranp.PropKeys
open Tranp

theorem attrName_injective (a b : Str) (h : attrName a = attrName b) : a = b := by
  unfold attrName at h
  rw [List.append_assoc, List.append_assoc] at h
  have h1 := List.append_cancel_left h
  exact List.append_cancel_right h1

/-- cache ⊆ graph of the pure function, under each class's own attribute name -/
def CacheOk (t : Table) (cache : Cache) : Prop :=
  ∀ e ∈ cache, e.2.1 = attrName (t.cls e.1).name ∧ e.2.2 = t.pure e.1

theorem lookup_sound (t : Table) (cache : Cache) (hc : CacheOk t cache) (attr : Str) (mro : List Nat) (v : List Key)
    (h : lookup cache attr mro = some v) : ∃ i ∈ mro, attr = attrName (t.cls i).name ∧ v = t.pure i := by
  induction mro with
  | nil => simp [lookup] at h
  | cons i rest ih =>
    simp only [lookup] at h
    split at h
    · rename_i e he
      have hmem := List.mem_of_find?_eq_some he
      have hp := List.find?_some he
      simp only [Bool.and_eq_true, beq_iff_eq] at hp
      obtain ⟨h1, h2⟩ := hc e hmem
      refine ⟨i, by simp, ?_, ?_⟩
      · rw [← hp.2, h1, hp.1]
      · cases h; rw [h2, hp.1]
    · obtain ⟨j, hj, h1, h2⟩ := ih h
      exact ⟨j, by simp [hj], h1, h2⟩

theorem query_sound (t : Table) (hn : NamesDistinctOnMro t) (cache : Cache) (hc : CacheOk t cache) (c : Nat) :
    (query t cache c).2 = t.pure c ∧ CacheOk t (query t cache c).1 := by
  unfold query queryWith
  simp only
  cases hl : lookup cache (attrName (t.cls c).name) (t.cls c).mro with
  | some v =>
    obtain ⟨i, hi, h1, h2⟩ := lookup_sound t cache hc _ _ v hl
    have := hn c i hi (attrName_injective _ _ h1).symm
    subst this
    exact ⟨h2, hc⟩
  | none =>
    refine ⟨rfl, ?_⟩
    intro e he
    rcases List.mem_cons.mp he with rfl | he
    · exact ⟨rfl, rfl⟩
    · exact hc e he

theorem run_sound (t : Table) (hn : NamesDistinctOnMro t) (cache : Cache) (hc : CacheOk t cache) (qs : List Nat) :
    (run t cache qs).2 = qs.map t.pure ∧ CacheOk t (run t cache qs).1 := by
  induction qs generalizing cache with
  | nil => exact ⟨rfl, hc⟩
  | cons c cs ih =>
    obtain ⟨h1, h2⟩ := query_sound t hn cache hc c
    obtain ⟨h3, h4⟩ := ih (query t cache c).1 h2
    unfold run at h3 h4 ⊢
    unfold query at h1 h2 h3 h4
    simp only [runWith, List.map_cons]
    exact ⟨by rw [h1, h3], h4⟩

/-! ### decidable checks over a concrete (generated) table -/

def namesDistinctB (t : Table) : Bool :=
  (List.range t.classes.length).all fun c =>
    (t.cls c).mro.all fun i => !((t.cls i).name == (t.cls c).name) || i == c

theorem cls_out_of_range (t : Table) (c : Nat) (h : t.classes.length ≤ c) : t.cls c = ⟨[], [], []⟩ := by
  unfold Table.cls
  simp [List.getD, List.getElem?_eq_none h]

theorem namesDistinct_of_B (t : Table) (h : namesDistinctB t = true) : NamesDistinctOnMro t := by
  intro c i hi hname
  by_cases hc : c < t.classes.length
  · unfold namesDistinctB at h
    rw [List.all_eq_true] at h
    have h1 := h c (List.mem_range.mpr hc)
    rw [List.all_eq_true] at h1
    have h2 := h1 i hi
    simp only [Bool.or_eq_true, Bool.not_eq_true', beq_eq_false_iff_ne, ne_eq, beq_iff_eq] at h2
    rcases h2 with h2 | h2
    · exact absurd hname h2
    · exact h2
  · rw [cls_out_of_range t c (by omega)] at hi
    simp at hi

/-- every class of the table answers with pairwise distinct keys -/
def keysNodupB (t : Table) : Bool :=
  (List.range t.classes.length).all fun c => decide (t.pure c).Nodup

theorem keysNodup_of_B (t : Table) (h : keysNodupB t = true) (c : Nat) (hc : c < t.classes.length) : (t.pure c).Nodup := by
  unfold keysNodupB at h
  rw [List.all_eq_true] at h
  simpa using h c (List.mem_range.mpr hc)

theorem count_le_one_of_nodup {α : Type} [BEq α] [LawfulBEq α] (l : List α) (h : l.Nodup) (a : α) : l.count a ≤ 1 := by
  induction l with
  | nil => simp
  | cons x xs ih =>
    simp only [List.nodup_cons] at h
    simp only [List.count_cons]
    have := ih h.2
    by_cases hx : x = a
    · subst hx
      have : xs.count x = 0 := List.count_eq_zero.mpr h.1
      simp [this]
    · have hb : (x == a) = false := by simpa using hx
      simp [hb]; exact this

end Tranp.PropKeys
