/-
  The end of the source as a layout position (C13): white space after the last token — blanks, a final newline, blank lines —
  does not change `Tokenizer.parse`. Built on the prefix congruence (`lexS_prefix`) and the closed form of `post_filter`
  (`norm_trail`: a line break behind everything does not matter) of Lemmas/Lexer.lean.
-/
import Tranp.Lemmas.Lexer

namespace Tranp.Lexer

theorem significant_lb_single (s : Str) :
    significant ([(T.lineBreak, s)].map unsimp) = [unsimp (T.lineBreak, s)] := by
  simp [significant, unsimp, T.lineBreak, T.comment, T.whiteSpace]

/-- **White space after the last token.** `a` is a sequence of whole tokens (the last one tolerating white space: not itself
    white space, a comment only before a newline); appending any non-empty white space `run` — blanks, a final newline,
    blank lines — leaves `Tokenizer.parse` unchanged up to source maps. -/
theorem layout_trailing {d : TokenDef} (hr : layoutReady d) (a run : Str) {ta : List (Nat × Str)}
    (hne : run ≠ []) (hall : ∀ c ∈ run, d.whiteSpace.contains c = true) (hpre : TokPrefix d [] run a ta) :
    (tokenize d a).map (List.map simplify) = (tokenize d (a ++ run)).map (List.map simplify) := by
  obtain ⟨hw, hwl, ho, hd, hb⟩ := hr
  have hhead : headIn d.whiteSpace run = true := by
    have := headIn_of_all (r := []) hne hall
    simpa using this
  have hc : Compat d [] run := ⟨[], [], run, rfl, rfl, Or.inr hhead⟩
  obtain ⟨e1, e2⟩ := lexS_prefix hw hwl hc hpre
  have l2 : lexS d run = .ok [((if Str.count '\n' run = 0 then T.whiteSpace else T.lineBreak), run)] := by
    have := lexS_ws hw ho run [] hne hall rfl
    rw [List.append_nil, lexS_nil] at this
    exact this
  rw [lexS_nil, List.append_nil] at e1
  rw [l2] at e2
  simp only [Except.map, List.append_nil] at e1 e2
  by_cases hnl : Str.count '\n' run = 0
  · simp only [hnl, ↓reduceIte] at e2
    have e1' : lexS d a = .ok (ta ++ []) := by rw [List.append_nil]; exact e1
    apply tokenize_of_rest ⟨hw, hwl, ho, hd, hb⟩ e1' e2
    left; rw [significant_ws_cons]
  · simp only [hnl, ↓reduceIte] at e2
    apply tokenize_layout hw hd hb e1 e2
    have : norm ((ta ++ [(T.lineBreak, run)]).map unsimp) = norm (ta.map unsimp) := by
      unfold norm
      rw [List.map_append, significant_append, significant_lb_single]
      exact norm_trail _ rfl _
    rw [this]
    exact AllRel.refl LBsame.refl _

/-- decidable side check for white space `run` after the last token of `a` (`run` empty: nothing to check) -/
def tailOK (d : TokenDef) (a run : Str) : Bool :=
  run.isEmpty || (run.all (fun c => d.whiteSpace.contains c) && (tokPrefixCheck d [] run a.length a).isSome)

/-- **The tail of the source, by position.** Whatever white space follows the last token of `a` — none, blanks, a final
    newline, blank lines — `Tokenizer.parse` is the same up to source maps, whenever the decidable check passes for both
    tails (it lexes `a` token by token: whole, terminated tokens, the last one neither white space nor a comment that
    would swallow the tail). -/
theorem layout_tail_at {d : TokenDef} (hr : layoutReady d) (a run run' : Str)
    (h : tailOK d a run = true) (h' : tailOK d a run' = true) :
    (tokenize d (a ++ run)).map (List.map simplify) = (tokenize d (a ++ run')).map (List.map simplify) := by
  have key : ∀ r : Str, tailOK d a r = true →
      (tokenize d a).map (List.map simplify) = (tokenize d (a ++ r)).map (List.map simplify) := by
    intro r hr'
    by_cases hre : r = []
    · subst hre; rw [List.append_nil]
    · have hie : r.isEmpty = false := by cases r <;> simp_all
      simp only [tailOK, hie, Bool.false_or, Bool.and_eq_true, List.all_eq_true] at hr'
      obtain ⟨hall, hsome⟩ := hr'
      obtain ⟨ta, hta⟩ := Option.isSome_iff_exists.mp hsome
      exact layout_trailing hr a r hre hall (tokPrefixCheck_sound _ _ _ hta)
  exact (key run h).symm.trans (key run' h')

/-- layout equivalence including the tail of the source: the layout steps of `LayoutStep` and the replacement of the white
    space after the last token -/
inductive LayoutEqT (d : TokenDef) : Str → Str → Prop
  | eq {s s' : Str} : LayoutEq d s s' → LayoutEqT d s s'
  | tail (a run run' : Str) : tailOK d a run = true → tailOK d a run' = true → LayoutEqT d (a ++ run) (a ++ run')
  | symm {s s' : Str} : LayoutEqT d s s' → LayoutEqT d s' s
  | trans {s s' s'' : Str} : LayoutEqT d s s' → LayoutEqT d s' s'' → LayoutEqT d s s''

theorem LayoutEqT.tokenize {d : TokenDef} (hr : layoutReady d) {s s' : Str} (h : LayoutEqT d s s') :
    (tokenize d s).map (List.map simplify) = (tokenize d s').map (List.map simplify) := by
  induction h with
  | eq h => exact h.tokenize hr
  | tail a run run' h1 h2 => exact layout_tail_at hr a run run' h1 h2
  | symm _ ih => exact ih.symm
  | trans _ _ ih1 ih2 => exact ih1.trans ih2

end Tranp.Lexer
