/-
  Helper lemmas for property C01 (Tranp.Model.Emit). Property theorems are in Tranp/Props/C01.lean.
-/
import Tranp.Model.Emit
import Tranp.Lemmas.Prec

namespace Tranp.Emit
open Tranp Tranp.Generated.CppTemplates Tranp.Prec

/-! ## the generated templates, evaluated -/

theorem render_group (r : List RTok) :
    render group {} [(sExpression, r)] = .t (.sym ['(']) :: (r ++ [.t (.sym [')'])]) := by rfl

theorem renderUnary_eq (op : Str) (v : List RTok) : renderUnary op v = .t (.sym op) :: (v ++ []) := by rfl

/-- the line of binary_operator.j2 an operator selects (`fl`: one operand type is float/double) -/
def binShape (op : BOp) (fl : Bool) : List Piece :=
  match op with
  | .is => [.var sLeft, .sp, .tok ['=', '='], .sp, .var sRight]
  | .isNot => [.var sLeft, .sp, .tok ['!', '='], .sp, .var sRight]
  | .and => [.var sLeft, .sp, .tok ['&', '&'], .sp, .var sRight]
  | .or => [.var sLeft, .sp, .tok ['|', '|'], .sp, .var sRight]
  | .mod => if fl then [.tok ['f', 'm', 'o', 'd'], .tok ['('], .var sLeft, .tok [','], .sp, .var sRight, .tok [')']]
            else [.var sLeft, .sp, .var sOperator, .sp, .var sRight]
  | _ => [.var sLeft, .sp, .var sOperator, .sp, .var sRight]

/-- `decide` over generated table × operator × operand types: which branch of binary_operator.j2 is taken -/
theorem select_binary (op : BOp) (lty rty : Ty) :
    select { strs := [(sOperator, op.tok), (sLeftTy, lty.name), (sRightTy, rty.name)] } binaryOperator
      = some (binShape op (lty.isFloat || rty.isFloat)) := by
  cases op <;> cases lty <;> cases rty <;> rfl

theorem inst_else (o l r : List RTok) :
    instantiate [(sLeft, l), (sOperator, o), (sRight, r)] [.var sLeft, .sp, .var sOperator, .sp, .var sRight]
      = l ++ (.sp :: (o ++ (.sp :: (r ++ [])))) := rfl

theorem inst_fixed (s : Str) (o l r : List RTok) :
    instantiate [(sLeft, l), (sOperator, o), (sRight, r)] [.var sLeft, .sp, .tok s, .sp, .var sRight]
      = l ++ (.sp :: .t (.sym s) :: .sp :: (r ++ [])) := rfl

theorem unspaced_append (a b : List RTok) : unspaced (a ++ b) = unspaced a ++ unspaced b := by
  induction a with
  | nil => rfl
  | cons x xs ih => cases x <;> simp [unspaced, ih]

theorem isIn_false_of_cpp {op : BOp} {s : Str} (h : op.cpp = some s) : isIn op = false := by
  cases op <;> first | rfl | cases h

/-- an infix operator of the core is rendered as `left SYM right`, blank-separated -/
theorem renderBinary_raw (op : BOp) (dict : Bool) (lty rty : Ty) (l r : List RTok) (s : Str)
    (hs : op.cpp = some s) (hf : (op == .mod && (lty.isFloat || rty.isFloat)) = false) :
    renderBinary op dict lty rty l r = l ++ (.sp :: .t (.sym s) :: .sp :: r) := by
  unfold renderBinary
  rw [isIn_false_of_cpp hs]
  simp only [Bool.false_eq_true, ↓reduceIte, render, select_binary]
  cases op <;> simp only [BOp.cpp, Option.some.injEq, reduceCtorEq] at hs <;> subst hs
  case mod =>
    have hfl : (lty.isFloat || rty.isFloat) = false := by simpa using hf
    simp only [binShape, hfl]
    simp only [Bool.false_eq_true, ↓reduceIte, inst_else, List.append_nil, BOp.tok, List.nil_append, List.cons_append]
  all_goals simp only [binShape, inst_else, inst_fixed, List.append_nil, BOp.tok, List.nil_append, List.cons_append]

theorem unspaced_renderBinary (op : BOp) (dict : Bool) (lty rty : Ty) (l r : List RTok) (s : Str)
    (hs : op.cpp = some s) (hf : (op == .mod && (lty.isFloat || rty.isFloat)) = false) :
    unspaced (renderBinary op dict lty rty l r) = unspaced l ++ CTok.sym s :: unspaced r := by
  rw [renderBinary_raw op dict lty rty l r s hs hf]
  simp only [unspaced_append, unspaced]

theorem toPrec_sym_of_cpp {op : BOp} {s : Str} (h : op.cpp = some s) : CTok.toPrec (.sym s) = .op op.code := by
  cases op <;> simp only [BOp.cpp, Option.some.injEq, reduceCtorEq] at h <;> subst h <;> rfl

theorem toPrec_uop (op : UOp) : CTok.toPrec (.sym op.tok) = .op op.code := by cases op <;> rfl
theorem toPrec_bang : CTok.toPrec (.sym ['!']) = .op bangCode := rfl
theorem toPrec_lp : CTok.toPrec (.sym ['(']) = .lp := rfl
theorem toPrec_rp : CTok.toPrec (.sym [')']) = .rp := rfl

/-! ## emission = printing the guarded tree (before C++ lexing) -/

theorem guard_print {r : List RTok} {e : Expr} (b : Bool) (h : (unspaced r).map CTok.toPrec = print e) :
    (unspaced (guardIf b r)).map CTok.toPrec = print (wrapE b e) := by
  cases b
  · simpa [guardIf, wrapE] using h
  · simp only [guardIf, wrapE, ↓reduceIte, wrapParen, unspaced, unspaced_append, List.map_cons, List.map_append, List.map_nil, h, print,
      toPrec_lp, toPrec_rp]

mutual
theorem emit_print : ∀ (n : Node), core n = true →
    (unspaced (emitRaw n)).map CTok.toPrec = print (cppExprL n)
  | .atom _ _, _ => rfl
  | .group e, h => by
    have ih := emit_print e (by simpa [core] using h)
    simp only [emitRaw, render_group, unspaced, unspaced_append, List.map_cons, List.map_append, List.map_nil, ih, cppExprL, print,
      toPrec_lp, toPrec_rp]
  | .factor op e, h => by
    have ih := guard_print (sameSign op e) (emit_print e (by simpa [core] using h))
    simp only [emitRaw, renderUnary_eq, List.append_nil, unspaced, List.map_cons, ih, cppExprL, print, toPrec_uop]
  | .notCompare e, h => by
    have ih := guard_print (isRegrouped e ['!']) (emit_print e (by simpa [core] using h))
    simp only [emitRaw, renderUnary_eq, List.append_nil, unspaced, List.map_cons, ih, cppExprL, print, toPrec_bang]
  | .chain _ fty first rest, h => by
    simp only [core, Bool.and_eq_true] at h
    have ih := guard_print (match rest.firstTok with | some o => isRegrouped first o | none => false) (emit_print first h.1)
    simp only [emitRaw, cppExprL]
    exact emitRest_print rest _ fty _ h.2 ih
  | .ternary _ _ _, h => by simp [core] at h
theorem emitRest_print : ∀ (rest : Rest) (prim : List RTok) (pty : Ty) (acc : Expr), coreRest pty rest = true →
    (unspaced prim).map CTok.toPrec = print acc →
    (unspaced (emitRest prim pty rest)).map CTok.toPrec = print (cppRestL acc rest)
  | .nil, _, _, _, _, hp => by simpa [emitRest, cppRestL] using hp
  | .cons op dict ty e rest, prim, pty, acc, h, hp => by
    simp only [coreRest, Bool.and_eq_true, Bool.not_eq_true'] at h
    obtain ⟨⟨⟨hc, hf⟩, he⟩, hr⟩ := h
    obtain ⟨s, hs⟩ := Option.isSome_iff_exists.mp hc
    have ih := guard_print (isRegrouped e op.tok) (emit_print e he)
    simp only [emitRest, cppRestL]
    apply emitRest_print rest _ _ _ hr
    rw [unspaced_renderBinary op dict pty ty prim _ s hs hf]
    simp only [List.map_append, List.map_cons, hp, ih, print, toPrec_sym_of_cpp hs]
end

/-! ## the guards add parentheses only: the emitted tree is Python's grouping up to `paren` -/

theorem strip_wrapE (b : Bool) (e : Expr) : strip (wrapE b e) = strip e := by cases b <;> rfl

mutual
theorem strip_cppExprL : ∀ (n : Node), strip (cppExprL n) = strip (pyExprL n)
  | .atom _ _ => rfl
  | .group e => by simp only [cppExprL, pyExprL, strip, strip_cppExprL e]
  | .factor op e => by simp only [cppExprL, pyExprL, strip, strip_wrapE, strip_cppExprL e]
  | .notCompare e => by simp only [cppExprL, pyExprL, strip, strip_wrapE, strip_cppExprL e]
  | .chain _ _ first rest => by
    simp only [cppExprL, pyExprL]
    exact strip_cppRestL rest _ _ (by rw [strip_wrapE, strip_cppExprL first])
  | .ternary _ _ _ => rfl
theorem strip_cppRestL : ∀ (rest : Rest) (a b : Expr), strip a = strip b → strip (cppRestL a rest) = strip (pyRestL b rest)
  | .nil, _, _, h => by simpa [cppRestL, pyRestL] using h
  | .cons op _ _ e rest, a, b, h => by
    simp only [cppRestL, pyRestL]
    exact strip_cppRestL rest _ _ (by simp only [strip, h, strip_wrapE, strip_cppExprL e])
end

/-! ## C++ lexing -/

theorem length_cppLexGo_le (prev : Option CTok) (r : List RTok) :
    (cppLexGo prev r).length ≤ prev.toList.length + (unspaced r).length := by
  induction r generalizing prev with
  | nil => simp [cppLexGo, unspaced]
  | cons x xs ih =>
    cases x with
    | sp => have := ih none; simp only [cppLexGo, unspaced, List.length_append]; simp at this; omega
    | t b =>
      cases prev with
      | none => have := ih (some b); simp only [cppLexGo, unspaced, List.length_cons]; simp at this ⊢; omega
      | some a =>
        simp only [cppLexGo, unspaced, List.length_cons]
        split
        · have := ih none; simp at this ⊢; omega
        · split
          · have := ih none; simp at this ⊢; omega
          · have := ih (some b); simp at this ⊢; omega

theorem cppLexGo_eq_of_length (prev : Option CTok) (r : List RTok)
    (h : (cppLexGo prev r).length = prev.toList.length + (unspaced r).length) :
    cppLexGo prev r = prev.toList ++ unspaced r := by
  induction r generalizing prev with
  | nil => simp [cppLexGo, unspaced]
  | cons x xs ih =>
    cases x with
    | sp =>
      simp only [cppLexGo, unspaced, List.length_append] at h ⊢
      rw [ih none (by simpa using h)]; simp
    | t b =>
      cases prev with
      | none =>
        simp only [cppLexGo, unspaced, List.length_cons] at h ⊢
        rw [ih (some b) (by simp at h ⊢; omega)]; simp
      | some a =>
        simp only [cppLexGo, unspaced, List.length_cons] at h ⊢
        split at h
        · have := length_cppLexGo_le none xs; simp at this h; omega
        · split at h
          · have := length_cppLexGo_le none xs; simp at this h; omega
          · rename_i h1 h2
            rw [if_neg h1, if_neg h2, ih (some b) (by simp at h ⊢; omega)]; simp

theorem cppLex_eq_of_length (r : List RTok) (h : (cppLex r).length = (unspaced r).length) : cppLex r = unspaced r := by
  have := cppLexGo_eq_of_length none r (by simpa [cppLex] using h)
  simpa [cppLex] using this

theorem noFuse_iff (n : Node) : noFuse n = true ↔ cppLex (emitRaw n) = unspaced (emitRaw n) := by
  simp [noFuse]

/-! ## the guarded emitter never lets two signs touch -/

def isSign (k : CTok) : Bool := decide (k = symMinus) || decide (k = symPlus)

def okPair (a b : CTok) : Bool := !(decide (a = symMinus ∧ b = symMinus)) && !(decide (a = symPlus ∧ b = symPlus))

/-- no two adjacent (blank-free) tokens are the same sign; `prev` as in `cppLexGo` -/
def fuseFree : Option CTok → List RTok → Bool
  | _, [] => true
  | _, .sp :: ts => fuseFree none ts
  | prev, .t b :: ts => (match prev with | some a => okPair a b | none => true) && fuseFree (some b) ts

def lastTok : Option CTok → List RTok → Option CTok
  | p, [] => p
  | _, .sp :: ts => lastTok none ts
  | _, .t b :: ts => lastTok (some b) ts

theorem cppLexGo_of_fuseFree (prev : Option CTok) (r : List RTok) (h : fuseFree prev r = true) :
    cppLexGo prev r = prev.toList ++ unspaced r := by
  induction r generalizing prev with
  | nil => simp [cppLexGo, unspaced]
  | cons x xs ih =>
    cases x with
    | sp => simp only [fuseFree] at h; simp [cppLexGo, unspaced, ih none h]
    | t b =>
      simp only [fuseFree, Bool.and_eq_true] at h
      cases prev with
      | none => simp [cppLexGo, unspaced, ih (some b) h.2]
      | some a =>
        have hp := h.1
        simp only [okPair, Bool.and_eq_true, Bool.not_eq_true', decide_eq_false_iff_not] at hp
        simp only [cppLexGo, unspaced, if_neg hp.1, if_neg hp.2, ih (some b) h.2]
        simp

theorem fuseFree_append (prev : Option CTok) (a b : List RTok) :
    fuseFree prev (a ++ b) = (fuseFree prev a && fuseFree (lastTok prev a) b) := by
  induction a generalizing prev with
  | nil => simp [fuseFree, lastTok]
  | cons x xs ih => cases x <;> simp [fuseFree, lastTok, ih, Bool.and_assoc]

theorem lastTok_append (prev : Option CTok) (a b : List RTok) : lastTok prev (a ++ b) = lastTok (lastTok prev a) b := by
  induction a generalizing prev with
  | nil => rfl
  | cons x xs ih => cases x <;> simp [lastTok, ih]

/-- a well-behaved emitted fragment: no fused signs inside, starts with a token, ends with a token that is not a sign -/
structure Good (r : List RTok) : Prop where
  free : fuseFree none r = true
  starts : ∃ b ts, r = .t b :: ts
  ends : ∀ p, ∃ k, lastTok p r = some k ∧ isSign k = false

def headTok : List RTok → Option CTok
  | .t b :: _ => some b
  | _ => none

theorem fuseFree_some_of_good {r : List RTok} (g : Good r) (a : CTok) :
    fuseFree (some a) r = (match headTok r with | some b => okPair a b | none => true) := by
  obtain ⟨b, ts, rfl⟩ := g.starts
  have := g.free
  simp only [fuseFree, Bool.true_and] at this
  simp [fuseFree, headTok, this]

theorem okPair_of_not_sign_left {a : CTok} (h : isSign a = false) (b : CTok) : okPair a b = true := by
  simp only [isSign, Bool.or_eq_false_iff, decide_eq_false_iff_not] at h
  simp [okPair, h.1, h.2]

theorem fuseFree_after_closed {r : List RTok} (g : Good r) {a : CTok} (h : isSign a = false) : fuseFree (some a) r = true := by
  rw [fuseFree_some_of_good g]
  cases headTok r <;> simp [okPair_of_not_sign_left h]

theorem good_wrapParen {r : List RTok} (g : Good r) : Good (wrapParen r) := by
  refine ⟨?_, ⟨_, _, rfl⟩, fun p => ⟨.sym [')'], ?_, by decide⟩⟩
  · simp only [wrapParen, fuseFree, Bool.true_and, fuseFree_append, Bool.and_eq_true]
    refine ⟨fuseFree_after_closed g (by decide), ?_⟩
    obtain ⟨k, hk, hs⟩ := g.ends (some (.sym ['(']))
    simp [hk, okPair_of_not_sign_left hs]
  · simp [wrapParen, lastTok, lastTok_append]

theorem good_guardIf {r : List RTok} (g : Good r) (b : Bool) : Good (guardIf b r) := by
  cases b
  · simpa [guardIf] using g
  · simpa [guardIf] using good_wrapParen g

theorem good_atom (id : Nat) (t : Str) : Good [.t (.atom id t)] :=
  ⟨rfl, ⟨_, _, rfl⟩, fun _ => ⟨_, rfl, by simp [isSign, symMinus, symPlus]⟩⟩

/-- prefix operator directly before a fragment whose first token it cannot fuse with -/
theorem good_unary {v : List RTok} (g : Good v) (op : Str)
    (h : ∀ b, headTok v = some b → okPair (.sym op) b = true) : Good (.t (.sym op) :: (v ++ [])) := by
  rw [List.append_nil]
  refine ⟨?_, ⟨_, _, rfl⟩, fun p => ?_⟩
  · simp only [fuseFree, Bool.true_and]
    rw [fuseFree_some_of_good g]
    cases hh : headTok v with
    | none => rfl
    | some b => exact h b hh
  · obtain ⟨k, hk, hs⟩ := g.ends (some (.sym op))
    exact ⟨k, by simpa [lastTok] using hk, hs⟩

theorem good_binary {l r : List RTok} (gl : Good l) (gr : Good r) (s : Str) : Good (l ++ (.sp :: .t (.sym s) :: .sp :: r)) := by
  refine ⟨?_, ?_, fun p => ?_⟩
  · rw [fuseFree_append, gl.free]
    simp only [Bool.true_and, fuseFree]
    exact gr.free
  · obtain ⟨b, ts, rfl⟩ := gl.starts
    exact ⟨_, _, rfl⟩
  · obtain ⟨k, hk, hs⟩ := gr.ends none
    refine ⟨k, ?_, hs⟩
    rw [lastTok_append]
    simpa [lastTok] using hk

theorem headTok_wrapParen (r : List RTok) : headTok (wrapParen r) = some (.sym ['(']) := rfl

theorem okPair_lp (a : CTok) : okPair a (.sym ['(']) = true := by
  simp [okPair, symMinus, symPlus]

theorem okPair_atom (a : CTok) (id : Nat) (t : Str) : okPair a (.atom id t) = true := by
  simp [okPair, symMinus, symPlus]

theorem okPair_bang (b : CTok) : okPair (.sym ['!']) b = true := by
  simp [okPair, symMinus, symPlus]

theorem okPair_uop_of_not_sameSign {op op' : UOp} (h : ((op == .pos || op == .neg) && op == op') = false) :
    okPair (.sym op.tok) (.sym op'.tok) = true := by
  cases op <;> cases op' <;> first | (simp at h; done) | decide

theorem wf_chain_level_le {lv : Nat} {fty : Ty} {f : Node} {r : Rest} (h : wf (.chain lv fty f r) = true) : lv ≤ 9 := by
  simp only [wf, Bool.and_eq_true, decide_eq_true_eq] at h
  cases r with
  | nil => simp [Rest.length] at h
  | cons op d t e r' =>
    simp only [wfRest, Bool.and_eq_true, decide_eq_true_eq] at h
    have := h.2.1.1.1.1
    cases op <;> simp only [BOp.level] at this <;> omega

mutual
theorem good_emitRaw : ∀ (n : Node), core n = true → wf n = true → Good (emitRaw n)
  | .atom id t, _, _ => good_atom id t
  | .group e, hc, hw => by
    have ih := good_emitRaw e (by simpa [core] using hc) (by simpa [wf] using hw)
    simpa [emitRaw, render_group, wrapParen] using good_wrapParen ih
  | .factor op e, hc, hw => by
    simp only [wf, Bool.and_eq_true, decide_eq_true_eq] at hw
    have ih := good_emitRaw e (by simpa [core] using hc) hw.2
    simp only [emitRaw, renderUnary_eq]
    apply good_unary (good_guardIf ih _)
    intro b hb
    cases hs : sameSign op e with
    | true => simp only [hs, guardIf, ↓reduceIte, headTok_wrapParen, Option.some.injEq] at hb; subst hb; exact okPair_lp _
    | false =>
      simp only [hs, guardIf, Bool.false_eq_true, ↓reduceIte] at hb
      cases e with
      | atom id t => simp only [emitRaw, headTok, Option.some.injEq] at hb; subst hb; exact okPair_atom _ _ _
      | group e' => simp only [emitRaw, render_group, headTok, Option.some.injEq] at hb; subst hb; exact okPair_lp _
      | factor op' e' =>
        simp only [emitRaw, renderUnary_eq, headTok, Option.some.injEq] at hb; subst hb
        exact okPair_uop_of_not_sameSign (by simpa [sameSign] using hs)
      | notCompare e' => simp [topLevel, factorLevel, notLevel] at hw
      | chain lv fty f r =>
        have := wf_chain_level_le hw.2
        simp only [topLevel, factorLevel] at hw; omega
      | ternary p c s => simp [core] at hc
  | .notCompare e, hc, hw => by
    simp only [wf, Bool.and_eq_true, decide_eq_true_eq] at hw
    have ih := good_emitRaw e (by simpa [core] using hc) hw.2
    simp only [emitRaw, renderUnary_eq]
    exact good_unary (good_guardIf ih _) _ (fun b _ => okPair_bang b)
  | .chain lv fty first rest, hc, hw => by
    simp only [core, Bool.and_eq_true] at hc
    simp only [wf, Bool.and_eq_true, decide_eq_true_eq] at hw
    obtain ⟨⟨⟨⟨_, _⟩, hwf⟩, _⟩, hwr⟩ := hw
    have ih := good_emitRaw first hc.1 hwf
    simp only [emitRaw]
    exact good_emitRest rest lv fty _ hc.2 hwr (good_guardIf ih _)
  | .ternary _ _ _, hc, _ => by simp [core] at hc
theorem good_emitRest : ∀ (rest : Rest) (lv : Nat) (pty : Ty) (prim : List RTok), coreRest pty rest = true → wfRest lv rest = true →
    Good prim → Good (emitRest prim pty rest)
  | .nil, _, _, _, _, _, g => by simpa [emitRest] using g
  | .cons op dict ty e rest, lv, pty, prim, hc, hw, g => by
    simp only [coreRest, Bool.and_eq_true, Bool.not_eq_true'] at hc
    obtain ⟨⟨⟨hcpp, hf⟩, hce⟩, hcr⟩ := hc
    simp only [wfRest, Bool.and_eq_true, decide_eq_true_eq] at hw
    obtain ⟨⟨⟨⟨_, _⟩, _⟩, hwe⟩, hwr⟩ := hw
    obtain ⟨s, hs⟩ := Option.isSome_iff_exists.mp hcpp
    have ih := good_emitRaw e hce hwe
    simp only [emitRest]
    apply good_emitRest rest lv _ _ hcr hwr
    rw [renderBinary_raw op dict pty ty prim _ s hs hf]
    exact good_binary g (good_guardIf ih _) s
end

/-- for grammar-producible core nodes C++ maximal munch merges nothing: the lexed tokens are the emitted tokens -/
theorem cppLex_emitRaw (n : Node) (hc : core n = true) (hw : wf n = true) : cppLex (emitRaw n) = unspaced (emitRaw n) := by
  have := cppLexGo_of_fuseFree none _ (good_emitRaw n hc hw).free
  simpa [cppLex] using this

/-! ## facts about the two tables (closed computations) -/

theorem pyOps_bin_of_cpp {op : BOp} {s : Str} (h : op.cpp = some s) : pyOps.bin op.code = some op.level := by
  cases op <;> simp only [BOp.cpp, reduceCtorEq] at h <;> rfl

theorem pyOps_pre_uop (op : UOp) : pyOps.pre op.code = some factorLevel := by cases op <;> rfl
theorem pyOps_pre_bang : pyOps.pre bangCode = some notLevel := rfl

theorem mem_vocabulary_bin {op : BOp} {s : Str} (h : op.cpp = some s) : Head.bin op.code ∈ vocabulary := by
  cases op <;> simp only [BOp.cpp, reduceCtorEq] at h <;> decide

theorem mem_vocabulary_uop (op : UOp) : Head.pre op.code ∈ vocabulary := by cases op <;> decide
theorem mem_vocabulary_bang : Head.pre bangCode ∈ vocabulary := by decide

/-! ## the emitter's precedence table (translated from py2cpp.py) against the C++ grammar table -/

def BOp.prec (op : BOp) : Nat := (lookup op.tok cppPrecBinary).getD 0

/-- every infix operator of the core is in `CppOperatorPrecedences.binary`, and its precedence there is the level of its
    C++ symbol in `cppTable` (+1) — `decide` over the translated table -/
theorem prec_facts {op : BOp} {s : Str} (h : op.cpp = some s) :
    lookup op.tok cppPrecBinary = some op.prec ∧ cppOps.bin op.code = some (op.prec - 1) ∧ 1 ≤ op.prec ∧ op.prec ≤ 10 := by
  cases op <;> simp only [BOp.cpp, reduceCtorEq] at h <;> exact ⟨rfl, rfl, by decide, by decide⟩

theorem precOf_tok {op : BOp} {s : Str} (h : op.cpp = some s) : precOf op.tok = op.prec := by
  simp [precOf, (prec_facts h).1]

theorem precOf_bang : precOf ['!'] = 11 := rfl
theorem cppOps_pre_uop (op : UOp) : cppOps.pre op.code = some 10 := by cases op <;> rfl
theorem cppOps_pre_bang : cppOps.pre bangCode = some 10 := rfl

theorem level_le_nine (op : BOp) : op.level ≤ 9 := by cases op <;> decide

/-- operators of one Python level (other than the comparisons) share their C++ precedence -/
theorem prec_eq_of_level {op op' : BOp} {s s' : Str} (h : op.cpp = some s) (h' : op'.cpp = some s')
    (hl : op.level = op'.level) (hc : op.level ≠ cmpLevel) : op.prec = op'.prec := by
  cases op <;> simp only [BOp.cpp, reduceCtorEq] at h <;> cases op' <;> simp only [BOp.cpp, reduceCtorEq] at h' <;>
    first | rfl | (exact absurd hl (by decide)) | (exact absurd rfl hc)

/-- operators of different Python levels never share a C++ precedence -/
theorem prec_ne_of_level {op op' : BOp} {s s' : Str} (h : op.cpp = some s) (h' : op'.cpp = some s')
    (hl : op.level ≠ op'.level) : op.prec ≠ op'.prec := by
  cases op <;> simp only [BOp.cpp, reduceCtorEq] at h <;> cases op' <;> simp only [BOp.cpp, reduceCtorEq] at h' <;>
    first | decide | (exact absurd rfl hl)

def Rest.lastOp : Rest → Option BOp
  | .nil => none
  | .cons op _ _ _ rest => match rest.lastOp with
    | some o => some o
    | none => some op

theorem head_cppRestL : ∀ (rest : Rest) (acc : Expr),
    head (cppRestL acc rest) = (match rest.lastOp with | some o => .bin o.code | none => head acc)
  | .nil, _ => rfl
  | .cons op d t e rest, acc => by
    simp only [cppRestL, Rest.lastOp, head_cppRestL rest]
    cases rest.lastOp <;> rfl

theorem minList_le {l : List Nat} {x : Nat} (h : x ∈ l) : minList l ≤ x := by
  induction l with
  | nil => cases h
  | cons y ys ih =>
    cases ys with
    | nil => simp only [List.mem_singleton] at h; subst h; exact Nat.le_refl _
    | cons z zs =>
      simp only [minList]
      rcases List.mem_cons.mp h with rfl | h
      · exact Nat.min_le_left _ _
      · exact Nat.le_trans (Nat.min_le_right _ _) (ih h)

theorem lastOp_facts : ∀ (rest : Rest) (lv : Nat) (pty : Ty) (o : BOp), coreRest pty rest = true → wfRest lv rest = true →
    rest.lastOp = some o → o.cpp.isSome = true ∧ o.level = lv ∧ o.prec ∈ restPrecs rest
  | .nil, _, _, _, _, _, hl => by cases hl
  | .cons op d t e rest, lv, pty, o, hc, hw, hl => by
    simp only [coreRest, Bool.and_eq_true, Bool.not_eq_true'] at hc
    simp only [wfRest, Bool.and_eq_true, decide_eq_true_eq] at hw
    obtain ⟨s, hs⟩ := Option.isSome_iff_exists.mp hc.1.1.1
    simp only [restPrecs, (prec_facts hs).1]
    simp only [Rest.lastOp] at hl
    cases hlo : rest.lastOp with
    | none => rw [hlo] at hl; cases hl; exact ⟨hc.1.1.1, hw.1.1.1.1, List.mem_cons_self⟩
    | some o' =>
      rw [hlo] at hl; cases hl
      have := lastOp_facts rest lv _ o hc.2 hw.2 hlo
      exact ⟨this.1, this.2.1, List.mem_cons_of_mem _ this.2.2⟩

theorem lastOp_isSome_of_length : ∀ (rest : Rest), 1 ≤ rest.length → ∃ o, rest.lastOp = some o
  | .nil, h => by simp [Rest.length] at h
  | .cons op d t e rest, _ => by
    simp only [Rest.lastOp]
    cases rest.lastOp with
    | none => exact ⟨op, rfl⟩
    | some o => exact ⟨o, rfl⟩

/-- what the head of the emitted tree of a node can be, and what "not regrouped" tells about it -/
def HeadOK (n : Node) : Prop :=
  head (cppExprL n) = .leaf ∨ (∃ c, head (cppExprL n) = .pre c ∧ cppOps.pre c = some 10) ∨
  (∃ (o : BOp) (s : Str), head (cppExprL n) = .bin o.code ∧ o.cpp = some s ∧ o.level = topLevel n ∧
    ∀ tok, isRegrouped n tok = false → precOf tok ≤ o.prec)

theorem head_wrapE_true (e : Expr) : head (wrapE true e) = .leaf := rfl

theorem headOK (n : Node) (hc : core n = true) (hw : wf n = true) : HeadOK n := by
  cases n with
  | atom id t => exact Or.inl rfl
  | group e => exact Or.inl rfl
  | factor op e => exact Or.inr (Or.inl ⟨op.code, rfl, cppOps_pre_uop op⟩)
  | notCompare e => exact Or.inr (Or.inl ⟨bangCode, rfl, cppOps_pre_bang⟩)
  | ternary p c s => simp [core] at hc
  | chain lv fty first rest =>
    simp only [core, Bool.and_eq_true] at hc
    simp only [wf, Bool.and_eq_true, decide_eq_true_eq] at hw
    obtain ⟨⟨⟨_, _⟩, hlen⟩, hwr⟩ := hw
    obtain ⟨o, hlo⟩ := lastOp_isSome_of_length rest hlen
    · obtain ⟨hcore, hlv, hmem⟩ := lastOp_facts rest lv fty o hc.2 hwr hlo
      obtain ⟨s, hs⟩ := Option.isSome_iff_exists.mp hcore
      refine Or.inr (Or.inr ⟨o, s, ?_, hs, hlv, ?_⟩)
      · simp only [cppExprL, head_cppRestL, hlo]
      · intro tok hreg
        simp only [isRegrouped] at hreg
        split at hreg
        · next hemp => simp only [List.isEmpty_iff] at hemp; rw [hemp] at hmem; cases hmem
        · have := minList_le hmem
          simp only [decide_eq_false_iff_not, Nat.not_lt] at hreg
          omega

theorem nf_wrapE (L : Ops) (b : Bool) (e : Expr) : nf L (wrapE b e) = nf L e := by cases b <;> rfl

/-- a guarded operand may stand to the right of an infix operator of a looser Python level -/
theorem right_ok {P : BOp} {s : Str} (hP : P.cpp = some s) {e : Node} (hk : HeadOK e) (hlt : P.level < topLevel e) :
    okAt cppOps (P.prec - 1 + 1) (head (wrapE (isRegrouped e P.tok) (cppExprL e))) = true := by
  have hp := prec_facts hP
  cases hreg : isRegrouped e P.tok with
  | true => rfl
  | false =>
    simp only [wrapE, Bool.false_eq_true, ↓reduceIte]
    rcases hk with h | ⟨c, h, hc⟩ | ⟨o, so, h, ho, hlv, hmin⟩
    · rw [h]; rfl
    · rw [h]; simp only [okAt, hc]; simp; omega
    · have h1 := hmin _ hreg
      rw [precOf_tok hP] at h1
      have h2 := prec_ne_of_level hP ho (by omega)
      have ho' := prec_facts ho
      rw [h]; simp only [okAt, ho'.2.1]; simp; omega

/-- … and as the first operand of a chain of a looser Python level -/
theorem left_ok {P : BOp} {s : Str} (hP : P.cpp = some s) {e : Node} (hk : HeadOK e) :
    okL cppOps (P.prec - 1) (head (wrapE (isRegrouped e P.tok) (cppExprL e))) = true := by
  have hp := prec_facts hP
  cases hreg : isRegrouped e P.tok with
  | true => rfl
  | false =>
    simp only [wrapE, Bool.false_eq_true, ↓reduceIte]
    rcases hk with h | ⟨c, h, hc⟩ | ⟨o, so, h, ho, hlv, hmin⟩
    · rw [h]; rfl
    · rw [h]; simp only [okL, hc]; simp; omega
    · have h1 := hmin _ hreg
      rw [precOf_tok hP] at h1
      have ho' := prec_facts ho
      rw [h]; simp only [okL, ho'.2.1]; simp; omega

mutual
/-- **by construction**: the tree the guarded emitter spells is in C++ normal form -/
theorem nf_cpp : ∀ (n : Node), core n = true → wf n = true → cmpChainFree n = true → nf cppOps (cppExprL n) = true
  | .atom _ _, _, _, _ => rfl
  | .group e, hc, hw, hf => by
    simpa [cppExprL, nf] using nf_cpp e (by simpa [core] using hc) (by simpa [wf] using hw) (by simpa [cmpChainFree] using hf)
  | .factor op e, hc, hw, hf => by
    simp only [wf, Bool.and_eq_true, decide_eq_true_eq] at hw
    have hce : core e = true := by simpa [core] using hc
    have ih := nf_cpp e hce hw.2 (by simpa [cmpChainFree] using hf)
    simp only [cppExprL, nf, slotOk, cppOps_pre_uop, Bool.and_eq_true, nf_wrapE]
    refine ⟨?_, ih⟩
    cases hs : sameSign op e with
    | true => rfl
    | false =>
      simp only [wrapE, Bool.false_eq_true, ↓reduceIte]
      rcases headOK e hce hw.2 with h | ⟨c, h, hc'⟩ | ⟨o, so, h, ho, hlv, _⟩
      · rw [h]; rfl
      · rw [h]; simp [okAt, hc']
      · have := level_le_nine o
        simp only [factorLevel] at hw; omega
  | .notCompare e, hc, hw, hf => by
    simp only [wf, Bool.and_eq_true, decide_eq_true_eq] at hw
    have hce : core e = true := by simpa [core] using hc
    have ih := nf_cpp e hce hw.2 (by simpa [cmpChainFree] using hf)
    simp only [cppExprL, nf, slotOk, cppOps_pre_bang, Bool.and_eq_true, nf_wrapE]
    refine ⟨?_, ih⟩
    cases hreg : isRegrouped e ['!'] with
    | true => rfl
    | false =>
      simp only [wrapE, Bool.false_eq_true, ↓reduceIte]
      rcases headOK e hce hw.2 with h | ⟨c, h, hc'⟩ | ⟨o, so, h, ho, hlv, hmin⟩
      · rw [h]; rfl
      · rw [h]; simp [okAt, hc']
      · have h1 := hmin _ hreg
        have := (prec_facts ho).2.2.2
        rw [precOf_bang] at h1; omega
  | .chain lv fty first rest, hc, hw, hf => by
    simp only [core, Bool.and_eq_true] at hc
    simp only [wf, Bool.and_eq_true, decide_eq_true_eq] at hw
    obtain ⟨⟨⟨⟨hlt, _⟩, hwf⟩, hlen⟩, hwr⟩ := hw
    simp only [cmpChainFree, Bool.and_eq_true, Bool.not_eq_true'] at hf
    obtain ⟨⟨hcmp, hff⟩, hfr⟩ := hf
    cases rest with
    | nil => simp [Rest.length] at hlen
    | cons op d ty e rest' =>
      simp only [coreRest, Bool.and_eq_true, Bool.not_eq_true'] at hc
      obtain ⟨hcf, ⟨⟨⟨hcpp, _⟩, hce⟩, hcr⟩⟩ := hc
      simp only [wfRest, Bool.and_eq_true, decide_eq_true_eq] at hwr
      obtain ⟨⟨⟨⟨hlv, hlte⟩, _⟩, hwe⟩, hwr'⟩ := hwr
      simp only [cmpChainFreeRest, Bool.and_eq_true] at hfr
      obtain ⟨s, hs⟩ := Option.isSome_iff_exists.mp hcpp
      have hp := prec_facts hs
      have ihf := nf_cpp first hcf hwf hff
      have ihe := nf_cpp e hce hwe hfr.1
      simp only [cppExprL, Rest.firstTok, cppRestL]
      apply nf_cppTail rest' lv _ _ op s hcr hwr' hfr.2 ?_ ?_ rfl hs hlv
      · intro hl
        cases rest' with
        | nil => rfl
        | cons _ _ _ _ _ => simp [hl, Rest.length, cmpLevel] at hcmp
      · simp only [nf, slotOk, hp.2.1, Bool.and_eq_true, nf_wrapE]
        exact ⟨⟨⟨left_ok hs (headOK first hcf hwf), right_ok hs (headOK e hce hwe) (by omega)⟩, ihf⟩, ihe⟩
  | .ternary _ _ _, hc, _, _ => by simp [core] at hc
theorem nf_cppTail : ∀ (rest : Rest) (lv : Nat) (pty : Ty) (acc : Expr) (o : BOp) (so : Str), coreRest pty rest = true →
    wfRest lv rest = true → cmpChainFreeRest rest = true → (lv = cmpLevel → rest = .nil) → nf cppOps acc = true →
    head acc = .bin o.code → o.cpp = some so → o.level = lv → nf cppOps (cppRestL acc rest) = true
  | .nil, _, _, _, _, _, _, _, _, _, hn, _, _, _ => by simpa [cppRestL] using hn
  | .cons op d ty e rest, lv, pty, acc, o, so, hc, hw, hf, hcmp, hn, hh, ho, hol => by
    simp only [coreRest, Bool.and_eq_true, Bool.not_eq_true'] at hc
    obtain ⟨⟨⟨hcpp, _⟩, hce⟩, hcr⟩ := hc
    simp only [wfRest, Bool.and_eq_true, decide_eq_true_eq] at hw
    obtain ⟨⟨⟨⟨hlv, hlte⟩, _⟩, hwe⟩, hwr⟩ := hw
    simp only [cmpChainFreeRest, Bool.and_eq_true] at hf
    obtain ⟨s, hs⟩ := Option.isSome_iff_exists.mp hcpp
    have hp := prec_facts hs
    have hne : lv ≠ cmpLevel := fun h => by cases hcmp h
    have heq : op.prec = o.prec := prec_eq_of_level hs ho (by omega) (by omega)
    have ihe := nf_cpp e hce hwe hf.1
    simp only [cppRestL]
    apply nf_cppTail rest lv _ _ op s hcr hwr hf.2 (fun h => absurd h hne) ?_ rfl hs hlv
    simp only [nf, slotOk, hp.2.1, Bool.and_eq_true, nf_wrapE]
    refine ⟨⟨⟨?_, right_ok hs (headOK e hce hwe) (by omega)⟩, hn⟩, ihe⟩
    rw [hh]; simp only [okL, (prec_facts ho).2.1]; simp; omega
end

/-! ## grammar-producible trees are in Python normal form -/

/-- the head of a node's tree may stand bare wherever the ladder level of the node allows -/
def headFits (n : Node) : Prop :=
  (∀ m, m ≤ topLevel n → okAt pyOps m (head (pyExprL n)) = true) ∧
  (∀ k, k < topLevel n → okL pyOps k (head (pyExprL n)) = true)

theorem headFits_of_bin {n : Node} {o lv : Nat} (hh : head (pyExprL n) = .bin o) (ho : pyOps.bin o = some lv) (ht : topLevel n = lv) :
    headFits n := by
  constructor
  · intro m hm; rw [hh]; simp only [okAt, ho]; simp; omega
  · intro k hk; rw [hh]; simp only [okL, ho]; simp; omega

mutual
theorem nf_py : ∀ (n : Node), core n = true → wf n = true → nf pyOps (pyExprL n) = true ∧ headFits n
  | .atom _ _, _, _ => ⟨rfl, fun _ _ => rfl, fun _ _ => rfl⟩
  | .group e, hc, hw => by
    have ih := nf_py e (by simpa [core] using hc) (by simpa [wf] using hw)
    exact ⟨by simpa [pyExprL, nf] using ih.1, fun _ _ => rfl, fun _ _ => rfl⟩
  | .factor op e, hc, hw => by
    simp only [wf, Bool.and_eq_true, decide_eq_true_eq] at hw
    have ih := nf_py e (by simpa [core] using hc) hw.2
    refine ⟨?_, ?_, ?_⟩
    · simp only [pyExprL, nf, slotOk, pyOps_pre_uop, Bool.and_eq_true]
      exact ⟨ih.2.1 _ hw.1, ih.1⟩
    · intro m hm; simp only [pyExprL, head, okAt, pyOps_pre_uop]; simp only [topLevel] at hm; simpa using hm
    · intro k hk; simp only [pyExprL, head, okL, pyOps_pre_uop]; simp only [topLevel] at hk; simpa using hk
  | .notCompare e, hc, hw => by
    simp only [wf, Bool.and_eq_true, decide_eq_true_eq] at hw
    have ih := nf_py e (by simpa [core] using hc) hw.2
    refine ⟨?_, ?_, ?_⟩
    · simp only [pyExprL, nf, slotOk, pyOps_pre_bang, Bool.and_eq_true]
      exact ⟨ih.2.1 _ hw.1.1, ih.1⟩
    · intro m hm; simp only [pyExprL, head, okAt, pyOps_pre_bang]; simp only [topLevel] at hm; simpa using hm
    · intro k hk; simp only [pyExprL, head, okL, pyOps_pre_bang]; simp only [topLevel] at hk; simpa using hk
  | .chain lv fty first rest, hc, hw => by
    simp only [core, Bool.and_eq_true] at hc
    simp only [wf, Bool.and_eq_true, decide_eq_true_eq] at hw
    obtain ⟨⟨⟨⟨hlt, _⟩, hwf⟩, hlen⟩, hwr⟩ := hw
    have ih := nf_py first hc.1 hwf
    have hr := nf_pyRest rest lv fty (pyExprL first) hc.2 hwr ih.1 (ih.2.2 _ hlt)
    obtain ⟨o, ho1, ho2⟩ := hr.2 hlen
    exact ⟨by simpa [pyExprL] using hr.1, headFits_of_bin (by simpa [pyExprL] using ho1) ho2 rfl⟩
  | .ternary _ _ _, hc, _ => by simp [core] at hc
theorem nf_pyRest : ∀ (rest : Rest) (lv : Nat) (pty : Ty) (acc : Expr), coreRest pty rest = true → wfRest lv rest = true →
    nf pyOps acc = true → okL pyOps lv (head acc) = true →
    nf pyOps (pyRestL acc rest) = true ∧ (1 ≤ rest.length → ∃ o, head (pyRestL acc rest) = .bin o ∧ pyOps.bin o = some lv)
  | .nil, _, _, _, _, _, hn, _ => ⟨by simpa [pyRestL] using hn, by simp [Rest.length]⟩
  | .cons op dict ty e rest, lv, pty, acc, hc, hw, hn, hl => by
    simp only [coreRest, Bool.and_eq_true, Bool.not_eq_true'] at hc
    obtain ⟨⟨⟨hcpp, _⟩, hce⟩, hcr⟩ := hc
    simp only [wfRest, Bool.and_eq_true, decide_eq_true_eq] at hw
    obtain ⟨⟨⟨⟨hlv, hlt⟩, _⟩, hwe⟩, hwr⟩ := hw
    obtain ⟨s, hs⟩ := Option.isSome_iff_exists.mp hcpp
    have hbin : pyOps.bin op.code = some lv := by rw [pyOps_bin_of_cpp hs, hlv]
    have ihe := nf_py e hce hwe
    have hacc : nf pyOps (.bin op.code acc (pyExprL e)) = true := by
      simp only [nf, slotOk, hbin, Bool.and_eq_true]
      exact ⟨⟨⟨hl, ihe.2.1 _ (by omega)⟩, hn⟩, ihe.1⟩
    have hl' : okL pyOps lv (head (Expr.bin op.code acc (pyExprL e))) = true := by
      simp only [head, okL, hbin]; simp
    have ih := nf_pyRest rest lv _ _ hcr hwr hacc hl'
    refine ⟨by simpa [pyRestL] using ih.1, fun _ => ?_⟩
    simp only [pyRestL]
    cases rest with
    | nil => exact ⟨op.code, rfl, hbin⟩
    | cons op' d' t' e' r' => exact ih.2 (by simp [Rest.length])
end

mutual
theorem heads_vocabulary : ∀ (n : Node), core n = true → ∀ h ∈ heads (pyExprL n), h ∈ vocabulary
  | .atom _ _, _ => by simp [pyExprL, heads]
  | .group e, hc => by simpa [pyExprL, heads] using heads_vocabulary e (by simpa [core] using hc)
  | .factor op e, hc => by
    have ih := heads_vocabulary e (by simpa [core] using hc)
    intro h hh
    simp only [pyExprL, heads, List.mem_cons] at hh
    rcases hh with rfl | hh
    · exact mem_vocabulary_uop op
    · exact ih h hh
  | .notCompare e, hc => by
    have ih := heads_vocabulary e (by simpa [core] using hc)
    intro h hh
    simp only [pyExprL, heads, List.mem_cons] at hh
    rcases hh with rfl | hh
    · exact mem_vocabulary_bang
    · exact ih h hh
  | .chain _ fty first rest, hc => by
    simp only [core, Bool.and_eq_true] at hc
    simpa [pyExprL] using heads_vocabularyRest rest fty _ hc.2 (heads_vocabulary first hc.1)
  | .ternary _ _ _, hc => by simp [core] at hc
theorem heads_vocabularyRest : ∀ (rest : Rest) (pty : Ty) (acc : Expr), coreRest pty rest = true →
    (∀ h ∈ heads acc, h ∈ vocabulary) → ∀ h ∈ heads (pyRestL acc rest), h ∈ vocabulary
  | .nil, _, _, _, ha => by simpa [pyRestL] using ha
  | .cons op dict ty e rest, pty, acc, hc, ha => by
    simp only [coreRest, Bool.and_eq_true, Bool.not_eq_true'] at hc
    obtain ⟨⟨⟨hcpp, _⟩, hce⟩, hcr⟩ := hc
    obtain ⟨s, hs⟩ := Option.isSome_iff_exists.mp hcpp
    have ihe := heads_vocabulary e hce
    simp only [pyRestL]
    apply heads_vocabularyRest rest _ _ hcr
    intro h hh
    simp only [heads, List.mem_cons, List.mem_append] at hh
    rcases hh with rfl | hh | hh
    · exact mem_vocabulary_bin hs
    · exact ha h hh
    · exact ihe h hh
end

end Tranp.Emit
