/-
  Helper lemmas for property C01 (Tranp.Model.Emit). Property theorems are in Tranp/Props/C01.lean.
-/
import Tranp.Model.Emit
import Tranp.Lemmas.Prec

namespace Tranp.Emit
open Tranp Tranp.Generated.CppTemplates Tranp.Prec

/-! ## the generated templates, evaluated -/

theorem render_group (r : List RTok) :
    render group {} [(sExpression, r)] = .t (.sym ['(']) :: (r ++ [.t (.sym [')'])]) := by rfl

theorem renderUnary_eq (op : Str) (v : List RTok) : renderUnary op v = .t (.sym op) :: (v ++ []) := by rfl

/-- the line of binary_operator.j2 an operator selects (`fl`: one operand type is float/double) -/
def binShape (op : BOp) (fl : Bool) : List Piece :=
  match op with
  | .is => [.var sLeft, .sp, .tok ['=', '='], .sp, .var sRight]
  | .isNot => [.var sLeft, .sp, .tok ['!', '='], .sp, .var sRight]
  | .and => [.var sLeft, .sp, .tok ['&', '&'], .sp, .var sRight]
  | .or => [.var sLeft, .sp, .tok ['|', '|'], .sp, .var sRight]
  | .mod => if fl then [.tok ['f', 'm', 'o', 'd'], .tok ['('], .var sLeft, .tok [','], .sp, .var sRight, .tok [')']]
            else [.var sLeft, .sp, .var sOperator, .sp, .var sRight]
  | _ => [.var sLeft, .sp, .var sOperator, .sp, .var sRight]

/-- `decide` over generated table × operator × operand types: which branch of binary_operator.j2 is taken -/
theorem select_binary (op : BOp) (lty rty : Ty) :
    select { strs := [(sOperator, op.tok), (sLeftTy, lty.name), (sRightTy, rty.name)] } binaryOperator
      = some (binShape op (lty.isFloat || rty.isFloat)) := by
  cases op <;> cases lty <;> cases rty <;> rfl

theorem inst_else (o l r : List RTok) :
    instantiate [(sLeft, l), (sOperator, o), (sRight, r)] [.var sLeft, .sp, .var sOperator, .sp, .var sRight]
      = l ++ (.sp :: (o ++ (.sp :: (r ++ [])))) := rfl

theorem inst_fixed (s : Str) (o l r : List RTok) :
    instantiate [(sLeft, l), (sOperator, o), (sRight, r)] [.var sLeft, .sp, .tok s, .sp, .var sRight]
      = l ++ (.sp :: .t (.sym s) :: .sp :: (r ++ [])) := rfl

theorem unspaced_append (a b : List RTok) : unspaced (a ++ b) = unspaced a ++ unspaced b := by
  induction a with
  | nil => rfl
  | cons x xs ih => cases x <;> simp [unspaced, ih]

theorem isIn_false_of_cpp {op : BOp} {s : Str} (h : op.cpp = some s) : isIn op = false := by
  cases op <;> first | rfl | cases h

/-- an infix operator of the core is rendered as `left SYM right` -/
theorem unspaced_renderBinary (op : BOp) (dict : Bool) (lty rty : Ty) (l r : List RTok) (s : Str)
    (hs : op.cpp = some s) (hf : (op == .mod && (lty.isFloat || rty.isFloat)) = false) :
    unspaced (renderBinary op dict lty rty l r) = unspaced l ++ CTok.sym s :: unspaced r := by
  unfold renderBinary
  rw [isIn_false_of_cpp hs]
  simp only [Bool.false_eq_true, ↓reduceIte, render, select_binary]
  cases op <;> simp only [BOp.cpp, Option.some.injEq, reduceCtorEq] at hs <;> subst hs
  case mod =>
    have hfl : (lty.isFloat || rty.isFloat) = false := by simpa using hf
    simp only [binShape, hfl]
    simp only [Bool.false_eq_true, ↓reduceIte, inst_else, unspaced_append, unspaced, List.append_nil, BOp.tok, List.nil_append, List.cons_append]
  all_goals simp only [binShape, inst_else, inst_fixed, unspaced_append, unspaced, List.append_nil, BOp.tok, List.nil_append, List.cons_append]

theorem toPrec_sym_of_cpp {op : BOp} {s : Str} (h : op.cpp = some s) : CTok.toPrec (.sym s) = .op op.code := by
  cases op <;> simp only [BOp.cpp, Option.some.injEq, reduceCtorEq] at h <;> subst h <;> rfl

theorem toPrec_uop (op : UOp) : CTok.toPrec (.sym op.tok) = .op op.code := by cases op <;> rfl
theorem toPrec_bang : CTok.toPrec (.sym ['!']) = .op bangCode := rfl
theorem toPrec_lp : CTok.toPrec (.sym ['(']) = .lp := rfl
theorem toPrec_rp : CTok.toPrec (.sym [')']) = .rp := rfl

/-! ## emission = printing Python's grouping (before C++ lexing) -/

mutual
theorem emit_print : ∀ (n : Node), core n = true →
    (unspaced (emitRaw n)).map CTok.toPrec = print (pyExprL n)
  | .atom _ _, _ => rfl
  | .group e, h => by
    have ih := emit_print e (by simpa [core] using h)
    simp only [emitRaw, render_group, unspaced, unspaced_append, List.map_cons, List.map_append, List.map_nil, ih, pyExprL, print,
      toPrec_lp, toPrec_rp]
  | .factor op e, h => by
    have ih := emit_print e (by simpa [core] using h)
    simp only [emitRaw, renderUnary_eq, List.append_nil, unspaced, List.map_cons, ih, pyExprL, print, toPrec_uop]
  | .notCompare e, h => by
    have ih := emit_print e (by simpa [core] using h)
    simp only [emitRaw, renderUnary_eq, List.append_nil, unspaced, List.map_cons, ih, pyExprL, print, toPrec_bang]
  | .chain _ fty first rest, h => by
    simp only [core, Bool.and_eq_true] at h
    have ih := emit_print first h.1
    simp only [emitRaw, pyExprL]
    exact emitRest_print rest _ fty _ h.2 ih
  | .ternary _ _ _, h => by simp [core] at h
theorem emitRest_print : ∀ (rest : Rest) (prim : List RTok) (pty : Ty) (acc : Expr), coreRest pty rest = true →
    (unspaced prim).map CTok.toPrec = print acc →
    (unspaced (emitRest prim pty rest)).map CTok.toPrec = print (pyRestL acc rest)
  | .nil, _, _, _, _, hp => by simpa [emitRest, pyRestL] using hp
  | .cons op dict ty e rest, prim, pty, acc, h, hp => by
    simp only [coreRest, Bool.and_eq_true, Bool.not_eq_true'] at h
    obtain ⟨⟨⟨hc, hf⟩, he⟩, hr⟩ := h
    obtain ⟨s, hs⟩ := Option.isSome_iff_exists.mp hc
    have ih := emit_print e he
    simp only [emitRest, pyRestL]
    apply emitRest_print rest _ ty _ hr
    rw [unspaced_renderBinary op dict pty ty prim (emitRaw e) s hs hf]
    simp only [List.map_append, List.map_cons, hp, ih, print, toPrec_sym_of_cpp hs]
end

/-! ## C++ lexing -/

theorem length_cppLexGo_le (prev : Option CTok) (r : List RTok) :
    (cppLexGo prev r).length ≤ prev.toList.length + (unspaced r).length := by
  induction r generalizing prev with
  | nil => simp [cppLexGo, unspaced]
  | cons x xs ih =>
    cases x with
    | sp => have := ih none; simp only [cppLexGo, unspaced, List.length_append]; simp at this; omega
    | t b =>
      cases prev with
      | none => have := ih (some b); simp only [cppLexGo, unspaced, List.length_cons]; simp at this ⊢; omega
      | some a =>
        simp only [cppLexGo, unspaced, List.length_cons]
        split
        · have := ih none; simp at this ⊢; omega
        · split
          · have := ih none; simp at this ⊢; omega
          · have := ih (some b); simp at this ⊢; omega

theorem cppLexGo_eq_of_length (prev : Option CTok) (r : List RTok)
    (h : (cppLexGo prev r).length = prev.toList.length + (unspaced r).length) :
    cppLexGo prev r = prev.toList ++ unspaced r := by
  induction r generalizing prev with
  | nil => simp [cppLexGo, unspaced]
  | cons x xs ih =>
    cases x with
    | sp =>
      simp only [cppLexGo, unspaced, List.length_append] at h ⊢
      rw [ih none (by simpa using h)]; simp
    | t b =>
      cases prev with
      | none =>
        simp only [cppLexGo, unspaced, List.length_cons] at h ⊢
        rw [ih (some b) (by simp at h ⊢; omega)]; simp
      | some a =>
        simp only [cppLexGo, unspaced, List.length_cons] at h ⊢
        split at h
        · have := length_cppLexGo_le none xs; simp at this h; omega
        · split at h
          · have := length_cppLexGo_le none xs; simp at this h; omega
          · rename_i h1 h2
            rw [if_neg h1, if_neg h2, ih (some b) (by simp at h ⊢; omega)]; simp

theorem cppLex_eq_of_length (r : List RTok) (h : (cppLex r).length = (unspaced r).length) : cppLex r = unspaced r := by
  have := cppLexGo_eq_of_length none r (by simpa [cppLex] using h)
  simpa [cppLex] using this

theorem noFuse_iff (n : Node) : noFuse n = true ↔ cppLex (emitRaw n) = unspaced (emitRaw n) := by
  simp [noFuse]

/-! ## facts about the two tables (closed computations) -/

theorem pyOps_bin_of_cpp {op : BOp} {s : Str} (h : op.cpp = some s) : pyOps.bin op.code = some op.level := by
  cases op <;> simp only [BOp.cpp, reduceCtorEq] at h <;> rfl

theorem pyOps_pre_uop (op : UOp) : pyOps.pre op.code = some factorLevel := by cases op <;> rfl
theorem pyOps_pre_bang : pyOps.pre bangCode = some notLevel := rfl

theorem mem_vocabulary_bin {op : BOp} {s : Str} (h : op.cpp = some s) : Head.bin op.code ∈ vocabulary := by
  cases op <;> simp only [BOp.cpp, reduceCtorEq] at h <;> decide

theorem mem_vocabulary_uop (op : UOp) : Head.pre op.code ∈ vocabulary := by cases op <;> decide
theorem mem_vocabulary_bang : Head.pre bangCode ∈ vocabulary := by decide

/-! ## grammar-producible trees are in Python normal form -/

/-- the head of a node's tree may stand bare wherever the ladder level of the node allows -/
def headFits (n : Node) : Prop :=
  (∀ m, m ≤ topLevel n → okAt pyOps m (head (pyExprL n)) = true) ∧
  (∀ k, k < topLevel n → okL pyOps k (head (pyExprL n)) = true)

theorem headFits_of_bin {n : Node} {o lv : Nat} (hh : head (pyExprL n) = .bin o) (ho : pyOps.bin o = some lv) (ht : topLevel n = lv) :
    headFits n := by
  constructor
  · intro m hm; rw [hh]; simp only [okAt, ho]; simp; omega
  · intro k hk; rw [hh]; simp only [okL, ho]; simp; omega

mutual
theorem nf_py : ∀ (n : Node), core n = true → wf n = true → nf pyOps (pyExprL n) = true ∧ headFits n
  | .atom _ _, _, _ => ⟨rfl, fun _ _ => rfl, fun _ _ => rfl⟩
  | .group e, hc, hw => by
    have ih := nf_py e (by simpa [core] using hc) (by simpa [wf] using hw)
    exact ⟨by simpa [pyExprL, nf] using ih.1, fun _ _ => rfl, fun _ _ => rfl⟩
  | .factor op e, hc, hw => by
    simp only [wf, Bool.and_eq_true, decide_eq_true_eq] at hw
    have ih := nf_py e (by simpa [core] using hc) hw.2
    refine ⟨?_, ?_, ?_⟩
    · simp only [pyExprL, nf, slotOk, pyOps_pre_uop, Bool.and_eq_true]
      exact ⟨ih.2.1 _ hw.1, ih.1⟩
    · intro m hm; simp only [pyExprL, head, okAt, pyOps_pre_uop]; simp only [topLevel] at hm; simpa using hm
    · intro k hk; simp only [pyExprL, head, okL, pyOps_pre_uop]; simp only [topLevel] at hk; simpa using hk
  | .notCompare e, hc, hw => by
    simp only [wf, Bool.and_eq_true, decide_eq_true_eq] at hw
    have ih := nf_py e (by simpa [core] using hc) hw.2
    refine ⟨?_, ?_, ?_⟩
    · simp only [pyExprL, nf, slotOk, pyOps_pre_bang, Bool.and_eq_true]
      exact ⟨ih.2.1 _ hw.1.1, ih.1⟩
    · intro m hm; simp only [pyExprL, head, okAt, pyOps_pre_bang]; simp only [topLevel] at hm; simpa using hm
    · intro k hk; simp only [pyExprL, head, okL, pyOps_pre_bang]; simp only [topLevel] at hk; simpa using hk
  | .chain lv fty first rest, hc, hw => by
    simp only [core, Bool.and_eq_true] at hc
    simp only [wf, Bool.and_eq_true, decide_eq_true_eq] at hw
    obtain ⟨⟨⟨⟨hlt, _⟩, hwf⟩, hlen⟩, hwr⟩ := hw
    have ih := nf_py first hc.1 hwf
    have hr := nf_pyRest rest lv fty (pyExprL first) hc.2 hwr ih.1 (ih.2.2 _ hlt)
    obtain ⟨o, ho1, ho2⟩ := hr.2 hlen
    exact ⟨by simpa [pyExprL] using hr.1, headFits_of_bin (by simpa [pyExprL] using ho1) ho2 rfl⟩
  | .ternary _ _ _, hc, _ => by simp [core] at hc
theorem nf_pyRest : ∀ (rest : Rest) (lv : Nat) (pty : Ty) (acc : Expr), coreRest pty rest = true → wfRest lv rest = true →
    nf pyOps acc = true → okL pyOps lv (head acc) = true →
    nf pyOps (pyRestL acc rest) = true ∧ (1 ≤ rest.length → ∃ o, head (pyRestL acc rest) = .bin o ∧ pyOps.bin o = some lv)
  | .nil, _, _, _, _, _, hn, _ => ⟨by simpa [pyRestL] using hn, by simp [Rest.length]⟩
  | .cons op dict ty e rest, lv, pty, acc, hc, hw, hn, hl => by
    simp only [coreRest, Bool.and_eq_true, Bool.not_eq_true'] at hc
    obtain ⟨⟨⟨hcpp, _⟩, hce⟩, hcr⟩ := hc
    simp only [wfRest, Bool.and_eq_true, decide_eq_true_eq] at hw
    obtain ⟨⟨⟨⟨hlv, hlt⟩, _⟩, hwe⟩, hwr⟩ := hw
    obtain ⟨s, hs⟩ := Option.isSome_iff_exists.mp hcpp
    have hbin : pyOps.bin op.code = some lv := by rw [pyOps_bin_of_cpp hs, hlv]
    have ihe := nf_py e hce hwe
    have hacc : nf pyOps (.bin op.code acc (pyExprL e)) = true := by
      simp only [nf, slotOk, hbin, Bool.and_eq_true]
      exact ⟨⟨⟨hl, ihe.2.1 _ (by omega)⟩, hn⟩, ihe.1⟩
    have hl' : okL pyOps lv (head (Expr.bin op.code acc (pyExprL e))) = true := by
      simp only [head, okL, hbin]; simp
    have ih := nf_pyRest rest lv ty _ hcr hwr hacc hl'
    refine ⟨by simpa [pyRestL] using ih.1, fun _ => ?_⟩
    simp only [pyRestL]
    cases rest with
    | nil => exact ⟨op.code, rfl, hbin⟩
    | cons op' d' t' e' r' => exact ih.2 (by simp [Rest.length])
end

mutual
theorem heads_vocabulary : ∀ (n : Node), core n = true → ∀ h ∈ heads (pyExprL n), h ∈ vocabulary
  | .atom _ _, _ => by simp [pyExprL, heads]
  | .group e, hc => by simpa [pyExprL, heads] using heads_vocabulary e (by simpa [core] using hc)
  | .factor op e, hc => by
    have ih := heads_vocabulary e (by simpa [core] using hc)
    intro h hh
    simp only [pyExprL, heads, List.mem_cons] at hh
    rcases hh with rfl | hh
    · exact mem_vocabulary_uop op
    · exact ih h hh
  | .notCompare e, hc => by
    have ih := heads_vocabulary e (by simpa [core] using hc)
    intro h hh
    simp only [pyExprL, heads, List.mem_cons] at hh
    rcases hh with rfl | hh
    · exact mem_vocabulary_bang
    · exact ih h hh
  | .chain _ fty first rest, hc => by
    simp only [core, Bool.and_eq_true] at hc
    simpa [pyExprL] using heads_vocabularyRest rest fty _ hc.2 (heads_vocabulary first hc.1)
  | .ternary _ _ _, hc => by simp [core] at hc
theorem heads_vocabularyRest : ∀ (rest : Rest) (pty : Ty) (acc : Expr), coreRest pty rest = true →
    (∀ h ∈ heads acc, h ∈ vocabulary) → ∀ h ∈ heads (pyRestL acc rest), h ∈ vocabulary
  | .nil, _, _, _, ha => by simpa [pyRestL] using ha
  | .cons op dict ty e rest, pty, acc, hc, ha => by
    simp only [coreRest, Bool.and_eq_true, Bool.not_eq_true'] at hc
    obtain ⟨⟨⟨hcpp, _⟩, hce⟩, hcr⟩ := hc
    obtain ⟨s, hs⟩ := Option.isSome_iff_exists.mp hcpp
    have ihe := heads_vocabulary e hce
    simp only [pyRestL]
    apply heads_vocabularyRest rest ty _ hcr
    intro h hh
    simp only [heads, List.mem_cons, List.mem_append] at hh
    rcases hh with rfl | hh | hh
    · exact mem_vocabulary_bin hs
    · exact ha h hh
    · exact ihe h hh
end

end Tranp.Emit
