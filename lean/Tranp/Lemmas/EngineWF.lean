/-
  Static well-formedness of a rule set and the termination argument for the matcher (C11.T1).

  `analyse R` computes, by plain iteration, a universe of symbols `U`, a set `N` of nullable symbols, a rank for every
  symbol and two size constants; `wfCheck` CHECKS (decidably) everything the proof needs about them, so nothing about the
  iteration itself has to be proved:
    * `U` is closed under references, `N` under "the rule's pattern is nullable";
    * no body of a `*` / `+` group is nullable (otherwise `_match_repeat`'s `while` never ends);
    * every symbol a rule can call at the cursor it started at (its *heads*, computed through nullable neighbours — the
      matcher works right to left, so these are the rightmost symbols) has a strictly smaller rank (no right recursion).
-/
import Tranp.Lemmas.Engine

namespace Tranp.Engine
open Tranp

/-! ## static analysis -/

def repNullable : Rep → Bool
  | .overZero | .oneOrZero | .oneOrEmpty => true
  | _ => false

mutual
/-- the pattern can succeed without consuming a token, judged with the nullable symbols `N` -/
def nullable (N : List Str) : Pat → Bool
  | .pattern e .symbol _ => N.contains e
  | .pattern _ .terminal _ => false
  | .group es .or rep => repNullable rep || nullableAny N es
  | .group es .and rep => repNullable rep || nullableAll N es
def nullableAny (N : List Str) : List Pat → Bool
  | [] => false
  | p :: ps => nullable N p || nullableAny N ps
def nullableAll (N : List Str) : List Pat → Bool
  | [] => true
  | p :: ps => nullable N p && nullableAll N ps
end

/-- nullability of a group's body (the group matched with `allow_repeat=False`) -/
def bodyNullable (N : List Str) (es : List Pat) : Op → Bool
  | .or => nullableAny N es
  | .and => nullableAll N es

mutual
def refs : Pat → List Str
  | .pattern e .symbol _ => [e]
  | .pattern _ .terminal _ => []
  | .group es _ _ => refsL es
def refsL : List Pat → List Str
  | [] => []
  | p :: ps => refs p ++ refsL ps
end

mutual
/-- every `*` / `+` group has a non-nullable body -/
def goodRep (N : List Str) : Pat → Bool
  | .pattern _ _ _ => true
  | .group es op rep => (!(rep = .overZero || rep = .overOne) || !bodyNullable N es op) && goodRepL N es
def goodRepL (N : List Str) : List Pat → Bool
  | [] => true
  | p :: ps => goodRep N p && goodRepL N ps
end

mutual
/-- symbols the pattern may call at the cursor at which it is entered; for an AND group the pair is
    (heads, all entries nullable) computed from the right, because the matcher visits `entries` in reverse -/
def heads (N : List Str) : Pat → List Str
  | .pattern e .symbol _ => [e]
  | .pattern _ .terminal _ => []
  | .group es .or _ => headsAny N es
  | .group es .and _ => (headsSeq N es).1
def headsAny (N : List Str) : List Pat → List Str
  | [] => []
  | p :: ps => heads N p ++ headsAny N ps
def headsSeq (N : List Str) : List Pat → List Str × Bool
  | [] => ([], true)
  | p :: ps =>
    let r := headsSeq N ps
    (if r.2 then r.1 ++ heads N p else r.1, r.2 && nullable N p)
end

/-- heads of an entry list that is already reversed (the order `_match_and` visits) -/
def headsRev (N : List Str) : List Pat → List Str
  | [] => []
  | p :: ps => heads N p ++ (if nullable N p then headsRev N ps else [])

mutual
def sz : Pat → Nat
  | .pattern _ _ _ => 2
  | .group es _ _ => szL es + 4
def szL : List Pat → Nat
  | [] => 1
  | p :: ps => sz p + 1 + szL ps
end

/-- `Rules.keys()`: the symbol of an original key (`expr[1]` ↦ `expr`) -/
def symbolOfKey (k : Str) : Str := k.takeWhile (· ≠ '[')

structure WFData where
  U : List Str
  N : List Str
  ranks : List (Str × Nat)
  Mx : Nat
  W : Nat
deriving Repr

def rankOf (d : WFData) (s : Str) : Nat := min ((d.ranks.lookup s).getD 0) (d.Mx - 1)

/-- what `wfCheck` demands of the rule of one symbol -/
def ruleOK (R : Rules) (d : WFData) (s : Str) : Bool :=
  match getRule R s with
  | .error _ => true
  | .ok q =>
    (refs q).all d.U.contains && (!nullable d.N q || d.N.contains s) && goodRep d.N q &&
      (heads d.N q).all (fun h => decide (rankOf d h < rankOf d s)) && decide (sz q ≤ d.W)

def wfCheck (R : Rules) (d : WFData) : Bool := decide (1 ≤ d.Mx) && d.U.all (ruleOK R d)

/-! ### computing the data (plain iteration; its result is checked, not trusted) -/

def symUniverse (R : Rules) : List Str := dedup [] (R.map (fun kv => symbolOfKey kv.1) ++ R.flatMap (fun kv => refs kv.2))

def nullStep (R : Rules) (U N : List Str) : List Str :=
  U.filter fun s => match getRule R s with
    | .ok q => nullable N q
    | .error _ => false

def iter {α : Type} (f : α → α) : Nat → α → α
  | 0, a => a
  | n + 1, a => iter f n (f a)

def rankStep (R : Rules) (U N : List Str) (rk : List (Str × Nat)) : List (Str × Nat) :=
  U.map fun s => match getRule R s with
    | .ok q => (s, 1 + ((heads N q).map fun h => (rk.lookup h).getD 0).foldl max 0)
    | .error _ => (s, 0)

def analyse (R : Rules) : WFData :=
  let U := symUniverse R
  let N := iter (nullStep R U) U.length []
  let ranks := iter (rankStep R U N) (U.length + 1) (U.map fun s => (s, 0))
  let mx := (ranks.map (·.2)).foldl max 0 + 2
  let w := (U.map fun s => match getRule R s with | .ok q => sz q | .error _ => 0).foldl max 0
  ⟨U, N, ranks, mx, w⟩

/-- The decidable well-formedness condition of C11.T1. -/
def WFRules (R : Rules) : Prop := wfCheck R (analyse R) = true

instance (R : Rules) : Decidable (WFRules R) := by unfold WFRules; infer_instance

/-- fuel that provably suffices for `n` tokens: `n·A + Mx·B + W + 2` with `B = W + 3`, `A = (Mx + 1)·B` -/
def fuelBoundD (d : WFData) (n : Nat) : Nat := n * ((d.Mx + 1) * (d.W + 3)) + d.Mx * (d.W + 3) + d.W + 2

def fuelBound (R : Rules) (n : Nat) : Nat := fuelBoundD (analyse R) n

/-! ## facts extracted from `wfCheck` -/

structure WF (R : Rules) (d : WFData) : Prop where
  mx : 1 ≤ d.Mx
  refsU : ∀ s q, s ∈ d.U → getRule R s = .ok q → ∀ e ∈ refs q, e ∈ d.U
  nclosed : ∀ s q, s ∈ d.U → getRule R s = .ok q → nullable d.N q = true → s ∈ d.N
  good : ∀ s q, s ∈ d.U → getRule R s = .ok q → goodRep d.N q = true
  rank : ∀ s q, s ∈ d.U → getRule R s = .ok q → ∀ h ∈ heads d.N q, rankOf d h < rankOf d s
  size : ∀ s q, s ∈ d.U → getRule R s = .ok q → sz q ≤ d.W

theorem WF.of_check {R : Rules} {d : WFData} (h : wfCheck R d = true) : WF R d := by
  simp only [wfCheck, Bool.and_eq_true, decide_eq_true_eq, List.all_eq_true] at h
  obtain ⟨hmx, hall⟩ := h
  have key : ∀ s q, s ∈ d.U → getRule R s = .ok q →
      ((refs q).all d.U.contains && (!nullable d.N q || d.N.contains s) && goodRep d.N q &&
        (heads d.N q).all (fun h => decide (rankOf d h < rankOf d s)) && decide (sz q ≤ d.W)) = true := by
    intro s q hs hq
    have := hall s hs
    simpa [ruleOK, hq] using this
  refine ⟨hmx, ?_, ?_, ?_, ?_, ?_⟩
  · intro s q hs hq e he
    have := key s q hs hq
    simp only [Bool.and_eq_true, List.all_eq_true, decide_eq_true_eq] at this
    have := this.1.1.1.1 e he
    simpa using this
  · intro s q hs hq hn
    have := key s q hs hq
    simp only [Bool.and_eq_true, List.all_eq_true, decide_eq_true_eq] at this
    have := this.1.1.1.2
    simpa [hn] using this
  · intro s q hs hq
    have := key s q hs hq
    simp only [Bool.and_eq_true, List.all_eq_true, decide_eq_true_eq] at this
    exact this.1.1.2
  · intro s q hs hq h hh
    have := key s q hs hq
    simp only [Bool.and_eq_true, List.all_eq_true, decide_eq_true_eq] at this
    exact this.1.2 h hh
  · intro s q hs hq
    have := key s q hs hq
    simp only [Bool.and_eq_true, List.all_eq_true, decide_eq_true_eq] at this
    exact this.2

theorem rankOf_lt (d : WFData) (h : 1 ≤ d.Mx) (s : Str) : rankOf d s < d.Mx := by
  unfold rankOf; omega

end Tranp.Engine

namespace Tranp.Engine
open Tranp

/-! ## list-level views of the mutual definitions -/

theorem nullableAll_eq (N : List Str) (ps : List Pat) : nullableAll N ps = ps.all (nullable N) := by
  induction ps with
  | nil => simp [nullableAll]
  | cons p ps ih => simp [nullableAll, ih]

theorem nullableAll_reverse (N : List Str) (ps : List Pat) : nullableAll N ps.reverse = nullableAll N ps := by
  simp [nullableAll_eq, List.all_reverse]

theorem mem_refsL {e : Str} {ps : List Pat} : e ∈ refsL ps ↔ ∃ p ∈ ps, e ∈ refs p := by
  induction ps with
  | nil => simp [refsL]
  | cons p ps ih => simp [refsL, ih]

theorem refsL_reverse {U : List Str} {ps : List Pat} (h : ∀ e ∈ refsL ps, e ∈ U) : ∀ e ∈ refsL ps.reverse, e ∈ U := by
  intro e he
  obtain ⟨p, hp, hep⟩ := mem_refsL.mp he
  exact h e (mem_refsL.mpr ⟨p, by simpa using hp, hep⟩)

theorem goodRepL_eq (N : List Str) (ps : List Pat) : goodRepL N ps = ps.all (goodRep N) := by
  induction ps with
  | nil => simp [goodRepL]
  | cons p ps ih => simp [goodRepL, ih]

theorem goodRepL_reverse (N : List Str) (ps : List Pat) : goodRepL N ps.reverse = goodRepL N ps := by
  simp [goodRepL_eq, List.all_reverse]

theorem szL_append (xs : List Pat) (p : Pat) : szL (xs ++ [p]) = szL xs + sz p + 1 := by
  induction xs with
  | nil => simp [szL]; omega
  | cons x xs ih => simp [szL, ih]; omega

theorem szL_reverse (ps : List Pat) : szL ps.reverse = szL ps := by
  induction ps with
  | nil => rfl
  | cons p ps ih => simp [List.reverse_cons, szL_append, szL, ih]; omega

theorem headsSeq_snd (N : List Str) (ps : List Pat) : (headsSeq N ps).2 = ps.all (nullable N) := by
  induction ps with
  | nil => simp [headsSeq]
  | cons p ps ih => simp [headsSeq, ih, Bool.and_comm]

theorem mem_headsRev_append {N : List Str} {h : Str} (xs : List Pat) (p : Pat) (hm : h ∈ headsRev N (xs ++ [p])) :
    h ∈ headsRev N xs ∨ (xs.all (nullable N) = true ∧ h ∈ heads N p) := by
  induction xs with
  | nil =>
    right
    refine ⟨rfl, ?_⟩
    simp only [List.nil_append, headsRev, List.mem_append] at hm
    rcases hm with hm | hm
    · exact hm
    · split at hm <;> simp at hm
  | cons x xs ih =>
    simp only [List.cons_append, headsRev, List.mem_append] at hm ⊢
    rcases hm with hm | hm
    · exact Or.inl (Or.inl hm)
    · split at hm
      · rename_i hx
        rcases ih hm with h1 | ⟨h1, h2⟩
        · exact Or.inl (Or.inr (by simp [hx, h1]))
        · exact Or.inr ⟨by simp [hx, h1], h2⟩
      · simp at hm

theorem headsRev_reverse {N : List Str} {h : Str} (es : List Pat) (hm : h ∈ headsRev N es.reverse) : h ∈ (headsSeq N es).1 := by
  induction es with
  | nil => simp [headsRev] at hm
  | cons p ps ih =>
    rw [List.reverse_cons] at hm
    simp only [headsSeq]
    rcases mem_headsRev_append _ _ hm with h1 | ⟨h1, h2⟩
    · have := ih h1
      split <;> simp [this]
    · have hs : (headsSeq N ps).2 = true := by rw [headsSeq_snd]; simpa [List.all_reverse] using h1
      simp [hs, h2]

/-- nullability as `_match_entry` sees the pattern: with `allow_repeat=False` a group is matched as its body -/
def nullableE (N : List Str) : Pat → Bool → Bool
  | .group es op rep, allow => (allow && repNullable rep) || bodyNullable N es op
  | p, _ => nullable N p

theorem nullableE_true (N : List Str) (p : Pat) : nullableE N p true = nullable N p := by
  cases p with
  | pattern e r c => rfl
  | group es op rep => cases op <;> simp [nullableE, nullable, bodyNullable]

/-! ## non-nullable patterns consume at least one token -/

section
variable (env : Env) (d : WFData) (wf : WF env.rules d)
include wf

theorem nn_all (fuel : Nat) :
    (∀ ctx peek sym out, sym ∈ d.U → ¬ sym ∈ d.N → matchSymbol env fuel ctx peek sym = .ok out → out.ok = true → 1 ≤ out.steps) ∧
    (∀ ctx peek p allow out, (∀ e ∈ refs p, e ∈ d.U) → nullableE d.N p allow = false →
        matchEntry env fuel ctx peek p allow = .ok out → out.ok = true → 1 ≤ out.steps) ∧
    (∀ ctx peek ps out, (∀ e ∈ refsL ps, e ∈ d.U) → nullableAny d.N ps = false →
        matchOr env fuel ctx peek ps = .ok out → out.ok = true → 1 ≤ out.steps) ∧
    (∀ ctx peek ps steps children trace out, (∀ e ∈ refsL ps, e ∈ d.U) →
        matchAnd env fuel ctx peek ps steps children trace = .ok out → out.ok = true →
        steps ≤ out.steps ∧ (nullableAll d.N ps = false → 1 ≤ out.steps)) ∧
    (∀ ctx peek es op rep found steps children trace out, (∀ e ∈ refsL es, e ∈ d.U) →
        bodyNullable d.N es op = false → repNullable rep = false → (1 ≤ found → 1 ≤ steps) →
        matchRepeat env fuel ctx peek es op rep found steps children trace = .ok out → out.ok = true → 1 ≤ out.steps) := by
  induction fuel with
  | zero => simp [matchSymbol, matchEntry, matchOr, matchAnd, matchRepeat]
  | succ n ih =>
    obtain ⟨ihS, ihE, ihO, ihA, ihR⟩ := ih
    refine ⟨?_, ?_, ?_, ?_, ?_⟩
    · intro ctx peek sym out hU hN h hok
      simp only [matchSymbol] at h
      split at h
      · cases h
      · split at h
        · cases h
        · simp at h; subst h; simp
        · simp at h; subst h; simp at hok
      · rename_i q hnt hq
        split at h
        · cases h
        · rename_i o ho
          simp only [Except.ok.injEq] at h; subst h
          have hnn : nullable d.N q = false := by
            cases hv : nullable d.N q with
            | false => rfl
            | true => exact absurd (wf.nclosed sym q hU hq hv) hN
          exact ihE _ _ _ _ o (wf.refsU sym q hU hq) (by rw [nullableE_true]; exact hnn) ho hok
    · intro ctx peek p allow out hU hnn h hok
      cases p with
      | group es op rep =>
        simp only [refs] at hU
        simp only [nullableE, Bool.or_eq_false_iff, Bool.and_eq_false_iff] at hnn
        simp only [matchEntry] at h
        split at h
        · rename_i hc
          have hrn : repNullable rep = false := by
            rcases hnn.1 with h1 | h1
            · simp [hc.2] at h1
            · exact h1
          exact ihR _ _ _ _ _ _ _ _ _ _ hU hnn.2 hrn (by omega) h hok
        · split at h
          · rename_i hop
            subst hop
            exact ihO _ _ _ _ hU hnn.2 h hok
          · rename_i hop
            have : op = .and := by cases op <;> simp_all
            subst this
            exact (ihA _ _ _ _ _ _ _ (refsL_reverse hU) h hok).2 (by rw [nullableAll_reverse]; exact hnn.2)
      | pattern e role comp =>
        cases role with
        | terminal =>
          simp only [matchEntry] at h
          split at h
          · cases h
          · simp at h; subst h; simp
          · simp at h; subst h; simp [Out.ng] at hok
        | symbol =>
          simp only [matchEntry] at h
          simp only [nullableE, nullable] at hnn
          exact ihS _ _ _ _ (hU e (by simp [refs])) (by simpa using hnn) h hok
    · intro ctx peek ps out hU hnn h hok
      cases ps with
      | nil => simp [matchOr] at h; subst h; simp [Out.ng] at hok
      | cons p ps =>
        simp only [nullableAny, Bool.or_eq_false_iff] at hnn
        simp only [refsL, List.mem_append] at hU
        simp only [matchOr] at h
        split at h
        · cases h
        · rename_i o ho
          split at h
          · rename_i hk
            simp only [Except.ok.injEq] at h; subst h
            exact ihE _ _ _ _ _ (fun e he => hU e (Or.inl he)) (by rw [nullableE_true]; exact hnn.1) ho hk
          · exact ihO _ _ _ _ (fun e he => hU e (Or.inr he)) hnn.2 h hok
    · intro ctx peek ps steps children trace out hU h hok
      cases ps with
      | nil =>
        simp [matchAnd] at h; subst h
        exact ⟨Nat.le_refl _, by simp [nullableAll]⟩
      | cons p ps =>
        simp only [refsL, List.mem_append] at hU
        simp only [matchAnd] at h
        split at h
        · cases h
        · rename_i o ho
          split at h
          · rename_i hk
            have ⟨h1, h2⟩ := ihA _ _ _ _ _ _ _ (fun e he => hU e (Or.inr he)) h hok
            refine ⟨by omega, ?_⟩
            intro hnn
            simp only [nullableAll, Bool.and_eq_false_iff] at hnn
            rcases hnn with hp | hps
            · have := ihE _ _ _ _ _ (fun e he => hU e (Or.inl he)) (by rw [nullableE_true]; exact hp) ho hk
              omega
            · exact h2 hps
          · simp at h; subst h; simp [Out.ng] at hok
    · intro ctx peek es op rep found steps children trace out hU hb hr hinv h hok
      have fin : ∀ (f s pk : Nat) (cs : List Ast) (tr : List (Tok × Bool)), (1 ≤ f → 1 ≤ s) →
          (repeatFinish rep f s cs pk tr).ok = true → 1 ≤ (repeatFinish rep f s cs pk tr).steps := by
        intro f s pk cs tr hi hk
        unfold repeatFinish at hk ⊢
        split
        · rename_i hf
          cases rep <;> simp_all [repNullable, Out.ng]
        · rename_i hf
          have : 1 ≤ f := by
            cases f with
            | zero => simp at hf
            | succ k => omega
          simpa using hi this
      simp only [matchRepeat] at h
      split at h
      · simp only [Except.ok.injEq] at h; subst h
        exact fin _ _ _ _ _ hinv hok
      · split at h
        · cases h
        · rename_i o ho
          split at h
          · rename_i hk
            have hs : 1 ≤ o.steps := ihE _ _ _ _ _ (by simpa [refs] using hU) (by simp [nullableE, hb]) ho hk
            split at h
            · simp only [Except.ok.injEq] at h; subst h
              exact fin _ _ _ _ _ (by omega) hok
            · exact ihR _ _ _ _ _ _ _ _ _ _ hU hb hr (by omega) h hok
          · simp only [Except.ok.injEq] at h; subst h
            exact fin _ _ _ _ _ hinv hok

end


/-! ## termination: the fuel bound suffices -/

theorem getRule_err {R : Rules} {s : Str} {e : Err} (h : getRule R s = .error e) : e = .keyError := by
  unfold getRule at h
  dsimp only at h
  split at h
  · cases h
  · simp only [Except.error.injEq] at h; exact h.symm

theorem matchTerminal_err {env : Env} {ctx : Ctx} {e : Str} {comp : Comp} {er : Err}
    (h : matchTerminal env ctx e comp = .error er) : er = .assertionError := by
  unfold matchTerminal at h
  split at h
  · cases h
  · split at h
    · rename_i er' hc
      simp only [Except.error.injEq] at h; subst h
      unfold compareToken at hc
      split at hc
      · simp at hc; exact hc.symm
      · cases hc
      · split at hc <;> cases hc
    · cases h
    · cases h

theorem lt_mul {a b : Nat} (A : Nat) (h : a < b) : a * A + A ≤ b * A := by
  have := Nat.mul_le_mul_right A (Nat.succ_le_of_lt h)
  rwa [Nat.succ_mul] at this

def cB (d : WFData) : Nat := d.W + 3
def cA (d : WFData) : Nat := (d.Mx + 1) * (d.W + 3)
/-- potential of a matcher call: remaining tokens, rank band, local size -/
def phi (d : WFData) (r k w : Nat) : Nat := r * cA d + k * cB d + w

theorem cA_eq (d : WFData) : cA d = d.Mx * cB d + cB d := by
  unfold cA cB; rw [Nat.succ_mul]

/-- local size `_match_entry` needs: a group entered with `allow_repeat=False` skips the repeat dispatch -/
def szE : Pat → Bool → Nat
  | .group es _ _, false => szL es + 1
  | p, _ => sz p

def Adm (d : WFData) (p : Pat) : Prop := (∀ e ∈ refs p, e ∈ d.U) ∧ goodRep d.N p = true
def AdmL (d : WFData) (ps : List Pat) : Prop := (∀ e ∈ refsL ps, e ∈ d.U) ∧ goodRepL d.N ps = true

theorem Adm.group {d : WFData} {es : List Pat} {op : Op} {rep : Rep} (h : Adm d (.group es op rep)) : AdmL d es := by
  obtain ⟨h1, h2⟩ := h
  simp only [refs] at h1
  simp only [goodRep, Bool.and_eq_true] at h2
  exact ⟨h1, h2.2⟩

theorem Adm.body {d : WFData} {es : List Pat} {op : Op} {rep : Rep} (h : Adm d (.group es op rep))
    (hr : rep = .overZero ∨ rep = .overOne) : bodyNullable d.N es op = false := by
  obtain ⟨_, h2⟩ := h
  simp only [goodRep, Bool.and_eq_true, Bool.or_eq_true, Bool.not_eq_true'] at h2
  rcases h2.1 with h3 | h3
  · rcases hr with hr | hr <;> simp [hr] at h3
  · exact h3

theorem AdmL.cons {d : WFData} {p : Pat} {ps : List Pat} (h : AdmL d (p :: ps)) : Adm d p ∧ AdmL d ps := by
  obtain ⟨h1, h2⟩ := h
  simp only [refsL, List.mem_append] at h1
  simp only [goodRepL, Bool.and_eq_true] at h2
  exact ⟨⟨fun e he => h1 e (Or.inl he), h2.1⟩, ⟨fun e he => h1 e (Or.inr he), h2.2⟩⟩

theorem AdmL.reverse {d : WFData} {ps : List Pat} (h : AdmL d ps) : AdmL d ps.reverse :=
  ⟨refsL_reverse h.1, by rw [goodRepL_reverse]; exact h.2⟩

section
variable (env : Env) (d : WFData) (wf : WF env.rules d)
include wf

theorem term_all (fuel : Nat) :
    (∀ ctx peek sym er, sym ∈ d.U → phi d ctx.rest.length (rankOf d sym) (d.W + 2) ≤ fuel →
        matchSymbol env fuel ctx peek sym = .error er → er ≠ .outOfFuel) ∧
    (∀ ctx peek p allow k er, Adm d p → (∀ h ∈ heads d.N p, rankOf d h < k) → k ≤ d.Mx →
        phi d ctx.rest.length k (szE p allow) ≤ fuel →
        matchEntry env fuel ctx peek p allow = .error er → er ≠ .outOfFuel) ∧
    (∀ ctx peek ps k er, AdmL d ps → (∀ h ∈ headsAny d.N ps, rankOf d h < k) → k ≤ d.Mx →
        phi d ctx.rest.length k (szL ps) ≤ fuel →
        matchOr env fuel ctx peek ps = .error er → er ≠ .outOfFuel) ∧
    (∀ ctx peek ps steps children trace k er, AdmL d ps → (∀ h ∈ headsRev d.N ps, rankOf d h < k) → k ≤ d.Mx →
        phi d (ctx.rest.length - steps) k (szL ps) ≤ fuel →
        matchAnd env fuel ctx peek ps steps children trace = .error er → er ≠ .outOfFuel) ∧
    (∀ ctx peek es op rep found steps children trace k er, Adm d (.group es op rep) → rep ≠ .noRepeat →
        (∀ h ∈ heads d.N (.group es op rep), rankOf d h < k) → k ≤ d.Mx →
        phi d (ctx.rest.length - steps) k (szL es + 3) ≤ fuel →
        matchRepeat env fuel ctx peek es op rep found steps children trace = .error er → er ≠ .outOfFuel) := by
  induction fuel with
  | zero =>
    refine ⟨?_, ?_, ?_, ?_, ?_⟩
    · intro ctx peek sym er _ hp; unfold phi at hp; omega
    · intro ctx peek p allow k er _ _ _ hp
      unfold phi at hp
      cases p with
      | pattern e r c => simp [szE, sz] at hp
      | group es op rep => cases allow <;> simp [szE, sz] at hp
    · intro ctx peek ps k er _ _ _ hp; unfold phi at hp; cases ps <;> simp [szL] at hp
    · intro ctx peek ps steps children trace k er _ _ _ hp; unfold phi at hp; cases ps <;> simp [szL] at hp
    · intro ctx peek es op rep found steps children trace k er _ _ _ _ hp; unfold phi at hp; omega
  | succ n ih =>
    obtain ⟨ihS, ihE, ihO, ihA, ihR⟩ := ih
    have hA := cA_eq d
    have hB : cB d = d.W + 3 := rfl
    have hmx := wf.mx
    refine ⟨?_, ?_, ?_, ?_, ?_⟩
    · -- matchSymbol
      intro ctx peek sym er hU hp h
      simp only [matchSymbol] at h
      split at h
      · rename_i e heq
        simp only [Except.error.injEq] at h; subst h
        rw [getRule_err heq]; simp
      · split at h
        · rename_i er' hmt
          simp only [Except.error.injEq] at h; subst h
          rw [matchTerminal_err hmt]; simp
        · cases h
        · cases h
      · rename_i q hnt hq
        split at h
        · rename_i er' ho
          simp only [Except.error.injEq] at h; subst h
          refine ihE _ _ _ _ (rankOf d sym) _ ⟨wf.refsU sym q hU hq, wf.good sym q hU hq⟩ (wf.rank sym q hU hq)
            (Nat.le_of_lt (rankOf_lt d hmx sym)) ?_ ho
          have hs := wf.size sym q hU hq
          have : szE q true = sz q := by cases q <;> rfl
          rw [this]
          unfold phi at hp ⊢
          omega
        · cases h
    · -- matchEntry
      intro ctx peek p allow k er hadm hh hk hp h
      cases p with
      | group es op rep =>
        simp only [matchEntry] at h
        split at h
        · rename_i hc
          refine ihR _ _ _ _ _ _ _ _ _ k _ hadm hc.1 hh hk ?_ h
          have : allow = true := hc.2
          subst this
          simp only [szE, sz] at hp
          unfold phi at hp ⊢
          simp only [Nat.sub_zero]
          omega
        · have hsz : szL es + 1 ≤ szE (.group es op rep) allow := by
            cases allow <;> simp [szE, sz]
          split at h
          · rename_i hop
            subst hop
            refine ihO _ _ _ k _ hadm.group (by simpa [heads] using hh) hk ?_ h
            unfold phi at hp ⊢
            omega
          · rename_i hop
            have : op = .and := by cases op <;> simp_all
            subst this
            refine ihA _ _ _ _ _ _ k _ hadm.group.reverse ?_ hk ?_ h
            · intro x hx
              exact hh x (by simpa [heads] using headsRev_reverse es hx)
            · rw [szL_reverse]
              unfold phi at hp ⊢
              simp only [Nat.sub_zero]
              omega
      | pattern e role comp =>
        cases role with
        | terminal =>
          simp only [matchEntry] at h
          split at h
          · rename_i er' hmt
            simp only [Except.error.injEq] at h; subst h
            rw [matchTerminal_err hmt]; simp
          · cases h
          · cases h
        | symbol =>
          simp only [matchEntry] at h
          have he : e ∈ d.U := hadm.1 e (by simp [refs])
          have hr : rankOf d e < k := hh e (by simp [heads])
          refine ihS _ _ _ _ he ?_ h
          have := lt_mul (cB d) hr
          simp only [szE, sz] at hp
          unfold phi at hp ⊢
          omega
    · -- matchOr
      intro ctx peek ps k er hadm hh hk hp h
      cases ps with
      | nil => simp [matchOr] at h
      | cons p ps =>
        have ⟨hp1, hp2⟩ := hadm.cons
        simp only [headsAny, List.mem_append] at hh
        simp only [szL] at hp
        simp only [matchOr] at h
        split at h
        · rename_i er' ho
          simp only [Except.error.injEq] at h; subst h
          refine ihE _ _ _ _ k _ hp1 (fun x hx => hh x (Or.inl hx)) hk ?_ ho
          have : szE p true = sz p := by cases p <;> rfl
          rw [this]
          unfold phi at hp ⊢
          omega
        · split at h
          · cases h
          · refine ihO _ _ _ k _ hp2 (fun x hx => hh x (Or.inr hx)) hk ?_ h
            unfold phi at hp ⊢
            omega
    · -- matchAnd
      intro ctx peek ps steps children trace k er hadm hh hk hp h
      cases ps with
      | nil => simp [matchAnd] at h
      | cons p ps =>
        have ⟨hp1, hp2⟩ := hadm.cons
        simp only [szL] at hp
        simp only [matchAnd] at h
        have hlen : (ctx.step steps).rest.length = ctx.rest.length - steps := by simp [Ctx.step]
        have hszE : szE p true = sz p := by cases p <;> rfl
        split at h
        · rename_i er' ho
          simp only [Except.error.injEq] at h; subst h
          refine ihE _ _ _ _ k _ hp1 (fun x hx => hh x (by simp [headsRev, hx])) hk ?_ ho
          rw [hlen, hszE]
          unfold phi at hp ⊢
          omega
        · rename_i o ho
          split at h
          · rename_i hok
            -- the element matched with o.steps tokens
            have hgood := (good_all env n).2.1 _ _ _ _ _ ho hok
            have hle : o.steps ≤ ctx.rest.length - steps := by
              have := hgood.steps_le
              rwa [hlen] at this
            by_cases hz : o.steps = 0
            · -- nothing consumed: p is nullable, the heads of the rest stay below k
              have hnull : nullable d.N p = true := by
                cases hv : nullable d.N p with
                | true => rfl
                | false =>
                  have := (nn_all env d wf n).2.1 _ _ _ _ _ hp1.1 (by rw [nullableE_true]; exact hv) ho hok
                  omega
              refine ihA _ _ _ _ _ _ k _ hp2 (fun x hx => hh x (by simp [headsRev, hnull, hx])) hk ?_ h
              rw [hz, Nat.add_zero]
              unfold phi at hp ⊢
              omega
            · -- consumed: strictly fewer tokens remain, any rank is allowed (band Mx)
              refine ihA _ _ _ _ _ _ d.Mx _ hp2 (fun x _ => rankOf_lt d hmx x) (Nat.le_refl _) ?_ h
              have hlt : ctx.rest.length - (steps + o.steps) < ctx.rest.length - steps := by omega
              have := lt_mul (cA d) hlt
              have hkm := Nat.mul_le_mul_right (cB d) hk
              unfold phi at hp ⊢
              omega
          · cases h
    · -- matchRepeat
      intro ctx peek es op rep found steps children trace k er hadm hrep hh hk hp h
      simp only [matchRepeat] at h
      have hlen : (ctx.step steps).rest.length = ctx.rest.length - steps := by simp [Ctx.step]
      split at h
      · cases h
      · split at h
        · rename_i er' ho
          simp only [Except.error.injEq] at h; subst h
          refine ihE _ _ _ _ k _ hadm hh hk ?_ ho
          rw [hlen]
          simp only [szE]
          unfold phi at hp ⊢
          omega
        · rename_i o ho
          split at h
          · rename_i hok
            split at h
            · cases h
            · rename_i hrz
              have hr2 : rep = .overZero ∨ rep = .overOne := by
                cases rep <;> simp_all
              have hb := hadm.body hr2
              have hs : 1 ≤ o.steps :=
                (nn_all env d wf n).2.1 _ _ _ _ _ (by simpa [refs] using hadm.1) (by simp [nullableE, hb]) ho hok
              have hgood := (good_all env n).2.1 _ _ _ _ _ ho hok
              have hle : o.steps ≤ ctx.rest.length - steps := by
                have := hgood.steps_le
                rwa [hlen] at this
              refine ihR _ _ _ _ _ _ _ _ _ d.Mx _ hadm hrep (fun x _ => rankOf_lt d hmx x) (Nat.le_refl _) ?_ h
              have hlt : ctx.rest.length - (steps + o.steps) < ctx.rest.length - steps := by omega
              have := lt_mul (cA d) hlt
              have hkm := Nat.mul_le_mul_right (cB d) hk
              unfold phi at hp ⊢
              omega
          · cases h

/-- With the fuel bound, `_match_symbol` on a symbol of the universe never runs out of fuel. -/
theorem matchSymbol_terminates (toks : List Tok) (peek : Nat) (sym : Str) (hU : sym ∈ d.U) (fuel : Nat)
    (hf : fuelBoundD d toks.length ≤ fuel) : matchSymbol env fuel (Ctx.start toks) peek sym ≠ .error .outOfFuel := by
  intro h
  refine (term_all env d wf fuel).1 _ _ _ _ hU ?_ h rfl
  have hr := rankOf_lt d wf.mx sym
  have := Nat.mul_le_mul_right (cB d) (Nat.le_of_lt hr)
  unfold fuelBoundD at hf
  unfold phi cA cB at *
  simp only [Ctx.start, List.length_reverse]
  omega

end

end Tranp.Engine
