/-
  C05, output level: two runs over the same sources whose cache directories are coherent and undamaged proceed in lockstep —
  same modules loaded in the same order, same trees, identities, symbol tables, rendered texts, failure status.
  (Everything a session holds except the cache directory itself, the clock and the access log.)
-/
import Tranp.Lemmas.CacheFS

namespace Tranp.CacheFS
open Tranp

/-! ### undamaged cache directory -/

theorem add_last (ds : List Str) (xs : List Str) (d : Str) :
    d ∈ (xs ++ [d]).foldl (fun ds a => if ds.contains a then ds else ds ++ [a]) ds := by
  rw [List.foldl_append]
  simp only [List.foldl_cons, List.foldl_nil]
  split
  · rename_i h; simpa using h
  · simp

theorem mkdirs_mem (w : World) (d : Str) : d ∈ (w.mkdirs d).dirs := add_last _ _ _

theorem add_keeps (x : Str) (xs ds : List Str) (h : x ∈ ds) :
    x ∈ xs.foldl (fun ds a => if ds.contains a then ds else ds ++ [a]) ds := by
  induction xs generalizing ds with
  | nil => exact h
  | cons a xs ih =>
    simp only [List.foldl_cons]
    apply ih
    split
    · exact h
    · simp [h]

theorem mkdirs_keeps (w : World) (d x : Str) (h : x ∈ w.dirs) : x ∈ (w.mkdirs d).dirs := add_keeps _ _ _ h

/-- Every cache file is whole (decodable) and lies in an existing directory: no interrupted write, nobody removed a
    directory from under a file. -/
structure VInv (S : Sem) (w : World) : Prop where
  vtree : ∀ k tp ts ta g t ch f, KeyOK k → w.cache.get? (treePath S k tp ts ta g t ch) = some f → S.valid f.data = true ∧ dirname k ∈ w.dirs
  vparser : ∀ gp st al g f, w.cache.get? (parserPath S gp st al g) = some f → S.valid f.data = true
  vsym : ∀ k ident f, '-' ∉ ident → w.cache.get? (symPath k ident) = some f → (S.decTab f.data).isSome = true

theorem VInv.erase {S : Sem} {w : World} (h : VInv S w) (p : Str) : VInv S { w with cache := w.cache.erase p } := by
  refine ⟨?_, ?_, ?_⟩
  · intro k tp ts ta g t ch f hk hget
    simp only [Dir.get?_erase] at hget
    split at hget
    · simp at hget
    · exact h.vtree k tp ts ta g t ch f hk hget
  · intro gp st al g f hget
    simp only [Dir.get?_erase] at hget
    split at hget
    · simp at hget
    · exact h.vparser gp st al g f hget
  · intro k ident f hi hget
    simp only [Dir.get?_erase] at hget
    split at hget
    · simp at hget
    · exact h.vsym k ident f hi hget

theorem VInv.eraseAll {S : Sem} {w : World} (h : VInv S w) (ps : List Str) : VInv S { w with cache := ps.foldl Dir.erase w.cache } := by
  induction ps generalizing w with
  | nil => exact h
  | cons p ps ih => exact ih (h.erase p)

theorem VInv.mkdirs {S : Sem} {w : World} (h : VInv S w) (d : Str) : VInv S (w.mkdirs d) :=
  ⟨fun k tp ts ta g t ch f hk hget => ⟨(h.vtree k tp ts ta g t ch f hk hget).1, mkdirs_keeps w d _ (h.vtree k tp ts ta g t ch f hk hget).2⟩, h.vparser, h.vsym⟩

theorem VInv.put_tree {S : Sem} (H : Hyp S) {w : World} (h : VInv S w) (key : Str) (hk : KeyOK key) (tp ts ta : Str) (g t : Nat) (ch : Str) (m c : Nat) (data : Str)
    (hv : S.valid data = true) (hd : dirname key ∈ w.dirs) :
    VInv S { w with cache := w.cache.put (treePath S key tp ts ta g t ch) ⟨data, m⟩, clock := c } := by
  refine ⟨?_, ?_, ?_⟩
  · intro k' tp' ts' ta' g' t' ch' f hk' hget
    simp only at hget
    by_cases hp : treePath S k' tp' ts' ta' g' t' ch' = treePath S key tp ts ta g t ch
    · obtain ⟨rfl, rfl, rfl, rfl, rfl, rfl, rfl⟩ := treePath_inj H hp
      rw [Dir.get?_put_eq] at hget; cases hget
      exact ⟨hv, hd⟩
    · rw [Dir.get?_put_ne _ _ _ _ hp] at hget
      exact h.vtree k' tp' ts' ta' g' t' ch' f hk' hget
  · intro gp st al g' f hget
    simp only at hget
    rw [Dir.get?_put_ne _ _ _ _ (fun e => treePath_ne_parserPath H hk e.symm)] at hget
    exact h.vparser gp st al g' f hget
  · intro k ident f hi hget
    simp only at hget
    rw [Dir.get?_put_ne _ _ _ _ (show symPath k ident ≠ treePath S key tp ts ta g t ch from symPath_ne_cachePath hi (H.tree_nodash _ _ _ _ _ _) jsonExt_nodash hk.1)] at hget
    exact h.vsym k ident f hi hget

theorem VInv.put_parser {S : Sem} (H : Hyp S) {w : World} (h : VInv S w) (gp st al : Str) (g m c : Nat) (data : Str)
    (hv : S.valid data = true) : VInv S { w with cache := w.cache.put (parserPath S gp st al g) ⟨data, m⟩, clock := c } := by
  refine ⟨?_, ?_, ?_⟩
  · intro k' tp' ts' ta' g' t' ch' f hk' hget
    simp only at hget
    rw [Dir.get?_put_ne _ _ _ _ (treePath_ne_parserPath H hk')] at hget
    exact h.vtree k' tp' ts' ta' g' t' ch' f hk' hget
  · intro gp' st' al' g' f hget
    simp only at hget
    by_cases hp : parserPath S gp' st' al' g' = parserPath S gp st al g
    · rw [hp, Dir.get?_put_eq] at hget; cases hget; exact hv
    · rw [Dir.get?_put_ne _ _ _ _ hp] at hget
      exact h.vparser gp' st' al' g' f hget
  · intro k ident f hi hget
    simp only at hget
    rw [Dir.get?_put_ne _ _ _ _ (fun e => parserPath_ne_symPath H hi e.symm)] at hget
    exact h.vsym k ident f hi hget

theorem VInv.put_sym {S : Sem} (H : Hyp S) {w : World} (h : VInv S w) (key ident table : Str) (m c : Nat) (hid : '-' ∉ ident) :
    VInv S { w with cache := w.cache.put (symPath key ident) ⟨S.encTab table, m⟩, clock := c } := by
  refine ⟨?_, ?_, ?_⟩
  · intro k' tp' ts' ta' g' t' ch' f hk' hget
    simp only at hget
    rw [Dir.get?_put_ne _ _ _ _ (show treePath S k' tp' ts' ta' g' t' ch' ≠ symPath key ident from cachePath_ne_symPath hk'.1 (H.tree_nodash _ _ _ _ _ _) hid jsonExt_nodash)] at hget
    exact h.vtree k' tp' ts' ta' g' t' ch' f hk' hget
  · intro gp st al g f hget
    simp only at hget
    rw [Dir.get?_put_ne _ _ _ _ (parserPath_ne_symPath H hid)] at hget
    exact h.vparser gp st al g f hget
  · intro k ident' f hi hget
    simp only at hget
    by_cases hp : symPath k ident' = symPath key ident
    · rw [hp, Dir.get?_put_eq] at hget; cases hget
      simp [H.dec_enc]
    · rw [Dir.get?_put_ne _ _ _ _ hp] at hget
      exact h.vsym k ident' f hi hget

end Tranp.CacheFS

namespace Tranp.CacheFS
open Tranp

/-- session level: the world is undamaged and (when caching is on) the directory of every module parsed in this process exists -/
def VS (S : Sem) (s : Sess) : Prop :=
  VInv S s.w ∧ (s.w.enabled = true → ∀ k t, (k, t) ∈ s.trees → dirname k ∈ s.w.dirs)

/-- `cacheGet` on an undamaged directory: stays undamaged, directories only grow, and it succeeds whenever no error is pending
    and the file — if present — is whole -/
theorem cacheGet_VS {S : Sem} {s : Sess} (h : VInv S s.w) (dir key ident ext fresh : Str) (bin : Bool)
    (hput : ∀ w m c, VInv S w → dir ∈ w.dirs → VInv S { w with cache := w.cache.put (cachePath key ident ext) ⟨fresh, m⟩, clock := c })
    (hwhole : ∀ f, s.w.cache.get? (cachePath key ident ext) = some f → S.valid f.data = true) :
    VInv S (cacheGet S s dir key ident ext fresh bin).1.w ∧
    (∀ x, x ∈ s.w.dirs → x ∈ (cacheGet S s dir key ident ext fresh bin).1.w.dirs) ∧
    (cacheGet S s dir key ident ext fresh bin).1.w.enabled = s.w.enabled ∧
    (s.w.enabled = true → s.w.cache.get? (cachePath key ident ext) = none → dir ∈ (cacheGet S s dir key ident ext fresh bin).1.w.dirs) ∧
    (s.err = none → (cacheGet S s dir key ident ext fresh bin).1.err = none ∧ ((cacheGet S s dir key ident ext fresh bin).2).isSome = true) := by
  unfold cacheGet
  split
  · rename_i hdis
    refine ⟨h, fun _ hx => hx, rfl, fun he => ?_, fun herr => ⟨herr, rfl⟩⟩
    simp [he] at hdis
  · dsimp only
    split
    · rename_i f hf
      split
      · exact ⟨h, fun _ hx => hx, rfl, fun _ hn => (by rw [hf] at hn; cases hn), fun herr => ⟨herr, rfl⟩⟩
      · rename_i hinv
        exact absurd (hwhole f hf) hinv
    · have hd : dir ∈ (Sess.evict { s with w := s.w.mkdirs dir } (findOldest (s.w.mkdirs dir).cache (cachePath key ident ext) ext)).w.dirs := by
        rw [Sess.evict_eq]; exact mkdirs_mem s.w dir
      have hdc : (Sess.evict { s with w := s.w.mkdirs dir } (findOldest (s.w.mkdirs dir).cache (cachePath key ident ext) ext)).w.dirs.contains dir = true := by
        simpa using hd
      have hV : VInv S (Sess.evict { s with w := s.w.mkdirs dir } (findOldest (s.w.mkdirs dir).cache (cachePath key ident ext) ext)).w := by
        rw [Sess.evict_eq]; exact (h.mkdirs dir).eraseAll _
      have hen : (Sess.evict { s with w := s.w.mkdirs dir } (findOldest (s.w.mkdirs dir).cache (cachePath key ident ext) ext)).w.enabled = s.w.enabled := by
        rw [Sess.evict_eq]; rfl
      have hmono : ∀ x, x ∈ s.w.dirs → x ∈ (Sess.evict { s with w := s.w.mkdirs dir } (findOldest (s.w.mkdirs dir).cache (cachePath key ident ext) ext)).w.dirs := by
        intro x hx; rw [Sess.evict_eq]; exact mkdirs_keeps s.w dir x hx
      have herr' : s.err = none → (Sess.evict { s with w := s.w.mkdirs dir } (findOldest (s.w.mkdirs dir).cache (cachePath key ident ext) ext)).err = none := by
        intro herr; rw [Sess.evict_eq]; exact herr
      generalize Sess.evict { s with w := s.w.mkdirs dir } (findOldest (s.w.mkdirs dir).cache (cachePath key ident ext) ext) = s2 at hd hdc hV hen hmono herr'
      simp only [Sess.write, Sess.ev, hdc, ↓reduceIte]
      refine ⟨hput _ _ _ hV hd, hmono, hen, fun _ _ => hd, fun herr => ?_⟩
      simp [herr' herr]

theorem VS.addTree {S : Sem} {s : Sess} (h : VS S s) (key tree : Str) (hd : s.w.enabled = true → dirname key ∈ s.w.dirs) :
    VS S { s with loaded := s.loaded ++ [key], trees := s.trees ++ [(key, tree)] } := by
  refine ⟨h.1, fun he k t hkt => ?_⟩
  simp only [List.mem_append, List.mem_singleton, Prod.mk.injEq] at hkt
  rcases hkt with hkt | ⟨rfl, rfl⟩
  · exact h.2 he k t hkt
  · exact hd he

theorem parserGet_VS {S : Sem} (H : Hyp S) {s : Sess} (h : VS S s) :
    VS S (parserGet S s).1 ∧ (∀ x, x ∈ s.w.dirs → x ∈ (parserGet S s).1.w.dirs) ∧ (parserGet S s).1.w.enabled = s.w.enabled ∧
      (s.err = none → (parserGet S s).1.err = none ∧ ((parserGet S s).2).isSome = true) := by
  unfold parserGet
  split
  · exact ⟨h, fun _ hx => hx, rfl, fun herr => ⟨herr, rfl⟩⟩
  · have hc := cacheGet_VS (S := S) (s := s) h.1 [] parserKey (S.parserIdent s.w.grammar s.w.start s.w.algo s.w.grammarMtime) binExt (s.w.parserNow S) true
      (fun w m c hw _ => hw.put_parser H _ _ _ _ m c _ (H.valid_blob _ _ _ _))
      (fun f hf => h.1.vparser _ _ _ _ f hf)
    have hr := cacheGet_rest (S := S) (s := s) (dir := []) (key := parserKey) (ident := S.parserIdent s.w.grammar s.w.start s.w.algo s.w.grammarMtime)
      (ext := binExt) (fresh := s.w.parserNow S) (bin := true)
    generalize cacheGet S s [] parserKey (S.parserIdent s.w.grammar s.w.start s.w.algo s.w.grammarMtime) binExt (s.w.parserNow S) true = res at hc hr
    obtain ⟨s', r⟩ := res
    obtain ⟨hV, hmono, hen, _, hok⟩ := hc
    dsimp only at hV hmono hen hok hr
    have hvs : VS S s' := ⟨hV, fun he k t hkt => hmono _ (h.2 (by rw [← hen]; exact he) k t (by rw [← hr.2.2.2.2.1]; exact hkt))⟩
    cases r with
    | none => exact ⟨hvs, hmono, hen, fun herr => (by have := (hok herr).2; simp at this)⟩
    | some pz => exact ⟨⟨hvs.1, hvs.2⟩, hmono, hen, fun herr => ⟨(hok herr).1, rfl⟩⟩

theorem treeGet_VS {S : Sem} (H : Hyp S) {w0 : World} {s : Sess} (h : VS S s) (hts : TS S w0 s) (key : Str) :
    VS S (treeGet S s key).1 ∧
    (∀ tree, (treeGet S s key).2 = some tree →
      VS S { (treeGet S s key).1 with loaded := (treeGet S s key).1.loaded ++ [key], trees := (treeGet S s key).1.trees ++ [(key, tree)] }) ∧
    (s.err = none → ∀ sf, s.w.srcs.get? key = some sf → (treeGet S s key).1.err = none ∧ ((treeGet S s key).2).isSome = true) ∧
    (s.err = none → s.w.srcs.get? key = none → (treeGet S s key).1.err = some .noSource ∧ (treeGet S s key).2 = none) := by
  unfold treeGet
  obtain ⟨hp1, hpmono, hpen, hpok⟩ := parserGet_VS H h
  obtain ⟨hpts, _⟩ := parserGet_TS H hts
  have hprest := parserGet_rest (pz0 := []) H s
  generalize parserGet S s = rp at hp1 hpmono hpen hpok hpts hprest
  obtain ⟨s1, op⟩ := rp
  dsimp only at hp1 hpmono hpen hpok hpts hprest
  cases op with
  | none =>
    dsimp only
    exact ⟨hp1, fun _ e => (by cases e), fun herr => (by have := (hpok herr).2; simp at this), fun herr => (by have := (hpok herr).2; simp at this)⟩
  | some pz =>
    dsimp only
    have hsrcs : s1.w.srcs = s.w.srcs := hprest.2.2.2.1
    cases hsrc : s1.w.srcs.get? key with
    | none =>
      dsimp only
      refine ⟨hp1, fun _ e => (by cases e), fun _ sf hsf => ?_, fun herr _ => ⟨rfl, rfl⟩⟩
      rw [← hsrcs, hsrc] at hsf; cases hsf
    | some src =>
      dsimp only
      have hk : KeyOK key := hpts.inv.keys key src hsrc
      have hc := cacheGet_VS (S := S) (s := s1) hp1.1 (dirname key) key (S.treeIdent s1.w.grammar s1.w.start s1.w.algo s1.w.grammarMtime src.mtime (treeHashArg S src.data)) jsonExt (S.parse pz src.data) false
        (fun w m c hw hd => hw.put_tree H key hk _ _ _ _ _ _ m c _ (H.valid_parse _ _) hd)
        (fun f hf => (hp1.1.vtree key _ _ _ _ _ _ f hk hf).1)
      have hr := cacheGet_rest (S := S) (s := s1) (dir := dirname key) (key := key) (ident := S.treeIdent s1.w.grammar s1.w.start s1.w.algo s1.w.grammarMtime src.mtime (treeHashArg S src.data))
        (ext := jsonExt) (fresh := S.parse pz src.data) (bin := false)
      obtain ⟨hV, hmono, hen, hmiss, hok⟩ := hc
      have hvs : VS S (cacheGet S s1 (dirname key) key (S.treeIdent s1.w.grammar s1.w.start s1.w.algo s1.w.grammarMtime src.mtime (treeHashArg S src.data)) jsonExt (S.parse pz src.data) false).1 :=
        ⟨hV, fun he k t hkt => hmono _ (hp1.2 (by rw [← hen]; exact he) k t (by rw [← hr.2.2.2.2.1]; exact hkt))⟩
      refine ⟨hvs, fun tree _ => ?_, fun herr sf _ => hok (hpok herr).1, fun herr hn => ?_⟩
      · apply hvs.addTree
        intro he
        have he1 : s1.w.enabled = true := by rw [← hen]; exact he
        cases hf : s1.w.cache.get? (cachePath key (S.treeIdent s1.w.grammar s1.w.start s1.w.algo s1.w.grammarMtime src.mtime (treeHashArg S src.data)) jsonExt) with
        | some f => exact hmono _ (hp1.1.vtree key _ _ _ _ _ _ f hk hf).2
        | none => exact hmiss he1 hf
      · rw [← hsrcs, hsrc] at hn; cases hn

end Tranp.CacheFS

namespace Tranp.CacheFS
open Tranp

/-- the persistor on an undamaged directory stays undamaged and, with the module's directory in place, does not fail -/
theorem preprocessWith_VS {S : Sem} (H : Hyp S) {s : Sess} (h : VS S s) (key tree : Str) (views : List Str) (ident : Str)
    (hid : '-' ∉ ident) (hmem : (key, tree) ∈ s.trees) :
    VS S (preprocessWith S s key tree views ident).1 ∧
      (s.err = none → (preprocessWith S s key tree views ident).1.err = none ∧ ((preprocessWith S s key tree views ident).2).isSome = true) := by
  have hrest := preprocessWith_rest (S := S) s key tree views ident
  unfold preprocessWith at hrest ⊢
  dsimp only at hrest ⊢
  split
  · rename_i f hf
    split
    · rename_i he
      have hdec := h.1.vsym key ident f hid hf
      cases hd : S.decTab f.data with
      | none => rw [hd] at hdec; cases hdec
      | some table => exact ⟨h, fun herr => ⟨herr, rfl⟩⟩
    · exact ⟨h, fun herr => ⟨herr, rfl⟩⟩
  · split
    · exact ⟨h, fun herr => ⟨herr, rfl⟩⟩
    · rename_i hen
      have he : s.w.enabled = true := by simpa using hen
      have hd : dirname key ∈ (s.evict (findOldestSym s.w.cache key)).w.dirs := by
        rw [Sess.evict_eq]; exact h.2 he key tree hmem
      have hdc : (s.evict (findOldestSym s.w.cache key)).w.dirs.contains (dirname key) = true := by simpa using hd
      have hV : VInv S (s.evict (findOldestSym s.w.cache key)).w := by rw [Sess.evict_eq]; exact h.1.eraseAll _
      have htr : (s.evict (findOldestSym s.w.cache key)).trees = s.trees := by rw [Sess.evict_eq]
      have hdirs : (s.evict (findOldestSym s.w.cache key)).w.dirs = s.w.dirs := by rw [Sess.evict_eq]
      have herr' : s.err = none → (s.evict (findOldestSym s.w.cache key)).err = none := by intro e; rw [Sess.evict_eq]; exact e
      generalize s.evict (findOldestSym s.w.cache key) = s2 at hd hdc hV htr hdirs herr'
      simp only [Sess.write, Sess.ev, hdc, ↓reduceIte]
      refine ⟨⟨hV.put_sym H key ident _ _ _ hid, fun _ k t hkt => ?_⟩, fun herr => by simp [herr' herr]⟩
      show dirname k ∈ s2.w.dirs
      rw [hdirs]
      exact h.2 he k t (by rw [← htr]; exact hkt)

end Tranp.CacheFS

namespace Tranp.CacheFS
open Tranp

/-! ### the loader in named pieces -/

/-- `loader.preprocess` and the registration of the table, after the imports have been loaded -/
def finish (S : Sem) (s : Sess) (key tree : Str) : Sess :=
  if s.err.isSome then s else
  let s := { s with depd := s.depd ++ [key] }
  let s := if (S.importsOf tree).all (fun d => (List.lookup d s.db).isSome) then s else { s with cyc := true }
  match preprocess S s key tree (viewsOf S s.db (S.importsOf tree)) with
  | (s, none) => s
  | (s, some table) => { s with db := s.db ++ [(key, table)] }

/-- `Modules.load` after the libraries -/
def afterLibs (S : Sem) (f : Nat) (s : Sess) (key : Str) : Sess :=
  if s.err.isSome then s else
  if s.loaded.contains key then s else
  match treeGet S s key with
  | (s, none) => s
  | (s, some tree) =>
    finish S ((S.importsOf tree).foldl (loadMod S f) { s with loaded := s.loaded ++ [key], trees := s.trees ++ [(key, tree)] }) key tree

theorem loadMod_succ (S : Sem) (f : Nat) (s : Sess) (key : Str) :
    loadMod S (f + 1) s key =
      if s.err.isSome then s else if s.loaded.contains key then s else
        afterLibs S f (if s.w.libs.contains key then s else s.w.libs.foldl (loadMod S f) s) key := by
  rw [loadMod]
  rfl

end Tranp.CacheFS

namespace Tranp.CacheFS
open Tranp

/-! ### both invariants together, and what the cache actions leave alone -/

/-- the cache actions change nothing of the world but the cache directory and the clock -/
def WFrame (w w' : World) : Prop :=
  w'.libs = w.libs ∧ w'.enabled = w.enabled ∧ w'.outs = w.outs ∧ w'.order = w.order

theorem WFrame.refl (w : World) : WFrame w w := ⟨rfl, rfl, rfl, rfl⟩
theorem WFrame.trans {a b c : World} (h1 : WFrame a b) (h2 : WFrame b c) : WFrame a c :=
  ⟨h2.1.trans h1.1, h2.2.1.trans h1.2.1, h2.2.2.1.trans h1.2.2.1, h2.2.2.2.trans h1.2.2.2⟩

theorem cacheGet_frame {S : Sem} (s : Sess) (dir key ident ext fresh : Str) (bin : Bool) :
    WFrame s.w (cacheGet S s dir key ident ext fresh bin).1.w := by
  unfold cacheGet
  split
  · exact WFrame.refl _
  · dsimp only
    split
    · split <;> exact WFrame.refl _
    · simp only [Sess.write, Sess.evict_eq, Sess.ev, Sess.fail, World.mkdirs]
      split <;> exact ⟨rfl, rfl, rfl, rfl⟩

theorem parserGet_frame {S : Sem} (s : Sess) : WFrame s.w (parserGet S s).1.w ∧
    (∀ pz, (parserGet S s).2 = some pz → (parserGet S s).1.parser = some pz) ∧
    ((parserGet S s).2 = none → (parserGet S s).1.parser = s.parser) := by
  unfold parserGet
  split
  · rename_i pz hp
    exact ⟨WFrame.refl _, fun pz' e => (by cases e; exact hp), fun e => (by cases e)⟩
  · rename_i hp
    have hf := cacheGet_frame (S := S) s [] parserKey (S.parserIdent s.w.grammar s.w.start s.w.algo s.w.grammarMtime) binExt (s.w.parserNow S) true
    have hr := (cacheGet_rest (S := S) (s := s) (dir := []) (key := parserKey) (ident := S.parserIdent s.w.grammar s.w.start s.w.algo s.w.grammarMtime)
      (ext := binExt) (fresh := s.w.parserNow S) (bin := true)).2.2.2.2.2.1
    generalize cacheGet S s [] parserKey (S.parserIdent s.w.grammar s.w.start s.w.algo s.w.grammarMtime) binExt (s.w.parserNow S) true = res at hf hr
    obtain ⟨s', r⟩ := res
    cases r with
    | none => exact ⟨hf, fun _ e => (by cases e), fun _ => hr⟩
    | some pz => exact ⟨hf, fun pz' e => (by cases e; rfl), fun e => (by cases e)⟩

theorem treeGet_frame {S : Sem} (s : Sess) (key : Str) : WFrame s.w (treeGet S s key).1.w ∧
    (∀ pz, (parserGet S s).2 = some pz → (treeGet S s key).1.parser = some pz) := by
  unfold treeGet
  obtain ⟨hf, hp, _⟩ := parserGet_frame (S := S) s
  generalize parserGet S s = rp at hf hp
  obtain ⟨s1, op⟩ := rp
  cases op with
  | none => exact ⟨hf, fun _ e => (by cases e)⟩
  | some pz =>
    dsimp only at hf hp ⊢
    have hp1 : s1.parser = some pz := hp pz rfl
    split
    · exact ⟨hf, fun pz' e => (by cases e; exact hp1)⟩
    · rename_i src _
      refine ⟨hf.trans (cacheGet_frame s1 _ _ _ _ _ _), fun pz' e => ?_⟩
      cases e
      rw [(cacheGet_rest (S := S) (s := s1) (dir := dirname key) (key := key) (ident := S.treeIdent s1.w.grammar s1.w.start s1.w.algo s1.w.grammarMtime src.mtime (treeHashArg S src.data))
        (ext := jsonExt) (fresh := S.parse pz src.data) (bin := false)).2.2.2.2.2.1, hp1]

end Tranp.CacheFS

namespace Tranp.CacheFS
open Tranp

theorem preprocessWith_frame {S : Sem} (s : Sess) (key tree : Str) (views : List Str) (ident : Str) :
    WFrame s.w (preprocessWith S s key tree views ident).1.w := by
  unfold preprocessWith
  dsimp only
  split
  · split
    · split <;> exact WFrame.refl _
    · exact WFrame.refl _
  · split
    · exact WFrame.refl _
    · simp only [Sess.write, Sess.evict_eq, Sess.ev, Sess.fail]
      split <;> exact ⟨rfl, rfl, rfl, rfl⟩

/-- one side of the lockstep: coherent (SS) and undamaged (VS) -/
def Side (S : Sem) (w0 : World) (s : Sess) : Prop := (SS S w0 s ∧ TK s) ∧ VS S s

theorem preprocess_VS {S : Sem} (H : Hyp S) {w0 : World} {s : Sess} (h : VS S s) (hts : TS S w0 s) (key tree : Str) (views : List Str)
    (hmem : (key, tree) ∈ s.trees) :
    VS S (preprocess S s key tree views).1 ∧
      ∀ table, VS S { (preprocess S s key tree views).1 with db := (preprocess S s key tree views).1.db ++ [(key, table)] } := by
  unfold preprocess identityM
  obtain ⟨_, hd⟩ := identityCore_nodash H s.w.srcs s.trees s.depd s.ids key hts.ids
  generalize identityCore S s.w.srcs s.trees s.depd s.ids key = ri at hd
  obtain ⟨ids', o⟩ := ri
  cases o with
  | none => exact ⟨h, fun _ => h⟩
  | some ident =>
    dsimp only at hd ⊢
    have := (preprocessWith_VS H (s := { s with ids := ids' }) h key tree views ident (hd ident rfl) hmem).1
    exact ⟨this, fun _ => this⟩

theorem TK.same {s s' : Sess} (h : TK s) (h1 : s'.trees = s.trees) (h2 : s'.loaded = s.loaded) : TK s' :=
  fun k t hl => by rw [h2]; exact h k t (by rw [← h1]; exact hl)

theorem loadMod_Side {S : Sem} (H : Hyp S) {w0 : World} (f : Nat) (s : Sess) (key : Str) (h : Side S w0 s) :
    Side S w0 (loadMod S f s key) :=
  ⟨⟨loadMod_inv' S H (fun s => SS S w0 s ∧ VS S s) (FreshTree S w0)
      (fun _ e hs => ⟨⟨hs.1.1.fail e, hs.1.2⟩, hs.2⟩)
      (fun s key s' r hs heq => by
        obtain ⟨a, b⟩ := treeGet_SS H hs.1 key heq
        obtain ⟨c, d, _⟩ := treeGet_VS H hs.2 hs.1.1 key
        rw [heq] at c d
        exact ⟨⟨a, c⟩, fun tree hr => ⟨(b tree hr).1, (b tree hr).2, d tree hr⟩⟩)
      (fun _ hs => ⟨⟨⟨hs.1.1.inv, hs.1.1.srcs, hs.1.1.gm, hs.1.1.cfg, hs.1.1.parser, hs.1.1.trees, hs.1.1.ids⟩, fun h => by cases h⟩, hs.2⟩)
      (fun s key hs => ⟨⟨⟨hs.1.1.inv, hs.1.1.srcs, hs.1.1.gm, hs.1.1.cfg, hs.1.1.parser, hs.1.1.trees, hs.1.1.ids⟩, fun hc => by
        obtain ⟨a, b, c⟩ := hs.1.2 hc
        refine ⟨a, b, fun k t hkt => ?_⟩
        obtain ⟨c1, c2, rest⟩ := c k t hkt
        exact ⟨c1, by simp [c2], rest⟩⟩, hs.2⟩)
      (fun s key tree s' r hs hF hkd hlk hall heq => by
        obtain ⟨a, b⟩ := preprocess_SS H hs.1 key tree hF hkd hlk hall heq
        obtain ⟨c, d⟩ := preprocess_VS H hs.2 hs.1.1 key tree (viewsOf S s.db (S.importsOf tree)) (lookup_mem' hlk)
        rw [heq] at c d
        exact ⟨⟨a, c⟩, fun table hr => ⟨b table hr, d table⟩⟩)
      f s key ⟨h.1.1, h.2⟩ h.1.2 |>.1, loadMod_TK H f s key h.1.2⟩,
   (loadMod_inv' S H (fun s => SS S w0 s ∧ VS S s) (FreshTree S w0)
      (fun _ e hs => ⟨⟨hs.1.1.fail e, hs.1.2⟩, hs.2⟩)
      (fun s key s' r hs heq => by
        obtain ⟨a, b⟩ := treeGet_SS H hs.1 key heq
        obtain ⟨c, d, _⟩ := treeGet_VS H hs.2 hs.1.1 key
        rw [heq] at c d
        exact ⟨⟨a, c⟩, fun tree hr => ⟨(b tree hr).1, (b tree hr).2, d tree hr⟩⟩)
      (fun _ hs => ⟨⟨⟨hs.1.1.inv, hs.1.1.srcs, hs.1.1.gm, hs.1.1.cfg, hs.1.1.parser, hs.1.1.trees, hs.1.1.ids⟩, fun h => by cases h⟩, hs.2⟩)
      (fun s key hs => ⟨⟨⟨hs.1.1.inv, hs.1.1.srcs, hs.1.1.gm, hs.1.1.cfg, hs.1.1.parser, hs.1.1.trees, hs.1.1.ids⟩, fun hc => by
        obtain ⟨a, b, c⟩ := hs.1.2 hc
        refine ⟨a, b, fun k t hkt => ?_⟩
        obtain ⟨c1, c2, rest⟩ := c k t hkt
        exact ⟨c1, by simp [c2], rest⟩⟩, hs.2⟩)
      (fun s key tree s' r hs hF hkd hlk hall heq => by
        obtain ⟨a, b⟩ := preprocess_SS H hs.1 key tree hF hkd hlk hall heq
        obtain ⟨c, d⟩ := preprocess_VS H hs.2 hs.1.1 key tree (viewsOf S s.db (S.importsOf tree)) (lookup_mem' hlk)
        rw [heq] at c d
        exact ⟨⟨a, c⟩, fun table hr => ⟨b table hr, d table⟩⟩)
      f s key ⟨h.1.1, h.2⟩ h.1.2).2⟩

/-- what two sessions in lockstep agree on: everything but the cache directory, the clock, the access log (and the cycle
    flag, which `Rel` treats separately) -/
structure Proj (s t : Sess) : Prop where
  db : s.db = t.db
  trees : s.trees = t.trees
  loaded : s.loaded = t.loaded
  ids : s.ids = t.ids
  err : s.err = t.err
  out : s.out = t.out
  parser : s.parser = t.parser
  srcs : s.w.srcs = t.w.srcs
  frame : WFrame s.w t.w
  depd : s.depd = t.depd

theorem treeGet_sim {S : Sem} (H : Hyp S) {w0 : World} {s t : Sess} (hs : Side S w0 s) (ht : Side S w0 t) (hp : Proj s t)
    (herr : s.err = none) (key : Str) :
    Proj (treeGet S s key).1 (treeGet S t key).1 ∧ (treeGet S s key).2 = (treeGet S t key).2 := by
  have herr' : t.err = none := by rw [← hp.err]; exact herr
  have rs := treeGet_rest H s key
  have rt := treeGet_rest H t key
  have fs := treeGet_frame (S := S) s key
  have ft := treeGet_frame (S := S) t key
  obtain ⟨_, _, _, pks⟩ := parserGet_VS H hs.2
  obtain ⟨_, _, _, pkt⟩ := parserGet_VS H ht.2
  obtain ⟨_, ppzs⟩ := parserGet_TS H hs.1.1.1
  obtain ⟨_, ppzt⟩ := parserGet_TS H ht.1.1.1
  -- both processes obtain the parser of the current setting
  have hpar : (treeGet S s key).1.parser = (treeGet S t key).1.parser := by
    cases h1 : (parserGet S s).2 with
    | none => have := (pks herr).2; rw [h1] at this; cases this
    | some pz =>
      cases h2 : (parserGet S t).2 with
      | none => have := (pkt herr').2; rw [h2] at this; cases this
      | some pz' =>
        rw [fs.2 pz h1, ft.2 pz' h2, ppzs pz h1, ppzt pz' h2]
  have hframe : WFrame (treeGet S s key).1.w (treeGet S t key).1.w :=
    ⟨by rw [fs.1.1, ft.1.1, hp.frame.1], by rw [fs.1.2.1, ft.1.2.1, hp.frame.2.1], by rw [fs.1.2.2.1, ft.1.2.2.1, hp.frame.2.2.1],
      by rw [fs.1.2.2.2, ft.1.2.2.2, hp.frame.2.2.2]⟩
  obtain ⟨_, _, oks, nos⟩ := treeGet_VS H hs.2 hs.1.1.1 key
  obtain ⟨_, _, okt, not⟩ := treeGet_VS H ht.2 ht.1.1.1 key
  have hbase : ∀ (e : (treeGet S s key).1.err = (treeGet S t key).1.err), Proj (treeGet S s key).1 (treeGet S t key).1 := fun e =>
    ⟨by rw [rs.1, rt.1, hp.db], by rw [rs.2.2.2.1, rt.2.2.2.1, hp.trees], by rw [rs.2.2.2.2.1, rt.2.2.2.2.1, hp.loaded],
      by rw [rs.2.2.1, rt.2.2.1, hp.ids], e, by rw [rs.2.2.2.2.2.1, rt.2.2.2.2.2.1, hp.out], hpar,
      by rw [rs.2.2.2.2.2.2.1, rt.2.2.2.2.2.2.1, hp.srcs], hframe, by rw [rs.2.2.2.2.2.2.2, rt.2.2.2.2.2.2.2, hp.depd]⟩
  cases hsrc : s.w.srcs.get? key with
  | none =>
    have hsrc' : t.w.srcs.get? key = none := by rw [← hp.srcs]; exact hsrc
    obtain ⟨e1, r1⟩ := nos herr hsrc
    obtain ⟨e2, r2⟩ := not herr' hsrc'
    exact ⟨hbase (by rw [e1, e2]), by rw [r1, r2]⟩
  | some sf =>
    have hsrc' : t.w.srcs.get? key = some sf := by rw [← hp.srcs]; exact hsrc
    obtain ⟨e1, r1⟩ := oks herr sf hsrc
    obtain ⟨e2, r2⟩ := okt herr' sf hsrc'
    refine ⟨hbase (by rw [e1, e2]), ?_⟩
    cases h1 : (treeGet S s key).2 with
    | none => rw [h1] at r1; cases r1
    | some tr =>
      cases h2 : (treeGet S t key).2 with
      | none => rw [h2] at r2; cases r2
      | some tr' =>
        obtain ⟨_, f1⟩ := treeGet_TS H hs.1.1.1 key (s' := (treeGet S s key).1) (r := (treeGet S s key).2) rfl
        obtain ⟨_, f2⟩ := treeGet_TS H ht.1.1.1 key (s' := (treeGet S t key).1) (r := (treeGet S t key).2) rfl
        obtain ⟨sf1, a1, b1⟩ := (f1 tr h1).1
        obtain ⟨sf2, a2, b2⟩ := (f2 tr' h2).1
        rw [a1] at a2; cases a2
        rw [b1, b2]

end Tranp.CacheFS

namespace Tranp.CacheFS
open Tranp

theorem preprocess_sim {S : Sem} (H : Hyp S) {w0 : World} {s t : Sess} (hs : Side S w0 s) (ht : Side S w0 t) (hp : Proj s t)
    (hcs : s.cyc = false) (hct : t.cyc = false) (herr : s.err = none) (key tree : Str) (hF : FreshTree S w0 key tree)
    (hkd : key ∈ s.depd) (hlk : List.lookup key s.trees = some tree)
    (hall : (S.importsOf tree).all (fun d => (List.lookup d s.db).isSome) = true) :
    Proj (preprocess S s key tree (viewsOf S s.db (S.importsOf tree))).1 (preprocess S t key tree (viewsOf S t.db (S.importsOf tree))).1 ∧
      (preprocess S s key tree (viewsOf S s.db (S.importsOf tree))).2 = (preprocess S t key tree (viewsOf S t.db (S.importsOf tree))).2 := by
  have herr' : t.err = none := by rw [← hp.err]; exact herr
  have hlk' : List.lookup key t.trees = some tree := by rw [← hp.trees]; exact hlk
  obtain ⟨hsinv, hids, hdb⟩ := hs.1.1.2 hcs
  obtain ⟨hsinv', _, _⟩ := ht.1.1.2 hct
  obtain ⟨sf, hsf, rfl⟩ := hF
  have hviews := viewsOf_isViews hdb _ hall
  have hT : IsTab S (w0.parserNow S) w0.srcs key
      (S.analyse key (S.parse (w0.parserNow S) sf.data) (viewsOf S s.db (S.importsOf (S.parse (w0.parserNow S) sf.data)))) := IsTab.mk hsf hviews
  have hvt : viewsOf S t.db (S.importsOf (S.parse (w0.parserNow S) sf.data)) = viewsOf S s.db (S.importsOf (S.parse (w0.parserNow S) sf.data)) := by
    rw [hp.db]
  have hidt : identityCore S t.w.srcs t.trees t.depd t.ids key = identityCore S s.w.srcs s.trees s.depd s.ids key := by
    rw [← hp.srcs, ← hp.trees, ← hp.ids, ← hp.depd]
  unfold preprocess identityM
  rw [hidt, hvt]
  cases hid : identityCore S s.w.srcs s.trees s.depd s.ids key with
  | mk ids' o =>
    cases o with
    | none =>
      dsimp only
      exact ⟨⟨hp.db, hp.trees, hp.loaded, rfl, rfl, hp.out, hp.parser, hp.srcs, hp.frame, hp.depd⟩, rfl⟩
    | some ident =>
      dsimp only
      obtain ⟨hI, _⟩ := identityCore_ok hs.1.1.1.srcs hdb hids key sf hsf hkd hlk hall ids' ident hid
      have hnd := hI.nodash H
      generalize hv : viewsOf S s.db (S.importsOf (S.parse (w0.parserNow S) sf.data)) = views at hT
      have a1 := preprocessWith_sym H (s := { s with ids := ids' }) hsinv key _ views ident hI hnd hT
      have a2 := preprocessWith_sym H (s := { t with ids := ids' }) hsinv' key _ views ident hI hnd hT
      have b1 := preprocessWith_VS H (s := { s with ids := ids' }) hs.2 key (S.parse (w0.parserNow S) sf.data) views ident hnd (lookup_mem' hlk)
      have b2 := preprocessWith_VS H (s := { t with ids := ids' }) ht.2 key (S.parse (w0.parserNow S) sf.data) views ident hnd (lookup_mem' hlk')
      have c1 := preprocessWith_rest (S := S) { s with ids := ids' } key (S.parse (w0.parserNow S) sf.data) views ident
      have c2 := preprocessWith_rest (S := S) { t with ids := ids' } key (S.parse (w0.parserNow S) sf.data) views ident
      have d1 := preprocessWith_frame (S := S) { s with ids := ids' } key (S.parse (w0.parserNow S) sf.data) views ident
      have d2 := preprocessWith_frame (S := S) { t with ids := ids' } key (S.parse (w0.parserNow S) sf.data) views ident
      generalize preprocessWith S { s with ids := ids' } key (S.parse (w0.parserNow S) sf.data) views ident = r1 at a1 b1 c1 d1
      generalize preprocessWith S { t with ids := ids' } key (S.parse (w0.parserNow S) sf.data) views ident = r2 at a2 b2 c2 d2
      obtain ⟨e1, o1⟩ := b1.2 herr
      obtain ⟨e2, o2⟩ := b2.2 herr'
      refine ⟨⟨by rw [c1.2.1, c2.2.1]; exact hp.db, by rw [c1.2.2.2.1, c2.2.2.2.1]; exact hp.trees, by rw [c1.2.2.2.2.1, c2.2.2.2.2.1]; exact hp.loaded,
        by rw [c1.2.2.1, c2.2.2.1], by rw [e1, e2], by rw [c1.2.2.2.2.2.1, c2.2.2.2.2.2.1]; exact hp.out,
        by rw [c1.2.2.2.2.2.2.1, c2.2.2.2.2.2.2.1]; exact hp.parser, by rw [c1.2.2.2.2.2.2.2.1, c2.2.2.2.2.2.2.2.1]; exact hp.srcs, ?_,
        by rw [c1.2.2.2.2.2.2.2.2, c2.2.2.2.2.2.2.2.2]; exact hp.depd⟩, ?_⟩
      · exact ⟨by rw [d1.1, d2.1]; exact hp.frame.1, by rw [d1.2.1, d2.2.1]; exact hp.frame.2.1, by rw [d1.2.2.1, d2.2.2.1]; exact hp.frame.2.2.1,
          by rw [d1.2.2.2, d2.2.2.2]; exact hp.frame.2.2.2⟩
      · cases h1 : r1.2 with
        | none => rw [h1] at o1; cases o1
        | some x =>
          cases h2 : r2.2 with
          | none => rw [h2] at o2; cases o2
          | some y => rw [a1.2 x h1, a2.2 y h2]

/-! ### the cycle flag is never reset -/

theorem loadMod_cyc_true {S : Sem} (H : Hyp S) (f : Nat) (s : Sess) (key : Str) (h : s.cyc = true) : (loadMod S f s key).cyc = true :=
  loadMod_inv S (fun s => s.cyc = true) (fun _ _ => True)
    (fun _ _ hs => hs)
    (fun s key s' r hs heq => by
      have := (treeGet_rest H s key).2.1
      rw [heq] at this
      dsimp only at this
      exact ⟨by rw [this]; exact hs, fun _ _ => ⟨trivial, by show s'.cyc = true; rw [this]; exact hs⟩⟩)
    (fun _ _ => rfl)
    (fun _ _ hs => hs)
    (fun s key tree s' r hs _ _ _ heq => by
      have := preprocess_cyc (S := S) s key tree (viewsOf S s.db (S.importsOf tree))
      rw [heq] at this
      dsimp only at this
      exact ⟨by rw [this]; exact hs, fun _ _ => by show s'.cyc = true; rw [this]; exact hs⟩)
    f s key h

theorem fold_cyc_true {S : Sem} (H : Hyp S) (f : Nat) (ks : List Str) (s : Sess) (h : s.cyc = true) : (ks.foldl (loadMod S f) s).cyc = true :=
  foldl_inv (fun s => s.cyc = true) _ (fun a b ha => loadMod_cyc_true H f a b ha) ks s h

theorem finish_cyc_true {S : Sem} (s : Sess) (key tree : Str) (h : s.cyc = true) : (finish S s key tree).cyc = true := by
  unfold finish
  split
  · exact h
  · dsimp only
    have h1 : (if (S.importsOf tree).all (fun d => (List.lookup d s.db).isSome) then ({ s with depd := s.depd ++ [key] } : Sess)
        else { s with depd := s.depd ++ [key], cyc := true }).cyc = true := by
      split
      · exact h
      · rfl
    generalize (if (S.importsOf tree).all (fun d => (List.lookup d s.db).isSome) then ({ s with depd := s.depd ++ [key] } : Sess)
        else { s with depd := s.depd ++ [key], cyc := true }) = s1 at h1
    have := preprocess_cyc (S := S) s1 key tree (viewsOf S s1.db (S.importsOf tree))
    generalize preprocess S s1 key tree (viewsOf S s1.db (S.importsOf tree)) = r at this
    obtain ⟨s2, o⟩ := r
    dsimp only at this
    cases o with
    | none => dsimp only; rw [this]; exact h1
    | some table => dsimp only; rw [this]; exact h1

theorem afterLibs_cyc_true {S : Sem} (H : Hyp S) (f : Nat) (s : Sess) (key : Str) (h : s.cyc = true) : (afterLibs S f s key).cyc = true := by
  unfold afterLibs
  split
  · exact h
  · split
    · exact h
    · have := (treeGet_rest H s key).2.1
      generalize treeGet S s key = r at this
      obtain ⟨s1, o⟩ := r
      dsimp only at this
      cases o with
      | none => dsimp only; rw [this]; exact h
      | some tree =>
        dsimp only
        apply finish_cyc_true
        apply fold_cyc_true H
        show s1.cyc = true
        rw [this]; exact h

end Tranp.CacheFS

namespace Tranp.CacheFS
open Tranp

/-! ### lockstep -/

/-- two sessions are in lockstep: same cycle flag, and — as long as no analysis ran inside an import cycle — they agree on
    everything but cache directory, clock and access log -/
def Rel (s t : Sess) : Prop := s.cyc = t.cyc ∧ (s.cyc = false → Proj s t)

theorem Rel.of_cyc {s t : Sess} (h1 : s.cyc = true) (h2 : t.cyc = true) : Rel s t :=
  ⟨by rw [h1, h2], fun h => by rw [h1] at h; cases h⟩

theorem Side.addDepd {S : Sem} {w0 : World} {s : Sess} (hs : Side S w0 s) (key : Str) : Side S w0 { s with depd := s.depd ++ [key] } := by
  obtain ⟨⟨hss, htk⟩, hv⟩ := hs
  refine ⟨⟨⟨⟨hss.1.inv, hss.1.srcs, hss.1.gm, hss.1.cfg, hss.1.parser, hss.1.trees, hss.1.ids⟩, fun hc => ?_⟩, htk⟩, hv⟩
  obtain ⟨a, b, c⟩ := hss.2 hc
  refine ⟨a, b, fun k t hkt => ?_⟩
  obtain ⟨c1, c2, rest⟩ := c k t hkt
  exact ⟨c1, by simp [c2], rest⟩

theorem finish_sim {S : Sem} (H : Hyp S) {w0 : World} {s t : Sess} (hs : Side S w0 s) (ht : Side S w0 t) (hr : Rel s t)
    (key tree : Str) (hF : FreshTree S w0 key tree) (hlk : List.lookup key s.trees = some tree) :
    Rel (finish S s key tree) (finish S t key tree) := by
  by_cases hc : s.cyc = false
  · have hc' : t.cyc = false := by rw [← hr.1]; exact hc
    have hp := hr.2 hc
    unfold finish
    by_cases he : s.err.isSome = true
    · have he' : t.err.isSome = true := by rw [← hp.err]; exact he
      simp only [he, he', ↓reduceIte]; exact hr
    · have he' : ¬ t.err.isSome = true := by rw [← hp.err]; exact he
      simp only [he, he', Bool.false_eq_true, ↓reduceIte]
      have herr : s.err = none := by simpa using he
      have hs0 := hs.addDepd key
      have ht0 := ht.addDepd key
      have hp0 : Proj ({ s with depd := s.depd ++ [key] } : Sess) ({ t with depd := t.depd ++ [key] } : Sess) :=
        ⟨hp.db, hp.trees, hp.loaded, hp.ids, hp.err, hp.out, hp.parser, hp.srcs, hp.frame, by show s.depd ++ _ = t.depd ++ _; rw [hp.depd]⟩
      by_cases hall : (S.importsOf tree).all (fun d => (List.lookup d s.db).isSome) = true
      · have hall' : (S.importsOf tree).all (fun d => (List.lookup d t.db).isSome) = true := by rw [← hp.db]; exact hall
        simp only [hall, hall', ↓reduceIte]
        obtain ⟨pp, po⟩ := preprocess_sim H hs0 ht0 hp0 hc hc' herr key tree hF (by simp) hlk hall
        have c1 := preprocess_cyc (S := S) { s with depd := s.depd ++ [key] } key tree (viewsOf S s.db (S.importsOf tree))
        have c2 := preprocess_cyc (S := S) { t with depd := t.depd ++ [key] } key tree (viewsOf S t.db (S.importsOf tree))
        generalize preprocess S { s with depd := s.depd ++ [key] } key tree (viewsOf S s.db (S.importsOf tree)) = r1 at pp po c1
        generalize preprocess S { t with depd := t.depd ++ [key] } key tree (viewsOf S t.db (S.importsOf tree)) = r2 at pp po c2
        obtain ⟨s1, o1⟩ := r1
        obtain ⟨t1, o2⟩ := r2
        dsimp only at pp po c1 c2
        subst po
        cases o1 with
        | none => exact ⟨by show s1.cyc = t1.cyc; rw [c1, c2, hc, hc'], fun _ => pp⟩
        | some table =>
          exact ⟨by show s1.cyc = t1.cyc; rw [c1, c2, hc, hc'], fun _ =>
            ⟨by show s1.db ++ _ = t1.db ++ _; rw [pp.db], pp.trees, pp.loaded, pp.ids, pp.err, pp.out, pp.parser, pp.srcs, pp.frame, pp.depd⟩⟩
      · have hall' : ¬ (S.importsOf tree).all (fun d => (List.lookup d t.db).isSome) = true := by rw [← hp.db]; exact hall
        simp only [hall, hall', Bool.false_eq_true, ↓reduceIte]
        have c1 := preprocess_cyc (S := S) { s with depd := s.depd ++ [key], cyc := true } key tree (viewsOf S s.db (S.importsOf tree))
        have c2 := preprocess_cyc (S := S) { t with depd := t.depd ++ [key], cyc := true } key tree (viewsOf S t.db (S.importsOf tree))
        generalize preprocess S { s with depd := s.depd ++ [key], cyc := true } key tree (viewsOf S s.db (S.importsOf tree)) = r1 at c1
        generalize preprocess S { t with depd := t.depd ++ [key], cyc := true } key tree (viewsOf S t.db (S.importsOf tree)) = r2 at c2
        obtain ⟨s1, o1⟩ := r1
        obtain ⟨t1, o2⟩ := r2
        dsimp only at c1 c2
        apply Rel.of_cyc
        · cases o1 <;> exact c1
        · cases o2 <;> exact c2
  · have hc1 : s.cyc = true := by simpa using hc
    have hc2 : t.cyc = true := by rw [← hr.1]; exact hc1
    exact Rel.of_cyc (finish_cyc_true s key tree hc1) (finish_cyc_true t key tree hc2)

theorem fold_sim {S : Sem} (H : Hyp S) {w0 : World} (f : Nat)
    (ih : ∀ s t key, Side S w0 s → Side S w0 t → Rel s t → Rel (loadMod S f s key) (loadMod S f t key)) (ks : List Str) :
    ∀ s t, Side S w0 s → Side S w0 t → Rel s t →
      Rel (ks.foldl (loadMod S f) s) (ks.foldl (loadMod S f) t) ∧ Side S w0 (ks.foldl (loadMod S f) s) ∧ Side S w0 (ks.foldl (loadMod S f) t) := by
  induction ks with
  | nil => intro s t hs ht hr; exact ⟨hr, hs, ht⟩
  | cons k ks ihk =>
    intro s t hs ht hr
    exact ihk _ _ (loadMod_Side H f s k hs) (loadMod_Side H f t k ht) (ih s t k hs ht hr)

theorem fold_lookup_mono {S : Sem} (H : Hyp S) (k tr : Str) (f : Nat) (ks : List Str) (s : Sess) (h : List.lookup k s.trees = some tr) :
    List.lookup k (ks.foldl (loadMod S f) s).trees = some tr :=
  foldl_inv (fun s => List.lookup k s.trees = some tr) _ (fun a b ha => trees_lookup_mono H k tr f a b ha) ks s h

theorem afterLibs_sim {S : Sem} (H : Hyp S) {w0 : World} (f : Nat)
    (ih : ∀ s t key, Side S w0 s → Side S w0 t → Rel s t → Rel (loadMod S f s key) (loadMod S f t key))
    {s t : Sess} (hs : Side S w0 s) (ht : Side S w0 t) (hr : Rel s t) (key : Str) :
    Rel (afterLibs S f s key) (afterLibs S f t key) := by
  by_cases hc : s.cyc = false
  · have hc' : t.cyc = false := by rw [← hr.1]; exact hc
    have hp := hr.2 hc
    unfold afterLibs
    by_cases he : s.err.isSome = true
    · have he' : t.err.isSome = true := by rw [← hp.err]; exact he
      simp only [he, he', ↓reduceIte]; exact hr
    · have he' : ¬ t.err.isSome = true := by rw [← hp.err]; exact he
      simp only [he, he', Bool.false_eq_true, ↓reduceIte]
      have herr : s.err = none := by simpa using he
      by_cases hl : s.loaded.contains key = true
      · have hl' : t.loaded.contains key = true := by rw [← hp.loaded]; exact hl
        simp only [hl, hl', ↓reduceIte]; exact hr
      · have hl' : ¬ t.loaded.contains key = true := by rw [← hp.loaded]; exact hl
        simp only [hl, hl', Bool.false_eq_true, ↓reduceIte]
        obtain ⟨tp, to⟩ := treeGet_sim H hs ht hp herr key
        obtain ⟨a1, b1⟩ := treeGet_SS H hs.1.1 key (s' := (treeGet S s key).1) (r := (treeGet S s key).2) rfl
        obtain ⟨a2, b2⟩ := treeGet_SS H ht.1.1 key (s' := (treeGet S t key).1) (r := (treeGet S t key).2) rfl
        obtain ⟨v1, d1, _⟩ := treeGet_VS H hs.2 hs.1.1.1 key
        obtain ⟨v2, d2, _⟩ := treeGet_VS H ht.2 ht.1.1.1 key
        have c1 := (treeGet_rest H s key).2.1
        have c2 := (treeGet_rest H t key).2.1
        have k1 := (treeGet_rest H s key)
        have k2 := (treeGet_rest H t key)
        generalize treeGet S s key = r1 at tp to a1 b1 v1 d1 c1 k1
        generalize treeGet S t key = r2 at tp to a2 b2 v2 d2 c2 k2
        obtain ⟨s1, o1⟩ := r1
        obtain ⟨t1, o2⟩ := r2
        dsimp only at tp to a1 b1 v1 d1 c1 a2 b2 v2 d2 c2 k1 k2
        subst to
        cases o1 with
        | none => exact ⟨by show s1.cyc = t1.cyc; rw [c1, c2, hc, hc'], fun _ => tp⟩
        | some tree =>
          dsimp only
          obtain ⟨hF, ss2⟩ := b1 tree rfl
          obtain ⟨_, st2⟩ := b2 tree rfl
          have tk1 : TK s1 := hs.1.2.same k1.2.2.2.1 k1.2.2.2.2.1
          have tk2 : TK t1 := ht.1.2.same k2.2.2.2.1 k2.2.2.2.2.1
          have hs2 : Side S w0 { s1 with loaded := s1.loaded ++ [key], trees := s1.trees ++ [(key, tree)] } := ⟨⟨ss2, tk1.addTree key tree⟩, d1 tree rfl⟩
          have ht2 : Side S w0 { t1 with loaded := t1.loaded ++ [key], trees := t1.trees ++ [(key, tree)] } := ⟨⟨st2, tk2.addTree key tree⟩, d2 tree rfl⟩
          have hnone : List.lookup key s1.trees = none := by
            cases hl0 : List.lookup key s1.trees with
            | none => rfl
            | some t0 =>
              have := tk1 key t0 hl0
              rw [k1.2.2.2.2.1] at this
              exact absurd this hl
          have hr2 : Rel { s1 with loaded := s1.loaded ++ [key], trees := s1.trees ++ [(key, tree)] }
              { t1 with loaded := t1.loaded ++ [key], trees := t1.trees ++ [(key, tree)] } :=
            ⟨by show s1.cyc = t1.cyc; rw [c1, c2, hc, hc'], fun _ =>
              ⟨tp.db, by show s1.trees ++ _ = t1.trees ++ _; rw [tp.trees], by show s1.loaded ++ _ = t1.loaded ++ _; rw [tp.loaded],
                tp.ids, tp.err, tp.out, tp.parser, tp.srcs, tp.frame, tp.depd⟩⟩
          obtain ⟨hr3, hs3, ht3⟩ := fold_sim H f ih (S.importsOf tree) _ _ hs2 ht2 hr2
          exact finish_sim H hs3 ht3 hr3 key tree hF
            (fold_lookup_mono H key tree f _ _ (by show List.lookup key (s1.trees ++ _) = some tree; exact lookup_append_none hnone))
  · have hc1 : s.cyc = true := by simpa using hc
    have hc2 : t.cyc = true := by rw [← hr.1]; exact hc1
    exact Rel.of_cyc (afterLibs_cyc_true H f s key hc1) (afterLibs_cyc_true H f t key hc2)

theorem loadMod_sim {S : Sem} (H : Hyp S) {w0 : World} (f : Nat) :
    ∀ s t key, Side S w0 s → Side S w0 t → Rel s t → Rel (loadMod S f s key) (loadMod S f t key) := by
  induction f with
  | zero =>
    intro s t key hs ht hr
    exact ⟨hr.1, fun hc => by
      have hp := hr.2 hc
      exact ⟨hp.db, hp.trees, hp.loaded, hp.ids, rfl, hp.out, hp.parser, hp.srcs, hp.frame, hp.depd⟩⟩
  | succ f ih =>
    intro s t key hs ht hr
    by_cases hc : s.cyc = false
    · have hp := hr.2 hc
      rw [loadMod_succ, loadMod_succ]
      by_cases he : s.err.isSome = true
      · have he' : t.err.isSome = true := by rw [← hp.err]; exact he
        simp only [he, he', ↓reduceIte]; exact hr
      · have he' : ¬ t.err.isSome = true := by rw [← hp.err]; exact he
        simp only [he, he', Bool.false_eq_true, ↓reduceIte]
        by_cases hl : s.loaded.contains key = true
        · have hl' : t.loaded.contains key = true := by rw [← hp.loaded]; exact hl
          simp only [hl, hl', ↓reduceIte]; exact hr
        · have hl' : ¬ t.loaded.contains key = true := by rw [← hp.loaded]; exact hl
          simp only [hl, hl', Bool.false_eq_true, ↓reduceIte]
          have hlibs : t.w.libs = s.w.libs := hp.frame.1
          rw [hlibs]
          by_cases hlc : s.w.libs.contains key = true
          · simp only [hlc, ↓reduceIte]
            exact afterLibs_sim H f ih hs ht hr key
          · simp only [hlc, Bool.false_eq_true, ↓reduceIte]
            obtain ⟨hr1, hs1, ht1⟩ := fold_sim H f ih s.w.libs s t hs ht hr
            exact afterLibs_sim H f ih hs1 ht1 hr1 key
    · have hc1 : s.cyc = true := by simpa using hc
      have hc2 : t.cyc = true := by rw [← hr.1]; exact hc1
      exact Rel.of_cyc (loadMod_cyc_true H _ s key hc1) (loadMod_cyc_true H _ t key hc2)

end Tranp.CacheFS

namespace Tranp.CacheFS
open Tranp

/-- one target of `Runner._run_impl` -/
def stepT (S : Sem) (s : Sess) (key : Str) : Sess :=
  if s.err.isSome then s else
  let s := loadMod S (fuelOf s.w) s key
  if s.err.isSome then s else
    match List.lookup key s.trees, srcHash S s.w key with
    | some tree, some h =>
      { s with out := s.out ++ [(key, S.render key tree s.db)],
               w := { s.w with outs := (s.w.outs.filter (fun e => e.1 ≠ key)) ++ [(key, h)] } }
    | _, _ => s

theorem runTargets_eq (S : Sem) (s : Sess) (targets : List Str) : runTargets S s targets = targets.foldl (stepT S) s := rfl

theorem Side.setOuts {S : Sem} {w0 : World} {s : Sess} (h : Side S w0 s) (o : List (Str × Str)) (outs : List (Str × Str)) :
    Side S w0 { s with out := o, w := { s.w with outs := outs } } := by
  obtain ⟨⟨⟨a, e⟩, tk⟩, v⟩ := h
  exact ⟨⟨⟨⟨⟨a.inv.keys, a.inv.fresh, a.inv.gfresh, a.inv.tree, a.inv.parser⟩, a.srcs, a.gm, a.cfg, a.parser, a.trees, a.ids⟩, e⟩, tk⟩,
    ⟨⟨v.1.vtree, v.1.vparser, v.1.vsym⟩, v.2⟩⟩

theorem stepT_Side {S : Sem} (H : Hyp S) {w0 : World} (s : Sess) (key : Str) (h : Side S w0 s) : Side S w0 (stepT S s key) := by
  unfold stepT
  split
  · exact h
  · have h1 := loadMod_Side H (fuelOf s.w) s key h
    dsimp only
    generalize loadMod S (fuelOf s.w) s key = s1 at h1
    split
    · exact h1
    · split
      · exact h1.setOuts _ _
      · exact h1

theorem stepT_cyc_true {S : Sem} (H : Hyp S) (s : Sess) (key : Str) (h : s.cyc = true) : (stepT S s key).cyc = true := by
  unfold stepT
  split
  · exact h
  · have h1 := loadMod_cyc_true H (fuelOf s.w) s key h
    dsimp only
    generalize loadMod S (fuelOf s.w) s key = s1 at h1
    split
    · exact h1
    · split
      · exact h1
      · exact h1

theorem stepT_sim {S : Sem} (H : Hyp S) {w0 : World} {s t : Sess} (hs : Side S w0 s) (ht : Side S w0 t) (hr : Rel s t) (key : Str) :
    Rel (stepT S s key) (stepT S t key) := by
  by_cases hc : s.cyc = false
  · have hp := hr.2 hc
    unfold stepT
    by_cases he : s.err.isSome = true
    · have he' : t.err.isSome = true := by rw [← hp.err]; exact he
      simp only [he, he', ↓reduceIte]; exact hr
    · have he' : ¬ t.err.isSome = true := by rw [← hp.err]; exact he
      simp only [he, he', Bool.false_eq_true, ↓reduceIte]
      have hfuel : fuelOf t.w = fuelOf s.w := by unfold fuelOf; rw [hs.1.1.1.srcs, ht.1.1.1.srcs]
      rw [hfuel]
      have h1 := loadMod_sim H (fuelOf s.w) s t key hs ht hr
      have s1s := loadMod_Side H (fuelOf s.w) s key hs
      have s1t := loadMod_Side H (fuelOf s.w) t key ht
      generalize loadMod S (fuelOf s.w) s key = s1 at h1 s1s
      generalize loadMod S (fuelOf s.w) t key = t1 at h1 s1t
      by_cases hc1 : s1.cyc = false
      · have hp1 := h1.2 hc1
        by_cases he1 : s1.err.isSome = true
        · have he1' : t1.err.isSome = true := by rw [← hp1.err]; exact he1
          simp only [he1, he1', ↓reduceIte]; exact h1
        · have he1' : ¬ t1.err.isSome = true := by rw [← hp1.err]; exact he1
          simp only [he1, he1', Bool.false_eq_true, ↓reduceIte]
          have hh : srcHash S t1.w key = srcHash S s1.w key := by unfold srcHash; rw [hp1.srcs]
          rw [← hp1.trees, hh]
          cases List.lookup key s1.trees with
          | none => exact h1
          | some tree =>
            cases srcHash S s1.w key with
            | none => exact h1
            | some h =>
              dsimp only
              exact ⟨h1.1, fun _ => ⟨hp1.db, rfl, hp1.loaded, hp1.ids, hp1.err,
                by show s1.out ++ _ = t1.out ++ _; rw [hp1.out, hp1.db], hp1.parser, hp1.srcs,
                ⟨hp1.frame.1, hp1.frame.2.1, by show _ ++ _ = _ ++ _; rw [hp1.frame.2.2.1], hp1.frame.2.2.2⟩, hp1.depd⟩⟩
      · have hc1' : s1.cyc = true := by simpa using hc1
        have hc2' : t1.cyc = true := by rw [← h1.1]; exact hc1'
        apply Rel.of_cyc
        · split
          · exact hc1'
          · split <;> exact hc1'
        · split
          · exact hc2'
          · split <;> exact hc2'
  · have hc1 : s.cyc = true := by simpa using hc
    have hc2 : t.cyc = true := by rw [← hr.1]; exact hc1
    exact Rel.of_cyc (stepT_cyc_true H s key hc1) (stepT_cyc_true H t key hc2)

theorem runTargets_sim {S : Sem} (H : Hyp S) {w0 : World} (targets : List Str) :
    ∀ s t, Side S w0 s → Side S w0 t → Rel s t → Rel (targets.foldl (stepT S) s) (targets.foldl (stepT S) t) := by
  induction targets with
  | nil => intro s t _ _ hr; exact hr
  | cons k ks ih =>
    intro s t hs ht hr
    exact ih _ _ (stepT_Side H s k hs) (stepT_Side H t k ht) (stepT_sim H hs ht hr k)

/-! ### histories keep the cache directory undamaged (no interrupted write) -/

/-- the history contains no interrupted write -/
def NoDamage : Op → Prop
  | .trunc _ _ => False
  | _ => True

theorem VS.start {S : Sem} (w : World) (h : VInv S w) : VS S ({ w := w } : Sess) := ⟨h, fun _ _ _ hkt => by simp at hkt⟩

theorem run_Side {S : Sem} (H : Hyp S) (w : World) (force : Bool) (hw : WS S w) (hv : VInv S w) : Side S w (run S w force) := by
  unfold run
  rw [runTargets_eq]
  exact foldl_inv (Side S w) _ (fun a b ha => stepT_Side H a b ha) _ _
    ⟨⟨⟨TS.start w hw.1, fun _ => ⟨hw.2, fun _ _ hki => by simp at hki, fun _ _ hkt => by simp at hkt⟩⟩,
      fun _ _ hl => by simp [List.lookup] at hl⟩, VS.start w hv⟩

theorem step_VInv {S : Sem} (H : Hyp S) (w : World) (op : Op) (hnd : NoDamage op) (hw : WS S w) (h : VInv S w) : VInv S (step S w op) := by
  cases op with
  | edit k src => exact ⟨h.vtree, h.vparser, h.vsym⟩
  | run force => exact (run_Side H w force hw h).2.1
  | clear => exact ⟨fun k tp ts ta g t ch f _ hget => by simp [step, World.clearCache, Dir.get?] at hget,
      fun gp st al g f hget => by simp [step, World.clearCache, Dir.get?] at hget,
      fun k ident f _ hget => by simp [step, World.clearCache, Dir.get?] at hget⟩
  | delete p => exact h.erase p
  | trunc p k => exact absurd hnd (by simp [NoDamage])
  | enable b => exact ⟨h.vtree, h.vparser, h.vsym⟩
  | grammar path => exact ⟨h.vtree, h.vparser, h.vsym⟩
  | setting gp st al => exact ⟨h.vtree, h.vparser, h.vsym⟩

theorem exec_WV {S : Sem} (H : Hyp S) (w : World) (hist : List Op) (hok : ∀ op ∈ hist, OpOK op) (hng : ∀ op ∈ hist, NoGrammar op)
    (hnd : ∀ op ∈ hist, NoDamage op) (hac : Acyclic S w hist) (h : WS S w) (hv : VInv S w) :
    WS S (exec S w hist) ∧ VInv S (exec S w hist) := by
  induction hist generalizing w with
  | nil => exact ⟨h, hv⟩
  | cons op hist ih =>
    exact ih (step S w op) (fun o ho => hok o (by simp [ho])) (fun o ho => hng o (by simp [ho])) (fun o ho => hnd o (by simp [ho])) hac.2
      (step_WS H w op (hok op (by simp)) (hng op (by simp)) hac.1 h) (step_VInv H w op (hnd op (by simp)) h hv)

theorem VInv.init {S : Sem} (w : World) (hc : w.cache = []) : VInv S w :=
  ⟨fun k tp ts ta g t ch f _ hf => by simp [hc, Dir.get?] at hf, fun gp st al g f hf => by simp [hc, Dir.get?] at hf,
    fun k ident f _ hf => by simp [hc, Dir.get?] at hf⟩

/-- **Lockstep of the warm and the cold run.** For a coherent, undamaged world the run over the cache directory as it is and
    the run over the emptied directory agree on the cycle flag and — if no import cycle is met — on every tree, identity,
    symbol table, rendered text and on the failure status. -/
theorem run_warm_cold {S : Sem} (H : Hyp S) (w : World) (force : Bool) (hw : WS S w) (hv : VInv S w) :
    Rel (run S w force) (run S w.clearCache force) := by
  have hwc : WS S w.clearCache := ⟨⟨hw.1.keys, hw.1.fresh, hw.1.gfresh, fun k tp ts ta g t ch f _ hf => by simp [World.clearCache, Dir.get?] at hf,
    fun gp st al g f hf => by simp [World.clearCache, Dir.get?] at hf⟩, fun k ident f _ hf => by simp [World.clearCache, Dir.get?] at hf⟩
  have hvc : VInv S w.clearCache := VInv.init _ rfl
  have hside1 : Side S w ({ w := w } : Sess) :=
    ⟨⟨⟨TS.start w hw.1, fun _ => ⟨hw.2, fun _ _ hki => by simp at hki, fun _ _ hkt => by simp at hkt⟩⟩,
      fun _ _ hl => by simp [List.lookup] at hl⟩, VS.start w hv⟩
  have hts2 : TS S w ({ w := w.clearCache } : Sess) :=
    { inv := hwc.1
      srcs := rfl
      gm := rfl
      cfg := And.intro rfl (And.intro rfl rfl)
      parser := fun _ e => by simp at e
      trees := fun _ _ hkt => by simp at hkt
      ids := fun _ _ hki => by simp at hki }
  have hside2 : Side S w ({ w := w.clearCache } : Sess) :=
    ⟨⟨⟨hts2,
      fun _ => ⟨hwc.2, fun _ _ hki => by simp at hki, fun _ _ hkt => by simp at hkt⟩⟩,
      fun _ _ hl => by simp [List.lookup] at hl⟩, VS.start _ hvc⟩
  unfold run
  have ht : (if force = true then w.clearCache.order else w.clearCache.order.filter (canTranspile S w.clearCache)) =
      (if force = true then w.order else w.order.filter (canTranspile S w)) := rfl
  rw [ht]
  rw [runTargets_eq, runTargets_eq]
  exact runTargets_sim H _ _ _ hside1 hside2
    ⟨rfl, fun _ => ⟨rfl, rfl, rfl, rfl, rfl, rfl, rfl, rfl, ⟨rfl, rfl, rfl, rfl⟩, rfl⟩⟩

end Tranp.CacheFS
