/-
  Helper lemmas and the demo symbol table for the name-typing part of property C03 (Tranp/Model/InferScope.lean).
-/
import Tranp.Lemmas.Infer
import Tranp.Model.InferScope

namespace Tranp.Infer
open Tranp Tranp.Generated

theorem lookup_envAt (st : SymTab) (node : Scope.NodeInfo Str Str) (x : Str) (t : Ty) (h : varTypeAt st node x = .ok t) :
    ∀ (names : List Str), x ∈ names → lookup x (envAt st node names) = some t
  | [], hx => by simp at hx
  | y :: rest, hx => by
    by_cases hxy : x = y
    · subst hxy
      simp only [envAt, h, lookup, if_true]
    · have hx' : x ∈ rest := by
        simp only [List.mem_cons] at hx
        rcases hx with hx | hx
        · exact absurd hx hxy
        · exact hx
      simp only [envAt]
      split
      · simp only [lookup, hxy, if_false]
        exact lookup_envAt st node x t h rest hx'
      · exact lookup_envAt st node x t h rest hx'

/-- the lead's program: module-level `threshold: int`, `class Outer: threshold: ClassVar[str]`, nested `class Inner` -/
def m0 : Str := ['m']
def n_threshold : Str := ['t', 'h', 'r', 'e', 's', 'h', 'o', 'l', 'd']
def n_Outer : Str := ['O', 'u', 't', 'e', 'r']
def n_Inner : Str := ['I', 'n', 'n', 'e', 'r']
def p_outer : Str := ['f', 'i', 'l', 'e', '_', 'i', 'n', 'p', 'u', 't', '.', 'c', 'l', 'a', 's', 's', '_', 'd', 'e', 'f']
def p_inner : Str := ['f', 'i', 'l', 'e', '_', 'i', 'n', 'p', 'u', 't', '.', 'c', 'l', 'a', 's', 's', '_', 'd', 'e', 'f', '.', 'c', 'l', 'a', 's', 's', '_', 'd', 'e', 'f', '_', 'r', 'a', 'w', '.', 'b', 'l', 'o', 'c', 'k', '.', 'c', 'l', 'a', 's', 's', '_', 'd', 'e', 'f']

def plainSym (path : Str) : Scope.Sym Str Str := ⟨false, false, path, m0, none, []⟩
def classSym (path : Str) : Scope.Sym Str Str := ⟨true, true, path, m0, none, []⟩

def demoTab : SymTab where
  db := [(⟨m0, [n_threshold]⟩, plainSym ['f', 'i', 'l', 'e', '_', 'i', 'n', 'p', 'u', 't', '.', 'a', 'n', 'n', 'o', '_', 'a', 's', 's', 'i', 'g', 'n']),
         (⟨m0, [n_Outer]⟩, classSym p_outer),
         (⟨m0, [n_Outer, n_threshold]⟩, plainSym ['f', 'i', 'l', 'e', '_', 'i', 'n', 'p', 'u', 't', '.', 'c', 'l', 'a', 's', 's', '_', 'd', 'e', 'f', '.', 'c', 'l', 'a', 's', 's', '_', 'd', 'e', 'f', '_', 'r', 'a', 'w', '.', 'b', 'l', 'o', 'c', 'k', '.', 'a', 'n', 'n', 'o', '_', 'a', 's', 's', 'i', 'g', 'n']),
         (⟨m0, [n_Outer, n_Inner]⟩, classSym p_inner)]
  libs := []
  decl := fun k => if k = ⟨m0, [n_threshold]⟩ then some .int else if k = ⟨m0, [n_Outer, n_threshold]⟩ then some .str else none

def nodeIn (scope : List Str) (path : Str) : Scope.NodeInfo Str Str := ⟨⟨m0, scope⟩, true, false, path⟩

/-- in the body of the nested class -/
def nodeInner : Scope.NodeInfo Str Str :=
  nodeIn [n_Outer, n_Inner] ['f', 'i', 'l', 'e', '_', 'i', 'n', 'p', 'u', 't', '.', 'c', 'l', 'a', 's', 's', '_', 'd', 'e', 'f', '.', 'c', 'l', 'a', 's', 's', '_', 'd', 'e', 'f', '_', 'r', 'a', 'w', '.', 'b', 'l', 'o', 'c', 'k', '.', 'c', 'l', 'a', 's', 's', '_', 'd', 'e', 'f', '.', 'c', 'l', 'a', 's', 's', '_', 'd', 'e', 'f', '_', 'r', 'a', 'w', '.', 'b', 'l', 'o', 'c', 'k', '.', 'a', 'n', 'n', 'o', '_', 'a', 's', 's', 'i', 'g', 'n', '.', 'v', 'a', 'r']
/-- directly in the body of the outer class -/
def nodeOuterBody : Scope.NodeInfo Str Str :=
  nodeIn [n_Outer] ['f', 'i', 'l', 'e', '_', 'i', 'n', 'p', 'u', 't', '.', 'c', 'l', 'a', 's', 's', '_', 'd', 'e', 'f', '.', 'c', 'l', 'a', 's', 's', '_', 'd', 'e', 'f', '_', 'r', 'a', 'w', '.', 'b', 'l', 'o', 'c', 'k', '.', 'a', 'n', 'n', 'o', '_', 'a', 's', 's', 'i', 'g', 'n', '[', '1', ']', '.', 'v', 'a', 'r']
/-- in a method of the outer class (scope `Outer.m`) -/
def nodeOuterMethod : Scope.NodeInfo Str Str :=
  nodeIn [n_Outer, ['m']] ['f', 'i', 'l', 'e', '_', 'i', 'n', 'p', 'u', 't', '.', 'c', 'l', 'a', 's', 's', '_', 'd', 'e', 'f', '.', 'c', 'l', 'a', 's', 's', '_', 'd', 'e', 'f', '_', 'r', 'a', 'w', '.', 'b', 'l', 'o', 'c', 'k', '.', 'f', 'u', 'n', 'c', 't', 'i', 'o', 'n', '_', 'd', 'e', 'f', '.', 'f', 'u', 'n', 'c', 't', 'i', 'o', 'n', '_', 'd', 'e', 'f', '_', 'r', 'a', 'w', '.', 'b', 'l', 'o', 'c', 'k', '.', 'a', 's', 's', 'i', 'g', 'n', '.', 'v', 'a', 'r']

end Tranp.Infer
