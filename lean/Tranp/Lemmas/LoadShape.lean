/-
  Property C04: `Modules.load` as read from the source (Generated/LoadShape.lean, translate/gen_load_shape.py) run as a program
  over the model state; Props/C04 proves that it IS the hand-written `loadOne` of Model/Session.lean.
-/
import Tranp.Model.Session
import Tranp.Generated.LoadShape

namespace Tranp.Session
open Tranp.Generated.LoadShape

section
variable {Src Tree NV V Text : Type} (L : Lang Src Tree NV V Text) (E : Env Src)

mutual
/-- one statement of `Modules.load(p)`; `rec` = `[self.load(x) for x in xs]` (the libraries, the imports), `rollback` = `self.unload` -/
def runL (rec : List ModPath → St L → Except Err Unit × St L) (rollback : St L → ModPath → St L) (p : ModPath) :
    LStmt → St L → Except Err Unit × St L
  -- `self.__load_libraries(p)`: `if p not in [library paths]: self.libralies()` (modules.py:95-104)
  | .libraries, s => if p ∈ E.libs then (.ok (), s) else rec E.libs s
  -- `self.__modules[p] = self.__loader.load(ModulePath(p, language))`: nothing is registered when the loader raises
  | .register, s =>
    match epLoad L E s p with
    | (.error e, s1) => (.error e, s1)
    | (.ok _, s1) => (.ok (), { s1 with mods := addIfAbsent s1.mods p })
  -- `self.__load_dependencies(self.__modules[p])`: `[self.load(i) for i in entrypoint.imports]` (modules.py:106-113)
  | .dependencies, s =>
    match alookup s.eps p with
    | none => (.error .other, s)
    | some ep => rec (L.imports ep.tree) s
  -- `self.__loader.preprocess(self.__modules[p])`
  | .preprocess, s => preprocess L E s p
  -- `if p not in self.__modules: body`
  | .ifUnregistered body, s => if p ∈ s.mods then (.ok (), s) else runLs rec rollback p body s
  -- `try: body / except Exception: self.unload(p); raise`
  | .tryRollback body, s =>
    match runLs rec rollback p body s with
    | (.error e, s') => (.error e, rollback s' p)
    | (.ok u, s') => (.ok u, s')
/-- statements one after the other; the first exception ends the list -/
def runLs (rec : List ModPath → St L → Except Err Unit × St L) (rollback : St L → ModPath → St L) (p : ModPath) :
    List LStmt → St L → Except Err Unit × St L
  | [], s => (.ok (), s)
  | st :: rest, s =>
    match runL rec rollback p st s with
    | (.error e, s') => (.error e, s')
    | (.ok _, s') => runLs rec rollback p rest s'
end

theorem load_generated_eq (rec : List ModPath → St L → Except Err Unit × St L) (rollback : St L → ModPath → St L) (p : ModPath) (s : St L) :
    runLs L E rec rollback p modulesLoad s = loadOne L E rec rollback p s := by
  simp only [modulesLoad, runLs, runL, loadOne]
  by_cases h1 : p ∈ s.mods
  · simp [h1]
  · simp only [h1, if_false]
    generalize (if p ∈ E.libs then ((Except.ok (), s) : Except Err Unit × St L) else rec E.libs s) = r0
    obtain ⟨r, s0⟩ := r0
    cases r with
    | error e => rfl
    | ok u =>
      simp only []
      by_cases h2 : p ∈ s0.mods
      · simp [h2]
      · simp only [h2, if_false]
        generalize epLoad L E s0 p = r1
        obtain ⟨r, s1⟩ := r1
        cases r with
        | error e => rfl
        | ok u =>
          simp only []
          generalize alookup ({ s1 with mods := addIfAbsent s1.mods p } : St L).eps p = oe
          cases oe with
          | none => rfl
          | some ep =>
            simp only []
            generalize rec (L.imports ep.tree) { s1 with mods := addIfAbsent s1.mods p } = r3
            obtain ⟨r, s3⟩ := r3
            cases r with
            | error e => rfl
            | ok u =>
              simp only []
              generalize preprocess L E s3 p = r4
              obtain ⟨r, s4⟩ := r4
              cases r <;> rfl

end
end Tranp.Session
